(* Out/External.v — C16: links into an externalised project.

   MODEL of, as they are:
     ford/external_project.py  obj2dict, is_documented, dump_modules -> [export_ent], [export]
                               dict2obj                          -> [import_node], [import_fuel], [import_val]
                               load_external_modules             -> [load], [load_json], [load_all], [CAUGHT]
                               ATTRIBUTES, ENTITIES              -> [ATTRIBUTES], [entity_class]
     ford/sourceform.py        FortranBase.get_dir / get_url / anchor for the entities a module contains
                               (idents come from the NameSelector model Out/Names.v)  -> [own_url]
                               FortranCodeUnit.prune / FortranType.prune (project-wide `display`,
                               `proc_internals`)                 -> [listed]
                               FortranModule._cleanup filter_public (pub_procs, ...) -> [pub_class]
                               External* classes: `_project_list`, constructor defaults -> [project_list], [defaults]
                               FortranBase.children / find_child, _find_in_list -> [find_child], [find_first]
                               FortranModule.get_used_entities on an ExternalModule -> [used_lookup]
     ford/fortran_project.py   find_used_modules (chain(modules, external_modules)) -> [find_used_module]
                               Project.find (own collections first, then the external ones) -> [project_find], [FIND_ORDER]
   Executable definitions only; the Spec is Out/ExternalSpec.v, proofs are in Out/ExternalProofs.v.

   Bounds of the model (stated, not hidden): 7-bit names; JSON numbers are naturals; JSON objects have
   distinct keys; project A consists of modules containing functions, subroutines, generic interfaces
   (with `module procedure` lists only), abstract interfaces, derived types (components, bound
   procedures) and variables, plus local variables / internal procedures / local types of procedures;
   re-exports between A's modules through `use m, only: [local =>] name` in a module that makes the
   name accessible (alias nodes; whole-module re-exports without ONLY are not generated); project-wide
   `display` only (no per-entity
   metadata), `hide_undoc` off.  The pass-through attributes vartype / deferred / generic / attribs are
   not carried on the export side (the harness strips them before comparing). *)
From Ford Require Import Base.Str Base.Path Out.Names.

(* ------------------------------------------------------------------ JSON *)

Inductive json :=
| JNull | JBool (b : bool) | JNum (n : nat) | JStr (x : str)
| JList (l : list json) | JDict (l : list (str * json)).

(* Python truthiness of a decoded JSON value *)
Definition truthy (j : json) : bool :=
  match j with
  | JNull => false | JBool b => b | JNum n => negb (Nat.eqb n 0)
  | JStr x => negb (str_eqb x []) | JList l => negb (Nat.eqb (length l) 0)
  | JDict l => negb (Nat.eqb (length l) 0)
  end.

Inductive exn :=
| KeyError | TypeError | AttributeError | ValueError | FileNotFoundError | UnicodeDecodeError
| JSONDecodeError | URLError | OutOfFuel.

Inductive res (A : Type) := Ok (a : A) | Err (e : exn).
Arguments Ok {A} a.
Arguments Err {A} e.

Definition bind {A B} (x : res A) (f : A -> res B) : res B :=
  match x with Ok a => f a | Err e => Err e end.

(* ------------------------------------------------------------------ project A *)

Inductive perm := Public | Private | Protected.
Definition perm_eqb (a b : perm) : bool :=
  match a, b with Public, Public | Private, Private | Protected, Protected => true | _, _ => false end.
Definition perm_str (p : perm) : str :=
  match p with Public => s "public" | Private => s "private" | Protected => s "protected" end.

(* KAlias: a name under which a module makes a use-associated entity of another module accessible
   (`use v2_mod, only: new_grid => make_grid` in a module whose default accessibility is public):
   Ent <id of the defining module> KAlias <local name> <accessibility of the name> [<the entity>] *)
Inductive kind := KModule | KFunction | KSubroutine | KGeneric | KAbsInt | KType | KVar | KBound | KAlias.
Definition kind_eqb (a b : kind) : bool :=
  match a, b with
  | KModule, KModule | KFunction, KFunction | KSubroutine, KSubroutine | KGeneric, KGeneric
  | KAbsInt, KAbsInt | KType, KType | KVar, KVar | KBound, KBound | KAlias, KAlias => true
  | _, _ => false
  end.

(* an entity of A: Python object identity, class, name, permission, contained entities.
   For a module the permission is its default accessibility (exported as "permission"). *)
Inductive ent := Ent (id : nat) (k : kind) (name : str) (p : perm) (kids : list ent).
Definition e_id (e : ent) := match e with Ent i _ _ _ _ => i end.
Definition e_kind (e : ent) := match e with Ent _ k _ _ _ => k end.
Definition e_name (e : ent) := match e with Ent _ _ n _ _ => n end.
Definition e_perm (e : ent) := match e with Ent _ _ _ p _ => p end.
Definition e_kids (e : ent) := match e with Ent _ _ _ _ l => l end.

(* self.obj *)
Definition obj_str (k : kind) : str :=
  match k with
  | KModule => s "module" | KFunction | KSubroutine => s "proc" | KGeneric | KAbsInt => s "interface"
  | KType => s "type" | KVar => s "variable" | KBound => s "boundprocedure"
  | KAlias => s "variable"            (* only for an alias node without a target, which never occurs *)
  end.
(* self.proctype where the class has one *)
Definition proctype_str (k : kind) : option str :=
  match k with
  | KFunction => Some (s "Function") | KSubroutine => Some (s "Subroutine")
  | KGeneric | KAbsInt => Some (s "Interface") | _ => None
  end.
Definition is_proc (k : kind) : bool := match k with KFunction | KSubroutine => true | _ => false end.

(* get_dir(): a module; a type / interface / procedure directly inside a module *)
Definition dir_of (pk : option kind) (k : kind) : option str :=
  match k, pk with
  | KModule, _ => Some (s "module")
  | (KType | KGeneric | KAbsInt | KFunction | KSubroutine), Some KModule => Some (obj_str k)
  | _, _ => None
  end.
(* the classes of get_url()'s second branch: bound procedure, variable, procedure *)
Definition anchored (k : kind) : bool :=
  match k with KBound | KVar | KFunction | KSubroutine => true | _ => false end.

Fixpoint strip_frag (u : str) : str :=
  match u with
  | [] => []
  | c :: r => if ch_eqb c "#" then [] else c :: strip_frag r
  end.

(* get_url() of an entity with ident [idn], given its parent's class and URL *)
Definition own_url (pk : option kind) (purl : option str) (k : kind) (idn : str) : option str :=
  match dir_of pk k with
  | Some d => Some (d ++ s "/" ++ idn ++ s ".html")
  | None =>
    if anchored k then
      match pk, purl with
      | Some _, Some pu => Some (strip_frag pu ++ s "#" ++ obj_str k ++ s "-" ++ quote idn)
      | _, _ => None
      end
    else None
  end.

(* f"./{get_url()}" *)
Definition url_text (u : option str) : str :=
  s "./" ++ match u with Some x => x | None => s "None" end.

Definition has_perm (p : perm) (l : list perm) : bool := existsb (perm_eqb p) l.
(* _should_display *)
Definition shown (disp : list perm) (e : ent) : bool := has_perm (e_perm e) disp.
(* should_be_public of FortranModule._cleanup *)
Definition accessible (e : ent) : bool :=
  match e_perm e with Private => false | _ => true end.

(* project-wide options of A that matter here *)
Record acfg := { c_display : list perm; c_internals : bool }.

(* is kid [c] still in its list of the parent (class [k]) when obj2dict runs?  [kept]: prune() was
   called on the parent (it is a module, or it survived its own parent's filter_display) *)
Definition listed (cfg : acfg) (kept : bool) (k : kind) (c : ent) : bool :=
  if kept then
    if is_proc k && negb (c_internals cfg) then false else shown (c_display cfg) c
  else true.

(* which list attribute of the parent a kid sits in *)
Definition slot_of (k : kind) : str :=
  match k with
  | KFunction => s "functions" | KSubroutine => s "subroutines" | KGeneric => s "interfaces"
  | KAbsInt => s "absinterfaces" | KType => s "types" | KVar => s "variables"
  | KBound => s "boundprocs" | KModule => s "modules" | KAlias => s "aliases"
  end.
(* which pub_* dict of a module an accessible kid sits in *)
Definition pub_class (k : kind) : option str :=
  match k with
  | KFunction | KSubroutine | KGeneric => Some (s "pub_procs")
  | KAbsInt => Some (s "pub_absints") | KType => Some (s "pub_types") | KVar => Some (s "pub_vars")
  | _ => None
  end.

(* the list attributes an object of class [k] has, in ATTRIBUTES order *)
Definition list_slots (k : kind) : list str :=
  match k with
  | KModule | KFunction | KSubroutine =>
    [s "functions"; s "subroutines"; s "interfaces"; s "absinterfaces"; s "types"; s "variables"]
  | KGeneric => [s "functions"; s "subroutines"; s "variables"]
  | KAbsInt => [s "variables"]
  | KType => [s "variables"; s "boundprocs"]
  | KVar | KBound | KAlias => []
  end.
Definition dict_slots (k : kind) : list str :=
  match k with
  | KModule => [s "pub_procs"; s "pub_absints"; s "pub_types"; s "pub_vars"]
  | _ => []
  end.

Definition PUB_KINDS : list kind := [KFunction; KSubroutine; KGeneric; KAbsInt; KType; KVar].

(* the entity an alias node stands for *)
Definition alias_target (c : ent) : option ent :=
  match c with Ent _ KAlias _ _ (t :: _) => Some t | _ => None end.
(* an alias that belongs into table [slot] of the module: the name is accessible, the entity is of the
   table's class and its defining module documents it (is_documented) *)
Definition alias_sel (cfg : acfg) (slot : str) (c : ent) : bool :=
  match alias_target c with
  | Some t => opt_eqb str_eqb (pub_class (e_kind t)) (Some slot) && accessible c && shown (c_display cfg) t
  | None => false
  end.

(* the dictionary obj2dict builds for an object of class [k]: name, external_url, obj, proctype,
   then the attributes of ATTRIBUTES the class has ([dv]: entries of a dict attribute, [lv]: items of
   a list attribute) *)
Definition node_entries (k : kind) (name : str) (url : option str) (p : perm)
           (dv : str -> list (str * json)) (lv : str -> list json) : list (str * json) :=
  [(s "name", JStr name); (s "external_url", JStr (url_text url)); (s "obj", JStr (obj_str k))]
  ++ match proctype_str k with Some t => [(s "proctype", JStr t)] | None => [] end
  ++ map (fun sl => (sl, JDict (dv sl))) (dict_slots k)
  ++ map (fun sl => (sl, JList (lv sl))) (list_slots k)
  ++ [(s "permission", JStr (perm_str p))].

(* obj2dict of one entity.  [idf]: ident of the entity with a given id. *)
Fixpoint export_ent (idf : nat -> str) (cfg : acfg) (pk : option kind) (purl : option str)
         (kept : bool) (e : ent) {struct e} : json :=
  match e with
  | Ent id k name p kids =>
    let url := own_url pk purl k (idf id) in
    let lst (slot : str) : list json :=
      (fix go (l : list ent) : list json :=
         match l with
         | [] => []
         | c :: r =>
           if str_eqb (slot_of (e_kind c)) slot && listed cfg kept k c
           then export_ent idf cfg (Some k) url kept c :: go r
           else go r
         end) kids in
    let dct_of (k' : kind) : list (str * json) :=
      (fix go (l : list ent) : list (str * json) :=
         match l with
         | [] => []
         | c :: r =>
           (* is_documented: an entity that is no longer in its container's list is left out *)
           if kind_eqb (e_kind c) k' && accessible c && listed cfg kept k c
           then (lower (e_name c), export_ent idf cfg (Some k) url kept c) :: go r
           else go r
         end) kids in
    (* all_procs: routines (functions, subroutines) first, then the interfaces; the other dicts
       hold one class each, in source order *)
    (* the names under which use-associated entities of other modules are accessible come after the
       module's own (pub_*.update(...) in correlate), in the order of [kids] *)
    let alias_of (slot : str) : list (str * json) :=
      (fix go (l : list ent) : list (str * json) :=
         match l with
         | [] => []
         | c :: r =>
           if alias_sel cfg slot c
           then (lower (e_name c), export_ent idf cfg (Some k) url kept c) :: go r
           else go r
         end) kids in
    let dct (slot : str) : list (str * json) :=
      flat_map (fun k' => if opt_eqb str_eqb (pub_class k') (Some slot) then dct_of k' else []) PUB_KINDS
      ++ alias_of slot in
    let generic := JDict (node_entries k name url p dct lst) in
    match k, kids with
    | KAlias, t :: _ =>
      (* the entity itself, as its defining module (whose id the alias node carries) exports it *)
      export_ent idf cfg (Some KModule) (own_url None None KModule (idf id)) true t
    | _, _ => generic
    end
  end.

(* project A: its modules, options, and the NameSelector requests made before the dump
   (in the order of a real run; they fix which of several equal names gets the "~N") *)
Record aproject := { a_modules : list ent; a_cfg : acfg; a_pre : list req }.

(* the requests obj2dict itself makes, pre-order (every entity, whether listed or not) *)
Fixpoint tree_reqs (pk : option kind) (e : ent) {struct e} : list req :=
  match e with
  | Ent id k name p kids =>
    let generic :=
      {| r_id := id; r_dir := match dir_of pk k with Some d => d | None => s "None" end; r_name := name |}
      :: (fix go (l : list ent) : list req :=
            match l with [] => [] | c :: r => tree_reqs (Some k) c ++ go r end) kids in
    match k, kids with
    | KAlias, t :: _ => tree_reqs (Some KModule) t      (* an alias is not an object of its own *)
    | _, _ => generic
    end
  end.
Definition all_reqs (A : aproject) : list req :=
  a_pre A ++ flat_map (tree_reqs None) (a_modules A).

Fixpoint lookup_ident (id : nat) (tbl : list (nat * str)) : str :=
  match tbl with
  | [] => []
  | (i, n) :: r => if Nat.eqb i id then n else lookup_ident id r
  end.
(* (entity id, ident) for every request, in request order *)
Definition ident_table (A : aproject) : list (nat * str) :=
  let rs := all_reqs A in combine (map r_id rs) (run_idents rs).
(* ident of entity [id] of A (the table is computed once) *)
Definition ident_of (A : aproject) : nat -> str :=
  let tbl := ident_table A in fun id => lookup_ident id tbl.

Definition METADATA_NAME : str := s "ford-metadata".

(* dump_modules: the content of modules.json ([version] is opaque) *)
Definition export (A : aproject) (version : str) : json :=
  JDict [(METADATA_NAME, JDict [(s "version", JStr version)]);
         (s "modules", JList (map (export_ent (ident_of A) (a_cfg A) None None true) (a_modules A)))].

(* the pages A's documentation writes for the entities of its modules: one per module and per
   listed page-owning entity (project.modules / procedures / types / absinterfaces are gathered
   from the pruned lists) *)
Fixpoint pages_of (idf : nat -> str) (cfg : acfg) (pk : option kind) (kept : bool) (e : ent) {struct e}
  : list str :=
  match e with
  | Ent id k name p kids =>
    match dir_of pk k with
    | Some d => [d ++ s "/" ++ idf id ++ s ".html"]
    | None => []
    end
    ++ (fix go (l : list ent) : list str :=
          match l with
          | [] => []
          | c :: r => if listed cfg kept k c then pages_of idf cfg (Some k) kept c ++ go r else go r
          end) kids
  end.
Definition pages_written (A : aproject) : list str :=
  flat_map (pages_of (ident_of A) (a_cfg A) None true) (a_modules A).

(* ------------------------------------------------------------------ URL re-basing *)

Definition slash_s : str := s "/".

(* x.split("/", 1)[-1] *)
Fixpoint after_first_slash_opt (x : str) : option str :=
  match x with
  | [] => None
  | c :: r => if ch_eqb c "/" then Some r else after_first_slash_opt r
  end.
Definition after_first_slash (x : str) : str :=
  match after_first_slash_opt x with Some r => r | None => x end.

(* str(pathlib.Path(base) / rel) for a normalised absolute [base] other than "/" (what
   Path.resolve() returns); the POSIX "//x" special case is not modelled *)
Definition path_comps (rel : str) : list str :=
  filter (fun c => negb (str_eqb c [] || str_eqb c dot)) (split_path rel).
Definition path_join (base rel : str) : str :=
  if starts_with slash_s rel then slash_s ++ render_rel (path_comps rel)
  else match path_comps rel with
       | [] => base
       | cs => base ++ slash_s ++ render_rel cs
       end.

(* urllib.parse.urljoin(base, rel) for base = scheme://netloc[/path] without query / fragment and a
   reference [rel] that is non-empty, has no scheme, does not start with "//" and has no "." / ".."
   segments: a reference starting with "/" replaces the whole path, any other one replaces the last
   path segment *)
Fixpoint drop_last_segment_rev (r : str) : str :=     (* on the reversed string *)
  match r with
  | [] => []
  | c :: r' => if ch_eqb c "/" then r else drop_last_segment_rev r'
  end.
Definition dir_part (u : str) : str := rev (drop_last_segment_rev (rev u)).
(* scheme://netloc *)
Fixpoint take_until_slash (x : str) : str :=
  match x with [] => [] | c :: r => if ch_eqb c "/" then [] else c :: take_until_slash r end.
Fixpoint origin_of (u : str) : str :=
  match u with
  | a :: ((b :: c :: rest) as t) =>
    if ch_eqb a ":" && ch_eqb b "/" && ch_eqb c "/" then a :: b :: c :: take_until_slash rest
    else a :: origin_of t
  | _ => u
  end.
Definition has_path (u : str) : bool := negb (str_eqb (origin_of u) u).
Definition url_join (b rel : str) : str :=
  if starts_with slash_s rel then origin_of b ++ rel
  else if has_path b then dir_part b ++ rel
  else b ++ slash_s ++ rel.

(* where B was told A's documentation is: a directory (already made absolute by resolve()) or a
   remote URL (already given its trailing "/") *)
Inductive base := BLocal (dir : str) | BRemote (url : str).
Definition rebase (b : base) (rel : str) : str :=
  match b with BLocal d => path_join d rel | BRemote u => url_join u rel end.

(* ------------------------------------------------------------------ dict2obj *)

Definition ATTRIBUTES : list str :=
  [s "pub_procs"; s "pub_absints"; s "pub_types"; s "pub_vars"; s "functions"; s "subroutines";
   s "interfaces"; s "absinterfaces"; s "types"; s "variables"; s "boundprocs"; s "vartype";
   s "permission"; s "deferred"; s "generic"; s "attribs"].

Inductive xcls := XModule | XInterface | XType | XVariable | XFunction | XSubroutine | XBound.
Definition xcls_eqb (a b : xcls) : bool :=
  match a, b with
  | XModule, XModule | XInterface, XInterface | XType, XType | XVariable, XVariable
  | XFunction, XFunction | XSubroutine, XSubroutine | XBound, XBound => true
  | _, _ => false
  end.
(* ENTITIES *)
Definition ENTITIES : list (str * xcls) :=
  [(s "module", XModule); (s "interface", XInterface); (s "type", XType); (s "variable", XVariable);
   (s "function", XFunction); (s "subroutine", XSubroutine); (s "boundprocedure", XBound)].
Definition entity_class (t : str) : option xcls := assoc_get t ENTITIES.

(* the `_project_list` of each External* class *)
Inductive plist := PLModules | PLProcedures | PLInterfaces | PLTypes | PLVariables.
Definition plist_eqb (a b : plist) : bool :=
  match a, b with
  | PLModules, PLModules | PLProcedures, PLProcedures | PLInterfaces, PLInterfaces
  | PLTypes, PLTypes | PLVariables, PLVariables => true
  | _, _ => false
  end.
Definition project_list (c : xcls) : plist :=
  match c with
  | XModule => PLModules | XType => PLTypes | XVariable => PLVariables
  | XInterface | XFunction | XSubroutine | XBound => PLProcedures
  end.

(* an imported value: an External* object (class, name, external_url, instance attributes in the
   order "proctype", ATTRIBUTES), a string that was passed through, a list / dict of imported
   values, or any other JSON value stored as it is *)
Inductive xval :=
| XO (c : xcls) (name url : json) (attrs : list (str * xval))
| XS (x : str)
| XL (l : list xval)
| XD (l : list (str * xval))
| XV (j : json).

(* attributes the External* constructors set themselves (among "proctype" + ATTRIBUTES) *)
Definition defaults (c : xcls) : list (str * xval) :=
  match c with
  | XModule => [(s "pub_procs", XD []); (s "pub_absints", XD []); (s "pub_types", XD []); (s "pub_vars", XD [])]
  | XType => [(s "boundprocs", XL []); (s "variables", XL [])]
  | XBound => [(s "attribs", XL []); (s "deferred", XV (JBool false)); (s "generic", XV (JBool false))]
  | _ => []
  end.
Definition ATTR_ORDER : list str := s "proctype" :: ATTRIBUTES.
Definition canon_attrs (c : xcls) (set : list (str * xval)) : list (str * xval) :=
  flat_map (fun k => match assoc_get k set with
                     | Some v => [(k, v)]
                     | None => match assoc_get k (defaults c) with Some v => [(k, v)] | None => [] end
                     end) ATTR_ORDER.

(* [... for item in lst if item] *)
Fixpoint import_items (rec : json -> res xval) (l : list json) : res (list xval) :=
  match l with
  | [] => Ok []
  | x :: r =>
    if truthy x then
      bind (rec x) (fun v => bind (import_items rec r) (fun vs => Ok (v :: vs)))
    else import_items rec r
  end.
Fixpoint import_pairs (rec : json -> res xval) (l : list (str * json)) : res (list (str * xval)) :=
  match l with
  | [] => Ok []
  | (k, x) :: r =>
    if truthy x then
      bind (rec x) (fun v => bind (import_pairs rec r) (fun vs => Ok ((k, v) :: vs)))
    else import_pairs rec r
  end.
(* for key in ATTRIBUTES: if key in extDict: ... *)
Fixpoint import_attrs (rec : json -> res xval) (d : list (str * json)) (keys : list str)
  : res (list (str * xval)) :=
  match keys with
  | [] => Ok []
  | k :: ks =>
    match assoc_get k d with
    | None => import_attrs rec d ks
    | Some (JList l) =>
      bind (import_items rec l) (fun vs => bind (import_attrs rec d ks) (fun rest => Ok ((k, XL vs) :: rest)))
    | Some (JDict l) =>
      bind (import_pairs rec l) (fun vs => bind (import_attrs rec d ks) (fun rest => Ok ((k, XD vs) :: rest)))
    | Some j => bind (import_attrs rec d ks) (fun rest => Ok ((k, XV j) :: rest))
    end
  end.

(* dict2obj on a JSON object *)
Definition import_node (b : base) (rec : json -> res xval) (d : list (str * json)) : res xval :=
  match assoc_get (s "name") d with
  | None => Err KeyError
  | Some name =>
    match assoc_get (s "external_url") d with
    | None => Err KeyError
    | Some eu =>
      bind (if truthy eu
            then match eu with
                 | JStr u => Ok (JStr (rebase b (after_first_slash u)))
                 | _ => Err AttributeError           (* .split on a non-string *)
                 end
            else Ok eu)
      (fun url =>
        match assoc_get (s "obj") d with
        | None => Err KeyError
        | Some obj =>
          match (match assoc_get (s "proctype") d with Some p => p | None => obj end) with
          | JStr t =>
            match entity_class (lower t) with
            | None => Err KeyError
            | Some c =>
              bind (if xcls_eqb c XInterface
                    then match assoc_get (s "proctype") d with
                         | Some p => Ok [(s "proctype", XV p)]
                         | None => Err KeyError
                         end
                    else Ok [])
              (fun pt =>
                bind (import_attrs rec d ATTRIBUTES)
                     (fun attrs => Ok (XO c name url (canon_attrs c (pt ++ attrs)))))
            end
          | _ => Err AttributeError                 (* .lower() on a non-string *)
          end
        end)
    end
  end.

Fixpoint import_fuel (fuel : nat) (b : base) (j : json) : res xval :=
  match fuel with
  | 0 => Err OutOfFuel
  | S f =>
    match j with
    | JStr x => Ok (XS x)
    | JDict d => import_node b (import_fuel f b) d
    | _ => Err TypeError                            (* extDict["name"] on a list / number / None *)
    end
  end.

Fixpoint jsize (j : json) : nat :=
  match j with
  | JList l => S (fold_right (fun x n => jsize x + n) 0 l)
  | JDict l => S (fold_right (fun kv n => jsize (snd kv) + n) 0 l)
  | _ => 1
  end.
Definition import_val (b : base) (j : json) : res xval := import_fuel (S (jsize j)) b j.

(* ------------------------------------------------------------------ load_external_modules *)

(* Python `x in y` for y: str *)
Fixpoint has_substr (p x : str) : bool :=
  starts_with p x || match x with [] => false | _ :: r => has_substr p r end.

Definition json_is_str (x : str) (j : json) : bool :=
  match j with JStr y => str_eqb x y | _ => false end.

(* everything after `extModules = json.loads(...)` *)
Fixpoint import_all (b : base) (l : list json) : res (list xval) :=
  match l with
  | [] => Ok []
  | x :: r => bind (import_val b x) (fun v => bind (import_all b r) (fun vs => Ok (v :: vs)))
  end.
Definition load_json (b : base) (j : json) : res (list xval) :=
  bind (match j with
        | JDict d => if existsb (fun kv => str_eqb (fst kv) METADATA_NAME) d
                     then match assoc_get (s "modules") d with Some m => Ok m | None => Err KeyError end
                     else Ok j
        | JList l => if existsb (json_is_str METADATA_NAME) l then Err TypeError else Ok j
        | JStr x => if has_substr METADATA_NAME x then Err TypeError else Ok j
        | _ => Err TypeError                        (* `in` on None / number *)
        end)
  (fun mods =>
    match mods with
    | JList l => import_all b l
    | JDict _ | JStr _ => Ok []                     (* iterates over keys / characters: strings *)
    | _ => Err TypeError                            (* not iterable *)
    end).

(* what reading modules.json gave *)
Inductive local_fetch := LMissing | LUndecodable | LBadJson | LJson (j : json).
Inductive remote_fetch := RUrlError | RUndecodable | RBadJson | RJson (j : json).
(* the `external` setting and the state of the world: a local path (absolute, or relative and
   resolved against the project directory; [dir] is the resulting pathlib.Path), or a URL *)
Inductive source :=
| SLocal (dir : str) (f : local_fetch)
| SRemote (url : str) (f : remote_fetch).

Inductive outcome :=
| OLoaded (objs : list xval)      (* the run goes on with these external entities *)
| OContained                      (* "Could not open external URL": the run goes on, the project lists
                                     are as they were before this description was read *)
| ORaised (e : exn).              (* the exception leaves load_external_modules: the run dies *)

Definition with_slash (u : str) : str :=
  match rev u with
  | c :: _ => if ch_eqb c "/" then u else u ++ slash_s
  | [] => u ++ slash_s
  end.

(* the classes named in the except clause around the whole loading of one description *)
Definition CAUGHT : list str :=
  [s "URLError"; s "OSError"; s "ValueError"; s "KeyError"; s "TypeError"; s "AttributeError"].
(* the exception class and the built-in classes it derives from *)
Definition exn_classes (e : exn) : list str :=
  match e with
  | KeyError => [s "KeyError"] | TypeError => [s "TypeError"] | AttributeError => [s "AttributeError"]
  | ValueError => [s "ValueError"]
  | FileNotFoundError => [s "FileNotFoundError"; s "OSError"]
  | UnicodeDecodeError => [s "UnicodeDecodeError"; s "ValueError"]
  | JSONDecodeError => [s "json.JSONDecodeError"; s "ValueError"]
  | URLError => [s "URLError"; s "OSError"]
  | OutOfFuel => []                                 (* not a Python exception: the model ran out of fuel *)
  end.
Definition caught (e : exn) : bool := existsb (fun c => str_in c CAUGHT) (exn_classes e).

Definition of_exn (e : exn) : outcome := if caught e then OContained else ORaised e.
Definition of_res (r : res (list xval)) : outcome :=
  match r with Ok l => OLoaded l | Err e => of_exn e end.

Definition load (src : source) : outcome :=
  match src with
  | SLocal d LMissing => of_exn FileNotFoundError
  | SLocal d LUndecodable => of_exn UnicodeDecodeError
  | SLocal d LBadJson => of_exn JSONDecodeError
  | SLocal d (LJson j) => of_res (load_json (BLocal d) j)
  | SRemote u RUrlError => of_exn URLError
  | SRemote u RUndecodable => of_exn UnicodeDecodeError
  | SRemote u RBadJson => of_exn JSONDecodeError
  | SRemote u (RJson j) => of_res (load_json (BRemote (with_slash u)) j)
  end.

(* several external projects, in the order of the `external` setting: what the project lists hold
   afterwards (a description that fails contributes nothing, the others are untouched) *)
Definition load_all (srcs : list source) : list xval :=
  flat_map (fun src => match load src with OLoaded l => l | _ => [] end) srcs.

(* ------------------------------------------------------------------ the project lists of B *)

(* every External* object created, in creation order (parent, then its attributes in ATTRIBUTES
   order) *)
Fixpoint objs_of (v : xval) {struct v} : list xval :=
  match v with
  | XO c n u attrs =>
    v :: (fix go (l : list (str * xval)) : list xval :=
            match l with [] => [] | (_, a) :: r => objs_of a ++ go r end) attrs
  | XL l => (fix go (l : list xval) : list xval :=
               match l with [] => [] | a :: r => objs_of a ++ go r end) l
  | XD l => (fix go (l : list (str * xval)) : list xval :=
               match l with [] => [] | (_, a) :: r => objs_of a ++ go r end) l
  | XS _ | XV _ => []
  end.
Definition x_cls (v : xval) : option xcls := match v with XO c _ _ _ => Some c | _ => None end.
Definition x_name (v : xval) : json := match v with XO _ n _ _ => n | _ => JNull end.
Definition x_url (v : xval) : json := match v with XO _ _ u _ => u | _ => JNull end.
Definition x_attrs (v : xval) : list (str * xval) := match v with XO _ _ _ a => a | _ => [] end.

Definition ext_list (tops : list xval) (pl : plist) : list xval :=
  filter (fun o => match x_cls o with Some c => plist_eqb (project_list c) pl | None => false end)
         (flat_map objs_of tops).

(* ------------------------------------------------------------------ look-ups in B *)

(* an item of one of B's collections: one of B's own entities (collection, position, name) or an
   imported one *)
Inductive coll :=
| CModules | CSubmodules | CExtModules | CTypes | CExtTypes | CProcedures | CExtProcedures
| CAllFiles | CAbsInterfaces | CExtInterfaces | CPrograms | CBlockData | CNamelists.
Definition coll_eqb (a b : coll) : bool :=
  match a, b with
  | CModules, CModules | CSubmodules, CSubmodules | CExtModules, CExtModules | CTypes, CTypes
  | CExtTypes, CExtTypes | CProcedures, CProcedures | CExtProcedures, CExtProcedures
  | CAllFiles, CAllFiles | CAbsInterfaces, CAbsInterfaces | CExtInterfaces, CExtInterfaces
  | CPrograms, CPrograms | CBlockData, CBlockData | CNamelists, CNamelists => true
  | _, _ => false
  end.

Definition LINK_TYPES : list (str * coll) :=
  [(s "module", CModules); (s "submodule", CSubmodules); (s "extmodule", CExtModules);
   (s "type", CTypes); (s "exttype", CExtTypes); (s "procedure", CProcedures);
   (s "extprocedure", CExtProcedures); (s "subroutine", CProcedures); (s "extsubroutine", CExtProcedures);
   (s "function", CProcedures); (s "extfunction", CExtProcedures); (s "proc", CProcedures);
   (s "extproc", CExtProcedures); (s "file", CAllFiles); (s "interface", CAbsInterfaces);
   (s "extinterface", CExtInterfaces); (s "absinterface", CAbsInterfaces);
   (s "extabsinterface", CExtInterfaces); (s "program", CPrograms); (s "block", CBlockData);
   (s "namelist", CNamelists)].

Inductive hit :=
| HLocal (c : coll) (i : nat)          (* B's own entity number i of collection c *)
| HLocalChild (c : coll) (i : nat)     (* a child look-up inside B's own entity (not modelled further) *)
| HExt (x : xval).

(* B's own entities: the names in each of its collections *)
Definition blocal := list (coll * list str).
Fixpoint local_names (B : blocal) (c : coll) : list str :=
  match B with
  | [] => []
  | (c', l) :: r => if coll_eqb c c' then l else local_names r c
  end.

Inductive item := ILocal (c : coll) (i : nat) (name : str) | IExt (x : xval).

Fixpoint number_from (c : coll) (i : nat) (l : list str) : list item :=
  match l with [] => [] | n :: r => ILocal c i n :: number_from c (S i) r end.

Definition coll_items (B : blocal) (tops : list xval) (c : coll) : list item :=
  match c with
  | CExtModules => map IExt (ext_list tops PLModules)
  | CExtTypes => map IExt (ext_list tops PLTypes)
  | CExtProcedures => map IExt (ext_list tops PLProcedures)
  | CExtInterfaces => map IExt (ext_list tops PLInterfaces)
  | _ => number_from c 0 (local_names B c)
  end.

(* _find_in_list: items that are not FortranBase objects are skipped; item.name.lower() *)
Fixpoint find_first (n : str) (l : list item) : res (option hit) :=
  match l with
  | [] => Ok None
  | ILocal c i x :: r => if str_eqb (lower n) (lower x) then Ok (Some (HLocal c i)) else find_first n r
  | IExt (XO c (JStr x) u a) :: r =>
    if str_eqb (lower n) (lower x) then Ok (Some (HExt (XO c (JStr x) u a))) else find_first n r
  | IExt (XO _ _ _ _) :: _ => Err AttributeError
  | IExt _ :: r => find_first n r
  end.

(* find_used_modules: chain(modules, external_modules), first name match *)
Definition find_used_module (local_modules : list str) (tops : list xval) (n : str) : res (option hit) :=
  find_first n (number_from CModules 0 local_modules ++ map IExt (ext_list tops PLModules)).

(* iterating an attribute value of an External* object *)
Definition attr_items (v : xval) : res (list item) :=
  match v with
  | XL l => Ok (map IExt l)
  | XD _ => Ok []                                   (* keys: strings *)
  | XS _ => Ok []
  | XV (JStr _) => Ok []                            (* characters *)
  | XV _ => Err TypeError
  | XO _ _ _ _ => Err TypeError
  end.

(* FortranBase.children restricted to the attributes an External* object can have *)
Definition CHILD_ORDER : list str :=
  [s "absinterfaces"; s "boundprocs"; s "functions"; s "subroutines"; s "types"; s "variables";
   s "interfaces"].
Definition SUBLINK_TYPES : list (str * str) :=
  [(s "variable", s "variables"); (s "type", s "types"); (s "constructor", s "constructor");
   (s "interface", s "interfaces"); (s "absinterface", s "absinterfaces");
   (s "subroutine", s "subroutines"); (s "function", s "functions"); (s "final", s "finalprocs");
   (s "bound", s "boundprocs"); (s "modproc", s "modprocs"); (s "common", s "common")].

Fixpoint chain_attrs (attrs : list (str * xval)) (keys : list str) : res (list item) :=
  match keys with
  | [] => Ok []
  | k :: ks =>
    match assoc_get k attrs with
    | None => chain_attrs attrs ks
    | Some v => bind (attr_items v) (fun a => bind (chain_attrs attrs ks) (fun r => Ok (a ++ r)))
    end
  end.

(* item.find_child(name, entity) on an imported object.  Python's chain is lazy: an attribute that
   cannot be iterated only matters when no earlier attribute holds the name. *)
Fixpoint find_lazy (n : str) (attrs : list (str * xval)) (keys : list str) : res (option hit) :=
  match keys with
  | [] => Ok None
  | k :: ks =>
    match assoc_get k attrs with
    | None => find_lazy n attrs ks
    | Some v =>
      bind (attr_items v) (fun a =>
        bind (find_first n a) (fun h =>
          match h with Some _ => Ok h | None => find_lazy n attrs ks end))
    end
  end.
Definition find_child (x : xval) (n : str) (entity : option str) : res (option hit) :=
  match entity with
  | None => find_lazy n (x_attrs x) CHILD_ORDER
  | Some e =>
    match assoc_get (lower e) SUBLINK_TYPES with
    | None => Err ValueError
    | Some cn =>
      match assoc_get cn (x_attrs x) with
      | None => Err ValueError
      | Some v => bind (attr_items v) (find_first n)
      end
    end
  end.

(* Project.find(name, entity, child_name, child_entity) *)
Fixpoint find_colls (B : blocal) (tops : list xval) (n : str) (cs : list coll) : res (option hit) :=
  match cs with
  | [] => Ok None
  | c :: r =>
    bind (find_first n (coll_items B tops c)) (fun h =>
      match h with Some _ => Ok h | None => find_colls B tops n r end)
  end.
(* the collections that hold entities of external projects (attribute names starting with "ext") *)
Definition is_ext_coll (c : coll) : bool :=
  match c with CExtModules | CExtTypes | CExtProcedures | CExtInterfaces => true | _ => false end.
(* list(dict.fromkeys(LINK_TYPES.values())) *)
Fixpoint dedup_colls (l : list coll) : list coll :=
  match l with
  | [] => []
  | c :: r => c :: filter (fun x => negb (coll_eqb x c)) (dedup_colls r)
  end.
(* the search order of an unqualified look-up: B's own collections (in LINK_TYPES order), then the
   ones of external projects *)
Definition FIND_ORDER : list coll :=
  let names := dedup_colls (map snd LINK_TYPES) in
  filter (fun c => negb (is_ext_coll c)) names ++ filter is_ext_coll names.

Definition project_find (B : blocal) (tops : list xval) (n : str) (entity : option str)
           (child : option (str * option str)) : res (option hit) :=
  bind (match entity with
        | Some e => match assoc_get (lower e) LINK_TYPES with
                    | Some c => find_colls B tops n [c]
                    | None => Err ValueError
                    end
        | None => find_colls B tops n FIND_ORDER
        end)
  (fun h =>
    match child, h with
    | None, _ | _, None => Ok h
    | Some (cn, ce), Some (HExt x) => find_child x cn ce
    | Some _, Some (HLocal c i) => Ok (Some (HLocalChild c i))
    | Some _, Some (HLocalChild c i) => Ok (Some (HLocalChild c i))
    end).

(* module.get_used_entities(", only: n") on an imported module: the object a USE statement of B imports
   under name [n] from table [which] (pub_procs / pub_absints / pub_types / pub_vars).  The name is
   lower-cased and looked up as a key (`name in collection`, `collection[name]`): the key under which
   the module makes the entity accessible, not the entity's own name.  All four tables are consulted,
   whichever one the name is then taken from. *)
Definition PUB_DICTS : list str := [s "pub_procs"; s "pub_absints"; s "pub_types"; s "pub_vars"].
(* `name in v` followed by `v[name]` for an attribute value v *)
Definition used_in (v : xval) (n : str) : res (option xval) :=
  match v with
  | XD l => Ok (assoc_get n l)
  | XL l => if existsb (fun x => match x with XS y => str_eqb y n | _ => false end) l
            then Err TypeError else Ok None          (* list indices must be integers *)
  | XV (JStr y) => if has_substr n y then Err TypeError else Ok None
  | _ => Err TypeError                               (* not a container *)
  end.
Fixpoint used_all (attrs : list (str * xval)) (n : str) (ws : list str) : res unit :=
  match ws with
  | [] => Ok tt
  | w :: r =>
    match assoc_get w attrs with
    | Some v => bind (used_in v n) (fun _ => used_all attrs n r)
    | None => Err AttributeError
    end
  end.
Definition used_lookup (m : xval) (which : str) (n : str) : res (option xval) :=
  bind (used_all (x_attrs m) (lower n) PUB_DICTS) (fun _ =>
    match assoc_get which (x_attrs m) with
    | Some v => used_in v (lower n)
    | None => Err AttributeError
    end).
