(* Out/Links.v — model of FORD's [[name(kind):child(kind)]] references:
     ford/_markdown.py    FordLinkProcessor.convert_link (the lookup; not the href arithmetic)
     ford/fortran_project.py  Project.find, LINK_TYPES (regenerated: Gen/LinkTypes.v)
     ford/sourceform.py   FortranBase.children / find_child / _find_in_list, SUBLINK_TYPES
   over an abstract project (what the harness reads off the real Project object after
   correlate(): the project collections and, per entity, its name, parent and child attributes),
   and, written from the user guide ("Links") and the property text, the Spec.
   Executable definitions only; proofs are in Out/LinksProofs.v. *)
From Ford Require Import Base.Str Gen.LinkTypes.

(* ------------------------------------------------------------------------------------------ *)
(* the abstract project *)

(* the value of one attribute of an entity object *)
Inductive aval :=
| AList (ids : list nat)       (* a list; the FortranBase members, in order (strings are skipped
                                  by _find_in_list anyway) *)
| ASingle (id : nat)           (* a single entity (constructor, procedure, retvar, ...) *)
| ANone                        (* None *)
| ADict.                       (* a dict: iterating it yields strings only *)

Record ent := { e_name : str;
                e_attrs : list (str * aval);     (* hasattr(e, a) <-> a is a key *)
                e_parent : option nat;
                e_has_url : bool;                (* get_url() is not None *)
                e_owns_page : bool;              (* get_dir() is not None: it has a page of its own *)
                e_visible : bool;                (* getattr(e, "visible", True) *)
                e_iface_proc : bool }.           (* is_interface_procedure: the procedure of an
                                                    interface block, shown on the interface's page *)

(* entities are numbered by their position in p_ents *)
Record proj := { p_ents : list ent;
                 p_cols : list (str * list nat) }.   (* project collections (modules, types, ...) *)

Definition get_ent (p : proj) (i : nat) : option ent := nth_error (p_ents p) i.
Definition name_of (p : proj) (i : nat) : str :=
  match get_ent p i with Some e => e_name e | None => [] end.

(* name.lower() == item.name.lower() *)
Definition name_eqb (a b : str) : bool := str_eqb (lower a) (lower b).

(* _find_in_list over entity ids *)
Fixpoint find_in (p : proj) (name : str) (ids : list nat) : option nat :=
  match ids with
  | [] => None
  | i :: ids' => if name_eqb name (name_of p i) then Some i else find_in p name ids'
  end.

(* a reference: [[name(kind):child(ckind)]] *)
Record ref := { r_name : str; r_kind : option str; r_child : option str; r_ckind : option str }.

(* outcome of a lookup step *)
Inductive found :=
| Found (i : nat)
| NotFound
| ErrV                         (* ValueError *)
| ErrT.                        (* TypeError (iterating None / a single object) *)

(* _find_in_list(self.children, name): the attributes of [children_attrs] that the object has,
   chained lazily (the search stops at the first match), then the non-list children *)
Fixpoint find_chain (p : proj) (e : ent) (name : str) (attrs : list str) : found :=
  match attrs with
  | [] => NotFound
  | a :: attrs' =>
    match assoc_get a (e_attrs e) with
    | None => find_chain p e name attrs'
    | Some (AList ids) =>
      match find_in p name ids with
      | Some i => Found i
      | None => find_chain p e name attrs'
      end
    | Some ADict => find_chain p e name attrs'
    | Some (ASingle _) | Some ANone => ErrT
    end
  end.
Fixpoint find_singles (p : proj) (e : ent) (name : str) (attrs : list str) : found :=
  match attrs with
  | [] => NotFound
  | a :: attrs' =>
    match assoc_get a (e_attrs e) with
    | Some (ASingle i) =>
      if name_eqb name (name_of p i) then Found i else find_singles p e name attrs'
    | _ => find_singles p e name attrs'
    end
  end.
Definition find_children (p : proj) (e : ent) (name : str) : found :=
  match find_chain p e name children_attrs with
  | NotFound => find_singles p e name non_list_children
  | r => r
  end.

(* FortranBase.find_child(name, entity) *)
Definition find_child (p : proj) (i : nat) (name : str) (kind : option str) : found :=
  match get_ent p i with
  | None => NotFound
  | Some e =>
    match kind with
    | None => find_children p e name
    | Some k =>
      match assoc_get (lower k) sublink_types with
      | None => ErrV                               (* Unknown class of entity *)
      | Some a =>
        match assoc_get a (e_attrs e) with
        | None => ErrV                             (* ... cannot have child ... *)
        | Some (AList ids) =>
          match find_in p name ids with Some j => Found j | None => NotFound end
        | Some ADict => NotFound
        | Some (ASingle j) =>                      (* a single item is wrapped in a list *)
          if name_eqb name (name_of p j) then Found j else NotFound
        | Some ANone => NotFound                   (* None: the empty list *)
        end
      end
    end
  end.

(* FortranBase.find_in_scope(name, entity): [entity] is a component kind word (SCOPE_LINK_TYPES);
   any other word is handed to find_child as an item kind *)
Definition find_scope (p : proj) (i : nat) (name : str) (kind : option str) : found :=
  match kind with
  | None => find_child p i name None
  | Some k =>
    match assoc_get (lower k) scope_link_types with
    | Some attrs =>
      match get_ent p i with
      | Some e => find_chain p e name attrs        (* _find_in_list over self.iterator of these collections *)
      | None => NotFound
      end
    | None => find_child p i name (Some k)
    end
  end.

Definition col_ids (p : proj) (c : str) : list nat :=
  match assoc_get c (p_cols p) with Some l => l | None => [] end.

(* list(dict.fromkeys(l)) *)
Fixpoint dedup_names (l : list str) : list str :=
  match l with
  | [] => []
  | x :: l' => x :: filter (fun y => negb (str_eqb x y)) (dedup_names l')
  end.
Definition is_ext (n : str) : bool := starts_with (s "ext") n.
(* the collections searched by an unqualified Project.find, in order: the de-duplicated values of
   LINK_TYPES, those of the project itself first, then the ones of external projects *)
Definition project_order : list str :=
  let names := dedup_names (map snd link_types) in
  filter (fun n => negb (is_ext n)) names ++ filter is_ext names.

(* Project.find(name, entity, child_name, child_entity) *)
Definition project_find (p : proj) (name : str) (kind child ckind : option str) : found :=
  let coll :=
    match kind with
    | Some k => match assoc_get (lower k) link_types with
                | Some c => Some (col_ids p c)
                | None => None
                end
    | None => Some (flat_map (col_ids p) project_order)
    end in
  match coll with
  | None => ErrV
  | Some ids =>
    match find_in p name ids with
    | None => NotFound
    | Some i =>
      match child with
      | None => Found i
      | Some cn => find_child p i cn ckind
      end
    end
  end.

Inductive result :=
| RLink (i : nat)              (* <a href=...>item.name</a> *)
| RPlain                       (* <a>name</a>, with a warning *)
| RWarn                        (* ValueError / RuntimeError inside convert_link: caught by handleMatch *)
| RErr.                        (* any other exception (TypeError): leaves the conversion *)

(* with suppress(ValueError): return context.find_in_scope(name, m["entity"]) *)
Definition find_child_quiet (p : proj) (i : nat) (name : str) (kind : option str) : found :=
  match find_scope p i name kind with ErrV => NotFound | r => r end.

(* FortranBase.page_is_written(): an entity without a page of its own is an anchor on the page
   of a parent, which is only written if that parent is displayed.  [fuel] bounds the walk up
   the parents (length of the entity list suffices; parents do not form cycles) *)
Definition up_parent (p : proj) (e : ent) : option nat :=
  match e_parent e with
  | None => None
  | Some par =>
    match get_ent p par with
    | Some pe => if e_iface_proc pe then e_parent pe else Some par
    | None => Some par
    end
  end.
Definition vis (p : proj) (i : nat) : bool :=
  match get_ent p i with Some e => e_visible e | None => true end.
Fixpoint page_is_written (fuel : nat) (p : proj) (i : nat) : bool :=
  match get_ent p i with
  | None => true
  | Some e =>
    if e_owns_page e then true
    else match e_parent e with
         | None => true
         | Some _ =>
           match up_parent p e with
           | None => true
           | Some par =>
             if negb (vis p par) then false
             else match fuel with
                  | 0 => true
                  | S f => page_is_written f p par
                  end
           end
         end
  end.
(* the test in convert_link: the owner of the item's own page must be visible, and the page its
   URL points to must be written *)
Definition displayed (p : proj) (i : nat) : bool :=
  match get_ent p i with
  | None => true
  | Some e =>
    let owner_visible :=
      if e_iface_proc e then match e_parent e with Some par => vis p par | None => true end
      else e_visible e in
    negb (e_owns_page e && negb owner_visible) && page_is_written (length (p_ents p)) p i
  end.

Definition finish (p : proj) (f : found) : result :=
  match f with
  | Found i => match get_ent p i with
               | Some e => if negb (displayed p i) then RPlain      (* "Not linking ...: not displayed" *)
                           else if e_has_url e then RLink i
                           else RWarn                               (* "Found item ... but no url" *)
               | None => RWarn
               end
  | NotFound => RPlain
  | ErrV => RWarn
  | ErrT => RErr
  end.

(* the context, then its parent *)
Definition scope_find (p : proj) (c : nat) (name : str) (kind : option str) : found :=
  match find_child_quiet p c name kind with
  | NotFound =>
    match get_ent p c with
    | Some e => match e_parent e with
                | Some par => find_child_quiet p par name kind
                | None => NotFound
                end
    | None => NotFound
    end
  | f => f
  end.

(* the part of convert_link under `if (context := self.md.current_context) is not None` *)
Definition ctx_step (p : proj) (ctx : option nat) (r : ref) : found :=
  match ctx with
  | None => NotFound
  | Some c =>
    match scope_find p c (r_name r) (r_kind r), r_child r with
    | Found i, Some cn => find_child p i cn (r_ckind r)     (* "isn't allowed to fail" *)
    | item, _ => item
    end
  end.

(* "if item is None: item = self.project.find(...)" and the fall-back to the page
   of the component *)
Definition project_step (p : proj) (r : ref) : result :=
  match project_find p (r_name r) (r_kind r) (r_child r) (r_ckind r) with
  | NotFound =>
    match r_child r with
    | Some _ => finish p (project_find p (r_name r) (r_kind r) None None)
    | None => RPlain
    end
  | f => finish p f
  end.

(* FordLinkProcessor.convert_link with md.current_context = ctx *)
Definition convert_link (p : proj) (ctx : option nat) (r : ref) : result :=
  match ctx_step p ctx r with
  | NotFound => project_step p r
  | f => finish p f
  end.

(* FordLinkProcessor.handleMatch: ValueError / RuntimeError become a warning and plain text *)
Definition settle (res : result) : result :=
  match res with RWarn => RPlain | _ => res end.
Definition render (p : proj) (ctx : option nat) (r : ref) : result :=
  settle (convert_link p ctx r).

(* MetaMarkdown.convert(source, context, path) assigns current_context := context on every call
   (reset() clears it): the state of the instance after a conversion is that conversion's own
   context argument, and a conversion is rendered in its own argument -- e.g. the project summary,
   converted right after the last entity's documentation and without a context, has none *)
Definition md_convert (p : proj) (st : option nat) (ctx : option nat) (r : ref)
  : option nat * result := (ctx, render p ctx r).
Fixpoint md_run (p : proj) (st : option nat) (calls : list (option nat * ref)) : list result :=
  match calls with
  | [] => []
  | (ctx, r) :: calls' =>
    let (st', res) := md_convert p st ctx r in res :: md_run p st' calls'
  end.

(* ------------------------------------------------------------------------------------------ *)
(* Spec — user guide "Links" + the property text.

   [[component(type):item(type)]]
   * component is looked up in the contents of the entity whose documentation contains the
     reference, then in the contents of that entity's parent, then in the whole project; the
     first of these three levels that has a match decides (within one level the guide leaves
     the choice among equally named entities open).
   * type of the component: "procedure", "proc", "subroutine", "function" (any procedure),
     "interface", "absinterface" (abstract interfaces), "block", "type", "file", "module",
     "submodule", "program", "namelist"; most also with prefix "ext" (external projects).
   * type of the item: "absinterface", "bound", "common", "constructor", "final", "function",
     "interface", "modproc", "subroutine", "type", "variable"; an option that cannot exist
     within the component gives a warning and no link.
   * names are case-insensitive; a reference to nothing is plain text (with a warning). *)

(* documented component kinds -> the project collection they designate *)
Definition doc_comp_kinds : list (str * str) :=
  [(s "procedure", s "procedures"); (s "proc", s "procedures"); (s "subroutine", s "procedures");
   (s "function", s "procedures"); (s "interface", s "absinterfaces");
   (s "absinterface", s "absinterfaces"); (s "block", s "blockdata"); (s "type", s "types");
   (s "file", s "allfiles"); (s "module", s "modules"); (s "submodule", s "submodules");
   (s "program", s "programs"); (s "namelist", s "namelists")].
(* the external variants ("the majority of these can also be prefixed with ext") *)
Definition doc_ext_kinds : list (str * str) :=
  [(s "extprocedure", s "extProcedures"); (s "extproc", s "extProcedures");
   (s "extsubroutine", s "extProcedures"); (s "extfunction", s "extProcedures");
   (s "extinterface", s "extInterfaces"); (s "extabsinterface", s "extInterfaces");
   (s "exttype", s "extTypes"); (s "extmodule", s "extModules")].
(* documented item kinds -> the attribute of the component that holds such items *)
Definition doc_item_kinds : list (str * str) :=
  [(s "absinterface", s "absinterfaces"); (s "bound", s "boundprocs"); (s "common", s "common");
   (s "constructor", s "constructor"); (s "final", s "finalprocs"); (s "function", s "functions");
   (s "interface", s "interfaces"); (s "modproc", s "modprocs"); (s "subroutine", s "subroutines");
   (s "type", s "types"); (s "variable", s "variables")].

(* the attributes of an enclosing entity that hold things of a component kind *)
Definition scope_attrs (k c : str) : list str :=      (* k: the kind word in lower case *)
  if str_eqb c (s "procedures") then [s "functions"; s "subroutines"; s "interfaces"]
  else if str_eqb k (s "interface") then [s "absinterfaces"; s "interfaces"]
       (* inside a scope "interface" may as well mean one of its generic interfaces *)
  else if str_eqb c (s "allfiles") then []
  else match assoc_get k doc_comp_kinds with
       | Some _ => [c]           (* types, absinterfaces, modules, submodules, programs, ... *)
       | None => []              (* "ext...": entities of other projects are nobody's contents *)
       end.

Definition aval_ids (v : aval) : list nat :=
  match v with AList ids => ids | ASingle i => [i] | _ => [] end.

(* contents of an entity: everything any of its attributes holds / only the given attributes *)
Definition contents (e : ent) : list nat := flat_map (fun av => aval_ids (snd av)) (e_attrs e).
Definition contents_of (e : ent) (attrs : list str) : list nat :=
  flat_map (fun a => match assoc_get a (e_attrs e) with Some v => aval_ids v | None => [] end) attrs.

(* only something with a place in the documentation can be linked to *)
Definition has_url (p : proj) (i : nat) : bool :=
  match get_ent p i with Some e => e_has_url e | None => false end.
Definition matching (p : proj) (name : str) (ids : list nat) : list nat :=
  filter (fun i => name_eqb name (name_of p i) && has_url p i) ids.

Definition comp_kind (k : str) : option str :=
  match assoc_get (lower k) doc_comp_kinds with
  | Some c => Some c
  | None => assoc_get (lower k) doc_ext_kinds
  end.

(* candidates for the component in the contents of entity i *)
Definition scope_cands (p : proj) (i : nat) (name : str) (kind : option str) : list nat :=
  match get_ent p i with
  | None => []
  | Some e =>
    match kind with
    | None => matching p name (contents e)
    | Some k => match comp_kind k with
                | Some c => matching p name (contents_of e (scope_attrs (lower k) c))
                | None =>
                  (* a word that is only an item kind ("bound", "variable", "final", ...): among
                     the contents of an entity it designates the items of that kind *)
                  match assoc_get (lower k) doc_item_kinds with
                  | Some a => matching p name (contents_of e [a])
                  | None => []
                  end
                end
    end
  end.
Definition all_doc_collections : list str :=
  map snd doc_comp_kinds ++ map snd doc_ext_kinds.
Definition project_cands (p : proj) (name : str) (kind : option str) : list nat :=
  match kind with
  | None => matching p name (flat_map (col_ids p) all_doc_collections)
  | Some k => match comp_kind k with
              | Some c => matching p name (col_ids p c)
              | None => []
              end
  end.

(* the three levels, innermost first *)
Definition levels (p : proj) (ctx : option nat) (name : str) (kind : option str)
  : list (list nat) :=
  match ctx with
  | None => [project_cands p name kind]
  | Some c =>
    scope_cands p c name kind
      :: match get_ent p c with
         | Some e => match e_parent e with
                     | Some par => [scope_cands p par name kind]
                     | None => []
                     end
         | None => []
         end
      ++ [project_cands p name kind]
  end.
Fixpoint first_nonempty (ls : list (list nat)) : list nat :=
  match ls with
  | [] => []
  | [] :: ls' => first_nonempty ls'
  | l :: _ => l
  end.
Definition comp_cands (p : proj) (ctx : option nat) (r : ref) : list nat :=
  first_nonempty (levels p ctx (r_name r) (r_kind r)).

(* the items called [cn] (of kind ck) of component c; None = the option is not documented *)
Definition item_cands (p : proj) (c : nat) (cn : str) (ck : option str) : option (list nat) :=
  match get_ent p c with
  | None => Some []
  | Some e =>
    match ck with
    | None => Some (matching p cn (contents e))
    | Some k => match assoc_get (lower k) doc_item_kinds with
                | Some a => Some (matching p cn (contents_of e [a]))
                | None => None
                end
    end
  end.

Definition nat_in (i : nat) (l : list nat) : bool := existsb (Nat.eqb i) l.

(* An entity is documented (there is a place in the output that a link can lead to) when the
   entities whose page shows it are displayed: itself if it has a page of its own (the interface,
   for the procedure of an interface block), otherwise every enclosing entity up to and including
   the first one that has a page.  A reference that selects an entity which is not documented is
   plain text: there must be no link to a page that is not written. *)
Fixpoint shown_on (fuel : nat) (p : proj) (i : nat) : list nat :=   (* the enclosing entities that matter *)
  match get_ent p i with
  | None => []
  | Some e =>
    match e_parent e with
    | None => []
    | Some _ =>
      match up_parent p e with
      | None => []
      | Some par =>
        par :: match get_ent p par, fuel with
               | Some pe, S f => if e_owns_page pe then [] else shown_on f p par
               | _, _ => []
               end
      end
    end
  end.
Definition documented (p : proj) (i : nat) : bool :=
  match get_ent p i with
  | None => true
  | Some e =>
    if e_owns_page e
    then (if e_iface_proc e then match e_parent e with Some par => vis p par | None => true end
          else e_visible e)
    else forallb (vis p) (shown_on (length (p_ents p)) p i)
  end.
Definition kind_documented (k : option str) : bool :=
  match k with None => true | Some k' => match comp_kind k' with Some _ => true | None => false end end.
Definition ckind_documented (k : option str) : bool :=
  match k with
  | None => true
  | Some k' => match assoc_get (lower k') doc_item_kinds with Some _ => true | None => false end
  end.

(* is [res] an acceptable rendering of the reference r in the documentation of ctx? *)
(* a link is acceptable only to a documented entity; plain text is acceptable where the lookup may
   have selected an entity that is not documented *)
Definition link_ok (p : proj) (i : nat) (cands : list nat) : bool := nat_in i cands && documented p i.
Definition plain_ok (p : proj) (cands : list nat) : bool := existsb (fun c => negb (documented p c)) cands.

Definition spec_accepts (p : proj) (ctx : option nat) (r : ref) (res : result) : bool :=
  if negb (kind_documented (r_kind r))
  then (* the word is no component kind.  If it is an item kind and the context or its parent
          contains such an item of that name, the three-level lookup selects it; otherwise
          nothing is specified (but no abort, and no link to an undocumented entity) *)
    match r_child r, comp_cands p ctx r, res with
    | None, _ :: _, RLink i => link_ok p i (comp_cands p ctx r)
    | None, _ :: _, RPlain => plain_ok p (comp_cands p ctx r)
    | None, _ :: _, _ => false
    | _, _, RLink i => documented p i
    | _, _, RPlain => true
    | _, _, _ => false
    end
  else if negb (ckind_documented (r_ckind r))
  then match res with RLink i => documented p i | RPlain => true | _ => false end
  else
    let cs := comp_cands p ctx r in
    match r_child r with
    | None =>
      match cs, res with
      | [], RPlain => true
      | _ :: _, RLink i => link_ok p i cs
      | _ :: _, RPlain => plain_ok p cs
      | _, _ => false
      end
    | Some cn =>
      let per := map (fun c => match item_cands p c cn (r_ckind r) with Some l => l | None => [] end) cs in
      let strict := match cs with [] => false | _ => forallb (fun l => negb (Nat.eqb (length l) 0)) per end in
      if strict
      then match res with
           | RLink i => link_ok p i (concat per)
           | RPlain => plain_ok p (concat per)
           | _ => false
           end
      else (* the item is missing from (some of) the candidate components: plain text, or a link
              to something called like the component or like the item *)
        match res with
        | RPlain => true
        | RLink i => (name_eqb (r_name r) (name_of p i) || name_eqb cn (name_of p i)) && documented p i
        | _ => false
        end
    end.

(* ------------------------------------------------------------------------------------------ *)
(* well-formedness of the abstract project, as far as the theorems need it *)
Definition list_attr_ok (v : aval) : bool :=
  match v with AList _ | ADict => true | _ => false end.
Definition single_attr_ok (v : aval) : bool :=
  match v with ASingle _ | ANone => true | _ => false end.
Fixpoint nodup_keys (l : list (str * aval)) : bool :=
  match l with
  | [] => true
  | (a, _) :: l' => negb (str_in a (map fst l')) && nodup_keys l'
  end.
Definition shapes_ok (e : ent) : bool :=
  forallb (fun av => if str_in (fst av) children_attrs then list_attr_ok (snd av)
                     else if str_in (fst av) non_list_children then single_attr_ok (snd av)
                     else true)
          (e_attrs e)
  && nodup_keys (e_attrs e).
Definition attrs_covered (e : ent) : bool :=
  forallb (fun av => str_in (fst av) children_attrs || str_in (fst av) non_list_children
                     || match snd av with AList [] | ANone | ADict => true | _ => false end)
          (e_attrs e).
Definition urls_ok (p : proj) : bool := forallb e_has_url (p_ents p).
Definition ids_ok (p : proj) : bool :=
  forallb (fun e => forallb (fun i => i <? length (p_ents p)) (contents e)) (p_ents p)
  && forallb (fun c => forallb (fun i => i <? length (p_ents p)) (snd c)) (p_cols p).
