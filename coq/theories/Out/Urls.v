(* Out/Urls.v -- model of FORD's URL logic (property C09).
     ford/sourceform.py   FortranBase.get_dir / get_url / anchor (+ the overrides in FortranSubmodule,
                          FortranInterface, FortranProcedure)
     ford/output.py       BasePage.project_url (per-page relative root), relative_url (the relurl filter)
     ford/_markdown.py    MetaMarkdown.convert (virtual sibling directory), FordLinkProcessor,
                          RelativeLinksTreeProcessor
     ford/graphs.py       BaseNode URL attribute ; ford/tipue_search.py  url of a search node
   Paths are component lists (Base/Path.v).  Executable definitions only. *)
From Ford Require Import Base.Str Base.Path Out.Names.

(* ------------------------------------------------------------------ entity URLs *)

Inductive ekind :=
| KSourceFile | KGenericSource | KProgram | KModule | KSubmodule | KBlockData | KNamelist
| KType | KInterface | KProcedure | KModProcImpl
| KBoundProc | KCommon | KVariable | KEnum | KFinalProc | KOther.

(* kind (class), self.obj, self.ident, bool(self.name), is_interface_procedure, self.parent *)
Inductive entity :=
| Ent (k : ekind) (obj : str) (ident : str) (named : bool) (ifaceproc : bool) (par : option entity).

Definition e_kind (e : entity) : ekind := match e with Ent k _ _ _ _ _ => k end.
Definition e_obj (e : entity) : str := match e with Ent _ o _ _ _ _ => o end.
Definition e_ident (e : entity) : str := match e with Ent _ _ i _ _ _ => i end.
Definition e_parent (e : entity) : option entity := match e with Ent _ _ _ _ _ p => p end.

(* what type(self).__name__[7:].lower() (with the "proc" substitution) gives for each class *)
Definition obj_of (k : ekind) : option str :=
  match k with
  | KSourceFile | KGenericSource => Some (s "sourcefile")
  | KProgram => Some (s "program") | KModule => Some (s "module") | KSubmodule => Some (s "submodule")
  | KBlockData => Some (s "blockdata") | KNamelist => Some (s "namelist") | KType => Some (s "type")
  | KInterface => Some (s "interface") | KProcedure | KModProcImpl => Some (s "proc")
  | KBoundProc => Some (s "boundprocedure") | KCommon => Some (s "common")
  | KVariable => Some (s "variable") | KEnum => Some (s "enum") | KFinalProc => Some (s "finalproc")
  | KOther => None
  end.

(* isinstance(self, (SourceFile, Program, Module, GenericSource, BlockData, Namelist)) *)
Definition top_kind (k : ekind) : bool :=
  match k with
  | KSourceFile | KGenericSource | KProgram | KModule | KSubmodule | KBlockData | KNamelist => true
  | _ => false
  end.
(* isinstance(self, (Type, Interface, Procedure, ModuleProcedureImplementation)) *)
Definition paged_child_kind (k : ekind) : bool :=
  match k with KType | KInterface | KProcedure | KModProcImpl => true | _ => false end.
(* isinstance(self.parent, (SourceFile, Program, Module, Submodule, BlockData)) *)
Definition page_parent_kind (k : ekind) : bool :=
  match k with KSourceFile | KProgram | KModule | KSubmodule | KBlockData => true | _ => false end.

Definition base_get_dir (e : entity) : option str :=
  if top_kind (e_kind e) ||
     (paged_child_kind (e_kind e) &&
      match e_parent e with Some p => page_parent_kind (e_kind p) | None => false end)
  then Some (e_obj e) else None.

Definition get_dir (e : entity) : option str :=
  match e with
  | Ent KSubmodule _ _ _ _ _ => Some (s "module")
  | Ent KInterface _ _ named _ _ => if named then base_get_dir e else None
  | Ent KProcedure _ _ _ ifp _ => if ifp then Some (s "interface") else base_get_dir e
  | _ => base_get_dir e
  end.

Definition anchored_kind (k : ekind) : bool :=
  match k with KBoundProc | KCommon | KVariable | KEnum | KFinalProc | KProcedure => true | _ => false end.

Record url := mk_url { u_path : list str; u_frag : option str }.

Definition anchor_of (obj ident : str) : str := obj ++ s "-" ++ quote ident.
Definition html : str := s ".html".

(* FortranBase.get_url (entities without external_url) *)
Fixpoint url_of (e : entity) : option url :=
  match e with
  | Ent k obj ident named ifp par =>
    let via_parent :=
      if anchored_kind k then
        match par with
        | Some p => match url_of p with
                    | Some u => Some (mk_url (u_path u) (Some (anchor_of obj ident)))
                    | None => None
                    end
        | None => None
        end
      else None in
    match get_dir (Ent k obj ident named ifp par) with
    | Some d => if str_eqb d [] then via_parent else Some (mk_url [d; ident ++ html] None)
    | None => via_parent
    end
  end.

Definition render_url (u : url) : str :=
  render_rel (u_path u) ++ match u_frag u with Some f => s "#" ++ f | None => [] end.

(* ------------------------------------------------------------------ per-page root, relurl *)

(* BasePage.project_url: os.path.relpath(settings.project_url (= output dir), outfile.parent) when
   `relative`, else the configured URL.  [page] is the page's path below the output directory. *)
Definition page_project_url (relative : bool) (setting : str) (out page : list str) : str :=
  if relative then render_rel (relpath out (out ++ parent page)) else setting.

Definition has_slash (x : str) : bool := existsb (ch_eqb slash) x.

(* ford.output.relative_url(entity, page_url) for str(entity) = pre ++ href ++ post, where href is the
   href of the first <a> element that HAS an href when [has_link], and the whole text otherwise
   (pre = post = []).  [dead_only]: the text contains <a> elements but none with an href (unresolved
   [[references]]): it is returned unchanged.
   Text without a link is only rewritten when it is an absolute path name (the URL of a static page);
   other text that happens to contain a slash is returned unchanged.
   href and page are absolute path names (or href starts with "http"). *)
Definition relative_url_str (pre href post : str) (has_link dead_only : bool) (page : str) : str :=
  let whole := pre ++ href ++ post in
  if negb (has_slash whole) then whole
  else if dead_only then whole
  else if has_link && starts_with (s "http") href then whole
  else if negb has_link && negb (starts_with [slash] whole) then whole   (* plain text, not a path *)
  else if has_link && negb (starts_with [slash] href) then whole          (* fragment, mailto:, relative link *)
  else
    let link_path := if has_link then normpath_str href else whole in
    let new_path := render_rel (relpath (split_path link_path) (parent (normalise (split_path page)))) in
    replace link_path new_path whole.

(* ------------------------------------------------------------------ docstring links *)

Definition ghost : str := s "non-existent dir".

(* MetaMarkdown.convert: base_url / Path(url).parent.parent / "non-existent dir", where url is the URL
   of the documented entity or, when it has none (a type declared inside a procedure ...), of its
   nearest parent that has one *)
Definition doc_current_path (base ctx : list str) : list str := base ++ parent (parent ctx) ++ [ghost].

(* FordLinkProcessor.convert_link / RelativeLinksTreeProcessor: relpath(base_url / item_url, current_path) *)
Definition doc_link (base ctx target : list str) : list str :=
  relpath (base ++ target) (doc_current_path base ctx).

(* ------------------------------------------------------------------ every kind of generated URL *)

(* All paths are relative to the output directory [out]; [view]/[page] is the file the URL is read from. *)
Inductive site :=
| SProjectUrl (page target : list str)      (* href="{{ project_url }}/<target>" on page *)
| SRelurl (page target : list str)          (* {{ x | relurl(page_url) }}, x linking to out/<target> *)
| SDocLink (ctx view target : list str)     (* [[ref]] in the docstring of the entity with URL path ctx, shown on view *)
| SPageLink (page target : list str)        (* [[ref]] or |url|/|page|/|media| link in the static page [page] *)
| SGraphNode (view target : list str)       (* URL of a graph node (xlink:href in the SVG); graph embedded in view *)
| SGraphTable (view target : list str)      (* the same node URL as <a href> in a graph drawn as an HTML table
                                               (FortranGraph._make_graph_as_table, first hop > graph_maxnodes) *)
| SSearch (target : list str).              (* "url" of a search-index entry, followed from search.html *)

Definition site_view (st : site) : list str :=
  match st with
  | SProjectUrl p _ | SRelurl p _ | SPageLink p _ => p
  | SDocLink _ v _ | SGraphNode v _ | SGraphTable v _ => v
  | SSearch _ => [s "search.html"]
  end.
Definition site_target (st : site) : list str :=
  match st with
  | SProjectUrl _ t | SRelurl _ t | SPageLink _ t | SDocLink _ _ t | SGraphNode _ t | SGraphTable _ t
  | SSearch t => t
  end.

(* the relative reference written in relative mode (settings.project_url = output directory) *)
Definition site_rel (out : list str) (st : site) : list str :=
  match st with
  | SProjectUrl page target => relpath out (out ++ parent page) ++ target
  | SRelurl page target => relpath (out ++ target) (out ++ parent page)
  | SDocLink ctx _ target => doc_link out ctx target
  | SPageLink page target => relpath (out ++ target) (out ++ parent page)
  | SGraphNode _ target | SGraphTable _ target => dotdot :: target
  | SSearch target => target
  end.

(* the URL text; in non-relative mode everything hangs off the configured project_url *)
Definition site_url (relative : bool) (setting : str) (out : list str) (st : site) : str :=
  match st with
  | SProjectUrl page target => page_project_url relative setting out page ++ slash :: render_rel target
  | SGraphNode _ target | SGraphTable _ target => (if relative then s "../" else []) ++ render_rel target
  | SSearch target => (if relative then [] else setting) ++ render_rel target
  | _ => if relative then render_rel (site_rel out st) else setting ++ slash :: render_rel (site_target st)
  end.

Definition url_is_relative (x : str) : bool :=
  match x with [] => false | c :: _ => negb (ch_eqb c slash) end.

Definition clean_site (st : site) : bool := clean (site_view st) && clean (site_target st) &&
  match st with SDocLink ctx _ _ => clean ctx | _ => true end.

(* where the sibling-directory trick and the graphs' fixed "../" are valid: the viewing page is at
   depth 1 (dir/file.html), the docstring's entity URL has at most two components, and the target's
   directory is not the ghost directory *)
Definition site_depth_ok (st : site) : bool :=
  match st with
  | SDocLink ctx view target =>
      (length ctx <=? 2) && (length view =? 2) &&
      negb (match target with d :: _ => str_eqb d ghost | [] => false end)
  | SGraphNode view _ | SGraphTable view _ => length view =? 2
  | _ => true
  end.
