(* Out/SettingsProofs.v -- proofs about the settings model (Out/Settings.v over Gen/Schema.v). *)
From Coq Require Import ZArith Lia.
From Ford Require Import Base.Str Base.StrFacts Out.SettingsTypes Gen.Schema Out.Settings.
Local Open Scope Z_scope.
Local Open Scope nat_scope.
Local Arguments Nat.div : simpl never.
Local Arguments Z.div : simpl never.
Local Arguments Z.modulo : simpl never.
Local Arguments Z.mul : simpl never.
Local Arguments Z.pow : simpl never.

(* ------------------------------------------------------------------ basic facts *)
Lemma seqb_refl a : seqb a a = true.
Proof. induction a as [|c a IH]; simpl; [reflexivity|]. now rewrite Ascii.eqb_refl. Qed.

Lemma seqb_eq a b : seqb a b = true <-> a = b.
Proof.
  split.
  - revert b; induction a as [|c a IH]; intros [|d b] H; simpl in H; try discriminate; auto.
    destruct (Ascii.eqb c d) eqn:E; [|discriminate]. apply Ascii.eqb_eq in E. subst. f_equal. auto.
  - intros ->. apply seqb_refl.
Qed.

Lemma seqb_neq a b : seqb a b = false <-> a <> b.
Proof.
  split.
  - intros H E. apply seqb_eq in E. congruence.
  - intros H. destruct (seqb a b) eqn:E; auto. apply seqb_eq in E. contradiction.
Qed.

Lemma sget_sset_same k v st : aget k st <> None -> sget k (sset k v st) = v.
Proof.
  unfold sget. induction st as [|[k' v'] st IH]; simpl; intros H; [congruence|].
  destruct (seqb k k') eqn:E; simpl.
  - now rewrite seqb_refl.
  - rewrite E. apply IH. exact H.
Qed.

Lemma sget_sset_other k k' v st : k' <> k -> sget k' (sset k v st) = sget k' st.
Proof.
  unfold sget. intros N. induction st as [|[k2 v2] st IH]; simpl; [reflexivity|].
  destruct (seqb k k2) eqn:E; simpl.
  - apply seqb_eq in E. subst k2. apply seqb_neq in N. now rewrite N.
  - destruct (seqb k' k2); [reflexivity|exact IH].
Qed.

Lemma sset_keys k v st : map fst (sset k v st) = map fst st.
Proof.
  induction st as [|[k' v'] st IH]; simpl; [reflexivity|].
  destruct (seqb k k') eqn:E; simpl.
  - apply seqb_eq in E. now subst.
  - now rewrite IH.
Qed.

(* ------------------------------------------------------------------ characters *)
Lemma leb_true a b : (a <=? b) = true <-> a <= b. Proof. apply Nat.leb_le. Qed.

Lemma digit_not_space c : is_digit c = true -> is_space c = false /\ is_space_c c = false.
Proof.
  unfold is_digit, is_space, is_space_c. intros H. apply andb_true_iff in H as [H1 H2].
  apply Nat.leb_le in H1, H2.
  split.
  - apply orb_false_iff; split; apply andb_false_iff.
    + right. apply Nat.leb_gt. lia.
    + right. apply Nat.leb_gt. lia.
  - apply orb_false_iff; split.
    + apply andb_false_iff. right. apply Nat.leb_gt. lia.
    + apply Nat.eqb_neq. lia.
Qed.

(* ------------------------------------------------------------------ int(str(z)) = z *)
Definition dval (c : ascii) : Z := Z.of_nat (code c - 48).
Fixpoint value (ds : str) (a : Z) : Z :=
  match ds with [] => a | c :: r => value r (a * 10 + dval c)%Z end.

Lemma value_app x y a : value (x ++ y) a = value y (value x a).
Proof. revert a. induction x as [|c x IH]; intros a; simpl; [reflexivity|apply IH]. Qed.

Lemma digits_val_app ds rest a pd :
  forallb is_digit ds = true ->
  digits_val (ds ++ rest) a pd = digits_val rest (value ds a) (match ds with [] => pd | _ => true end).
Proof.
  revert a pd. induction ds as [|c r IH]; intros a pd H; simpl; [reflexivity|].
  simpl in H. apply andb_true_iff in H as [Hc Hr]. rewrite Hc.
  rewrite (IH _ true Hr). unfold dval. destruct r; reflexivity.
Qed.

Definition dch (n : Z) : ascii := ascii_of_nat (48 + Z.to_nat (n mod 10)%Z).

Lemma dch_spec n : is_digit (dch n) = true /\ dval (dch n) = (n mod 10)%Z.
Proof.
  assert (B : (0 <= n mod 10 < 10)%Z) by (apply Z.mod_pos_bound; lia).
  unfold dch, dval, is_digit, code.
  set (m := Z.to_nat (n mod 10)%Z). assert (Hm : m < 10) by (unfold m; lia).
  rewrite nat_ascii_embedding by lia. split.
  - apply andb_true_iff; split; apply Nat.leb_le; lia.
  - replace (48 + m - 48) with m by lia. unfold m. rewrite Z2Nat.id; lia.
Qed.

Lemma pdf_step f n acc :
  pos_digits_fuel (S f) n acc =
  if (n <? 10)%Z then dch n :: acc else pos_digits_fuel f (n / 10)%Z (dch n :: acc).
Proof. reflexivity. Qed.

Lemma single_digit n acc : (0 <= n < 10)%Z ->
  exists ds, dch n :: acc = ds ++ acc /\ ds <> [] /\ forallb is_digit ds = true /\ value ds 0%Z = n.
Proof.
  intros B. exists [dch n]. destruct (dch_spec n) as [D V]. repeat split.
  - discriminate.
  - cbn [forallb]. now rewrite D.
  - cbn [value]. rewrite V. rewrite Z.mod_small; lia.
Qed.

Lemma pos_digits_spec f : forall n acc, (0 <= n < 2 ^ Z.of_nat (S f))%Z ->
  exists ds, pos_digits_fuel (S f) n acc = ds ++ acc /\ ds <> [] /\
             forallb is_digit ds = true /\ value ds 0%Z = n.
Proof.
  induction f as [|f IH]; intros n acc B.
  - change (2 ^ Z.of_nat 1)%Z with 2%Z in B.
    rewrite pdf_step. destruct (n <? 10)%Z eqn:E; [|apply Z.ltb_ge in E; lia].
    apply single_digit. lia.
  - rewrite pdf_step.
    destruct (n <? 10)%Z eqn:E.
    + apply Z.ltb_lt in E. apply single_digit. lia.
    + apply Z.ltb_ge in E.
      assert (P : (2 ^ Z.of_nat (S (S f)) = 2 * 2 ^ Z.of_nat (S f))%Z).
      { rewrite (Nat2Z.inj_succ (S f)). apply Z.pow_succ_r. lia. }
      assert (Q : (0 < 2 ^ Z.of_nat (S f))%Z) by (apply Z.pow_pos_nonneg; lia).
      assert (B' : (0 <= n / 10 < 2 ^ Z.of_nat (S f))%Z).
      { split; [apply Z.div_pos; lia|]. apply Z.div_lt_upper_bound; lia. }
      destruct (IH (n / 10)%Z (dch n :: acc) B') as (ds & E1 & N & D & V).
      exists (ds ++ [dch n]). destruct (dch_spec n) as [Dn Vn]. repeat split.
      * rewrite E1. now rewrite <- app_assoc.
      * destruct ds; discriminate.
      * rewrite forallb_app, D. cbn [forallb]. now rewrite Dn.
      * rewrite value_app, V. cbn [value]. rewrite Vn.
        pose proof (Z.div_mod n 10). lia.
Qed.

Lemma pos_lt_pow2 p : (Zpos p < 2 ^ Z.of_nat (Pos.size_nat p))%Z.
Proof.
  induction p as [p IH|p IH|]; simpl Pos.size_nat.
  - rewrite Nat2Z.inj_succ, Z.pow_succ_r by lia. lia.
  - rewrite Nat2Z.inj_succ, Z.pow_succ_r by lia. lia.
  - reflexivity.
Qed.

Lemma pos_digits_ok p :
  exists ds, pos_digits_fuel (S (Pos.size_nat p)) (Zpos p) [] = ds /\ ds <> [] /\
             forallb is_digit ds = true /\ value ds 0%Z = Zpos p.
Proof.
  assert (B : (0 <= Zpos p < 2 ^ Z.of_nat (S (Pos.size_nat p)))%Z).
  { split; [lia|]. pose proof (pos_lt_pow2 p). rewrite Nat2Z.inj_succ, Z.pow_succ_r by lia.
    assert (0 < 2 ^ Z.of_nat (Pos.size_nat p))%Z by (apply Z.pow_pos_nonneg; lia). lia. }
  destruct (pos_digits_spec _ _ [] B) as (ds & E & N & D & V).
  exists ds. rewrite E, app_nil_r. auto.
Qed.

Lemma lstrip_c_id x : forallb (fun c => negb (is_space_c c)) x = true -> lstrip_c x = x.
Proof.
  destruct x as [|c x]; simpl; [reflexivity|]. intros H. apply andb_true_iff in H as [H _].
  apply negb_true_iff in H. now rewrite H.
Qed.

Lemma strip_c_id x : forallb (fun c => negb (is_space_c c)) x = true -> strip_c x = x.
Proof.
  intros H. unfold strip_c. rewrite (lstrip_c_id x H).
  rewrite lstrip_c_id; [apply rev_involutive|].
  apply forallb_forall. intros c Hc. apply in_rev in Hc.
  rewrite forallb_forall in H. now apply H.
Qed.

Lemma digits_no_space ds : forallb is_digit ds = true -> forallb (fun c => negb (is_space_c c)) ds = true.
Proof.
  intros H. apply forallb_forall. intros c Hc. rewrite forallb_forall in H.
  apply negb_true_iff. now apply digit_not_space, H.
Qed.

Lemma digit_code c : is_digit c = true -> (code c =? 45) = false /\ (code c =? 43) = false.
Proof.
  unfold is_digit. intros H. apply andb_true_iff in H as [H1 H2]. apply Nat.leb_le in H1, H2.
  split; apply Nat.eqb_neq; lia.
Qed.

Theorem py_int_str_of_Z z : py_int (str_of_Z z) = Some z.
Proof.
  destruct z as [|p|p].
  - reflexivity.
  - unfold str_of_Z. destruct (pos_digits_ok p) as (ds & E & N & D & V). rewrite E.
    unfold py_int. rewrite (strip_c_id ds (digits_no_space ds D)).
    destruct ds as [|c r]; [congruence|].
    assert (Dc : is_digit c = true) by (simpl in D; now apply andb_true_iff in D as [? _]).
    destruct (digit_code c Dc) as [C1 C2]. rewrite C1, C2.
    rewrite <- (app_nil_r (c :: r)) at 1. rewrite digits_val_app by exact D.
    rewrite V. reflexivity.
  - unfold str_of_Z. destruct (pos_digits_ok p) as (ds & E & N & D & V). rewrite E.
    unfold py_int. rewrite strip_c_id.
    2:{ simpl. apply (digits_no_space ds D). }
    change (code "-"%char =? 45) with true. cbv iota.
    rewrite <- (app_nil_r ds) at 1. rewrite digits_val_app by exact D.
    rewrite V. destruct ds; [congruence|]. reflexivity.
Qed.

Example py_int_example : py_int (str_of_Z (-1000000007)%Z) = Some (-1000000007)%Z /\
                         str_of_Z 10000%Z = s "10000" /\ py_int (s " +1_000 ") = Some 1000%Z.
Proof. repeat split; vm_compute; reflexivity. Qed.

(* ------------------------------------------------------------------ strip *)
Lemma lstrip_head c x : is_space c = false -> lstrip (c :: x) = c :: x.
Proof. intros H. simpl. now rewrite H. Qed.

Lemma lstrip_space c x : is_space c = true -> lstrip (c :: x) = lstrip x.
Proof. intros H. simpl. now rewrite H. Qed.

Lemma rev_last_head (x : str) d : x <> [] -> exists y, rev x = last x d :: y.
Proof.
  intros N. destruct (exists_last N) as (x' & a & ->).
  rewrite rev_app_distr, last_last. simpl. eauto.
Qed.

Lemma rstrip_id x : (forall d, x <> [] -> is_space (last x d) = false) -> rstrip x = x.
Proof.
  intros H. unfold rstrip. destruct x as [|c x]; [reflexivity|].
  destruct (rev_last_head (c :: x) c) as (y & E); [discriminate|].
  rewrite E, lstrip_head by (apply H; discriminate). rewrite <- E. apply rev_involutive.
Qed.

Lemma last_indep (x : str) d d' : x <> [] -> last x d = last x d'.
Proof.
  induction x as [|a x IH]; intros N; [congruence|].
  destruct x as [|b x]; [reflexivity|].
  change (last (a :: b :: x) d) with (last (b :: x) d).
  change (last (a :: b :: x) d') with (last (b :: x) d'). apply IH. discriminate.
Qed.

Lemma stripped_strip x : stripped x = true -> strip x = x.
Proof.
  unfold stripped, strip. destruct x as [|c x]; [reflexivity|].
  intros H. apply andb_true_iff in H as [H1 H2]. apply negb_true_iff in H1, H2.
  rewrite lstrip_head by exact H1. apply rstrip_id. intros d N.
  now rewrite (last_indep (c :: x) d c N).
Qed.

Lemma strip_space_head c x : is_space c = true -> strip (c :: x) = strip x.
Proof. intros H. unfold strip. now rewrite lstrip_space. Qed.

Lemma rstrip_space_last c x : is_space c = true -> rstrip (x ++ [c]) = rstrip x.
Proof.
  intros H. unfold rstrip. rewrite rev_app_distr. change (rev [c] ++ rev x) with (c :: rev x).
  now rewrite lstrip_space.
Qed.

Lemma strip_space_last c x : is_space c = true -> stripped x = true -> strip (x ++ [c]) = x.
Proof.
  intros H S. destruct x as [|a x].
  - simpl app. unfold strip. rewrite lstrip_space by exact H. reflexivity.
  - pose proof (stripped_strip _ S) as E. unfold strip in *.
    unfold stripped in S. apply andb_true_iff in S as [S1 _]. apply negb_true_iff in S1.
    simpl app. rewrite lstrip_head in * by exact S1.
    change (a :: x ++ [c]) with ((a :: x) ++ [c]). now rewrite rstrip_space_last.
Qed.

Lemma lstrip_nonempty y c : is_space c = false -> lstrip (y ++ [c]) <> [].
Proof.
  intros H. induction y as [|a y IH]; simpl.
  - rewrite H. discriminate.
  - destruct (is_space a); [exact IH|discriminate].
Qed.

Lemma strip_nonempty c x : is_space c = false -> strip (c :: x) <> [].
Proof.
  intros H. unfold strip. rewrite lstrip_head by exact H. unfold rstrip.
  simpl rev. intros E. apply (f_equal (@rev ascii)) in E. rewrite rev_involutive in E. simpl in E.
  now apply (lstrip_nonempty (rev x) c H).
Qed.

(* ------------------------------------------------------------------ take_while *)
Lemma take_while_all p k c r : forallb p k = true -> p c = false ->
  take_while p (k ++ c :: r) = (k, c :: r).
Proof.
  intros H N. induction k as [|a k IH]; simpl.
  - now rewrite N.
  - simpl in H. apply andb_true_iff in H as [Ha Hk]. rewrite Ha, (IH Hk). reflexivity.
Qed.

Lemma take_while_none p c r : p c = false -> take_while p (c :: r) = ([], c :: r).
Proof. intros N. simpl. now rewrite N. Qed.

(* ------------------------------------------------------------------ metadata keys *)
(* what the parsing lemmas need of an option name; checked for the whole schema below *)
Definition name_ok (k : str) : bool :=
  match k with
  | c :: _ =>
    forallb is_key_char k && negb (is_space c) && negb (is_blank c)
    && negb (Ascii.eqb "-"%char c) && negb (Ascii.eqb "."%char c) && seqb (strip (lower k)) k
  | [] => false
  end.

Lemma name_ok_inv k : name_ok k = true ->
  exists c r, k = c :: r /\ forallb is_key_char k = true /\ is_space c = false /\ is_blank c = false
              /\ Ascii.eqb "-"%char c = false /\ Ascii.eqb "."%char c = false /\ strip (lower k) = k.
Proof.
  unfold name_ok. destruct k as [|c r]; [discriminate|]. intros H.
  apply andb_true_iff in H as [H H0]. apply andb_true_iff in H as [H H1].
  apply andb_true_iff in H as [H H2]. apply andb_true_iff in H as [H H3].
  apply andb_true_iff in H as [H H4].
  apply negb_true_iff in H1, H2, H3, H4. apply seqb_eq in H0.
  exists c, r. repeat split; assumption.
Qed.

Definition colon : ascii := ":"%char.

Lemma match_meta_first k v : name_ok k = true -> stripped v = true ->
  match_meta (k ++ colon :: " "%char :: v) = Some (k, v).
Proof.
  intros H S. destruct (name_ok_inv k H) as (c & r & -> & K & Sp & Bl & _ & _ & L).
  unfold match_meta. change ((c :: r) ++ colon :: " "%char :: v) with (c :: (r ++ colon :: " "%char :: v)).
  rewrite take_while_none by exact Bl.
  change (3 <? length (@nil ascii)) with false. cbv iota.
  change (c :: r ++ colon :: " "%char :: v) with ((c :: r) ++ colon :: " "%char :: v).
  rewrite (take_while_all is_key_char (c :: r) colon (" "%char :: v) K) by reflexivity.
  change (code colon =? 58) with true. cbv iota. rewrite L.
  rewrite strip_space_head by reflexivity. now rewrite stripped_strip.
Qed.

Lemma match_meta_bare k : name_ok k = true -> match_meta (k ++ [colon]) = Some (k, []).
Proof.
  intros H. destruct (name_ok_inv k H) as (c & r & -> & K & Sp & Bl & _ & _ & L).
  unfold match_meta. change ((c :: r) ++ [colon]) with (c :: (r ++ [colon])).
  rewrite take_while_none by exact Bl.
  change (3 <? length (@nil ascii)) with false. cbv iota.
  change (c :: r ++ [colon]) with ((c :: r) ++ colon :: []).
  rewrite (take_while_all is_key_char (c :: r) colon [] K) by reflexivity.
  change (code colon =? 58) with true. cbv iota. now rewrite L.
Qed.

(* a line that starts with the first character of an option name is neither blank nor a fence *)
Lemma key_line_continues c r : is_space c = false -> Ascii.eqb "-"%char c = false ->
  Ascii.eqb "."%char c = false ->
  (seqb (strip (c :: r)) [] || end_re (c :: r)) = false /\ begin_re (c :: r) = false.
Proof.
  intros Sp D1 D2. split.
  - apply orb_false_iff. split.
    + apply seqb_neq. now apply strip_nonempty.
    + unfold end_re. change (s "---") with ("-"%char :: s "--"). change (s "...") with ("."%char :: s "..").
      cbn [prefix]. now rewrite D1, D2.
  - unfold begin_re. change (s "---") with ("-"%char :: s "--"). cbn [prefix]. now rewrite D1.
Qed.

Definition good_piece (x : str) : Prop := exists c r, x = c :: r /\ is_space c = false /\ stripped x = true.

Lemma good_piece_of x : piece x && nonempty x = true -> good_piece x.
Proof.
  intros H. apply andb_true_iff in H as [P N]. unfold piece in P. apply andb_true_iff in P as [_ S].
  destruct x as [|c r]; [discriminate|]. exists c, r. repeat split; auto.
  unfold stripped in S. apply andb_true_iff in S as [S _]. now apply negb_true_iff.
Qed.

Lemma take_blank4 c r : is_blank c = false -> take_while is_blank (indent ++ c :: r) = (indent, c :: r).
Proof. intros H. apply take_while_all; [reflexivity|exact H]. Qed.

Lemma more_line x : good_piece x ->
  let line := indent ++ x in
  (seqb (strip line) [] || end_re line) = false /\ match_meta line = None /\ match_more line = Some x.
Proof.
  intros (c & r & -> & Sp & S). cbv zeta.
  assert (Bl : is_blank c = false).
  { unfold is_blank. unfold is_space in Sp. apply orb_false_iff in Sp as [_ Sp].
    apply Nat.eqb_neq. intros E. rewrite E in Sp. discriminate. }
  repeat split.
  - apply orb_false_iff. split.
    + apply seqb_neq. change (indent ++ c :: r) with (" "%char :: " "%char :: " "%char :: " "%char :: c :: r).
      do 4 (rewrite strip_space_head by reflexivity). now apply strip_nonempty.
    + reflexivity.
  - unfold match_meta. rewrite (take_blank4 c r Bl). reflexivity.
  - unfold match_more. rewrite (take_blank4 c r Bl). change (4 <=? length indent) with true. cbv iota.
    now rewrite stripped_strip.
Qed.

(* meta_append *)
Lemma meta_append_new k v m : aget k m = None -> meta_append k v m = m ++ [(k, [v])].
Proof.
  induction m as [|[k' vs] m IH]; simpl; intros H; [reflexivity|].
  destruct (seqb k k'); [discriminate|]. now rewrite IH.
Qed.

Lemma meta_append_last k v vs m : aget k m = None ->
  meta_append k v (m ++ [(k, vs)]) = m ++ [(k, vs ++ [v])].
Proof.
  induction m as [|[k' vs'] m IH]; simpl; intros H.
  - now rewrite seqb_refl.
  - destruct (seqb k k'); [discriminate|]. now rewrite IH.
Qed.

Lemma meta_go_more k vs : forall acc m rest, aget k m = None -> Forall good_piece vs ->
  meta_go (map (fun x => indent ++ x) vs ++ rest) (Some k) (m ++ [(k, acc)])
  = meta_go rest (Some k) (m ++ [(k, acc ++ vs)]).
Proof.
  induction vs as [|x vs IH]; intros acc m rest Hk Hg.
  - simpl. now rewrite app_nil_r.
  - inversion Hg as [|? ? Hx Hvs]; subst.
    destruct (more_line x Hx) as (C & M1 & M2). cbv zeta in *.
    change (map (fun x0 => indent ++ x0) (x :: vs) ++ rest)
      with ((indent ++ x) :: (map (fun x0 => indent ++ x0) vs ++ rest)).
    cbn [meta_go]. rewrite C, M1, M2. rewrite meta_append_last by exact Hk.
    rewrite IH by assumption. now rewrite <- app_assoc.
Qed.

(* one metadata block "key: v" + continuation lines *)
Lemma meta_go_block k v vs rest key0 m :
  name_ok k = true -> stripped v = true -> Forall good_piece vs -> aget k m = None ->
  meta_go (md_block k (v :: vs) ++ rest) key0 m = meta_go rest (Some k) (m ++ [(k, v :: vs)]).
Proof.
  intros H S G Hk. unfold md_block.
  change (k ++ s ": " ++ v) with (k ++ colon :: " "%char :: v).
  pose proof (match_meta_first k v H S) as M.
  destruct (name_ok_inv k H) as (c & r & E & _ & Sp & _ & D1 & D2 & _).
  rewrite <- app_comm_cons. cbn [meta_go].
  assert (C : (seqb (strip (k ++ colon :: " "%char :: v)) [] || end_re (k ++ colon :: " "%char :: v)) = false).
  { rewrite E. now apply key_line_continues. }
  rewrite C, M. rewrite meta_append_new by exact Hk.
  now rewrite (meta_go_more k vs [v] m rest Hk G).
Qed.

Lemma meta_go_bare k rest key0 m :
  name_ok k = true -> aget k m = None ->
  meta_go (md_block k [] ++ rest) key0 m = meta_go rest (Some k) (m ++ [(k, [[]])]).
Proof.
  intros H Hk. unfold md_block. change (k ++ s ":") with (k ++ [colon]).
  pose proof (match_meta_bare k H) as M.
  destruct (name_ok_inv k H) as (c & r & E & _ & Sp & _ & D1 & D2 & _).
  cbn [app meta_go].
  assert (C : (seqb (strip (k ++ [colon])) [] || end_re (k ++ [colon])) = false).
  { rewrite E. now apply key_line_continues. }
  rewrite C, M. now rewrite meta_append_new by exact Hk.
Qed.

(* ------------------------------------------------------------------ association lists *)
Lemma aset_new {V} k (v : V) m : aget k m = None -> aset k v m = m ++ [(k, v)].
Proof.
  induction m as [|[k' v'] m IH]; simpl; intros H; [reflexivity|].
  destruct (seqb k k'); [discriminate|]. now rewrite IH.
Qed.

Lemma aget_app_none {V} k k' (v : V) m : aget k m = None -> k <> k' -> aget k (m ++ [(k', v)]) = None.
Proof.
  intros H N. induction m as [|[k2 v2] m IH]; simpl in *.
  - apply seqb_neq in N. now rewrite N.
  - destruct (seqb k k2); [discriminate|]. now apply IH.
Qed.

Lemma sin_true_neq k k' l : sin k l = false -> sin k' l = true -> k' <> k.
Proof. intros H1 H2 E. subst. congruence. Qed.

Lemma fold_aset_nodup {V} (l : list (str * V)) : forall acc,
  nodup_strs (map fst l) = true ->
  (forall k, sin k (map fst l) = true -> aget k acc = None) ->
  fold_left (fun d kv => aset (fst kv) (snd kv) d) l acc = acc ++ l.
Proof.
  induction l as [|[k v] l IH]; intros acc N H; simpl.
  - now rewrite app_nil_r.
  - simpl in N. apply andb_true_iff in N as [N1 N2]. apply negb_true_iff in N1.
    rewrite aset_new.
    2:{ apply H. simpl. now rewrite seqb_refl. }
    rewrite IH; [now rewrite <- app_assoc|exact N2|].
    intros k2 Hk2. apply aget_app_none.
    + apply H. simpl. rewrite Hk2. now destruct (seqb k2 k).
    + now apply (sin_true_neq k k2 (map fst l)).
Qed.

Lemma dict_of_pairs_nodup l : nodup_strs (map fst l) = true -> dict_of_pairs l = PDict l.
Proof.
  intros N. unfold dict_of_pairs. rewrite fold_aset_nodup; [reflexivity|exact N|reflexivity].
Qed.

(* ------------------------------------------------------------------ conversion of the markdown form *)
Lemma all_strs_map l : all_strs (map PStr l) = Some l.
Proof. induction l as [|x l IH]; simpl; [reflexivity|]. now rewrite IH. Qed.

Lemma mapM_ok {A B} (f : A -> res B) (g : A -> B) l :
  (forall x, In x l -> f x = Ok (g x)) -> mapM f l = Ok (map g l).
Proof.
  induction l as [|x l IH]; intros H; simpl; [reflexivity|].
  rewrite (H x (or_introl eq_refl)). simpl. rewrite IH; [reflexivity|].
  intros y Hy. apply H. now right.
Qed.

Lemma mapM_map_ok {A B C} (f : B -> res C) (h : A -> B) (g : A -> C) l :
  (forall x, In x l -> f (h x) = Ok (g x)) -> mapM f (map h l) = Ok (map g l).
Proof.
  induction l as [|x l IH]; intros H; simpl; [reflexivity|].
  rewrite (H x (or_introl eq_refl)). simpl. rewrite IH; [reflexivity|].
  intros y Hy. apply H. now right.
Qed.

Lemma split_once_app sep a b : existsb (Ascii.eqb sep) a = false ->
  split_once sep (a ++ sep :: b) = Some (a, b).
Proof.
  induction a as [|c a IH]; simpl; intros H.
  - now rewrite Ascii.eqb_refl.
  - apply orb_false_iff in H as [H1 H2]. rewrite Ascii.eqb_sym in H1. rewrite H1.
    now rewrite (IH H2).
Qed.

Lemma split_ws_go_token t : forall r cur, existsb is_space t = false ->
  split_ws_go (t ++ r) cur = split_ws_go r (rev t ++ cur).
Proof.
  induction t as [|c t IH]; intros r cur H; simpl; [reflexivity|].
  simpl in H. apply orb_false_iff in H as [H1 H2]. rewrite H1.
  rewrite (IH r (c :: cur) H2). now rewrite <- app_assoc.
Qed.

Definition sp : ascii := " "%char.

Lemma token_inv x : token x = true -> x <> [] /\ existsb is_space x = false.
Proof.
  unfold token. intros H. apply andb_true_iff in H as [H1 H2]. apply negb_true_iff in H2.
  split; [destruct x; [discriminate|discriminate]|exact H2].
Qed.

Lemma split_ws_tail c : token c = true -> split_ws_go c [] = [c].
Proof.
  intros H. destruct (token_inv c H) as [N E].
  rewrite <- (app_nil_r c) at 1. rewrite split_ws_go_token by exact E.
  rewrite app_nil_r. simpl. destruct (rev c) eqn:R.
  - apply (f_equal (@rev ascii)) in R. rewrite rev_involutive in R. simpl in R. congruence.
  - rewrite <- R. now rewrite rev_involutive.
Qed.

Lemma split_ws_head e r : token e = true ->
  split_ws_go (e ++ sp :: r) [] = e :: split_ws_go r [].
Proof.
  intros H. destruct (token_inv e H) as [N E].
  rewrite split_ws_go_token by exact E. rewrite app_nil_r.
  cbn [split_ws_go]. change (is_space sp) with true. cbv iota.
  destruct (rev e) eqn:R.
  - apply (f_equal (@rev ascii)) in R. rewrite rev_involutive in R. simpl in R. congruence.
  - rewrite <- R. now rewrite rev_involutive.
Qed.

Lemma split_ws_two e c : token e = true -> token c = true -> split_ws (e ++ s " " ++ c) = [e; c].
Proof.
  intros He Hc. unfold split_ws. change (e ++ s " " ++ c) with (e ++ sp :: c).
  rewrite split_ws_head by exact He. now rewrite split_ws_tail.
Qed.

Lemma split_ws_three e c l : token e = true -> token c = true -> token l = true ->
  split_ws (e ++ s " " ++ c ++ s " " ++ l) = [e; c; l].
Proof.
  intros He Hc Hl. unfold split_ws. change (e ++ s " " ++ c ++ s " " ++ l) with (e ++ sp :: (c ++ sp :: l)).
  rewrite split_ws_head by exact He. rewrite split_ws_head by exact Hc. now rewrite split_ws_tail.
Qed.

(* the list of metadata strings that meta_preprocessor extracts for a value *)
Definition md_raw (key : str) (v : aval) : list str :=
  match md_values key v with [] => [[]] | l => l end.

Definition ft_entry (t : str * str * option str) : str * pv :=
  match t with (e, c, l) => (e, PFT e c l) end.

(* what the conversion of the markdown form yields *)
Definition md_conv (v : aval) : pv :=
  match v with
  | VOne x => PList [PStr x]
  | VFT l => PDict (map ft_entry l)
  | _ => enc_toml v
  end.

Lemma pieces_nonempty l : pieces l = true -> l <> [].
Proof. destruct l; [discriminate|discriminate]. Qed.

Lemma md_raw_list key v l : md_values key v = l -> l <> [] -> md_raw key v = l.
Proof. unfold md_raw. intros -> N. destruct l; [congruence|reflexivity]. Qed.

Lemma piece_stripped x : piece x = true -> stripped x = true.
Proof. unfold piece. intros H. now apply andb_true_iff in H as [_ H]. Qed.

Lemma convert_dict_entries key sep (d : list (str * str)) :
  aget key option_separators = Some [sep] -> is_space sep = false ->
  forallb (fun kv => piece (fst kv) && piece (snd kv) && negb (existsb (Ascii.eqb sep) (fst kv))) d = true ->
  nodup_strs (map fst d) = true ->
  convert_to_dict TDictStr key (PList (map PStr (map (fun kv => fst kv ++ [sep] ++ snd kv) d)))
  = Ok (PDict (map (fun kv => (fst kv, PStr (snd kv))) d)).
Proof.
  intros Hs Hsp Hd Hn. unfold convert_to_dict. cbn [bind]. rewrite Hs.
  set (lines := map (fun kv => fst kv ++ [sep] ++ snd kv) d).
  assert (F : filter py_truthy (map PStr lines) = map PStr lines).
  { unfold lines. clear. induction d as [|[k v] d IH]; [reflexivity|].
    cbn [map filter fst snd]. destruct (k ++ [sep] ++ v) eqn:E.
    - destruct k; discriminate.
    - cbn [py_truthy]. now rewrite IH. }
  rewrite F. unfold lines. rewrite !map_map.
  rewrite (mapM_map_ok _ _ (fun kv => (fst kv, PStr (snd kv)))).
  - cbn [bind]. rewrite dict_of_pairs_nodup; [reflexivity|]. now rewrite map_map.
  - intros [k v] Hin. rewrite forallb_forall in Hd. specialize (Hd _ Hin). cbn [fst snd] in *.
    apply andb_true_iff in Hd as [Hd H3]. apply andb_true_iff in Hd as [H1 H2].
    apply negb_true_iff in H3. unfold parse_entry.
    change (k ++ [sep] ++ v) with (k ++ sep :: v).
    rewrite split_once_app by exact H3.
    rewrite !stripped_strip by now apply piece_stripped.
    reflexivity.
Qed.

Lemma ft_line_ok key t :
  (match t with
   | (e, c, None) => token e && token c
   | (e, c, Some x) => token e && token c && token x
   end) = true ->
  file_type_from_string key (PStr (ft_line t)) = Ok (ft_entry t).
Proof.
  destruct t as [[e c] [l|]]; intros H; unfold file_type_from_string, ft_line.
  - apply andb_true_iff in H as [H Hl]. apply andb_true_iff in H as [He Hc].
    now rewrite split_ws_three.
  - apply andb_true_iff in H as [He Hc]. now rewrite split_ws_two.
Qed.

Lemma convert_ft_entries key (l : list (str * str * option str)) :
  forallb (fun t => match t with
                    | (e, c, None) => token e && token c
                    | (e, c, Some x) => token e && token c && token x
                    end) l = true ->
  nodup_strs (map (fun t => fst (fst t)) l) = true ->
  convert_to_dict TDictFT key (PList (map PStr (map ft_line l))) = Ok (PDict (map ft_entry l)).
Proof.
  intros Hl Hn. unfold convert_to_dict. cbn [bind].
  assert (F : filter py_truthy (map PStr (map ft_line l)) = map PStr (map ft_line l)).
  { clear Hn. induction l as [|t l IH]; [reflexivity|].
    cbn [forallb] in Hl. apply andb_true_iff in Hl as [Ht Hl].
    cbn [map filter]. destruct (ft_line t) eqn:E.
    - destruct t as [[e c] [x|]]; unfold ft_line in E.
      + apply andb_true_iff in Ht as [Ht _]. apply andb_true_iff in Ht as [He _].
        destruct (token_inv e He) as [N _]. destruct e; [congruence|discriminate].
      + apply andb_true_iff in Ht as [He _].
        destruct (token_inv e He) as [N _]. destruct e; [congruence|discriminate].
    - cbn [py_truthy]. now rewrite (IH Hl). }
  rewrite F, !map_map.
  rewrite (mapM_map_ok _ _ ft_entry).
  - cbn [bind]. rewrite dict_of_pairs_nodup; [reflexivity|].
    rewrite map_map. erewrite map_ext; [exact Hn|]. now intros [[e c] x].
  - intros t Hin. rewrite forallb_forall in Hl. apply ft_line_ok. now apply Hl.
Qed.

Lemma convert_empty_dict t key : (t = TDictStr \/ t = TDictFT) ->
  (t = TDictStr -> exists sep, aget key option_separators = Some [sep]) ->
  convert_to_dict t key (PList [PStr []]) = Ok (PDict []).
Proof.
  intros [-> | ->] H; unfold convert_to_dict; cbn [bind filter py_truthy].
  - destruct (H eq_refl) as (sep & ->). reflexivity.
  - reflexivity.
Qed.

Theorem convert_md_value key t v :
  wt_value key t v = true ->
  convert_setting t key (PList (map PStr (md_raw key v))) = Ok (md_conv v).
Proof.
  intros W. destruct v as [b|z|ls|l|x|d|l].
  - (* bool *) destruct t; try discriminate W. destruct b; reflexivity.
  - (* int *)
    destruct t; try discriminate W;
      (unfold md_raw, md_values, convert_setting; cbn [same_type map];
       unfold convert_to_int; now rewrite py_int_str_of_Z).
  - (* str *)
    assert (P : pieces ls = true).
    { destruct t; try discriminate W; now apply andb_true_iff in W as [W _]. }
    rewrite (md_raw_list key (VStr ls) ls eq_refl (pieces_nonempty _ P)).
    destruct t; try discriminate W;
      (unfold convert_setting; cbn [same_type]; now rewrite all_strs_map).
  - (* list *)
    assert (P : pieces l = true) by (destruct t; try discriminate W; exact W).
    rewrite (md_raw_list key (VList l) l eq_refl (pieces_nonempty _ P)).
    destruct t; try discriminate W; reflexivity.
  - (* one *) destruct t; try discriminate W; reflexivity.
  - (* dict *)
    destruct t; try discriminate W. cbn [wt_value] in W.
    destruct (aget key option_separators) as [[|sep [|? ?]]|] eqn:Hs; try discriminate W.
    apply andb_true_iff in W as [W Hn]. apply andb_true_iff in W as [Hsp Hd].
    apply negb_true_iff in Hsp.
    unfold convert_setting. cbn [same_type]. cbv iota.
    assert (Sep : sep_of key = [sep]) by (unfold sep_of; now rewrite Hs).
    destruct d as [|kv d].
    + change (md_raw key (VDict [])) with [@nil ascii]. cbn [map]. apply convert_empty_dict; eauto.
    + rewrite (md_raw_list key (VDict (kv :: d)) _ eq_refl) by discriminate.
      cbn [md_values]. rewrite Sep.
      now apply (convert_dict_entries key sep (kv :: d)).
  - (* file types *)
    destruct t; try discriminate W. cbn [wt_value] in W.
    apply andb_true_iff in W as [Hl Hn].
    unfold convert_setting. cbn [same_type]. cbv iota.
    destruct l as [|t l].
    + change (md_raw key (VFT [])) with [@nil ascii]. cbn [map]. apply convert_empty_dict; auto.
      intros E; discriminate E.
    + rewrite (md_raw_list key (VFT (t :: l)) _ eq_refl) by discriminate.
      now apply convert_ft_entries.
Qed.

(* ------------------------------------------------------------------ shape of the markdown values *)
Lemma last_in (x : str) d : x <> [] -> In (last x d) x.
Proof.
  intros N. destruct (exists_last N) as (y & a & ->). rewrite last_last. apply in_or_app. right. now left.
Qed.

Lemma nospace_stripped x : forallb (fun c => negb (is_space c)) x = true -> stripped x = true.
Proof.
  intros H. destruct x as [|c r]; [reflexivity|]. unfold stripped.
  rewrite forallb_forall in H. apply andb_true_iff. split.
  - apply H. now left.
  - apply H. apply last_in. discriminate.
Qed.

Lemma stripped_ends (a b : str) c r d :
  a = c :: r -> is_space c = false -> b <> [] -> is_space (last b d) = false -> stripped (a ++ b) = true.
Proof.
  intros -> Hc Nb Hl. unfold stripped. cbn [app]. apply andb_true_iff. split; [now rewrite Hc|].
  apply negb_true_iff. change (c :: r ++ b) with ((c :: r) ++ b).
  destruct (exists_last Nb) as (b' & z & ->). rewrite last_last in Hl.
  rewrite app_assoc, last_last. exact Hl.
Qed.

Lemma last_app (a b : str) d : b <> [] -> last (a ++ b) d = last b d.
Proof.
  intros N. destruct (exists_last N) as (b' & z & ->). now rewrite app_assoc, !last_last.
Qed.

Lemma str_of_Z_nospace z : forallb (fun c => negb (is_space c)) (str_of_Z z) = true.
Proof.
  assert (D : forall ds, forallb is_digit ds = true -> forallb (fun c => negb (is_space c)) ds = true).
  { intros ds H. apply forallb_forall. intros c Hc. rewrite forallb_forall in H.
    apply negb_true_iff. now apply digit_not_space, H. }
  destruct z as [|p|p]; [reflexivity| |]; unfold str_of_Z;
    destruct (pos_digits_ok p) as (ds & E & _ & Dg & _); rewrite E.
  - now apply D.
  - cbn [forallb]. now rewrite (D ds Dg).
Qed.

Lemma str_of_Z_nonempty z : str_of_Z z <> [].
Proof.
  destruct z as [|p|p]; [discriminate| |discriminate].
  unfold str_of_Z. destruct (pos_digits_ok p) as (ds & E & N & _). now rewrite E.
Qed.

Definition good_values (vals : list str) : Prop :=
  match vals with
  | [] => True
  | v :: vs => stripped v = true /\ Forall good_piece vs
  end.

Lemma pieces_good l : pieces l = true -> good_values l.
Proof.
  destruct l as [|x l]; [discriminate|]. unfold pieces. intros H. apply andb_true_iff in H as [H1 H2].
  split; [now apply piece_stripped|].
  apply Forall_forall. intros y Hy. rewrite forallb_forall in H2. now apply good_piece_of, H2.
Qed.

Lemma good_piece_intro x c r : x = c :: r -> is_space c = false -> stripped x = true -> good_piece x.
Proof. intros. exists c, r. auto. Qed.

Lemma token_first e : token e = true -> exists c r, e = c :: r /\ is_space c = false.
Proof.
  intros H. destruct (token_inv e H) as [N E]. destruct e as [|c r]; [congruence|].
  exists c, r. split; [reflexivity|]. simpl in E. now apply orb_false_iff in E as [E _].
Qed.

Lemma token_last e d : token e = true -> is_space (last e d) = false.
Proof.
  intros H. destruct (token_inv e H) as [N E].
  pose proof (last_in e d N) as I.
  destruct (is_space (last e d)) eqn:S; [|reflexivity].
  exfalso. assert (existsb is_space e = true) by (apply existsb_exists; eauto). congruence.
Qed.

Lemma ft_line_good t :
  (match t with
   | (e, c, None) => token e && token c
   | (e, c, Some x) => token e && token c && token x
   end) = true -> good_piece (ft_line t) /\ stripped (ft_line t) = true.
Proof.
  destruct t as [[e c] [l|]]; intros H; unfold ft_line.
  - apply andb_true_iff in H as [H Hl]. apply andb_true_iff in H as [He Hc].
    destruct (token_first e He) as (a & r & E & Sa).
    assert (S : stripped (e ++ s " " ++ c ++ s " " ++ l) = true).
    { apply (stripped_ends e _ a r a E Sa).
      - discriminate.
      - destruct (token_inv l Hl) as [Nl _].
        rewrite last_app by (destruct c; discriminate). rewrite last_app by discriminate.
        rewrite last_app by exact Nl. now apply token_last. }
    split; [|exact S]. subst e. now apply (good_piece_intro _ a (r ++ s " " ++ c ++ s " " ++ l)).
  - apply andb_true_iff in H as [He Hc].
    destruct (token_first e He) as (a & r & E & Sa).
    assert (S : stripped (e ++ s " " ++ c) = true).
    { apply (stripped_ends e _ a r a E Sa).
      - discriminate.
      - destruct (token_inv c Hc) as [Nc _].
        rewrite last_app by exact Nc. now apply token_last. }
    split; [|exact S]. subst e. now apply (good_piece_intro _ a (r ++ s " " ++ c)).
Qed.

Lemma dict_line_good sep k v : is_space sep = false -> piece k = true -> piece v = true ->
  good_piece (k ++ [sep] ++ v) /\ stripped (k ++ [sep] ++ v) = true.
Proof.
  intros Hs Hk Hv. apply piece_stripped in Hk, Hv.
  assert (S : stripped (k ++ [sep] ++ v) = true).
  { destruct k as [|a r].
    - cbn [app]. destruct v as [|b w].
      + unfold stripped. cbn [last]. now rewrite Hs.
      + apply (stripped_ends [sep] (b :: w) sep [] sep eq_refl Hs); [discriminate|].
        unfold stripped in Hv. apply andb_true_iff in Hv as [_ Hv]. apply negb_true_iff in Hv.
        now rewrite (last_indep (b :: w) sep b) by discriminate.
    - unfold stripped in Hk. apply andb_true_iff in Hk as [Ha _]. apply negb_true_iff in Ha.
      apply (stripped_ends (a :: r) ([sep] ++ v) a r a eq_refl Ha); [discriminate|].
      destruct v as [|b w].
      + exact Hs.
      + change ([sep] ++ b :: w) with (sep :: b :: w). change (last (sep :: b :: w) a) with (last (b :: w) a).
        unfold stripped in Hv. apply andb_true_iff in Hv as [_ Hv]. apply negb_true_iff in Hv.
        now rewrite (last_indep (b :: w) a b) by discriminate. }
  split; [|exact S].
  destruct k as [|a r].
  - apply (good_piece_intro _ sep v); auto.
  - unfold stripped in Hk. apply andb_true_iff in Hk as [Ha _]. apply negb_true_iff in Ha.
    apply (good_piece_intro _ a (r ++ [sep] ++ v)); auto.
Qed.

Lemma good_values_of_lines (lines : list str) :
  (forall x, In x lines -> good_piece x /\ stripped x = true) -> good_values lines.
Proof.
  destruct lines as [|x l]; [exact (fun _ => I)|]. intros H. split.
  - apply H. now left.
  - apply Forall_forall. intros y Hy. apply H. now right.
Qed.

Lemma md_values_good key t v : wt_value key t v = true -> good_values (md_values key v).
Proof.
  intros W. destruct v as [b|z|ls|l|x|d|l]; cbn [md_values].
  - split; [destruct b; reflexivity|constructor].
  - split; [apply nospace_stripped, str_of_Z_nospace|constructor].
  - apply pieces_good. destruct t; try discriminate W; now apply andb_true_iff in W as [W _].
  - apply pieces_good. destruct t; try discriminate W; exact W.
  - split; [|constructor]. apply piece_stripped. destruct t; try discriminate W; exact W.
  - destruct t; try discriminate W. cbn [wt_value] in W.
    destruct (aget key option_separators) as [[|sep [|? ?]]|] eqn:Hs; try discriminate W.
    apply andb_true_iff in W as [W Hn]. apply andb_true_iff in W as [Hsp Hd].
    apply negb_true_iff in Hsp.
    assert (Sep : sep_of key = [sep]) by (unfold sep_of; now rewrite Hs). rewrite Sep.
    apply good_values_of_lines. intros x Hx. apply in_map_iff in Hx as ([k v] & <- & Hin).
    rewrite forallb_forall in Hd. specialize (Hd _ Hin). cbn [fst snd] in *.
    apply andb_true_iff in Hd as [Hd _]. apply andb_true_iff in Hd as [H1 H2].
    now apply dict_line_good.
  - destruct t; try discriminate W. cbn [wt_value] in W. apply andb_true_iff in W as [Hl _].
    apply good_values_of_lines. intros x Hx. apply in_map_iff in Hx as (t & <- & Hin).
    rewrite forallb_forall in Hl. now apply ft_line_good, Hl.
Qed.

(* ------------------------------------------------------------------ meta_preprocessor on the encoding *)
Lemma meta_go_enc key t v rest key0 m :
  name_ok key = true -> wt_value key t v = true -> aget key m = None ->
  meta_go (enc_md key v ++ rest) key0 m = meta_go rest (Some key) (m ++ [(key, md_raw key v)]).
Proof.
  intros Hn W Hk. pose proof (md_values_good key t v W) as G.
  unfold enc_md, md_raw. destruct (md_values key v) as [|x vs].
  - now apply meta_go_bare.
  - destruct G as [S F]. now apply meta_go_block.
Qed.

Definition raw_all (kvs : list (str * aval)) : list (str * list str) :=
  map (fun kv => (fst kv, md_raw (fst kv) (snd kv))) kvs.

Definition wt_typed (kv : str * aval) : Prop :=
  exists t, field_ty (fst kv) = Some t /\ wt_value (fst kv) t (snd kv) = true /\ name_ok (fst kv) = true.

Lemma aget_app_none_list {V} k (m : list (str * V)) k' v :
  aget k m = None -> seqb k k' = false -> aget k (m ++ [(k', v)]) = None.
Proof. intros H N. apply aget_app_none; [exact H|]. now apply seqb_neq. Qed.

Lemma meta_go_all kvs : forall key0 m,
  Forall wt_typed kvs -> nodup_strs (map fst kvs) = true ->
  (forall k, sin k (map fst kvs) = true -> aget k m = None) ->
  meta_go (enc_md_all kvs) key0 m = m ++ raw_all kvs.
Proof.
  induction kvs as [|[k v] kvs IH]; intros key0 m W N H.
  - simpl. now rewrite app_nil_r.
  - inversion W as [|? ? (t & Ht & Wv & Hn) Wr]; subst. cbn [fst snd] in *.
    simpl in N. apply andb_true_iff in N as [N1 N2]. apply negb_true_iff in N1.
    change (enc_md_all ((k, v) :: kvs)) with (enc_md k v ++ enc_md_all kvs).
    rewrite (meta_go_enc k t v) by (auto; apply H; simpl; now rewrite seqb_refl).
    rewrite IH; [|exact Wr|exact N2|].
    + unfold raw_all. cbn [map fst snd]. now rewrite <- app_assoc.
    + intros k2 Hk2. apply aget_app_none.
      * apply H. simpl. rewrite Hk2. now destruct (seqb k2 k).
      * now apply (sin_true_neq k k2 (map fst kvs)).
Qed.

Lemma enc_md_first_line key t v : name_ok key = true -> wt_value key t v = true ->
  exists l0 rest, enc_md key v = l0 :: rest /\ begin_re l0 = false.
Proof.
  intros Hn W. destruct (name_ok_inv key Hn) as (c & r & E & _ & Sp & _ & D1 & D2 & _).
  unfold enc_md, md_block. destruct (md_values key v) as [|x vs]; eexists; eexists; (split; [reflexivity|]);
    rewrite E; now apply (key_line_continues c).
Qed.

Theorem meta_enc_md_all kvs :
  Forall wt_typed kvs -> nodup_strs (map fst kvs) = true ->
  meta_preprocessor (enc_md_all kvs) = raw_all kvs.
Proof.
  intros W N. destruct kvs as [|[k v] kvs]; [reflexivity|].
  inversion W as [|? ? (t & Ht & Wv & Hn) Wr]; subst. cbn [fst snd] in *.
  destruct (enc_md_first_line k t v Hn Wv) as (l0 & rest & E & B).
  assert (M : forall lines, meta_preprocessor ((l0 :: rest) ++ lines) = meta_go ((l0 :: rest) ++ lines) None []).
  { intros lines. unfold meta_preprocessor. cbn [app]. now rewrite B. }
  change (enc_md_all ((k, v) :: kvs)) with (enc_md k v ++ enc_md_all kvs).
  rewrite E, M, <- E.
  change (enc_md k v ++ enc_md_all kvs) with (enc_md_all ((k, v) :: kvs)).
  rewrite (meta_go_all ((k, v) :: kvs) None []); auto.
Qed.

(* ------------------------------------------------------------------ convert_meta on the extracted values *)
Definition conv_all (kvs : list (str * aval)) : list (str * pv) :=
  map (fun kv => (fst kv, md_conv (snd kv))) kvs.

Lemma convert_meta_all kvs : Forall wt_typed kvs -> convert_meta (raw_all kvs) = Ok (conv_all kvs, []).
Proof.
  induction kvs as [|[k v] kvs IH]; intros W; [reflexivity|].
  inversion W as [|? ? (t & Ht & Wv & Hn) Wr]; subst. cbn [fst snd] in *.
  unfold raw_all. cbn [map convert_meta fst snd]. rewrite Ht.
  rewrite (convert_md_value k t v Wv). cbn [bind]. fold (raw_all kvs). rewrite (IH Wr). reflexivity.
Qed.

Definition simple_value (v : aval) : bool :=
  match v with VOne _ | VFT _ => false | _ => true end.

Lemma conv_all_simple kvs : forallb (fun kv => simple_value (snd kv)) kvs = true -> conv_all kvs = enc_toml_all kvs.
Proof.
  induction kvs as [|[k v] kvs IH]; intros H; [reflexivity|].
  cbn [forallb snd] in H. apply andb_true_iff in H as [H1 H2].
  unfold conv_all, enc_toml_all. cbn [map fst snd]. fold (conv_all kvs) (enc_toml_all kvs).
  rewrite (IH H2). destruct v; try discriminate H1; reflexivity.
Qed.

Lemma include_like_conv k t v : wt_value k t v = true -> include_like (k, md_conv v) = false.
Proof.
  intros W. destruct v; try reflexivity. unfold include_like. cbn [snd md_conv enc_toml].
  destruct t; try discriminate W; apply andb_true_iff in W as [_ W]; now apply negb_true_iff.
Qed.

Lemma include_like_all kvs : Forall wt_typed kvs -> existsb include_like (conv_all kvs) = false.
Proof.
  induction kvs as [|[k v] kvs IH]; intros W; [reflexivity|].
  inversion W as [|? ? (t & Ht & Wv & Hn) Wr]; subst. cbn [fst snd] in *.
  unfold conv_all. cbn [map existsb fst snd]. fold (conv_all kvs).
  rewrite (include_like_conv k t v Wv). now apply IH.
Qed.

Theorem run_markdown_enc kvs extra :
  Forall wt_typed kvs -> nodup_strs (map fst kvs) = true ->
  run_markdown (enc_md_all kvs) extra = do st <- construct (kw_update (conv_all kvs) extra); Ok (st, []).
Proof.
  intros W N. unfold run_markdown. rewrite (meta_enc_md_all kvs W N), (convert_meta_all kvs W).
  cbn [bind fst snd]. now rewrite (include_like_all kvs W).
Qed.

(* ------------------------------------------------------------------ facts about the generated schema *)
Definition schema_names : list str := map f_name project_schema.

Definition schema_ok : bool :=
  forallb (fun f => name_ok (f_name f)) project_schema
  && nodup_strs schema_names
  && forallb (fun f => match field_ty (f_name f) with
                       | Some t => match t, f_ty f with
                                   | TBool, TBool | TInt, TInt | TStr, TStr | TPath, TPath | TListAny, TListAny
                                   | TOptStr, TOptStr | TOptPath, TOptPath | TOptInt, TOptInt
                                   | TListStr, TListStr | TListPath, TListPath
                                   | TDictStr, TDictStr | TDictFT, TDictFT => true
                                   | _, _ => false
                                   end
                       | None => false
                       end) project_schema
  && forallb (fun f => match f_ty f with
                       | TDictStr => match aget (f_name f) option_separators with
                                     | Some [sep] => negb (is_space sep)
                                     | _ => false
                                     end
                       | _ => true
                       end) project_schema
  && match construct [] with Ok _ => true | _ => false end.

Lemma schema_ok_true : schema_ok = true.
Proof. vm_compute. reflexivity. Qed.

Lemma find_field_name sch k f : find_field sch k = Some f -> f_name f = k /\ In f sch.
Proof.
  induction sch as [|g sch IH]; simpl; [discriminate|].
  destruct (seqb k (f_name g)) eqn:E.
  - intros [= <-]. apply seqb_eq in E. auto.
  - intros H. destruct (IH H). auto.
Qed.

Lemma schema_field_facts f : In f project_schema ->
  name_ok (f_name f) = true /\ field_ty (f_name f) = Some (f_ty f).
Proof.
  intros Hin. pose proof schema_ok_true as S. unfold schema_ok in S.
  apply andb_true_iff in S as [S _].
  apply andb_true_iff in S as [S _]. apply andb_true_iff in S as [S S3].
  apply andb_true_iff in S as [S1 _].
  split.
  - apply (proj1 (forallb_forall _ _) S1 f Hin).
  - pose proof (proj1 (forallb_forall _ _) S3 f Hin) as H. cbv beta in H. clear S1 S3 Hin.
    destruct (field_ty (f_name f)) as [t|]; [|discriminate H].
    destruct t, (f_ty f); try discriminate H; reflexivity.
Qed.

Lemma wt_option_typed kv : wt_option kv = true -> wt_typed kv.
Proof.
  unfold wt_option. destruct (find_field project_schema (fst kv)) as [f|] eqn:F; [|discriminate].
  intros W. destruct (find_field_name _ _ _ F) as [E Hin]. destruct (schema_field_facts f Hin) as [N T].
  rewrite E in *. exists (f_ty f). auto.
Qed.

Lemma wt_options_typed kvs : wt_options kvs = true ->
  Forall wt_typed kvs /\ nodup_strs (map fst kvs) = true.
Proof.
  unfold wt_options. intros H. apply andb_true_iff in H as [H N]. split; [|exact N].
  apply Forall_forall. intros kv Hin. rewrite forallb_forall in H. now apply wt_option_typed, H.
Qed.

(* ------------------------------------------------------------------ markdown = fpm.toml *)
(* the part of ford.initialize that follows load_settings *)
Definition after_load (i : input) (w0 : list str) (r : res (settings * list str)) : res (settings * list str) :=
  do r <- r;
  do st <- apply_cli (fst r) (i_cli i);
  do st <- normalise_paths (project_dir i) (i_ford i) st;
  do st <- exclude_output st;
  do st <- finish_arguments st;
  Ok (st, w0 ++ snd r).

Lemma effective_unfold i :
  effective i = let (cfg, w0) := drop_unknown (match i_cfg i with Some c => c | None => [] end) in
                after_load i w0 (load_settings (i_lines i) (i_toml i) cfg).
Proof. unfold effective, after_load. destruct (drop_unknown _). reflexivity. Qed.

(* all keys are options: nothing is dropped *)
Lemma drop_unknown_known kv : forallb (fun p => match field_ty (fst p) with Some _ => true | None => false end) kv = true ->
  drop_unknown kv = (kv, []).
Proof.
  induction kv as [|[k v] kv IH]; intros H; [reflexivity|].
  cbn [forallb fst] in H. apply andb_true_iff in H as [Hk H]. cbn [drop_unknown]. rewrite (IH H).
  destruct (field_ty k); [reflexivity|discriminate].
Qed.

Lemma enc_toml_known kvs : Forall wt_typed kvs ->
  forallb (fun p => match field_ty (fst p) with Some _ => true | None => false end) (enc_toml_all kvs) = true.
Proof.
  induction kvs as [|[k v] kvs IH]; intros W; [reflexivity|].
  inversion W as [|? ? (t & Ht & _) Wr]; subst. cbn [fst] in Ht.
  unfold enc_toml_all. cbn [map forallb fst]. rewrite Ht. now apply IH.
Qed.

Lemma kw_update_nil kw : kw_update kw [] = kw.
Proof. reflexivity. Qed.

Lemma kw_update_from_nil (kv : list (str * pv)) : nodup_strs (map fst kv) = true -> kw_update [] kv = kv.
Proof. intros N. unfold kw_update. now rewrite (fold_aset_nodup kv [] N) by reflexivity. Qed.

Lemma keys_enc_toml kvs : map fst (enc_toml_all kvs) = map fst kvs.
Proof. unfold enc_toml_all. rewrite map_map. reflexivity. Qed.

Lemma run_toml_known kvs : Forall wt_typed kvs ->
  run_toml (enc_toml_all kvs) [] = do st <- construct (enc_toml_all kvs); Ok (st, []).
Proof. intros W. unfold run_toml. now rewrite (drop_unknown_known _ (enc_toml_known kvs W)). Qed.

(* any set of distinct, well-typed options (no bare-scalar lists, no file types: those are covered
   per option below) *)
Theorem md_toml_agree_simple i kvs :
  wt_options kvs = true -> forallb (fun kv => simple_value (snd kv)) kvs = true ->
  effective_md i kvs = effective_toml i kvs.
Proof.
  intros W S. destruct (wt_options_typed kvs W) as [T N].
  unfold effective_md, effective_toml. rewrite !effective_unfold.
  cbn [i_cfg i_lines i_toml i_cli drop_unknown load_settings].
  rewrite (run_markdown_enc kvs [] T N), kw_update_nil, (run_toml_known kvs T).
  now rewrite (conv_all_simple kvs S).
Qed.

(* bare scalar for a list option: both forms are wrapped by __post_init__ *)
Definition one_ok (f : field) : Prop :=
  is_list_ty (f_ty f) = true ->
  forall x, wrap_lists (set_relative (overlay defaults [(f_name f, PList [PStr x])]))
            = wrap_lists (set_relative (overlay defaults [(f_name f, PStr x)]))
            /\ first_bad_key [(f_name f, PList [PStr x])] = first_bad_key [(f_name f, PStr x)].

Lemma one_ok_all : Forall one_ok project_schema.
Proof.
  unfold project_schema.
  repeat (apply Forall_cons;
          [unfold one_ok; cbn [f_name f_ty is_list_ty]; intros L x;
           first [discriminate L | split; vm_compute; reflexivity]|]).
  apply Forall_nil.
Qed.

Lemma construct_one f x : In f project_schema -> is_list_ty (f_ty f) = true ->
  construct [(f_name f, PList [PStr x])] = construct [(f_name f, PStr x)].
Proof.
  intros Hin L. pose proof one_ok_all as A. rewrite Forall_forall in A.
  destruct (A f Hin L x) as [E1 E2]. unfold construct, post_init, post_checked. now rewrite E1, E2.
Qed.

(* file types: a dict of ExtraFileType (markdown) and a list of tables (TOML) *)
Definition post_defaults : settings := match construct [] with Ok st => st | Err _ _ _ | Unmodelled _ => [] end.

Definition ft_ok (f : field) : Prop :=
  f_ty f = TDictFT ->
  (forall X, first_bad_key [(f_name f, X)] = None) /\
  (forall X, post_checked (overlay defaults [(f_name f, X)])
             = Ok (sset (f_name f) X post_defaults)) /\
  aget (f_name f) post_defaults <> None /\ seqb (f_name f) (s "extra_filetypes") = true.

Lemma ft_ok_all : Forall ft_ok project_schema.
Proof.
  unfold project_schema.
  repeat (apply Forall_cons;
          [unfold ft_ok; cbn [f_name f_ty]; intros L;
           first [discriminate L
                 | split; [intros X; vm_compute; reflexivity|];
                   split; [intros X; vm_compute; reflexivity|];
                   split; [vm_compute; discriminate|vm_compute; reflexivity]]|]).
  apply Forall_nil.
Qed.

Lemma sset_sset k v v' st : sset k v (sset k v' st) = sset k v st.
Proof.
  induction st as [|[k' w] st IH]; simpl; [reflexivity|].
  destruct (seqb k k') eqn:E; simpl.
  - now rewrite seqb_refl.
  - now rewrite E, IH.
Qed.

Lemma file_type_of_ft_dict t : file_type_of_dict (ft_dict t) = Ok (ft_entry t).
Proof. destruct t as [[e c] [l|]]; reflexivity. Qed.

Lemma construct_ft f (l : list (str * str * option str)) : In f project_schema -> f_ty f = TDictFT ->
  nodup_strs (map (fun t => fst (fst t)) l) = true ->
  construct [(f_name f, PDict (map ft_entry l))] = construct [(f_name f, PList (map ft_dict l))].
Proof.
  intros Hin T N. pose proof ft_ok_all as A. rewrite Forall_forall in A.
  destruct (A f Hin T) as (B & C & D & E). apply seqb_eq in E.
  unfold construct. rewrite !B. unfold post_init. rewrite !C. cbn [bind].
  unfold filetypes_step. rewrite <- E. rewrite !sget_sset_same by exact D.
  rewrite (mapM_map_ok _ _ ft_entry) by (intros; apply file_type_of_ft_dict).
  cbn [bind]. rewrite dict_of_pairs_nodup.
  - now rewrite sset_sset.
  - rewrite map_map. erewrite map_ext; [exact N|]. now intros [[e c] x].
Qed.

(* every option of the schema, every well-typed value *)
Theorem md_toml_agree_single i k v :
  wt_option (k, v) = true -> effective_md i [(k, v)] = effective_toml i [(k, v)].
Proof.
  intros W.
  assert (Ws : wt_options [(k, v)] = true).
  { unfold wt_options. cbn [forallb map nodup_strs fst sin]. now rewrite W. }
  destruct (simple_value v) eqn:S.
  - apply md_toml_agree_simple; [exact Ws|]. cbn [forallb snd]. now rewrite S.
  - destruct (wt_options_typed _ Ws) as [T N].
    unfold effective_md, effective_toml. rewrite !effective_unfold.
    cbn [i_cfg i_lines i_toml i_cli drop_unknown load_settings].
    rewrite (run_markdown_enc _ [] T N), kw_update_nil, (run_toml_known _ T).
    unfold conv_all, enc_toml_all. cbn [map fst snd].
    unfold wt_option in W. cbn [fst snd] in W.
    destruct (find_field project_schema k) as [f|] eqn:F; [|discriminate].
    destruct (find_field_name _ _ _ F) as [E Hin]. subst k.
    destruct v; try discriminate S.
    + (* VOne *) cbn [md_conv enc_toml].
      rewrite (construct_one f item Hin); [reflexivity|].
      destruct (f_ty f); try discriminate W; reflexivity.
    + (* VFT *) cbn [md_conv enc_toml].
      destruct (f_ty f) eqn:Tf; try discriminate W. cbn [wt_value] in W.
      apply andb_true_iff in W as [_ Nd].
      now rewrite (construct_ft f types Hin Tf Nd).
Qed.

(* field k of an outcome has value v *)
Definition field_is (r : res (settings * list str)) (k : str) (v : pv) : bool :=
  match r with Ok (st, _) => pv_eqb (sget k st) v | _ => false end.

(* ------------------------------------------------------------------ fpm.toml = --config *)
Lemma construct_defaults : construct [] = Ok post_defaults.
Proof. vm_compute. reflexivity. Qed.

Lemma run_markdown_nil extra : run_markdown [] extra = do st <- construct (kw_update [] extra); Ok (st, []).
Proof. reflexivity. Qed.

(* the --config options join the (empty) options of the file before the settings are built: every set
   of distinct options, whatever the values, gives what the same table in fpm.toml gives *)
Theorem toml_config_agree i kvs :
  wt_options kvs = true -> effective_toml i kvs = effective_config i kvs.
Proof.
  intros W. destruct (wt_options_typed kvs W) as [T N].
  unfold effective_toml, effective_config. rewrite !effective_unfold.
  cbn [i_cfg i_lines i_toml i_cli]. rewrite (drop_unknown_known _ (enc_toml_known kvs T)).
  cbn [drop_unknown load_settings]. rewrite (run_toml_known kvs T), run_markdown_nil.
  rewrite kw_update_from_nil by (now rewrite keys_enc_toml). reflexivity.
Qed.

(* the three formats, for every option of the schema and every well-typed value *)
Theorem formats_agree i k v :
  wt_option (k, v) = true ->
  effective_md i [(k, v)] = effective_toml i [(k, v)] /\
  effective_toml i [(k, v)] = effective_config i [(k, v)].
Proof.
  intros W. split; [now apply md_toml_agree_single|]. apply toml_config_agree.
  unfold wt_options. cbn [forallb map nodup_strs fst sin]. now rewrite W.
Qed.

(* ... and for every set of distinct options *)
Theorem formats_agree_sets i kvs :
  wt_options kvs = true -> forallb (fun kv => simple_value (snd kv)) kvs = true ->
  effective_md i kvs = effective_toml i kvs /\ effective_toml i kvs = effective_config i kvs.
Proof. intros W S. split; [now apply md_toml_agree_simple|now apply toml_config_agree]. Qed.

Definition demo_input : input :=
  mkinput [] None None [] (s "/work/elsewhere") (s "../proj") (s "/opt/ford").

Example formats_agree_nonvacuous :
  wt_option (s "exclude_dir", VList [s "build"; s "../vendor/lib"]) = true /\
  wt_option (s "alias", VDict [(s "a", s "b c"); (s "url", s "https://x.org/?q=1")]) = true /\
  wt_option (s "extra_filetypes", VFT [(s "cpp", s "//", None); (s "sh", s "#", Some (s "bash"))]) = true /\
  field_is (effective_md demo_input [(s "summary", VStr [s "first"; s "second"])])
           (s "summary") (PStr (s "first" ++ nl ++ s "second")) = true /\
  field_is (effective_md demo_input [(s "summary", VStr [s "first"; s "second"])])
           (s "src_dir") (PList [PPath (s "/work/proj/src")]) = true.
Proof. repeat split; vm_compute; reflexivity. Qed.

(* the inputs on which --config used to differ (recorded finding, repaired): kept as examples *)
Example config_regressions :
  field_is (effective_config demo_input [(s "display", VList [s "Public"])]) (s "display") (PList [PStr (s "public")]) = true /\
  field_is (effective_config demo_input [(s "src_dir", VOne (s "./s1"))]) (s "src_dir") (PList [PPath (s "/work/proj/s1")]) = true /\
  field_is (effective_config demo_input [(s "project_url", VStr [s "https://x.org"])]) (s "project_url") (PStr (s "https://x.org")) = true /\
  field_is (effective_config demo_input [(s "output_dir", VStr [s "out"])]) (s "exclude_dir") (PList [PPath (s "/work/proj/out")]) = true.
Proof. repeat split; vm_compute; reflexivity. Qed.

(* ------------------------------------------------------------------ precedence *)
Lemma apply_cli_one st k v t v' :
  field_ty k = Some t -> convert_setting t k v = Ok v' -> apply_cli st [(k, v)] = Ok (sset k v' st).
Proof. intros T C. simpl. now rewrite T, C. Qed.

Lemma aget_aset_same {V} k (v : V) m : aget k (aset k v m) = Some v.
Proof.
  induction m as [|[k' w] m IH]; simpl; [now rewrite seqb_refl|].
  destruct (seqb k k') eqn:E; simpl; [now rewrite seqb_refl|now rewrite E].
Qed.

Lemma aget_aset_other {V} k k' (v : V) m : k' <> k -> aget k' (aset k v m) = aget k' m.
Proof.
  intros N. apply seqb_neq in N. induction m as [|[k2 w] m IH]; simpl.
  - now rewrite N.
  - destruct (seqb k k2) eqn:E; simpl.
    + apply seqb_eq in E. subst k2. now rewrite N.
    + destruct (seqb k' k2); [reflexivity|exact IH].
Qed.

(* command line over --config over file, field by field: the --config value replaces the file value
   among the keyword arguments of ProjectSettings (everything else is left alone), and a command line
   value replaces whatever field value the settings object has *)
Theorem precedence st file k t v v' c :
  field_ty k = Some t -> convert_setting t k v = Ok v' -> aget k st <> None ->
  aget k (kw_update file [(k, c)]) = Some c
  /\ (forall k', k' <> k -> aget k' (kw_update file [(k, c)]) = aget k' file)
  /\ kw_update file [] = file
  /\ (exists st', apply_cli st [(k, v)] = Ok st' /\ sget k st' = v'
                   /\ forall k', k' <> k -> sget k' st' = sget k' st)
  /\ apply_cli st [] = Ok st.
Proof.
  intros T C H. unfold kw_update. cbn [fold_left fst snd]. repeat split.
  - apply aget_aset_same.
  - intros k' N. now apply aget_aset_other.
  - exists (sset k v' st). split; [now apply (apply_cli_one _ k v t)|]. split.
    + now apply sget_sset_same.
    + intros k' N. now apply sget_sset_other.
Qed.

Lemma defaults_as_map : defaults = map (fun f => (f_name f, f_default f)) project_schema.
Proof. vm_compute. reflexivity. Qed.

Theorem file_over_default k x : sin k schema_names = true -> sget k (overlay defaults [(k, x)]) = x.
Proof.
  intros H. unfold overlay. cbn [fold_left fst snd]. apply sget_sset_same.
  rewrite defaults_as_map. unfold schema_names in H. revert H. generalize project_schema.
  induction l as [|f sch IH]; cbn [map sin aget f_name]; [discriminate|].
  cbn [fst]. destruct (seqb k (f_name f)); [discriminate|exact IH].
Qed.

Definition precedence_input : input :=
  mkinput [s "output_dir: from_file"; s "graph: false"; s "summary: from file"] None
          (Some [(s "output_dir", PStr (s "from_config")); (s "graph", PBool false); (s "summary", PStr (s "from config"))])
          [(s "output_dir", PStr (s "from_cli")); (s "graph", PBool true)]
          (s "/work/proj") (s "") (s "/opt/ford").
Example precedence_example :
  field_is (effective precedence_input) (s "output_dir") (PPath (s "/work/proj/from_cli")) = true /\
  field_is (effective precedence_input) (s "graph") (PBool true) = true /\
  field_is (effective precedence_input) (s "summary") (PStr (s "from config")) = true /\
  field_ty (s "output_dir") = Some TPath /\
  convert_setting TPath (s "output_dir") (PStr (s "from_cli")) = Ok (PStr (s "from_cli")) /\
  aget (s "output_dir") post_defaults <> None.
Proof. repeat split; try (vm_compute; reflexivity). vm_compute. discriminate. Qed.

(* ------------------------------------------------------------------ unknown keys *)
Lemma convert_meta_unknown m u vs : field_ty u = None ->
  convert_meta (m ++ [(u, vs)]) = do r <- convert_meta m; Ok (fst r, snd r ++ [u]).
Proof.
  intros U. induction m as [|[k ws] m IH]; simpl.
  - now rewrite U.
  - destruct (field_ty k) as [t|].
    + destruct (convert_setting t k (PList (map PStr ws))); simpl; try reflexivity.
      rewrite IH. destruct (convert_meta m) as [[kv0 w0]| |]; reflexivity.
    + rewrite IH. destruct (convert_meta m) as [[kv0 w0]| |]; reflexivity.
Qed.

(* project file: an unknown key is reported and dropped, everything else is unchanged *)
Theorem unknown_key_dropped lines lines' extra u vs st w :
  field_ty u = None -> meta_preprocessor lines' = meta_preprocessor lines ++ [(u, vs)] ->
  run_markdown lines extra = Ok (st, w) -> run_markdown lines' extra = Ok (st, w ++ [u]).
Proof.
  intros U M R. unfold run_markdown in *. rewrite M, (convert_meta_unknown _ u vs U).
  destruct (convert_meta (meta_preprocessor lines)) as [[kv ws]| |]; simpl in *; try discriminate R.
  destruct (existsb include_like kv); [discriminate R|].
  destruct (construct (kw_update kv extra)); simpl in *; try discriminate R. now injection R as -> ->.
Qed.

Example unknown_key_example :
  field_ty (s "foo") = None /\
  meta_preprocessor [s "project: p"; s "foo: 1"] = meta_preprocessor [s "project: p"] ++ [(s "foo", [s "1"])] /\
  (match run_markdown [s "project: p"] [], run_markdown [s "project: p"; s "foo: 1"] [] with
   | Ok (st, []), Ok (st', [w]) => seqb w (s "foo") && pv_eqb (sget (s "project") st') (PStr (s "p"))
   | _, _ => false
   end) = true.
Proof. repeat split; vm_compute; reflexivity. Qed.

(* fpm.toml and --config behave alike: an unknown key is reported and dropped *)
Lemma drop_unknown_app a b :
  drop_unknown (a ++ b) = (fst (drop_unknown a) ++ fst (drop_unknown b), snd (drop_unknown a) ++ snd (drop_unknown b)).
Proof.
  induction a as [|[k v] a IH]; cbn [app drop_unknown].
  - now destruct (drop_unknown b).
  - rewrite IH. destruct (drop_unknown a) as [ka wa], (drop_unknown b) as [kb wb]. cbn [fst snd].
    destruct (field_ty k); reflexivity.
Qed.

Theorem unknown_key_toml kv1 kv2 extra u X : field_ty u = None ->
  run_toml (kv1 ++ (u, X) :: kv2) extra =
  do r <- run_toml (kv1 ++ kv2) extra;
  Ok (fst r, snd (drop_unknown kv1) ++ u :: snd (drop_unknown kv2)).
Proof.
  intros U. unfold run_toml. rewrite !drop_unknown_app. cbn [drop_unknown]. rewrite U.
  destruct (drop_unknown kv1) as [k1 w1], (drop_unknown kv2) as [k2 w2]. cbn [fst snd].
  destruct (construct (kw_update (k1 ++ k2) extra)); reflexivity.
Qed.

Theorem unknown_key_config i c1 c2 u X st w : field_ty u = None ->
  i_cfg i = Some (c1 ++ (u, X) :: c2) ->
  effective (mkinput (i_lines i) (i_toml i) (Some (c1 ++ c2)) (i_cli i) (i_cwd i) (i_dir i) (i_ford i)) = Ok (st, w) ->
  exists w', effective i = Ok (st, w') /\ In u w'.
Proof.
  intros U C R. rewrite effective_unfold in *. rewrite C. cbn [i_cfg i_lines i_toml i_cli i_ford] in *.
  rewrite drop_unknown_app in *. cbn [drop_unknown]. rewrite U.
  destruct (drop_unknown c1) as [k1 w1], (drop_unknown c2) as [k2 w2]. cbn [fst snd] in *.
  unfold after_load, project_dir in *. cbn [i_cli i_ford i_cwd i_dir] in *.
  destruct (load_settings (i_lines i) (i_toml i) (k1 ++ k2)) as [[s0 ws]| |]; cbn [bind] in *; try discriminate R.
  cbn [fst snd] in *. destruct (apply_cli s0 (i_cli i)); cbn [bind] in *; try discriminate R.
  destruct (normalise_paths _ _ a); cbn [bind] in *; try discriminate R.
  destruct (exclude_output a0); cbn [bind] in *; try discriminate R.
  destruct (finish_arguments a1); cbn [bind] in *; try discriminate R.
  injection R as <- <-. eexists. split; [reflexivity|].
  apply in_or_app. left. apply in_or_app. right. now left.
Qed.

Example unknown_key_examples :
  field_ty (s "foo") = None /\
  (match run_toml [(s "project", PStr (s "p")); (s "foo", PInt 1)] [] with
   | Ok (st, [w]) => seqb w (s "foo") && pv_eqb (sget (s "project") st) (PStr (s "p"))
   | _ => false
   end) = true /\
  (match effective (mkinput [] None (Some [(s "foo", PInt 1); (s "project", PStr (s "p"))]) [] (s "/work/proj") (s "") (s "/opt/ford")) with
   | Ok (st, [w]) => seqb w (s "foo") && pv_eqb (sget (s "project") st) (PStr (s "p"))
   | _ => false
   end) = true.
Proof. repeat split; vm_compute; reflexivity. Qed.

(* ------------------------------------------------------------------ ill-typed values *)
(* project file, bool option: rejected, the message names the option *)
Theorem ill_typed_md_bool key (vals : list str) :
  (match vals with [x] => negb (seqb (lower x) (s "true")) && negb (seqb (lower x) (s "false")) | [] => false | _ => true end) = true ->
  convert_setting TBool key (PList (map PStr vals)) = Err (s "ValueError") key true.
Proof.
  destruct vals as [|x [|y l]]; intros H; [discriminate| |reflexivity].
  apply andb_true_iff in H as [H1 H2]. apply negb_true_iff in H1, H2.
  unfold convert_setting. cbn [same_type map]. unfold convert_to_bool, str_to_bool. now rewrite H1, H2.
Qed.

(* project file, key/value option without its separator: rejected, the message names the option *)
Theorem ill_typed_md_dict key sep x :
  aget key option_separators = Some [sep] -> x <> [] -> existsb (Ascii.eqb sep) x = false ->
  convert_setting TDictStr key (PList [PStr x]) = Err (s "RuntimeError") key true.
Proof.
  intros S N E.
  assert (Sp : forall y, existsb (Ascii.eqb sep) y = false -> split_once sep y = None).
  { induction y as [|d y IH]; simpl; [reflexivity|]. intros H. apply orb_false_iff in H as [H1 H2].
    rewrite Ascii.eqb_sym in H1. now rewrite H1, (IH H2). }
  unfold convert_setting. cbn [same_type]. unfold convert_to_dict. cbn [bind filter].
  destruct x as [|c x]; [congruence|]. cbn [py_truthy]. rewrite S. cbn [mapM].
  unfold parse_entry. now rewrite (Sp _ E).
Qed.

(* project file, int option: whatever int() rejects is rejected with a message naming the option *)
Theorem ill_typed_md_int key x : py_int x = None ->
  convert_setting TInt key (PList [PStr x]) = Err (s "ValueError") key true.
Proof. intros H. unfold convert_setting. cbn [same_type]. unfold convert_to_int. now rewrite H. Qed.

Example ill_typed_md_examples :
  convert_setting TBool (s "graph") (PList [PStr (s "maybe")]) = Err (s "ValueError") (s "graph") true /\
  aget (s "alias") option_separators = Some [("=")%char] /\
  py_int (s "four") = None /\ py_int (s "1__0") = None /\ py_int (s "0x10") = None.
Proof. repeat split; vm_compute; reflexivity. Qed.

(* ------------------------------------------------------------------ ill-typed values, fpm.toml and --config *)
(* the loop of __post_init__ over the bool / int / str options *)
Lemma check_scalars_app l1 l2 :
  check_scalars (l1 ++ l2) = do a <- check_scalars l1; do b <- check_scalars l2; Ok (a ++ b).
Proof.
  induction l1 as [|[t [k v]] l1 IH]; cbn [app check_scalars].
  - cbn [bind]. destruct (check_scalars l2); reflexivity.
  - destruct (check_scalar t k v); cbn [bind]; try reflexivity. rewrite IH.
    destruct (check_scalars l1); cbn [bind]; try reflexivity.
    destruct (check_scalars l2); reflexivity.
Qed.

Lemma check_scalars_frame l1 s1 t k X l2 s2 :
  check_scalars l1 = Ok s1 -> check_scalars l2 = Ok s2 ->
  check_scalars (l1 ++ (t, (k, X)) :: l2) = do v <- check_scalar t k X; Ok (s1 ++ (k, v) :: s2).
Proof.
  intros H1 H2. rewrite check_scalars_app, H1. cbn [bind check_scalars]. rewrite H2.
  destruct (check_scalar t k X); reflexivity.
Qed.

Lemma check_scalars_err l1 s1 t k X l2 e o n :
  check_scalars l1 = Ok s1 -> check_scalar t k X = Err e o n ->
  check_scalars (l1 ++ (t, (k, X)) :: l2) = Err e o n.
Proof. intros H1 H2. rewrite check_scalars_app, H1. cbn [bind check_scalars]. now rewrite H2. Qed.

(* the (declared type, field) pairs that the loop walks when the keyword arguments are kw *)
Definition tkvs_of (kw : list (str * pv)) : list (tyclass * (str * pv)) :=
  combine field_types (wrap_lists (set_relative (overlay defaults kw))).
Fixpoint idx (k : str) (l : list str) : nat :=
  match l with [] => 0 | x :: l' => if seqb k x then 0 else S (idx k l') end.

(* per option of a checked type: it is accepted by __init__, the fields before it pass the loop
   with their defaults, it sits at its place whatever its value; for flags and numbers the fields
   after it do not depend on its value and pass too *)
Definition scalar_facts (k : str) (t : tyclass) (n : nat) : Prop :=
  (forall X, first_bad_key [(k, X)] = None) /\
  check_scalars (firstn n (tkvs_of [])) = Ok (map snd (firstn n (tkvs_of []))) /\
  (forall X, tkvs_of [(k, X)] = firstn n (tkvs_of []) ++ (t, (k, X)) :: skipn (S n) (tkvs_of [(k, X)])) /\
  (is_conv_ty t = true ->
   (forall X, skipn (S n) (tkvs_of [(k, X)]) = skipn (S n) (tkvs_of [])) /\
   check_scalars (skipn (S n) (tkvs_of [])) = Ok (map snd (skipn (S n) (tkvs_of [])))).

Definition scalar_ok (f : field) : Prop :=
  is_scalar_ty (f_ty f) = true -> f_init f = true ->
  scalar_facts (f_name f) (f_ty f) (idx (f_name f) schema_names).

Lemma scalar_ok_all : Forall scalar_ok project_schema.
Proof.
  unfold project_schema.
  repeat (apply Forall_cons;
          [unfold scalar_ok, scalar_facts; cbn [f_name f_ty f_init is_scalar_ty is_conv_ty]; intros S I;
           first [discriminate S | discriminate I
                 | split; [intros X; vm_compute; reflexivity|];
                   split; [vm_compute; reflexivity|];
                   split; [intros X; vm_compute; reflexivity|];
                   intros C; first [discriminate C
                                   | split; [intros X; vm_compute; reflexivity|vm_compute; reflexivity]]]|]).
  apply Forall_nil.
Qed.

Lemma settable_field k t : field_ty k = Some t -> settable k = true ->
  exists f, In f project_schema /\ f_name f = k /\ f_ty f = t /\ f_init f = true /\ name_ok k = true.
Proof.
  unfold settable. intros T St. destruct (find_field project_schema k) as [f|] eqn:F; [|discriminate].
  destruct (find_field_name _ _ _ F) as [E Hin]. destruct (schema_field_facts f Hin) as [N T'].
  rewrite E in *. exists f. repeat split; auto. congruence.
Qed.

Lemma scalar_facts_of k t : field_ty k = Some t -> settable k = true -> is_scalar_ty t = true ->
  scalar_facts k t (idx k schema_names).
Proof.
  intros T St Sc. destruct (settable_field k t T St) as (f & Hin & <- & <- & I & _).
  pose proof scalar_ok_all as A. rewrite Forall_forall in A. exact (A f Hin Sc I).
Qed.

(* what the loop rejects: a value that is neither of the declared type nor None nor a text that
   converts *)
Definition scalar_rejects (t : tyclass) (X : pv) : bool :=
  match X with
  | PNone => false
  | PStr x =>
    match t with
    | TBool => negb (seqb (lower x) (s "true")) && negb (seqb (lower x) (s "false"))
    | TInt | TOptInt => match py_int x with None => true | Some _ => false end
    | _ => false
    end
  | _ => negb (same_type t X)
  end.

Lemma check_scalar_rejects t k X : is_scalar_ty t = true -> scalar_rejects t X = true ->
  check_scalar t k X = Err (s "ValueError") k true.
Proof.
  intros Sc R. destruct t; try discriminate Sc; destruct X; try discriminate R; try reflexivity;
    cbn [scalar_rejects] in R.
  - apply andb_true_iff in R as [R1 R2]. apply negb_true_iff in R1, R2.
    cbn [check_scalar same_type]. unfold convert_setting. cbn [same_type]. unfold convert_to_bool, str_to_bool.
    now rewrite R1, R2.
  - cbn [check_scalar same_type]. unfold convert_setting. cbn [same_type]. unfold convert_to_int.
    destruct (py_int x); [discriminate R|reflexivity].
  - cbn [check_scalar same_type]. unfold convert_setting. cbn [same_type]. unfold convert_to_int.
    destruct (py_int x); [discriminate R|reflexivity].
Qed.

Lemma construct_rejects k t X : field_ty k = Some t -> settable k = true -> is_scalar_ty t = true ->
  scalar_rejects t X = true -> construct [(k, X)] = Err (s "ValueError") k true.
Proof.
  intros T St Sc R. destruct (scalar_facts_of k t T St Sc) as (B & P & D & _).
  unfold construct. rewrite B. unfold post_init, post_checked. fold (tkvs_of [(k, X)]). rewrite (D X).
  now rewrite (check_scalars_err _ _ t k X _ _ _ _ P (check_scalar_rejects t k X Sc R)).
Qed.

Lemma effective_toml_raw i kv : forallb (fun p => match field_ty (fst p) with Some _ => true | None => false end) kv = true ->
  effective (with_toml i kv) = after_load (with_toml i kv) [] (do st <- construct kv; Ok (st, [])).
Proof.
  intros K. rewrite effective_unfold. unfold with_toml. cbn [i_cfg i_lines i_toml drop_unknown load_settings].
  unfold run_toml. now rewrite (drop_unknown_known kv K).
Qed.

Lemma after_load_indep i i' w r : i_cli i = i_cli i' -> i_cwd i = i_cwd i' -> i_dir i = i_dir i' -> i_ford i = i_ford i' ->
  after_load i w r = after_load i' w r.
Proof. intros H1 H2 H3 H4. unfold after_load, project_dir. now rewrite H1, H2, H3, H4. Qed.

(* fpm.toml and --config: the same table of raw values, whatever they are *)
Theorem toml_config_agree_raw i kv :
  forallb (fun p => match field_ty (fst p) with Some _ => true | None => false end) kv = true ->
  nodup_strs (map fst kv) = true ->
  effective (with_toml i kv) = effective (with_config i kv).
Proof.
  intros K N. rewrite (effective_toml_raw i kv K). rewrite (effective_unfold (with_config i kv)).
  unfold with_config. cbn [i_cfg i_lines i_toml]. rewrite (drop_unknown_known kv K).
  cbn [load_settings]. rewrite run_markdown_nil, (kw_update_from_nil kv N).
  apply after_load_indep; reflexivity.
Qed.

Lemma known_one k t (X : pv) : field_ty k = Some t ->
  forallb (fun p => match field_ty (fst p) with Some _ => true | None => false end) [(k, X)] = true.
Proof. intros T. cbn [forallb fst]. now rewrite T. Qed.

(* an ill-typed value for a bool / int / str option in fpm.toml or in --config is rejected, and
   the message names the option *)
Theorem ill_typed_toml_scalar i k t X :
  field_ty k = Some t -> settable k = true -> is_scalar_ty t = true -> scalar_rejects t X = true ->
  effective (with_toml i [(k, X)]) = Err (s "ValueError") k true.
Proof.
  intros T St Sc R. rewrite (effective_toml_raw i _ (known_one k t X T)).
  now rewrite (construct_rejects k t X T St Sc R).
Qed.

Theorem ill_typed_config_scalar i k t X :
  field_ty k = Some t -> settable k = true -> is_scalar_ty t = true -> scalar_rejects t X = true ->
  effective (with_config i [(k, X)]) = Err (s "ValueError") k true.
Proof.
  intros T St Sc R. rewrite <- (toml_config_agree_raw i [(k, X)] (known_one k t X T) eq_refl).
  now apply (ill_typed_toml_scalar i k t X).
Qed.

(* ------------------------------------------------------------------ flags and numbers given as text *)
Lemma check_scalar_text t k x : is_conv_ty t = true ->
  check_scalar t k (PStr x) = convert_setting t k (PList [PStr x]).
Proof. destruct t; try discriminate; reflexivity. Qed.

Lemma conv_result t k x v : is_conv_ty t = true -> convert_setting t k (PList [PStr x]) = Ok v ->
  same_type t v = true /\ include_like (k, v) = false.
Proof.
  intros C. destruct t; try discriminate C; unfold convert_setting; cbn [same_type].
  - unfold convert_to_bool, str_to_bool.
    destruct (seqb (lower x) (s "true")); [intros [= <-]; auto|].
    destruct (seqb (lower x) (s "false")); [intros [= <-]; auto|discriminate].
  - unfold convert_to_int. destruct (py_int x); [intros [= <-]; auto|discriminate].
  - unfold convert_to_int. destruct (py_int x); [intros [= <-]; auto|discriminate].
Qed.

Lemma check_scalar_same t k v : same_type t v = true -> check_scalar t k v = Ok v.
Proof. intros H. unfold check_scalar. rewrite H. now destruct t. Qed.

(* the settings object built from the text is the one built from the converted value *)
Lemma construct_text k t x : field_ty k = Some t -> settable k = true -> is_conv_ty t = true ->
  construct [(k, PStr x)] = do v <- convert_setting t k (PList [PStr x]); construct [(k, v)].
Proof.
  intros T St C.
  assert (Sc : is_scalar_ty t = true) by (destruct t; try discriminate C; reflexivity).
  destruct (scalar_facts_of k t T St Sc) as (B & P & D & Q). destruct (Q C) as [Q1 Q2].
  assert (E : forall X, construct [(k, X)] =
                        do v <- check_scalar t k X;
                        do st <- post_core (map snd (firstn (idx k schema_names) (tkvs_of [])) ++ (k, v)
                                            :: map snd (skipn (S (idx k schema_names)) (tkvs_of [])));
                        filetypes_step st).
  { intros X. unfold construct. rewrite B. unfold post_init, post_checked. fold (tkvs_of [(k, X)]).
    rewrite (D X), (Q1 X), (check_scalars_frame _ _ t k X _ _ P Q2).
    destruct (check_scalar t k X); reflexivity. }
  rewrite (E (PStr x)), (check_scalar_text t k x C).
  destruct (convert_setting t k (PList [PStr x])) as [v| |] eqn:Cv; cbn [bind]; try reflexivity.
  destruct (conv_result t k x v C Cv) as [Sv _]. now rewrite (E v), (check_scalar_same t k v Sv).
Qed.

Lemma meta_text k x : name_ok k = true -> piece x = true -> meta_preprocessor (md_block k [x]) = [(k, [x])].
Proof.
  intros N P. pose proof (piece_stripped x P) as Sx.
  destruct (name_ok_inv k N) as (c & r & E & _ & Sp & _ & D1 & D2 & _).
  assert (B : exists l0, md_block k [x] = [l0] /\ begin_re l0 = false).
  { eexists. split; [reflexivity|]. rewrite E. now apply (key_line_continues c). }
  destruct B as (l0 & El & Bl).
  unfold meta_preprocessor. rewrite El, Bl, <- El.
  rewrite <- (app_nil_r (md_block k [x])).
  now rewrite (meta_go_block k x [] [] None [] N Sx (Forall_nil _) eq_refl).
Qed.

(* a flag or number option written as the same text in the three formats: the same effective
   configuration, or the same rejection naming the option *)
Theorem text_values_agree i k t x :
  field_ty k = Some t -> settable k = true -> is_conv_ty t = true -> piece x = true ->
  effective (with_md i (md_block k [x])) = effective (with_toml i [(k, PStr x)]) /\
  effective (with_toml i [(k, PStr x)]) = effective (with_config i [(k, PStr x)]).
Proof.
  intros T St C P. split; [|apply toml_config_agree_raw; [now apply (known_one k t)|reflexivity]].
  destruct (settable_field k t T St) as (f & _ & _ & _ & _ & N).
  rewrite (effective_toml_raw i _ (known_one k t _ T)), (construct_text k t x T St C).
  rewrite effective_unfold. unfold with_md. cbn [i_cfg i_lines i_toml drop_unknown load_settings].
  unfold run_markdown. rewrite (meta_text k x N P). cbn [convert_meta map]. rewrite T.
  destruct (convert_setting t k (PList [PStr x])) as [v| |] eqn:Cv; cbn [bind fst snd].
  - destruct (conv_result t k x v C Cv) as [_ Iv]. cbn [existsb]. rewrite Iv. cbn [orb].
    rewrite kw_update_nil. apply after_load_indep; reflexivity.
  - apply after_load_indep; reflexivity.
  - apply after_load_indep; reflexivity.
Qed.

(* ------------------------------------------------------------------ the full demand, and what is left of it *)
(* values that are of the declared type as TOML writes them (a bare string for a list, tables for
   file types), or a flag / number given as a text that converts *)
Definition native (t : tyclass) (X : pv) : bool :=
  match t, X with
  | TBool, PBool _ | (TInt | TOptInt), PInt _ | (TStr | TOptStr | TPath | TOptPath), PStr _ => true
  | (TListStr | TListPath | TListAny), PList _ | (TListStr | TListPath), PStr _ => true
  | (TDictStr | TDictFT), PDict _ | TDictFT, PList _ => true
  | _, _ => false
  end.
Definition acceptable (t : tyclass) (X : pv) : bool :=
  native t X ||
  match t, X with
  | TBool, PStr x => seqb (lower x) (s "true") || seqb (lower x) (s "false")
  | (TInt | TOptInt), PStr x => match py_int x with Some _ => true | None => false end
  | _, _ => false
  end.

Lemma unacceptable_rejected t X : is_scalar_ty t = true -> X <> PNone -> acceptable t X = false ->
  scalar_rejects t X = true.
Proof.
  intros Sc N A. destruct t; try discriminate Sc; destruct X; try congruence; try discriminate A; try reflexivity;
    cbn [acceptable native orb scalar_rejects] in *.
  - apply orb_false_iff in A as [A1 A2]. now rewrite A1, A2.
  - destruct (py_int x); [discriminate A|reflexivity].
  - destruct (py_int x); [discriminate A|reflexivity].
Qed.

(* "whatever the option, a value that is not acceptable for its declared type is rejected with a
   message naming the option" *)
Definition ill_typed_statement : Prop :=
  forall i k t X, field_ty k = Some t -> settable k = true -> X <> PNone -> acceptable t X = false ->
    exists e, effective (with_toml i [(k, X)]) = Err e k true /\ effective (with_config i [(k, X)]) = Err e k true.

(* TRUE for every option whose declared type is bool, int or str (Optional included) ... *)
Theorem ill_typed_scalar_full i k t X :
  field_ty k = Some t -> settable k = true -> is_scalar_ty t = true -> X <> PNone -> acceptable t X = false ->
  effective (with_toml i [(k, X)]) = Err (s "ValueError") k true /\
  effective (with_config i [(k, X)]) = Err (s "ValueError") k true.
Proof.
  intros T St Sc N A. pose proof (unacceptable_rejected t X Sc N A) as R.
  split; [now apply (ill_typed_toml_scalar i k t X)|now apply (ill_typed_config_scalar i k t X)].
Qed.

(* ... and FALSE for the list, key/value-table, file-type and path options, whose values
   __post_init__ does not check: exclude = 5 becomes the list [5] without a word *)
Theorem ill_typed_refuted_nonscalar : ~ ill_typed_statement.
Proof.
  intros H.
  destruct (H demo_input (s "exclude") TListStr (PInt 5) eq_refl eq_refl) as (e & E & _);
    [discriminate|reflexivity|].
  vm_compute in E. discriminate E.
Qed.

Example nonscalar_witness :
  field_is (effective (with_toml demo_input [(s "exclude", PInt 5)])) (s "exclude") (PList [PInt 5]) = true /\
  field_is (effective (with_config demo_input [(s "alias", PInt 5)])) (s "alias") (PInt 5) = true /\
  effective (with_toml demo_input [(s "css", PInt 5)]) = Err (s "TypeError") (s "css") false.
Proof. repeat split; vm_compute; reflexivity. Qed.

(* the two former witnesses (recorded findings, repaired) *)
Example ill_typed_toml_fixed :
  field_is (effective (with_toml demo_input [(s "max_frontpage_items", PStr (s "4"))])) (s "max_frontpage_items") (PInt 4) = true /\
  field_is (effective (with_md demo_input [s "max_frontpage_items: 4"])) (s "max_frontpage_items") (PInt 4) = true /\
  effective (with_toml demo_input [(s "graph", PStr (s "maybe"))]) = Err (s "ValueError") (s "graph") true.
Proof. repeat split; vm_compute; reflexivity. Qed.
Example ill_typed_config_fixed :
  effective (with_config demo_input [(s "graph", PStr (s "maybe"))]) = Err (s "ValueError") (s "graph") true /\
  effective (with_md demo_input [s "graph: maybe"]) = Err (s "ValueError") (s "graph") true /\
  field_is (effective (with_config demo_input [(s "max_frontpage_items", PStr (s "4"))])) (s "max_frontpage_items") (PInt 4) = true.
Proof. repeat split; vm_compute; reflexivity. Qed.

(* hypotheses of the theorems above are satisfiable; the not-settable field is rejected by name too *)
Example ill_typed_scalar_examples :
  field_ty (s "graph") = Some TBool /\ settable (s "graph") = true /\
  acceptable TBool (PInt 3) = false /\ acceptable TBool (PStr (s "maybe")) = false /\
  acceptable TBool (PStr (s "True")) = true /\ acceptable TInt (PStr (s "4")) = true /\
  acceptable TInt (PBool true) = false /\ acceptable TOptStr (PInt 5) = false /\
  acceptable TStr (PList [PStr (s "a")]) = false /\
  settable (s "relative") = false /\
  (forall X, construct [(s "relative", X)] = Err (s "TypeError") (s "relative") true) /\
  piece (s "TRUE") = true /\
  field_is (effective (with_toml demo_input [(s "search", PStr (s "FALSE"))])) (s "search") (PBool false) = true.
Proof. repeat split; vm_compute; reflexivity. Qed.

(* ------------------------------------------------------------------ the output directory is excluded *)
Lemma pv_eqb_refl : forall a, pv_eqb a a = true.
Proof.
  fix F 1. destruct a; cbn [pv_eqb]; try reflexivity.
  - apply Bool.eqb_reflx.
  - apply Z.eqb_refl.
  - apply seqb_refl.
  - apply seqb_refl.
  - induction l as [|x l IH]; [reflexivity|]. rewrite (F x). exact IH.
  - induction d as [|[k x] d IH]; [reflexivity|]. rewrite seqb_refl, (F x). exact IH.
  - rewrite !seqb_refl. destruct lexer; cbn; [apply seqb_refl|reflexivity].
  - apply seqb_refl.
Qed.

Lemma py_eq_refl a : py_eq a a = true.
Proof. destruct a; cbn [py_eq]; apply pv_eqb_refl. Qed.

Lemma sget_some_aget k st v : sget k st = v -> v <> PNone -> aget k st <> None.
Proof. unfold sget. destruct (aget k st); congruence. Qed.

Definition with_output (od : pv) (l : list pv) : list pv :=
  if existsb (py_eq od) l then l else l ++ [od].

(* the step of parse_arguments: exclude_dir becomes the winning value followed by the effective
   output_dir unless that is already in the list; nothing else changes *)
Theorem exclude_output_spec st l :
  sget (s "exclude_dir") st = PList l ->
  exists st', exclude_output st = Ok st' /\
              sget (s "exclude_dir") st' = PList (with_output (sget (s "output_dir") st) l) /\
              forall k, k <> s "exclude_dir" -> sget k st' = sget k st.
Proof.
  intros E. unfold exclude_output, with_output. rewrite E.
  destruct (existsb (py_eq (sget (s "output_dir") st)) l).
  - exists st. auto.
  - eexists. split; [reflexivity|]. split.
    + apply sget_sset_same. apply (sget_some_aget _ _ _ E). discriminate.
    + intros k N. now apply sget_sset_other.
Qed.

Lemma with_output_has od l : existsb (py_eq od) (with_output od l) = true.
Proof.
  unfold with_output. destruct (existsb (py_eq od) l) eqn:X; [exact X|].
  rewrite existsb_app. cbn [existsb]. now rewrite py_eq_refl, orb_true_r.
Qed.

Lemma exclude_output_has st st' : exclude_output st = Ok st' ->
  exists l, sget (s "exclude_dir") st' = PList l /\ existsb (py_eq (sget (s "output_dir") st')) l = true.
Proof.
  intros H. destruct (sget (s "exclude_dir") st) as [| | | | |l| | |] eqn:E;
    try (unfold exclude_output in H; rewrite E in H; discriminate H).
  destruct (exclude_output_spec st l E) as (st2 & H2 & Ex & Oth). rewrite H in H2. injection H2 as <-.
  exists (with_output (sget (s "output_dir") st) l). split; [exact Ex|].
  rewrite Oth by (intros C; vm_compute in C; discriminate C). apply with_output_has.
Qed.

Lemma str_neq a b : seqb a b = false -> a <> b.
Proof. apply seqb_neq. Qed.

(* the rest of parse_arguments touches neither option *)
Lemma finish_arguments_keeps st st' k : finish_arguments st = Ok st' ->
  k <> s "creation_date" -> k <> s "fpp_extensions" -> k <> s "license" -> k <> s "doc_license" ->
  sget k st' = sget k st.
Proof.
  unfold finish_arguments. intros H N1 N2 N3 N4.
  destruct (sget (s "creation_date") st); cbn [bind] in H; try discriminate H.
  destruct (py_iter _); cbn [bind] in H; try discriminate H.
  destruct (existsb _ _); [discriminate H|].
  destruct (sget (s "gitter_sidecar") _); cbn [bind] in H; try discriminate H.
  - destruct (py_truthy _).
    + destruct (sget (s "preprocessor") _); cbn [bind] in H; try discriminate H.
      destruct (license_of (s "license") _); cbn [bind] in H; try discriminate H.
      destruct (license_of (s "doc_license") _); cbn [bind] in H; try discriminate H.
      injection H as <-. now rewrite !sget_sset_other by assumption.
    + cbn [bind] in H.
      destruct (license_of (s "license") _); cbn [bind] in H; try discriminate H.
      destruct (license_of (s "doc_license") _); cbn [bind] in H; try discriminate H.
      injection H as <-. now rewrite !sget_sset_other by assumption.
  - destruct (py_truthy _).
    + destruct (sget (s "preprocessor") _); cbn [bind] in H; try discriminate H.
      destruct (license_of (s "license") _); cbn [bind] in H; try discriminate H.
      destruct (license_of (s "doc_license") _); cbn [bind] in H; try discriminate H.
      injection H as <-. now rewrite !sget_sset_other by assumption.
    + cbn [bind] in H.
      destruct (license_of (s "license") _); cbn [bind] in H; try discriminate H.
      destruct (license_of (s "doc_license") _); cbn [bind] in H; try discriminate H.
      injection H as <-. now rewrite !sget_sset_other by assumption.
Qed.

(* whatever the formats and the command line: a run that succeeds excludes its output directory *)
Theorem output_dir_excluded i st w : effective i = Ok (st, w) ->
  exists l, sget (s "exclude_dir") st = PList l /\ existsb (py_eq (sget (s "output_dir") st)) l = true.
Proof.
  rewrite effective_unfold. destruct (drop_unknown _) as [cfg w0]. unfold after_load.
  destruct (load_settings _ _ _) as [r| |]; cbn [bind]; try discriminate.
  destruct (apply_cli _ _) as [a| |]; cbn [bind]; try discriminate.
  destruct (normalise_paths _ _ a) as [a0| |]; cbn [bind]; try discriminate.
  destruct (exclude_output a0) as [a1| |] eqn:X; cbn [bind]; try discriminate.
  destruct (finish_arguments a1) as [a2| |] eqn:F; cbn [bind]; try discriminate.
  intros [= <- _]. destruct (exclude_output_has a0 a1 X) as (l & E & H).
  exists l.
  rewrite !(finish_arguments_keeps a1 a2 _ F) by (intros C; vm_compute in C; discriminate C). auto.
Qed.

(* command line exclude_dir over a file output_dir: the list is the command line value followed by
   the file's output directory; command line output_dir over a file exclude_dir: the file's list
   followed by the command line's output directory *)
Example exclude_dir_examples :
  field_is (effective (mkinput [s "output_dir: out"; s "exclude_dir: fromfile"] None None
                               [(s "exclude_dir", PList [PStr (s "cli_a")])] (s "/work/proj") (s "") (s "/opt/ford")))
           (s "exclude_dir") (PList [PPath (s "/work/proj/cli_a"); PPath (s "/work/proj/out")]) = true /\
  field_is (effective (mkinput [s "exclude_dir: fromfile"] None None
                               [(s "output_dir", PStr (s "cli_out"))] (s "/work/proj") (s "") (s "/opt/ford")))
           (s "exclude_dir") (PList [PPath (s "/work/proj/fromfile"); PPath (s "/work/proj/doc"); PPath (s "/work/proj/cli_out")]) = true /\
  field_is (effective (mkinput [s "output_dir: out"; s "exclude_dir: out"] None None [] (s "/work/proj") (s "") (s "/opt/ford")))
           (s "exclude_dir") (PList [PPath (s "/work/proj/out"); PPath (s "/work/proj/out")]) = true.
Proof. repeat split; vm_compute; reflexivity. Qed.

(* ------------------------------------------------------------------ paths *)
(* the working directory enters only through the project directory it designates *)
Theorem paths_relative_to_project i i' :
  i_lines i = i_lines i' -> i_toml i = i_toml i' -> i_cfg i = i_cfg i' -> i_cli i = i_cli i' ->
  i_ford i = i_ford i' -> project_dir i = project_dir i' -> effective i = effective i'.
Proof. intros H1 H2 H3 H4 H5 H6. unfold effective. now rewrite H1, H2, H3, H4, H5, H6. Qed.

Example paths_example :
  project_dir (mkinput [] None None [] (s "/work/proj") (s "") (s "/opt/ford")) = s "/work/proj" /\
  project_dir (mkinput [] None None [] (s "/work/a/b") (s "../../proj") (s "/opt/ford")) = s "/work/proj" /\
  project_dir (mkinput [] None None [] (s "/") (s "/work/./proj/") (s "/opt/ford")) = s "/work/proj".
Proof. repeat split; vm_compute; reflexivity. Qed.

(* a relative path without ".." stays below the (normalised) project directory *)
Lemma norm_comps_app x : forall b acc, norm_comps (x ++ b) acc = norm_comps b (rev (norm_comps x acc)).
Proof.
  induction x as [|c x IH]; intros b acc; simpl.
  - now rewrite rev_involutive.
  - destruct (seqb c [] || seqb c ["."%char]); [apply IH|].
    destruct (seqb c ["."%char; "."%char]); apply IH.
Qed.

Lemma norm_comps_nodotdot b : forall acc, existsb (fun c => seqb c (s "..")) b = false ->
  exists tail, norm_comps b acc = rev acc ++ tail.
Proof.
  induction b as [|c b IH]; intros acc H; simpl.
  - exists []. now rewrite app_nil_r.
  - simpl in H. apply orb_false_iff in H as [H1 H2].
    destruct (seqb c [] || seqb c ["."%char]); [now apply IH|]. rewrite H1.
    destruct (IH (c :: acc) H2) as (tail & E). exists (c :: tail). rewrite E. simpl. now rewrite <- app_assoc.
Qed.

Theorem paths_anchored base p c r :
  p = c :: r -> Ascii.eqb c slash = false ->
  existsb (fun x => seqb x (s "..")) (split_ch slash p) = false ->
  exists tail, norm_path base p = render_path (norm_comps (split_ch slash base) [] ++ tail).
Proof.
  intros -> C H. unfold norm_path. rewrite C. rewrite norm_comps_app.
  destruct (norm_comps_nodotdot _ (rev (norm_comps (split_ch slash base) [])) H) as (tail & E).
  exists tail. now rewrite E, rev_involutive.
Qed.

Example paths_anchored_example :
  norm_path (s "/work/proj") (s "./src//sub/") = s "/work/proj/src/sub" /\
  norm_path (s "/work/proj") (s "../other") = s "/work/other" /\
  norm_path (s "/work/proj") (s "/abs/x/../y") = s "/abs/y" /\
  norm_path (s "/work/proj") [] = s "/work/proj".
Proof. repeat split; vm_compute; reflexivity. Qed.

(* ------------------------------------------------------------------ further non-vacuity examples *)
Definition demo_options : list (str * aval) :=
  [(s "project", VStr [s "Demo"]); (s "src_dir", VList [s "./src"; s "lib/../x"]);
   (s "max_frontpage_items", VInt 4); (s "graph", VBool true);
   (s "alias", VDict [(s "a", s "b"); (s "c", s "d e")]);
   (s "extra_mods", VDict [(s "json_module", s "http://x.org/json")]);
   (s "summary", VStr [s "first"; s "second"])].

Example md_toml_agree_nonvacuous :
  wt_options demo_options = true /\ forallb (fun kv => simple_value (snd kv)) demo_options = true /\
  field_is (effective_md demo_input demo_options) (s "src_dir")
           (PList [PPath (s "/work/proj/src"); PPath (s "/work/proj/x")]) = true /\
  field_is (effective_toml demo_input demo_options) (s "max_frontpage_items") (PInt 4) = true.
Proof. repeat split; vm_compute; reflexivity. Qed.

Example ill_typed_md_dict_example :
  aget (s "alias") option_separators = Some ["="%char] /\ s "novalue" <> [] /\
  existsb (Ascii.eqb "="%char) (s "novalue") = false /\
  convert_setting TDictStr (s "alias") (PList [PStr (s "novalue")]) = Err (s "RuntimeError") (s "alias") true.
Proof. repeat split; try (vm_compute; reflexivity). discriminate. Qed.

Example md_int_error_example : py_int (s "four") = None /\ py_int (s "1__0") = None /\ py_int (s "0x10") = None.
Proof. repeat split; vm_compute; reflexivity. Qed.

Example paths_anchored_hyps :
  Ascii.eqb "."%char slash = false /\
  existsb (fun x => seqb x (s "..")) (split_ch slash (s "./src//sub/")) = false /\
  norm_comps (split_ch slash (s "/work/./proj/")) [] = [s "work"; s "proj"].
Proof. repeat split; vm_compute; reflexivity. Qed.

Example paths_relative_example :
  effective (mkinput [s "css: style/my.css"] None None [] (s "/work/proj") (s "") (s "/opt/ford"))
  = effective (mkinput [s "css: style/my.css"] None None [] (s "/work/a/b") (s "../../proj") (s "/opt/ford")) /\
  field_is (effective (mkinput [s "css: style/my.css"] None None [] (s "/work/a/b") (s "../../proj") (s "/opt/ford")))
           (s "css") (PPath (s "/work/proj/style/my.css")) = true.
Proof. split; vm_compute; reflexivity. Qed.
