(* Out/SettingsProofs.v -- proofs about the settings model (Out/Settings.v over Gen/Schema.v). *)
From Coq Require Import ZArith Lia.
From Ford Require Import Base.Str Base.StrFacts Out.SettingsTypes Gen.Schema Out.Settings.
Local Open Scope Z_scope.
Local Open Scope nat_scope.
Local Arguments Nat.div : simpl never.
Local Arguments Z.div : simpl never.
Local Arguments Z.modulo : simpl never.
Local Arguments Z.mul : simpl never.
Local Arguments Z.pow : simpl never.

(* ------------------------------------------------------------------ basic facts *)
Lemma seqb_refl a : seqb a a = true.
Proof. induction a as [|c a IH]; simpl; [reflexivity|]. now rewrite Ascii.eqb_refl. Qed.

Lemma seqb_eq a b : seqb a b = true <-> a = b.
Proof.
  split.
  - revert b; induction a as [|c a IH]; intros [|d b] H; simpl in H; try discriminate; auto.
    destruct (Ascii.eqb c d) eqn:E; [|discriminate]. apply Ascii.eqb_eq in E. subst. f_equal. auto.
  - intros ->. apply seqb_refl.
Qed.

Lemma seqb_neq a b : seqb a b = false <-> a <> b.
Proof.
  split.
  - intros H E. apply seqb_eq in E. congruence.
  - intros H. destruct (seqb a b) eqn:E; auto. apply seqb_eq in E. contradiction.
Qed.

Lemma sget_sset_same k v st : aget k st <> None -> sget k (sset k v st) = v.
Proof.
  unfold sget. induction st as [|[k' v'] st IH]; simpl; intros H; [congruence|].
  destruct (seqb k k') eqn:E; simpl.
  - now rewrite seqb_refl.
  - rewrite E. apply IH. exact H.
Qed.

Lemma sget_sset_other k k' v st : k' <> k -> sget k' (sset k v st) = sget k' st.
Proof.
  unfold sget. intros N. induction st as [|[k2 v2] st IH]; simpl; [reflexivity|].
  destruct (seqb k k2) eqn:E; simpl.
  - apply seqb_eq in E. subst k2. apply seqb_neq in N. now rewrite N.
  - destruct (seqb k' k2); [reflexivity|exact IH].
Qed.

Lemma sset_keys k v st : map fst (sset k v st) = map fst st.
Proof.
  induction st as [|[k' v'] st IH]; simpl; [reflexivity|].
  destruct (seqb k k') eqn:E; simpl.
  - apply seqb_eq in E. now subst.
  - now rewrite IH.
Qed.

(* ------------------------------------------------------------------ characters *)
Lemma leb_true a b : (a <=? b) = true <-> a <= b. Proof. apply Nat.leb_le. Qed.

Lemma digit_not_space c : is_digit c = true -> is_space c = false /\ is_space_c c = false.
Proof.
  unfold is_digit, is_space, is_space_c. intros H. apply andb_true_iff in H as [H1 H2].
  apply Nat.leb_le in H1, H2.
  split.
  - apply orb_false_iff; split; apply andb_false_iff.
    + right. apply Nat.leb_gt. lia.
    + right. apply Nat.leb_gt. lia.
  - apply orb_false_iff; split.
    + apply andb_false_iff. right. apply Nat.leb_gt. lia.
    + apply Nat.eqb_neq. lia.
Qed.

(* ------------------------------------------------------------------ int(str(z)) = z *)
Definition dval (c : ascii) : Z := Z.of_nat (code c - 48).
Fixpoint value (ds : str) (a : Z) : Z :=
  match ds with [] => a | c :: r => value r (a * 10 + dval c)%Z end.

Lemma value_app x y a : value (x ++ y) a = value y (value x a).
Proof. revert a. induction x as [|c x IH]; intros a; simpl; [reflexivity|apply IH]. Qed.

Lemma digits_val_app ds rest a pd :
  forallb is_digit ds = true ->
  digits_val (ds ++ rest) a pd = digits_val rest (value ds a) (match ds with [] => pd | _ => true end).
Proof.
  revert a pd. induction ds as [|c r IH]; intros a pd H; simpl; [reflexivity|].
  simpl in H. apply andb_true_iff in H as [Hc Hr]. rewrite Hc.
  rewrite (IH _ true Hr). unfold dval. destruct r; reflexivity.
Qed.

Definition dch (n : Z) : ascii := ascii_of_nat (48 + Z.to_nat (n mod 10)%Z).

Lemma dch_spec n : is_digit (dch n) = true /\ dval (dch n) = (n mod 10)%Z.
Proof.
  assert (B : (0 <= n mod 10 < 10)%Z) by (apply Z.mod_pos_bound; lia).
  unfold dch, dval, is_digit, code.
  set (m := Z.to_nat (n mod 10)%Z). assert (Hm : m < 10) by (unfold m; lia).
  rewrite nat_ascii_embedding by lia. split.
  - apply andb_true_iff; split; apply Nat.leb_le; lia.
  - replace (48 + m - 48) with m by lia. unfold m. rewrite Z2Nat.id; lia.
Qed.

Lemma pos_digits_spec f : forall n acc, (0 <= n < 2 ^ Z.of_nat (S f))%Z ->
  exists ds, pos_digits_fuel (S f) n acc = ds ++ acc /\ ds <> [] /\
             forallb is_digit ds = true /\ value ds 0%Z = n.
Proof.
  induction f as [|f IH]; intros n acc B.
  - change (2 ^ Z.of_nat 1)%Z with 2%Z in B.
    simpl. destruct (n <? 10)%Z eqn:E; [|apply Z.ltb_ge in E; lia].
    exists [dch n]. destruct (dch_spec n) as [D V]. repeat split.
    + discriminate.
    + simpl. now rewrite D.
    + simpl. rewrite V. rewrite Z.mod_small; lia.
  - remember (S f) as g. simpl. fold (dch n).
    destruct (n <? 10)%Z eqn:E.
    + apply Z.ltb_lt in E. exists [dch n]. destruct (dch_spec n) as [D V]. repeat split.
      * discriminate.
      * simpl. now rewrite D.
      * simpl. rewrite V. rewrite Z.mod_small; lia.
    + apply Z.ltb_ge in E.
      assert (P : (2 ^ Z.of_nat (S g) = 2 * 2 ^ Z.of_nat g)%Z).
      { rewrite Nat2Z.inj_succ. apply Z.pow_succ_r. lia. }
      assert (Q : (0 < 2 ^ Z.of_nat g)%Z) by (apply Z.pow_pos_nonneg; lia).
      assert (B' : (0 <= n / 10 < 2 ^ Z.of_nat g)%Z).
      { split; [apply Z.div_pos; lia|]. apply Z.div_lt_upper_bound; lia. }
      subst g. destruct (IH (n / 10)%Z (dch n :: acc) B') as (ds & E1 & N & D & V).
      exists (ds ++ [dch n]). destruct (dch_spec n) as [Dn Vn]. repeat split.
      * rewrite E1. now rewrite <- app_assoc.
      * destruct ds; discriminate.
      * rewrite forallb_app, D. simpl. now rewrite Dn.
      * rewrite value_app, V. simpl. rewrite Vn.
        pose proof (Z.div_mod n 10). lia.
Qed.

Lemma pos_lt_pow2 p : (Zpos p < 2 ^ Z.of_nat (Pos.size_nat p))%Z.
Proof.
  induction p as [p IH|p IH|]; simpl Pos.size_nat.
  - rewrite Nat2Z.inj_succ, Z.pow_succ_r by lia. lia.
  - rewrite Nat2Z.inj_succ, Z.pow_succ_r by lia. lia.
  - reflexivity.
Qed.

Lemma pos_digits_ok p :
  exists ds, pos_digits_fuel (S (Pos.size_nat p)) (Zpos p) [] = ds /\ ds <> [] /\
             forallb is_digit ds = true /\ value ds 0%Z = Zpos p.
Proof.
  assert (B : (0 <= Zpos p < 2 ^ Z.of_nat (S (Pos.size_nat p)))%Z).
  { split; [lia|]. pose proof (pos_lt_pow2 p). rewrite Nat2Z.inj_succ, Z.pow_succ_r by lia.
    assert (0 < 2 ^ Z.of_nat (Pos.size_nat p))%Z by (apply Z.pow_pos_nonneg; lia). lia. }
  destruct (pos_digits_spec _ _ [] B) as (ds & E & N & D & V).
  exists ds. rewrite E, app_nil_r. auto.
Qed.

Lemma lstrip_c_id x : forallb (fun c => negb (is_space_c c)) x = true -> lstrip_c x = x.
Proof.
  destruct x as [|c x]; simpl; [reflexivity|]. intros H. apply andb_true_iff in H as [H _].
  apply negb_true_iff in H. now rewrite H.
Qed.

Lemma strip_c_id x : forallb (fun c => negb (is_space_c c)) x = true -> strip_c x = x.
Proof.
  intros H. unfold strip_c. rewrite (lstrip_c_id x H).
  rewrite lstrip_c_id; [apply rev_involutive|].
  apply forallb_forall. intros c Hc. apply in_rev in Hc.
  rewrite forallb_forall in H. now apply H.
Qed.

Lemma digits_no_space ds : forallb is_digit ds = true -> forallb (fun c => negb (is_space_c c)) ds = true.
Proof.
  intros H. apply forallb_forall. intros c Hc. rewrite forallb_forall in H.
  apply negb_true_iff. now apply digit_not_space, H.
Qed.

Lemma digit_code c : is_digit c = true -> (code c =? 45) = false /\ (code c =? 43) = false.
Proof.
  unfold is_digit. intros H. apply andb_true_iff in H as [H1 H2]. apply Nat.leb_le in H1, H2.
  split; apply Nat.eqb_neq; lia.
Qed.

Theorem py_int_str_of_Z z : py_int (str_of_Z z) = Some z.
Proof.
  destruct z as [|p|p].
  - reflexivity.
  - unfold str_of_Z. destruct (pos_digits_ok p) as (ds & E & N & D & V). rewrite E.
    unfold py_int. rewrite (strip_c_id ds (digits_no_space ds D)).
    destruct ds as [|c r]; [congruence|].
    assert (Dc : is_digit c = true) by (simpl in D; now apply andb_true_iff in D as [? _]).
    destruct (digit_code c Dc) as [C1 C2]. rewrite C1, C2.
    rewrite <- (app_nil_r (c :: r)) at 1. rewrite digits_val_app by exact D.
    simpl digits_val. now rewrite V.
  - unfold str_of_Z. destruct (pos_digits_ok p) as (ds & E & N & D & V). rewrite E.
    unfold py_int. rewrite strip_c_id.
    2:{ simpl. apply (digits_no_space ds D). }
    change (code "-"%char =? 45) with true. cbv iota.
    rewrite <- (app_nil_r ds) at 1. rewrite digits_val_app by exact D.
    destruct ds; [congruence|]. simpl digits_val. rewrite V. reflexivity.
Qed.

Example py_int_example : py_int (str_of_Z (-1000000007)%Z) = Some (-1000000007)%Z /\
                         str_of_Z 10000%Z = s "10000" /\ py_int (s " +1_000 ") = Some 1000%Z.
Proof. repeat split; vm_compute; reflexivity. Qed.
