(* Out/ProjectFold.v — model of ford.fortran_project.Project.__init__: the files are parsed one
   after the other; a file whose parse raises is reported and skipped (dbg = true); a file's
   entities are registered only after its parse has completed; identifiers are not requested
   while parsing (NameSelector is lazy), so the global name table is untouched by a failed parse.
   Executable definitions only. *)
From Ford Require Import Base.Str Sem.Tree Out.Names.

Record pstate := { p_files : list ent; p_skipped : list str; p_names : nstate }.

Definition pinit : pstate := {| p_files := []; p_skipped := []; p_names := init |}.

Definition pstep (st : pstate) (f : str * list stmt) : pstate :=
  match parse_file (fst f) (snd f) with
  | POk e _ => {| p_files := p_files st ++ [e]; p_skipped := p_skipped st; p_names := p_names st |}
  | PErr _ => {| p_files := p_files st; p_skipped := p_skipped st ++ [fst f]; p_names := p_names st |}
  end.

Definition build (fs : list (str * list stmt)) : pstate := fold_left pstep fs pinit.
