(* Out/UrlsProofs.v -- proofs about Base/Path.v and Out/Urls.v (property C09) *)
From Ford Require Import Base.Str Base.StrFacts Base.Path Out.Names Out.Urls.
From Coq Require Import Lia.

Definition reals (p : list str) : Prop := forallb real p = true.

(* ------------------------------------------------------------------ the normalising stack *)

Lemma real_step stk x : real x = true -> step stk x = x :: stk.
Proof.
  unfold real, step. intros H. apply negb_true_iff in H.
  apply orb_false_iff in H as [H12 H3]. now rewrite H12, H3.
Qed.

Lemma fold_reals p : forall stk, reals p -> fold_left step p stk = rev p ++ stk.
Proof.
  induction p as [|x p IH]; intros stk H; simpl; [reflexivity|].
  unfold reals in H. simpl in H. apply andb_true_iff in H as [Hx Hp].
  rewrite (real_step _ _ Hx), IH by exact Hp. now rewrite <- app_assoc.
Qed.

Lemma step_dotdot stk : step stk dotdot = tl stk.
Proof. reflexivity. Qed.
Lemma step_dot stk : step stk dot = stk.
Proof. reflexivity. Qed.

Lemma fold_ups n : forall stk, fold_left step (repeat dotdot n) stk = skipn n stk.
Proof.
  induction n as [|n IH]; intros stk; [reflexivity|].
  cbn [repeat fold_left]. rewrite step_dotdot, IH.
  destruct stk; simpl; [apply skipn_nil | reflexivity].
Qed.

Lemma step_keeps_reals stk x : reals stk -> reals (step stk x).
Proof.
  unfold reals, step. intros H.
  destruct (str_eqb x [] || str_eqb x dot) eqn:E1; [exact H|].
  destruct (str_eqb x dotdot) eqn:E2.
  - destruct stk; simpl in *; [reflexivity|]. apply andb_true_iff in H. tauto.
  - simpl. rewrite H. unfold real. now rewrite E1, E2.
Qed.

Lemma fold_keeps_reals p : forall stk, reals stk -> reals (fold_left step p stk).
Proof. induction p; intros stk H; simpl; auto using step_keeps_reals. Qed.

Lemma reals_rev p : reals p -> reals (rev p).
Proof.
  unfold reals. rewrite !forallb_forall. intros H x Hx. apply H. now apply in_rev.
Qed.

Lemma reals_app a b : reals (a ++ b) <-> reals a /\ reals b.
Proof. unfold reals. rewrite forallb_app, andb_true_iff. tauto. Qed.

Lemma normalise_reals p : reals (normalise p).
Proof. apply reals_rev, fold_keeps_reals. reflexivity. Qed.

Lemma normalise_id p : reals p -> normalise p = p.
Proof. intros H. unfold normalise. rewrite fold_reals, app_nil_r by exact H. apply rev_involutive. Qed.

Lemma normalise_idem p : normalise (normalise p) = normalise p.
Proof. apply normalise_id, normalise_reals. Qed.

Lemma normalise_app a b : normalise (a ++ b) = rev (fold_left step b (rev (normalise a))).
Proof. unfold normalise. now rewrite fold_left_app, rev_involutive. Qed.

Lemma clean_reals p : clean p = true -> reals p.
Proof.
  unfold clean, reals. rewrite !forallb_forall. intros H x Hx.
  specialize (H x Hx). unfold clean_comp in H. apply andb_true_iff in H. tauto.
Qed.

Lemma clean_app a b : clean (a ++ b) = true <-> clean a = true /\ clean b = true.
Proof. unfold clean. rewrite forallb_app, andb_true_iff. tauto. Qed.

(* ------------------------------------------------------------------ relpath *)

Lemma strip_common_spec a : forall b,
  exists c, a = c ++ fst (strip_common a b) /\ b = c ++ snd (strip_common a b).
Proof.
  induction a as [|x a IH]; intros [|y b]; simpl; try (exists []; split; reflexivity).
  destruct (str_eqb x y) eqn:E.
  - apply str_eqb_eq in E. subst y. destruct (IH b) as (c & H1 & H2).
    exists (x :: c). simpl. now rewrite <- H1, <- H2.
  - exists []. split; reflexivity.
Qed.

Lemma strip_common_prefix c : forall a b, strip_common (c ++ a) (c ++ b) = strip_common a b.
Proof. induction c as [|x c IH]; intros a b; simpl; [reflexivity|]. now rewrite str_eqb_refl. Qed.

Lemma skipn_length_app {A} (l1 l2 : list A) : skipn (length l1) (l1 ++ l2) = l2.
Proof. induction l1; simpl; auto. Qed.

(* the relative reference computed by relpath, followed from the directory it was computed for,
   arrives at the (normalised) target -- whatever the two paths are *)
Theorem relpath_resolves_gen : forall a d, resolve d (relpath a d) = normalise a.
Proof.
  intros a d. unfold resolve. rewrite normalise_app. unfold relpath.
  destruct (strip_common_spec (normalise a) (normalise d)) as (c & Ha & Hd).
  destruct (strip_common (normalise a) (normalise d)) as [t st]. simpl in Ha, Hd.
  assert (Rt : reals t).
  { pose proof (normalise_reals a) as R. rewrite Ha in R. now apply reals_app in R. }
  rewrite Hd, rev_app_distr.
  destruct (repeat dotdot (length st) ++ t) as [|r0 r] eqn:R.
  - apply app_eq_nil in R as [R1 ->]. destruct st; [|discriminate].
    simpl. rewrite step_dot, rev_involutive, Ha. now rewrite app_nil_r.
  - rewrite <- R, fold_left_app, fold_ups, <- (rev_length st), skipn_length_app.
    rewrite fold_reals by exact Rt. now rewrite rev_app_distr, !rev_involutive, Ha.
Qed.

Theorem relpath_resolves : forall a d, clean a = true -> resolve d (relpath a d) = a.
Proof. intros a d H. rewrite relpath_resolves_gen. now apply normalise_id, clean_reals. Qed.

Example relpath_resolves_nonvacuous :
  let a := [s "out"; s "proc"; s "f.html"] in
  let d := [s "out"; s "page"; s "sub"; s "deep"] in
  clean a = true /\ relpath a d = [dotdot; dotdot; dotdot; s "proc"; s "f.html"] /\
  resolve d (relpath a d) = a.
Proof. vm_compute. auto. Qed.

Lemma resolve_app d r t : resolve d (r ++ t) = resolve (resolve d r) t.
Proof.
  unfold resolve. rewrite app_assoc, (normalise_app (d ++ r) t), (normalise_app (normalise (d ++ r)) t).
  now rewrite normalise_idem.
Qed.

Lemma resolve_reals d t : reals d -> reals t -> resolve d t = d ++ t.
Proof. intros Hd Ht. unfold resolve. apply normalise_id. now apply reals_app. Qed.

Lemma tl_rev {A} (p : list A) : tl (rev p) = rev (removelast p).
Proof.
  destruct p as [|x p] using rev_ind; [reflexivity|].
  now rewrite rev_app_distr, removelast_last.
Qed.

Lemma resolve_up p t : reals p -> reals t -> resolve p (dotdot :: t) = removelast p ++ t.
Proof.
  intros Hp Ht. unfold resolve. rewrite normalise_app, (normalise_id p Hp).
  cbn [fold_left]. rewrite step_dotdot, tl_rev, fold_reals by exact Ht.
  now rewrite rev_app_distr, !rev_involutive.
Qed.

Lemma relpath_descend out pp : reals out -> reals pp ->
  relpath out (out ++ pp) = match pp with [] => [dot] | _ => repeat dotdot (length pp) end.
Proof.
  intros Ho Hp. unfold relpath.
  rewrite (normalise_id out Ho), (normalise_id (out ++ pp)) by now apply reals_app.
  rewrite <- (app_nil_r out) at 1. rewrite strip_common_prefix. simpl.
  rewrite app_nil_r. destruct pp; reflexivity.
Qed.

Lemma removelast2_short {A} (l : list A) : length l <= 2 -> removelast (removelast l) = [].
Proof. destruct l as [|a [|b [|c l]]]; simpl; intros; try reflexivity; lia. Qed.

Lemma ghost_real : real ghost = true.
Proof. reflexivity. Qed.

(* the link computed from the ghost sibling directory is always "../<target>" *)
Lemma doc_link_shape base ctx target :
  reals base -> reals target -> length ctx <= 2 ->
  match target with d :: _ => str_eqb d ghost = false | [] => True end ->
  doc_link base ctx target = dotdot :: target.
Proof.
  intros Hb Ht Hc Hg. unfold doc_link, doc_current_path, parent.
  rewrite removelast2_short by exact Hc. simpl app. unfold relpath.
  rewrite (normalise_id (base ++ target)) by now apply reals_app.
  rewrite (normalise_id (base ++ [ghost])) by (apply reals_app; split; [exact Hb|reflexivity]).
  rewrite strip_common_prefix.
  destruct target as [|d t]; [reflexivity|]. simpl. now rewrite Hg.
Qed.

(* ------------------------------------------------------------------ the sibling-directory trick *)

Theorem sibling_trick : forall base ctx d f d',
  clean base = true -> clean [d; f] = true -> clean_comp d' = true ->
  length ctx <= 2 -> d <> ghost ->
  resolve (base ++ [d']) (doc_link base ctx [d; f]) = base ++ [d; f].
Proof.
  intros base ctx d f d' Hb Ht Hd Hc Hg.
  assert (Rb := clean_reals _ Hb). assert (Rt := clean_reals _ Ht).
  rewrite doc_link_shape; auto; [|now apply str_eqb_neq].
  rewrite resolve_up; auto.
  - now rewrite removelast_last.
  - apply reals_app. split; [exact Rb|]. unfold reals. simpl.
    unfold clean_comp in Hd. apply andb_true_iff in Hd as [-> _]. reflexivity.
Qed.

Example sibling_trick_nonvacuous :
  let base := [s "tmp"; s "doc"] in
  clean base = true /\ clean [s "module"; s "m.html"] = true /\ clean_comp (s "lists") = true /\
  doc_link base [s "proc"; s "p.html"] [s "module"; s "m.html"] = [dotdot; s "module"; s "m.html"] /\
  resolve (base ++ [s "lists"]) (doc_link base [s "proc"; s "p.html"] [s "module"; s "m.html"])
    = base ++ [s "module"; s "m.html"].
Proof. vm_compute. auto 6. Qed.

Lemma removelast_length {A} (l : list A) : length (removelast l) = pred (length l).
Proof. induction l as [|x [|y l] IH]; simpl in *; auto. Qed.

Theorem sibling_trick_only_depth1 : forall base ctx d f view_dir,
  base <> [] -> clean base = true -> clean [d; f] = true -> clean view_dir = true ->
  length ctx <= 2 -> d <> ghost ->
  (resolve (base ++ view_dir) (doc_link base ctx [d; f]) = base ++ [d; f] <-> length view_dir = 1).
Proof.
  intros base ctx d f vd Hne Hb Ht Hv Hc Hg.
  assert (Rb := clean_reals _ Hb). assert (Rt := clean_reals _ Ht). assert (Rv := clean_reals _ Hv).
  rewrite doc_link_shape; auto; [|now apply str_eqb_neq].
  rewrite resolve_up; auto; [|now apply reals_app].
  split.
  - intros E. apply app_inv_tail in E.
    apply (f_equal (@length str)) in E. rewrite removelast_length, app_length in E.
    destruct base; [congruence|]. simpl in E. lia.
  - intros L. destruct vd as [|x [|y vd]]; try discriminate. now rewrite removelast_last.
Qed.

Example sibling_trick_fails_elsewhere :
  let base := [s "tmp"; s "doc"] in
  let l := doc_link base [s "proc"; s "p.html"] [s "module"; s "m.html"] in
  resolve base l <> base ++ [s "module"; s "m.html"] /\
  resolve (base ++ [s "page"; s "sub"]) l <> base ++ [s "module"; s "m.html"].
Proof. vm_compute. split; discriminate. Qed.

(* ------------------------------------------------------------------ every site, every depth *)

Lemma clean_site_parts st : clean_site st = true ->
  clean (site_view st) = true /\ clean (site_target st) = true.
Proof. unfold clean_site. rewrite !andb_true_iff. tauto. Qed.

Lemma reals_removelast p : reals p -> reals (removelast p).
Proof.
  unfold reals. rewrite !forallb_forall. intros H x Hx. apply H.
  destruct p as [|y p] using rev_ind; [destruct Hx|].
  rewrite removelast_last in Hx. apply in_or_app. now left.
Qed.

Theorem site_resolves : forall out st,
  clean out = true -> clean_site st = true -> site_depth_ok st = true ->
  resolve (out ++ parent (site_view st)) (site_rel out st) = out ++ site_target st.
Proof.
  intros out st Ho Hs Hd.
  destruct (clean_site_parts _ Hs) as [Hv Ht].
  assert (Ro := clean_reals _ Ho). assert (Rv := clean_reals _ Hv). assert (Rt := clean_reals _ Ht).
  assert (Rpv : reals (parent (site_view st))) by now apply reals_removelast.
  destruct st as [page target|page target|ctx view target|page target|view target|view target|target];
    simpl in *.
  - rewrite resolve_app, relpath_resolves_gen, (normalise_id out Ro). now apply resolve_reals.
  - rewrite relpath_resolves_gen. apply normalise_id. now apply reals_app.
  - apply andb_true_iff in Hd as [Hd Hg]. apply andb_true_iff in Hd as [Hc Hl].
    apply Nat.leb_le in Hc. apply Nat.eqb_eq in Hl.
    destruct view as [|vd [|vf [|x view]]]; try discriminate. simpl parent.
    rewrite doc_link_shape; auto.
    + rewrite resolve_up; auto; [now rewrite removelast_last|].
      apply reals_app. split; [exact Ro|exact Rpv].
    + destruct target; [exact I|]. now apply negb_true_iff in Hg.
  - rewrite relpath_resolves_gen. apply normalise_id. now apply reals_app.
  - apply Nat.eqb_eq in Hd. destruct view as [|vd [|vf [|x view]]]; try discriminate. simpl parent.
    rewrite resolve_up; auto; [now rewrite removelast_last|].
    apply reals_app. split; [exact Ro|exact Rpv].
  - apply Nat.eqb_eq in Hd. destruct view as [|vd [|vf [|x view]]]; try discriminate. simpl parent.
    rewrite resolve_up; auto; [now rewrite removelast_last|].
    apply reals_app. split; [exact Ro|exact Rpv].
  - rewrite app_nil_r. now apply resolve_reals.
Qed.

Example site_resolves_graph_table :
  let out := [s "srv"; s "doc"] in
  let st := SGraphTable [s "module"; s "m0.html"] [s "module"; s "m1.html"] in
  clean out = true /\ clean_site st = true /\ site_depth_ok st = true /\
  site_url true [] out st = s "../module/m1.html" /\
  resolve (out ++ parent (site_view st)) (site_rel out st) = out ++ site_target st.
Proof. vm_compute. auto 6. Qed.

Example site_resolves_nonvacuous :
  let out := [s "srv"; s "doc"] in
  let st := SProjectUrl [s "page"; s "sub"; s "deep"; s "index.html"] [s "lists"; s "modules.html"] in
  clean out = true /\ clean_site st = true /\ site_depth_ok st = true /\
  site_rel out st = [dotdot; dotdot; dotdot; s "lists"; s "modules.html"].
Proof. vm_compute. auto. Qed.

(* ------------------------------------------------------------------ relative URLs *)

Definition first_ok (x : str) : bool :=
  match x with c :: _ => negb (ch_eqb c slash) | [] => false end.

Lemma clean_comp_first_ok x : clean_comp x = true -> first_ok x = true.
Proof.
  unfold clean_comp, real, no_slash. intros H. apply andb_true_iff in H as [H1 H2].
  destruct x as [|c x]; [discriminate|]. simpl in *. apply andb_true_iff in H2. tauto.
Qed.

Lemma render_rel_first x p : first_ok x = true -> forall rest,
  url_is_relative (render_rel (x :: p) ++ rest) = true.
Proof.
  intros H rest. destruct x as [|c x]; [discriminate|].
  unfold render_rel. destruct p; simpl in *; exact H.
Qed.

Lemma relpath_first a d : clean a = true ->
  exists x p, relpath a d = x :: p /\ first_ok x = true.
Proof.
  intros Ha. unfold relpath. rewrite (normalise_id a (clean_reals _ Ha)).
  destruct (strip_common_spec a (normalise d)) as (c & H1 & _).
  destruct (strip_common a (normalise d)) as [t st]. simpl in H1.
  destruct st as [|y st]; simpl.
  - destruct t as [|x t]; [exists dot, []; split; reflexivity|].
    exists x, t. split; [reflexivity|]. apply clean_comp_first_ok.
    rewrite H1 in Ha. apply clean_app in Ha as [_ Ha]. simpl in Ha.
    apply andb_true_iff in Ha. tauto.
  - eexists dotdot, _. split; reflexivity.
Qed.

Theorem urls_relative : forall setting out st,
  clean out = true -> clean_site st = true -> site_target st <> [] ->
  url_is_relative (site_url true setting out st) = true.
Proof.
  intros setting out st Ho Hs Hne.
  destruct (clean_site_parts _ Hs) as [Hv Ht].
  assert (CT : clean (out ++ site_target st) = true) by now apply clean_app.
  destruct st as [page target|page target|ctx view target|page target|view target|view target|target];
    simpl in *.
  - unfold page_project_url. destruct (relpath_first out (out ++ parent page) Ho) as (x & p & -> & F).
    now apply render_rel_first.
  - destruct (relpath_first _ (out ++ parent page) CT) as (x & p & -> & F).
    rewrite <- (app_nil_r (render_rel _)). now apply render_rel_first.
  - unfold doc_link. destruct (relpath_first _ (doc_current_path out ctx) CT) as (x & p & -> & F).
    rewrite <- (app_nil_r (render_rel _)). now apply render_rel_first.
  - destruct (relpath_first _ (out ++ parent page) CT) as (x & p & -> & F).
    rewrite <- (app_nil_r (render_rel _)). now apply render_rel_first.
  - reflexivity.
  - reflexivity.
  - destruct target as [|x t]; [congruence|].
    rewrite <- (app_nil_r (render_rel _)). apply render_rel_first, clean_comp_first_ok.
    simpl in Ht. apply andb_true_iff in Ht. tauto.
Qed.

Example urls_relative_nonvacuous :
  let out := [s "srv"; s "doc"] in
  let st := SRelurl [s "index.html"] [s "proc"; s "f.html"] in
  clean out = true /\ clean_site st = true /\ site_target st <> [] /\
  site_url true [] out st = s "proc/f.html".
Proof. vm_compute. repeat split; discriminate. Qed.

(* in non-relative mode the same sites are absolute as soon as the configured URL is *)
Example urls_absolute_otherwise :
  url_is_relative (site_url false (s "/docs") [s "srv"; s "doc"]
                     (SRelurl [s "index.html"] [s "proc"; s "f.html"])) = false.
Proof. reflexivity. Qed.

(* ------------------------------------------------------------------ entity URLs have depth 1 *)

Fixpoint url_shape (e : entity) {struct e} :
  forall u, url_of e = Some u -> exists d f, u_path u = [d; f].
Proof.
  destruct e as [k obj ident named ifp par]. intros u H.
  cbn [url_of] in H.
  set (via := if anchored_kind k then _ else None) in H.
  assert (VIA : via = Some u -> exists d f, u_path u = [d; f]).
  { subst via. destruct (anchored_kind k); [|discriminate].
    destruct par as [p|]; [|discriminate].
    destruct (url_of p) as [u0|] eqn:E; [|discriminate].
    intros [= <-]. simpl. exact (url_shape p u0 E). }
  destruct (get_dir _) as [d|]; [|auto].
  destruct (str_eqb d []); [auto|]. injection H as <-. simpl. eauto.
Qed.

Example url_shape_nonvacuous :
  let m := Ent KModule (s "module") (s "m") true false None in
  let p := Ent KProcedure (s "proc") (s "p") true false (Some m) in
  let q := Ent KProcedure (s "proc") (s "q") true false (Some p) in
  let v := Ent KVariable (s "variable") (s "x") true false (Some q) in
  option_map render_url (url_of v) = Some (s "proc/p.html#variable-x") /\
  option_map render_url (url_of q) = Some (s "proc/p.html#proc-q").
Proof. vm_compute. auto. Qed.

(* an entity without a page of its own has a URL only through its parent: below a parent without URL
   (a derived type declared inside a procedure, an unnamed interface ...) nothing has a URL, so no
   link can point at an anchor that no page writes *)
Theorem url_none_inherited : forall k obj ident named ifp p,
  get_dir (Ent k obj ident named ifp (Some p)) = None -> url_of p = None ->
  url_of (Ent k obj ident named ifp (Some p)) = None.
Proof.
  intros k obj ident named ifp p Hd Hp. cbn [url_of]. rewrite Hd, Hp.
  destruct (anchored_kind k); reflexivity.
Qed.

(* and only the anchored kinds (variables, bound procedures, common blocks, enumerations, final
   procedures, procedures) ever get "<parent page>#<anchor>": a derived type or interface that has no page
   has no URL *)
Theorem url_unanchored_kind : forall e,
  get_dir e = None -> anchored_kind (e_kind e) = false -> url_of e = None.
Proof.
  intros [k obj ident named ifp par] Hd Hk. simpl in Hk. cbn [url_of]. rewrite Hd, Hk. reflexivity.
Qed.

Example url_local_type_nonvacuous :
  let m := Ent KModule (s "module") (s "m") true false None in
  let p := Ent KProcedure (s "proc") (s "report") true false (Some m) in
  let t := Ent KType (s "type") (s "acc_t") true false (Some p) in
  let b := Ent KBoundProc (s "boundprocedure") (s "add") true false (Some t) in
  get_dir t = None /\ anchored_kind (e_kind t) = false /\ url_of t = None /\ url_of b = None.
Proof. vm_compute. auto. Qed.
