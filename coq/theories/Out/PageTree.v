(* Out/PageTree.v — model of the static page tree of FORD:
     ford/pagetree.py   PageNode.__init__ (title requirement, ordered_subpages, copy_subdir,
                        location / path), get_page_tree (the whole function)
     ford/output.py     PagetreePage.loc / outfile / writeout (mkdir for index pages, page file,
                        copytree of the copy_subdir items, shutil.copy of the other files),
                        the pre-order in which Documentation writes the pages (PageNode.__iter__)
   and, written independently from the property text / user guide, the Spec (mirror function,
   documented order, files copied beside).  Executable definitions only; proofs are in
   Out/PageTreeProofs.v. *)
From Ford Require Import Base.Str.

(* ------------------------------------------------------------------------------------------ *)
(* The input: a directory tree.  A file carries what PageNode reads from it when it is a page:
   whether it has [title] metadata, its ordered_subpage list and its copy_subdir list.
   (For files that are not Markdown these three are ignored.)  The order of [entries] is the
   arbitrary order of os.listdir. *)
Inductive entry :=
| File (name : str) (titled : bool) (ordered copy : list str)
| Dir (name : str) (entries : list entry).

Definition ename (e : entry) : str :=
  match e with File n _ _ _ => n | Dir n _ => n end.

Fixpoint find_entry (n : str) (es : list entry) : option entry :=
  match es with
  | [] => None
  | e :: es' => if str_eqb n (ename e) then Some e else find_entry n es'
  end.

(* ------------------------------------------------------------------------------------------ *)
(* Python pieces *)

(* str < str on 7-bit text (code point order); [sorted] *)
Fixpoint str_leb (a b : str) : bool :=
  match a, b with
  | [], _ => true
  | _ :: _, [] => false
  | x :: a', y :: b' =>
    if code x <? code y then true
    else if code y <? code x then false
    else str_leb a' b'
  end.
Fixpoint insert (x : str) (l : list str) : list str :=
  match l with
  | [] => [x]
  | y :: l' => if str_leb x y then x :: l else y :: insert x l'
  end.
Definition sort (l : list str) : list str := fold_right insert [] l.

(* list(OrderedDict.fromkeys(l)): first occurrences, in order *)
Fixpoint dedup (l : list str) : list str :=
  match l with
  | [] => []
  | x :: l' => x :: filter (fun y => negb (str_eqb x y)) (dedup l')
  end.

(* list.remove(x): the first occurrence *)
Fixpoint remove_first (x : str) (l : list str) : list str :=
  match l with
  | [] => []
  | y :: l' => if str_eqb x y then l' else y :: remove_first x l'
  end.

(* pathlib: the suffix of a file name starts at its last '.', unless that dot is the first or
   the last character *)
Definition dot : ascii := "."%char.
Fixpoint last_dot (n : str) (i : nat) (acc : option nat) : option nat :=
  match n with
  | [] => acc
  | c :: n' => last_dot n' (S i) (if ch_eqb c dot then Some i else acc)
  end.
Definition suffix_pos (n : str) : option nat :=
  match last_dot n 0 None with
  | Some i => if (0 <? i) && (S i <? length n) then Some i else None
  | None => None
  end.
Definition suffix (n : str) : str :=
  match suffix_pos n with Some i => skipn i n | None => [] end.
Definition stem (n : str) : str :=
  match suffix_pos n with Some i => firstn i n | None => n end.
(* PurePath.with_suffix *)
Definition with_suffix (n suf : str) : str := stem n ++ suf.

Definition idx : str := s "index.md".
Definition is_md (n : str) : bool := str_eqb (suffix n) (s ".md").
(* PageNode: filename = Path(path.stem); path = location / f"{filename}.html" *)
Definition out_name (file : str) : str := stem file ++ s ".html".
(* PagetreePage.writeout: self.obj.filename.stem == "index" *)
Definition is_index_file (file : str) : bool := str_eqb (stem (stem file)) (s "index").

Definition hidden (n : str) : bool :=
  match n with c :: _ => ch_eqb c dot | [] => false end.
Definition backup (n : str) : bool :=
  match rev n with c :: _ => ch_eqb c "~"%char | [] => false end.

(* ------------------------------------------------------------------------------------------ *)
(* PageNode objects *)
Inductive node :=
| Node (name : str)            (* the entry this node stands for in its parent's listing *)
       (file : str)            (* the Markdown file read: "index.md" or the page's own file *)
       (loc : list str)        (* PageNode.location, as path components below page_dir *)
       (ordered copy files : list str)
       (subs : list node).

Definition n_name (n : node) := match n with Node a _ _ _ _ _ _ => a end.
Definition n_file (n : node) := match n with Node _ a _ _ _ _ _ => a end.
Definition n_loc (n : node) := match n with Node _ _ a _ _ _ _ => a end.
Definition n_ordered (n : node) := match n with Node _ _ _ a _ _ _ => a end.
Definition n_copy (n : node) := match n with Node _ _ _ _ a _ _ => a end.
Definition n_files (n : node) := match n with Node _ _ _ _ _ a _ => a end.
Definition n_subs (n : node) := match n with Node _ _ _ _ _ _ a => a end.

Definition src_path (n : node) : list str := n_loc n ++ [n_file n].
Definition out_path (n : node) : list str := n_loc n ++ [out_name (n_file n)].

(* PageNode.__iter__ : the node, then its sub-pages, depth first *)
Fixpoint preorder (n : node) : list node :=
  match n with Node _ _ _ _ _ _ subs => n :: flat_map preorder subs end.

(* result of get_page_tree: an exception that leaves it (RErr), None (RNone), or a node *)
Inductive res := RErr | RNone | RNode (n : node).

(* self.ordered_subpages / self.copy_subdir *)
Definition ordered_of (ord : list str) : list str :=
  filter (fun x => negb (str_eqb x idx)) ord.
Definition eff_copy (proj cp : list str) : list str :=
  match cp with [] => proj | _ => cp end.

(* what one iteration of the loop over [mergedfilelist] does *)
Inductive visit := VSkip | VErr | VSub (n : node) | VFile (f : str).

Definition leaf (proj : list str) (loc : list str) (f : str) (ord cp : list str) : node :=
  Node f f loc (ordered_of ord) (eff_copy proj cp) [] [].

Definition in_opt (x : str) (l : option (list str)) : bool :=
  match l with Some l' => str_in x l' | None => false end.

Definition visit_name (proj : list str) (pcopy : option (list str)) (loc : list str)
           (es : list entry) (sub : list (str * res)) (name : str) : visit :=
  match name with
  | [] => VErr                                    (* name[0] : IndexError *)
  | _ :: _ =>
    if hidden name then VSkip
    else if backup name then VSkip
    else match find_entry name es with
         | None => VErr                           (* "Requested page file ... does not exist" *)
         | Some (Dir _ _) =>
           if in_opt name pcopy then VSkip        (* name in node.copy_subdir; see [gpt] *)
           else match assoc_get name sub with
                | Some (RNode n) => VSub n
                | Some RErr => VErr
                | _ => VSkip
                end
         | Some (File _ titled ord cp) =>
           if is_md name
           then (if titled then VSub (leaf proj loc name ord cp) else VSkip)
           else VFile name
         end
  end.

Definition v_subs (vs : list visit) : list node :=
  flat_map (fun v => match v with VSub n => [n] | _ => [] end) vs.
Definition v_files (vs : list visit) : list str :=
  flat_map (fun v => match v with VFile f => [f] | _ => [] end) vs.
Definition v_err (vs : list visit) : bool :=
  existsb (fun v => match v with VErr => true | _ => false end) vs.

(* sorted(os.listdir(topdir)) without "index.md" *)
Definition listing (es : list entry) : list str := remove_first idx (sort (map ename es)).
Definition merged (ordered : list str) (lst : list str) : list str :=
  match ordered with [] => lst | _ => dedup (ordered ++ lst) end.

(* get_page_tree(topdir = the directory [e] at [loc], parent = a node whose copy_subdir is
   [pcopy], or None; the parent is only recorded in the node, it has no influence on the
   result).  [proj] is the project-level copy_subdir list. *)
Fixpoint gpt (proj : list str) (pcopy : option (list str)) (loc : list str) (e : entry)
  {struct e} : res :=
  match e with
  | File _ _ _ _ => RNone
  | Dir dname es =>
    match find_entry idx es with
    | Some (File _ true ord cp) =>
      let ordered := ordered_of ord in
      let copy := eff_copy proj cp in
      let sub := map (fun x => (ename x, gpt proj (Some copy) (loc ++ [ename x]) x)) es in
      (* the list consulted for skipping a sub-directory is the one of this directory's own node *)
      let vs := map (visit_name proj (Some copy) loc es sub) (merged ordered (listing es)) in
      if v_err vs then RErr
      else RNode (Node dname idx loc ordered copy (v_files vs) (v_subs vs))
    | _ => RNone                                  (* no index.md / it has no title *)
    end
  end.

(* the call made by ford.main: page_dir itself *)
Definition page_tree (proj : list str) (es : list entry) : res := gpt proj None [] (Dir [] es).

Definition res_nodes (r : res) : list node :=
  match r with RNode n => preorder n | _ => [] end.
(* (source file, output file) of every page, in the order of the navigation *)
Definition pages (r : res) : list (list str * list str) :=
  map (fun n => (src_path n, out_path n)) (res_nodes r).

(* ------------------------------------------------------------------------------------------ *)
(* Writing out: the files below <output>/page *)
Inductive origin :=
| Page (src : list str)        (* rendered from this Markdown file *)
| Copy (src : list str).       (* byte copy of this file of page_dir *)
Inductive dkind := Made | Copied.

Record fs := { f_files : list (list str * origin);      (* newest first *)
               f_dirs : list (list str * dkind) }.

Definition path_eqb (a b : list str) : bool := list_eqb str_eqb a b.
Definition dir_exists (p : list str) (st : fs) : bool :=
  existsb (fun d => path_eqb p (fst d)) (f_dirs st).

Definition mkdir (p : list str) (st : fs) : fs :=
  if dir_exists p st then st
  else {| f_files := f_files st; f_dirs := (p, Made) :: f_dirs st |}.
Definition add_file (p : list str) (o : origin) (st : fs) : fs :=
  {| f_files := (p, o) :: f_files st; f_dirs := f_dirs st |}.

(* every file / directory below a directory, relative to it *)
Fixpoint all_files (e : entry) : list (list str) :=
  match e with
  | File n _ _ _ => [[n]]
  | Dir n es => map (cons n) (flat_map all_files es)
  end.
Fixpoint all_dirs (e : entry) : list (list str) :=
  match e with
  | File _ _ _ _ => []
  | Dir n es => [n] :: map (cons n) (flat_map all_dirs es)
  end.

Fixpoint dir_at (path : list str) (es : list entry) : option (list entry) :=
  match path with
  | [] => Some es
  | d :: p' =>
    match find_entry d es with
    | Some (Dir _ es') => dir_at p' es'
    | _ => None
    end
  end.

(* copytree(from_path / item, to_path / item): fails (warning only) when the source is not a
   directory or when the destination exists already *)
Definition copy_item (root : list entry) (loc : list str) (st : fs) (item : str) : fs :=
  match dir_at loc root with
  | Some es =>
    match find_entry item es with
    | Some (Dir d sub) =>
      if dir_exists (loc ++ [item]) st then st
      else {| f_files := rev (map (fun p => (loc ++ p, Copy (loc ++ p))) (all_files (Dir d sub)))
                           ++ f_files st;
              f_dirs := map (fun p => (loc ++ p, Copied)) (all_dirs (Dir d sub)) ++ f_dirs st |}
    | _ => st
    end
  | None => st
  end.

(* shutil.copy(from_path / item, to_path) *)
Definition copy_file (loc : list str) (st : fs) (f : str) : fs :=
  add_file (loc ++ [f]) (Copy (loc ++ [f])) st.

Definition write_node (root : list entry) (st : fs) (n : node) : fs :=
  let st1 := if is_index_file (n_file n) then mkdir (n_loc n) st else st in
  let st2 := add_file (out_path n) (Page (src_path n)) st1 in
  let st3 := fold_left (copy_item root (n_loc n)) (n_copy n) st2 in
  fold_left (copy_file (n_loc n)) (n_files n) st3.

Definition fs0 : fs := {| f_files := []; f_dirs := [([], Made)] |}.
Definition write_nodes (root : list entry) (ns : list node) (st : fs) : fs :=
  fold_left (write_node root) ns st.
Definition writeout (root : list entry) (r : res) : fs := write_nodes root (res_nodes r) fs0.

(* the file that finally sits at a path *)
Fixpoint file_at (p : list str) (l : list (list str * origin)) : option origin :=
  match l with
  | [] => None
  | (q, o) :: l' => if path_eqb p q then Some o else file_at p l'
  end.

(* ------------------------------------------------------------------------------------------ *)
(* Spec — from the property text and the user guide ("Static Pages"), not from the code.

   * A page is a Markdown file (name ends in ".md") with a title, lying in page_dir or in a
     chain of sub-directories that each contain an index.md with a title; hidden (".x") and
     backup ("x~") entries are no pages.  Its output file has the same relative path with the
     extension "html" instead of "md".
   * Within a directory the order is: the entries named by ordered_subpage of its index.md, in
     the order given (once each), then all remaining entries alphabetically.
   * All other (non-Markdown, non-hidden) files of such a directory are copied beside the pages;
     the directories named by copy_subdir of an index.md are copied verbatim.
   A directory that is named by the copy_subdir of its own directory's index.md *and* has an
   index.md of its own can be read both ways in the user guide (still a sub-tree of pages, or
   only copied); [skip] decides, per directory (given by its path), which reading applies.  It
   is consulted for such directories only.  The repaired code implements "only copied"
   (skip = fun _ => true): such a directory is "copied along without containing an index.md
   itself", as the comment in PageNode puts it. *)
Definition only_copied : list str -> bool := fun _ => true.

Fixpoint ends_with (suf x : str) : bool :=
  if str_eqb suf x then true
  else match x with [] => false | _ :: x' => ends_with suf x' end.
Definition md_name (n : str) : bool :=
  ends_with (s ".md") n && (3 <? length n) && negb (hidden n) && negb (backup n).
Definition html_name (n : str) : str := firstn (length n - 3) n ++ s ".html".
Definition visible (n : str) : bool :=
  match n with [] => false | _ => negb (hidden n) && negb (backup n) end.

Definition spec_order (ordered names : list str) : list str :=
  dedup ordered ++ sort (filter (fun n => negb (str_in n ordered)) names).

Definition titled_index (es : list entry) : option (list str * list str) :=
  match find_entry idx es with
  | Some (File _ true ord cp) => Some (ord, cp)
  | _ => None
  end.

Fixpoint spec_pages (skip : list str -> bool) (proj : list str) (loc : list str) (e : entry)
  {struct e} : list (list str * list str) :=
  match e with
  | File n titled _ _ =>
    if md_name n && titled then [(loc ++ [n], loc ++ [html_name n])] else []
  | Dir d es =>
    match titled_index es with
    | None => []
    | Some (ord, cp) =>
      let sub := map (fun x => (ename x,
                   match x with
                   | File _ _ _ _ => spec_pages skip proj loc x
                   | Dir n _ =>
                     if str_in n (eff_copy proj cp) && skip (loc ++ [n]) then []
                     else spec_pages skip proj (loc ++ [n]) x
                   end)) es in
      (loc ++ [idx], loc ++ [s "index.html"])
        :: flat_map (fun n => if visible n && negb (str_eqb n idx)
                              then match assoc_get n sub with Some l => l | None => [] end
                              else [])
                    (spec_order ord (map ename es))
    end
  end.

(* the other files that must be copied beside the pages *)
Definition plain_file (e : entry) : bool :=
  match e with
  | File n _ _ _ => visible n && negb (ends_with (s ".md") n && (3 <? length n))
  | Dir _ _ => false
  end.
Fixpoint spec_copied (proj : list str) (loc : list str) (e : entry) {struct e}
  : list (list str) :=
  match e with
  | File _ _ _ _ => []
  | Dir d es =>
    match titled_index es with
    | None => []
    | Some (_, cp) =>
      map (fun x => loc ++ [ename x]) (filter plain_file es)
        ++ flat_map (fun x => match x with
                              | Dir n _ =>
                                if visible n && negb (str_in n (eff_copy proj cp))
                                then spec_copied proj (loc ++ [n]) x else []
                              | File _ _ _ _ => []
                              end) es
    end
  end.

Definition has_titled_index (e : entry) : bool :=
  match e with
  | Dir _ es => match titled_index es with Some _ => true | None => false end
  | File _ _ _ _ => false
  end.

(* the directories that the copy_subdir list (own metadata, else the project setting) of a
   written page names: all their files must be present beside that page.  For the index.md of
   a directory this is demanded for every named directory; for another page of the directory it
   is demanded for the directories that are not themselves directories of pages (a directory
   with an index.md of its own may have been written as a sub-tree before, and copytree refuses
   an existing destination). *)
Definition copy_items (es : list entry) (loc : list str) (from_index : bool)
           (items : list str) : list (list str) :=
  flat_map (fun item => match find_entry item es with
                        | Some (Dir n sub) =>
                          if from_index || negb (has_titled_index (Dir n sub))
                          then map (app loc) (all_files (Dir n sub)) else []
                        | _ => []
                        end) items.

Fixpoint spec_copydirs (proj : list str) (loc : list str) (e : entry) {struct e}
  : list (list str) :=
  match e with
  | File _ _ _ _ => []
  | Dir d es =>
    match titled_index es with
    | None => []
    | Some (_, cp) =>
      copy_items es loc true (eff_copy proj cp)
        ++ flat_map (fun x => match x with
                              | File n true _ cpx =>
                                if md_name n && negb (str_eqb n idx)
                                then copy_items es loc false (eff_copy proj cpx) else []
                              | _ => []
                              end) es
        ++ flat_map (fun x => match x with
                              | Dir n _ =>
                                if visible n && negb (str_in n (eff_copy proj cp))
                                then spec_copydirs proj (loc ++ [n]) x else []
                              | File _ _ _ _ => []
                              end) es
    end
  end.

(* ... and nothing else is copied: every byte copy below <output>/page is a file that the two
   clauses above account for -- an other file of a page directory, or a file of a directory
   named by the list that governs a written page: the page's own copy_subdir metadata if the key
   is present (even with an empty value: "copy nothing here"), else the project's list *)
Fixpoint spec_may_copy (proj : list str) (loc : list str) (e : entry) {struct e}
  : list (list str) :=
  match e with
  | File _ _ _ _ => []
  | Dir d es =>
    match titled_index es with
    | None => []
    | Some (_, cp) =>
      map (fun x => loc ++ [ename x]) (filter plain_file es)
        ++ copy_items es loc true (eff_copy proj cp)
        ++ flat_map (fun x => match x with
                              | File n true _ cpx =>
                                if md_name n && negb (str_eqb n idx)
                                then copy_items es loc true (eff_copy proj cpx) else []
                              | _ => []
                              end) es
        ++ flat_map (fun x => match x with
                              | Dir n _ =>
                                if visible n && negb (str_in n (eff_copy proj cp))
                                then spec_may_copy proj (loc ++ [n]) x else []
                              | File _ _ _ _ => []
                              end) es
    end
  end.

(* an ordered_subpage entry that names nothing in its directory: the run may stop with an
   error message instead of producing the pages *)
Fixpoint may_fail (e : entry) : bool :=
  match e with
  | File _ _ _ _ => false
  | Dir _ es =>
    match titled_index es with
    | None => false
    | Some (ord, _) =>
      existsb (fun n => negb (str_eqb n idx) && negb (str_in n (map ename es))) ord
      || existsb (fun x => match x with
                           | Dir n _ => visible n && may_fail x
                           | File _ _ _ _ => false
                           end) es
    end
  end.

(* ------------------------------------------------------------------------------------------ *)
(* names of a directory: what a file system guarantees *)
Definition good_name (n : str) : bool :=
  match n with [] => false | _ => negb (existsb (fun c => ch_eqb c "/"%char) n) end.
Fixpoint nodup_names (l : list str) : bool :=
  match l with [] => true | x :: l' => negb (str_in x l') && nodup_names l' end.
Fixpoint wf_tree (e : entry) : bool :=
  match e with
  | File n _ _ _ => good_name n
  | Dir n es => nodup_names (map ename es) && forallb wf_tree es
  end.

(* does the entry named [n] of the directory [es] at [loc] become a sub-page (a page of its own
   or a sub-tree)?  [copy]: the copy_subdir list of this directory's node *)
Definition yields_page (proj : list str) (loc : list str)
           (es : list entry) (copy : list str) (n : str) : bool :=
  visible n &&
  match find_entry n es with
  | Some (Dir _ _ as x) =>
    negb (str_in n copy) &&
    match gpt proj (Some copy) (loc ++ [n]) x with RNode _ => true | _ => false end
  | Some (File _ titled _ _) => is_md n && titled
  | None => false
  end.

(* ------------------------------------------------------------------------------------------ *)
(* removing one page from a node tree (used to state that a page without a title removes
   exactly itself) *)
Definition remove_sub (f : str) (n : node) : node :=
  match n with
  | Node a b c d e fl subs =>
    Node a b c d e fl (filter (fun x => negb (str_eqb (n_name x) f)) subs)
  end.
Definition map_sub (dn : str) (g : node -> node) (n : node) : node :=
  match n with
  | Node a b c d e fl subs =>
    Node a b c d e fl (map (fun x => if str_eqb (n_name x) dn then g x else x) subs)
  end.
(* follow the sub-trees named ds, then remove the sub-page f there *)
Fixpoint prune (ds : list str) (f : str) : node -> node :=
  match ds with
  | [] => remove_sub f
  | d :: ds' => map_sub d (prune ds' f)
  end.
Definition res_map (g : node -> node) (r : res) : res :=
  match r with RNode n => RNode (g n) | _ => r end.

(* a directory tree with a hole: the enclosing directories, outermost first *)
Inductive frame := Frame (dname : str) (before after : list entry).
Fixpoint plug (ctx : list frame) (e : entry) : entry :=
  match ctx with
  | [] => e
  | Frame d b a :: ctx' => Dir d (b ++ plug ctx' e :: a)
  end.
Definition hole_name (ctx : list frame) (nm : str) : str :=
  match ctx with [] => nm | Frame d _ _ :: _ => d end.
(* the names leading from the outermost directory down to the directory called nm *)
Fixpoint ctx_path (ctx : list frame) (nm : str) : list str :=
  match ctx with
  | [] => []
  | Frame _ _ _ :: ctx' => hole_name ctx' nm :: ctx_path ctx' nm
  end.
(* the hole is the first entry of its name in each enclosing directory *)
Fixpoint ctx_ok (ctx : list frame) (nm : str) : bool :=
  match ctx with
  | [] => true
  | Frame _ b _ :: ctx' => negb (str_in (hole_name ctx' nm) (map ename b)) && ctx_ok ctx' nm
  end.
