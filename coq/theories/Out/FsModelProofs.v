(* Out/FsModelProofs.v — confinement of a FORD run to its output / graph directory (C19) *)
From Ford Require Import Base.Str Base.StrFacts Out.FsModel.
From Coq Require Import Lia.

(* ------------------------------------------------------------------ Spec side *)

(* p lies in the subtree rooted at root (root itself included) *)
Definition under (root p : path) : Prop := exists rest, p = root ++ rest.

Definition op_confined (rs : list path) (o : op) : Prop :=
  Forall (fun t => exists r, In r rs /\ under r t) (targets o).

(* g agrees with f everywhere outside the roots, except that a missing ancestor directory of a
   root may have been created (as a directory) *)
Definition agree_outside (rs : list path) (f g : fs) : Prop :=
  forall q, (forall r, In r rs -> ~ under r q) ->
    g q = f q \/ ((exists r, In r rs /\ under q r) /\ f q = None /\ g q = Some Dir).

Definition ancestors_exist (rs : list path) (f : fs) : Prop :=
  forall r q, In r rs -> under q r -> q <> r -> f q <> None.

Definition links_clean (ln : links) : Prop := Forall (fun kt => clean (snd kt) = true) ln.

(* ------------------------------------------------------------------ paths *)

Lemma path_eqb_eq a b : path_eqb a b = true <-> a = b.
Proof. apply list_eqb_eq. apply str_eqb_eq. Qed.

Lemma path_eqb_refl a : path_eqb a a = true.
Proof. now apply path_eqb_eq. Qed.

Lemma under_refl p : under p p.
Proof. exists []. now rewrite app_nil_r. Qed.

Lemma under_app r x : under r (r ++ x).
Proof. now exists x. Qed.

Lemma under_trans a b c : under a b -> under b c -> under a c.
Proof. intros [x ->] [y ->]. exists (x ++ y). now rewrite app_assoc. Qed.

Lemma under_nil p : under [] p.
Proof. now exists p. Qed.

Lemma under_cons x a b : under (x :: a) (x :: b) <-> under a b.
Proof.
  split; intros [r H]; exists r.
  - simpl in H. now injection H.
  - simpl. now rewrite H.
Qed.

Lemma prefixb_under a b : prefixb a b = true <-> under a b.
Proof.
  revert b. induction a as [|x a IH]; intros b; simpl.
  - split; auto using under_nil.
  - destruct b as [|y b].
    + split; [discriminate|]. intros [r H]. discriminate.
    + rewrite andb_true_iff, str_eqb_eq, IH. split.
      * intros [-> H]. now apply under_cons.
      * intros [r H]. simpl in H. injection H as -> H. split; [reflexivity|]. now exists r.
Qed.

Lemma prefixb_false a b : prefixb a b = false <-> ~ under a b.
Proof.
  split.
  - intros H U. apply prefixb_under in U. congruence.
  - intros H. destruct (prefixb a b) eqn:E; [|reflexivity]. apply prefixb_under in E. contradiction.
Qed.

Lemma strip_prefix_some a b suf : strip_prefix a b = Some suf -> b = a ++ suf.
Proof.
  revert b. induction a as [|x a IH]; intros b H; simpl in *.
  - now injection H as ->.
  - destruct b as [|y b]; [discriminate|]. destruct (str_eqb x y) eqn:E; [|discriminate].
    apply str_eqb_eq in E. subst y. simpl. f_equal. now apply IH.
Qed.

Lemma under_comparable t q r : under q t -> under r t -> under q r \/ under r q.
Proof.
  revert r t. induction q as [|a q IH]; intros r t Hq Hr.
  - left. apply under_nil.
  - destruct r as [|b r]; [right; apply under_nil|].
    destruct Hq as [x Hx], Hr as [y Hy]. subst t. simpl in Hy. injection Hy as -> Hy.
    destruct (IH r (q ++ x)) as [H|H]; [apply under_app | now exists y | |].
    + left. now apply under_cons.
    + right. now apply under_cons.
Qed.

(* ------------------------------------------------------------------ normalisation *)

Lemma clean_app a b : clean (a ++ b) = clean a && clean b.
Proof. apply forallb_app. Qed.

Lemma clean_rev l : clean (rev l) = clean l.
Proof.
  induction l as [|x l IH]; [reflexivity|]. simpl rev. rewrite clean_app, IH. simpl.
  rewrite andb_true_r. apply andb_comm.
Qed.

Lemma clean_tl l : clean l = true -> clean (tl l) = true.
Proof. destruct l; simpl; auto. intros H. apply andb_true_iff in H. tauto. Qed.

Lemma resolve_aux_clean ln : links_clean ln ->
  forall cs st, clean st = true -> clean (resolve_aux ln st cs) = true.
Proof.
  intros L. induction cs as [|c cs IH]; intros st H; simpl.
  - now rewrite clean_rev.
  - destruct (is_dot c) eqn:D1; [now apply IH|].
    destruct (is_dotdot c) eqn:D2; [apply IH; now apply clean_tl|].
    destruct (link_get _ ln) as [t|] eqn:G.
    + apply IH. rewrite clean_rev.
      clear -L G. induction ln as [|[k t'] ln IHl]; simpl in G; [discriminate|].
      inversion L; subst. destruct (path_eqb _ k); [injection G as <-; assumption | auto].
    + apply IH. simpl. now rewrite D1, D2.
Qed.

Lemma resolve_clean ln cs : links_clean ln -> clean (resolve ln cs) = true.
Proof. intros L. now apply resolve_aux_clean. Qed.

Lemma normalise_cfg_out_clean ln dir pkg r :
  links_clean ln -> clean (out (normalise_cfg ln dir pkg r)) = true.
Proof. intros L. apply resolve_clean, L. Qed.

Lemma resolve_nil_clean_app a : forall st cs, clean a = true ->
  resolve_aux [] st (a ++ cs) = resolve_aux [] (rev a ++ st) cs.
Proof.
  induction a as [|x a IH]; intros st cs H; [reflexivity|].
  simpl in H. apply andb_true_iff in H as [H1 H2]. apply andb_true_iff in H1 as [D1 D2].
  apply negb_true_iff in D1, D2. simpl app. cbn [resolve_aux]. rewrite D1, D2. cbn [link_get].
  rewrite IH by assumption. simpl rev. now rewrite <- app_assoc.
Qed.

Lemma stays_keeps : forall cs s2 s1, stays (length s2) cs = true ->
  exists r, resolve_aux [] (s2 ++ s1) cs = rev s1 ++ r.
Proof.
  induction cs as [|c cs IH]; intros s2 s1 H.
  - exists (rev s2). simpl. apply rev_app_distr.
  - cbn [stays] in H. cbn [resolve_aux].
    destruct (is_dot c); [now apply IH|].
    destruct (is_dotdot c).
    + destruct s2 as [|x s2]; simpl in H; [discriminate|]. simpl. now apply IH.
    + cbn [link_get]. apply (IH (c :: s2) s1). exact H.
Qed.

Lemma norm_under o x : clean o = true -> stays 0 x = true -> under o (norm (o ++ x)).
Proof.
  intros C S. unfold norm. rewrite resolve_nil_clean_app by assumption.
  destruct (stays_keeps x [] (rev o) S) as [r E]. rewrite app_nil_r. simpl in E.
  rewrite E, rev_involutive. now exists r.
Qed.

Lemma stays_snoc c : is_dotdot c = false -> forall cs k, stays k cs = true -> stays k (cs ++ [c]) = true.
Proof.
  intros D. induction cs as [|x cs IH]; intros k H; simpl.
  - rewrite D. now destruct (is_dot c).
  - simpl in H. destruct (is_dot x); [now apply IH|].
    destruct (is_dotdot x); [destruct k; [discriminate | now apply IH] | now apply IH].
Qed.

Lemma html_not_dotdot x : is_dotdot (html x) = false.
Proof.
  unfold is_dotdot, html. apply str_eqb_neq. intros E.
  apply (f_equal (@length _)) in E. rewrite app_length in E. simpl in E. lia.
Qed.

(* ------------------------------------------------------------------ locality of the operations *)

Lemma upd_local f p n q : upd f p n q = f q \/ q = p.
Proof. unfold upd. destruct (path_eqb q p) eqn:E; [right; now apply path_eqb_eq | now left]. Qed.

Lemma mkdirs_local f p q :
  mkdirs f p q = f q \/ (under q p /\ f q = None /\ mkdirs f p q = Some Dir).
Proof.
  unfold mkdirs. destruct (chain_ok f [] p); [|now left].
  destruct (prefixb q p) eqn:E; [|now left]. apply prefixb_under in E.
  destruct (f q) eqn:F; [now left|]. right. auto.
Qed.

Lemma run_op_local o f q :
  run_op o f q = f q
  \/ (exists t, In t (targets o) /\ under t q)
  \/ (exists t, In t (targets o) /\ under q t /\ f q = None /\ run_op o f q = Some Dir).
Proof.
  destruct o as [p|p|p|p|p|a b|a b|a b]; simpl.
  - destruct (is_dir f p); [|now left]. destruct (prefixb p q) eqn:E; [|now left].
    right; left. exists p. split; [now left | now apply prefixb_under].
  - destruct (is_file f p); [|now left]. destruct (upd_local f p None q) as [H| ->]; [now left|].
    right; left. exists p. split; [now left | apply under_refl].
  - destruct (f p); [now left|]. destruct (is_dir f (parent p)); [|now left].
    destruct (upd_local f p (Some Dir) q) as [H| ->]; [now left|].
    right; left. exists p. split; [now left | apply under_refl].
  - destruct (mkdirs_local f p q) as [H|(U & N & D)]; [now left|].
    right; right. exists p. split; [now left | auto].
  - destruct (writable f p); [|now left].
    destruct (upd_local f p (Some (File 0)) q) as [H| ->]; [now left|].
    right; left. exists p. split; [now left | apply under_refl].
  - destruct (f a) as [[c|]|]; try now left.
    destruct (writable f _); [|now left].
    destruct (upd_local f (if is_dir f b then b ++ [last a []] else b) (Some (File c)) q) as [H| ->];
      [now left|].
    right; left. exists b. split; [now left|].
    destruct (is_dir f b); [apply under_app | apply under_refl].
  - destruct (is_dir f a && is_none (f b)); [|now left].
    destruct (is_dir (mkdirs f b) b); [|now left].
    destruct (strip_prefix b q) as [suf|] eqn:E.
    + right; left. exists b. split; [now left|]. apply strip_prefix_some in E. now exists suf.
    + destruct (mkdirs_local f b q) as [H|(U & N & D)]; [now left|].
      right; right. exists b. split; [now left | auto].
  - destruct (f a) as [[c|]|]; try now left.
    destruct (writable f b); [|now left].
    destruct (upd_local (upd f a None) b (Some (File c)) q) as [H| ->].
    + rewrite H. destruct (upd_local f a None q) as [H2| ->]; [now left|].
      right; left. exists a. split; [now left | apply under_refl].
    + right; left. exists b. split; [right; now left | apply under_refl].
Qed.

Lemma agree_refl rs f : agree_outside rs f f.
Proof. intros q _. now left. Qed.

Lemma agree_trans rs f g h : agree_outside rs f g -> agree_outside rs g h -> agree_outside rs f h.
Proof.
  intros A B q Hq. destruct (A q Hq) as [E|(X & N & D)], (B q Hq) as [E'|(X' & N' & D')].
  - left. congruence.
  - right. split; [assumption|]. split; congruence.
  - right. split; [assumption|]. split; congruence.
  - congruence.
Qed.

Lemma step_agree rs o f : op_confined rs o -> agree_outside rs f (run_op o f).
Proof.
  intros C q Hq. unfold op_confined in C. rewrite Forall_forall in C.
  destruct (run_op_local o f q) as [H|[(t & I & U)|(t & I & U & N & D)]].
  - now left.
  - exfalso. destruct (C t I) as (r & Ir & Ur). apply (Hq r Ir). eapply under_trans; eauto.
  - destruct (C t I) as (r & Ir & Ur).
    destruct (under_comparable t q r U Ur) as [H|H].
    + right. split; [now exists r | auto].
    + exfalso. now apply (Hq r Ir).
Qed.

(* confined, or a copy of a tree onto itself *)
Definition op_harmless (rs : list path) (o : op) : Prop :=
  op_confined rs o \/ exists a, o = CopyTree a a.

Lemma copytree_self a f : run_op (CopyTree a a) f = f.
Proof.
  simpl. unfold is_dir, is_none. destruct (f a) as [[c|]|]; reflexivity.
Qed.

Lemma step_agree_harmless rs o f : op_harmless rs o -> agree_outside rs f (run_op o f).
Proof.
  intros [C|(a & ->)]; [now apply step_agree|]. rewrite copytree_self. apply agree_refl.
Qed.

Lemma run_agree rs ops : Forall (op_harmless rs) ops -> forall f, agree_outside rs f (run ops f).
Proof.
  induction 1 as [|o ops C _ IH]; intros f; [apply agree_refl|].
  simpl. eapply agree_trans; [apply step_agree_harmless; eassumption | apply IH].
Qed.

Lemma Forall_firstn {A} (P : A -> Prop) k l : Forall P l -> Forall P (firstn k l).
Proof.
  intros H. revert k. induction H; intros [|k]; simpl; constructor; auto.
Qed.

(* ------------------------------------------------------------------ targets of a run *)

Lemma conf_out c l (X : path -> op) :
  (forall p, targets (X p) = [p]) -> op_confined (roots c) (X (out c ++ l)).
Proof.
  intros T. unfold op_confined. rewrite T. constructor; [|constructor].
  exists (out c). split; [now left | apply under_app].
Qed.

Lemma conf_out2 c a l (X : path -> path -> op) :
  (forall a p, targets (X a p) = [p]) -> op_confined (roots c) (X a (out c ++ l)).
Proof.
  intros T. unfold op_confined. rewrite T. constructor; [|constructor].
  exists (out c). split; [now left | apply under_app].
Qed.

Lemma conf_under c t (X : path -> op) :
  (forall p, targets (X p) = [p]) -> under (out c) t -> op_confined (roots c) (X t).
Proof.
  intros T U. unfold op_confined. rewrite T. constructor; [|constructor].
  exists (out c). split; [now left | assumption].
Qed.

Lemma conf_under2 c a t (X : path -> path -> op) :
  (forall a p, targets (X a p) = [p]) -> under (out c) t -> op_confined (roots c) (X a t).
Proof.
  intros T U. unfold op_confined. rewrite T. constructor; [|constructor].
  exists (out c). split; [now left | assumption].
Qed.

Lemma Forall_map_intro {A B} (P : B -> Prop) (g : A -> B) l :
  (forall x, In x l -> P (g x)) -> Forall P (map g l).
Proof. intros H. apply Forall_forall. intros y I. apply in_map_iff in I as (x & <- & I). auto. Qed.

Lemma Forall_flat_map_intro {A B} (P : B -> Prop) (g : A -> list B) l :
  (forall x, In x l -> Forall P (g x)) -> Forall P (flat_map g l).
Proof.
  intros H. induction l as [|x l IH]; simpl; [constructor|].
  apply Forall_app. split; [apply H; now left | apply IH; intros; apply H; now right].
Qed.

Lemma graph_ops_confined c p : Forall (op_confined (roots c)) (graph_ops c p).
Proof.
  unfold graph_ops. destruct (graph_dir c) as [gd|] eqn:G; [|constructor].
  assert (R : In gd (roots c)) by (unfold roots; rewrite G; right; now left).
  constructor.
  - constructor; [|constructor]. exists gd. split; [assumption | apply under_refl].
  - apply Forall_flat_map_intro. intros name _. unfold graph_file_ops.
    repeat constructor; exists gd; (split; [assumption | first [apply under_refl | apply under_app]]).
Qed.

Lemma page_ops_confined c pd pg :
  clean (out c) = true -> loc_ok pg = true -> copy_ok pg = true ->
  Forall (op_confined (roots c)) (page_ops c pd pg).
Proof.
  intros C L K. unfold page_ops, page_root.
  assert (U : under (out c) (norm ((out c ++ [s "page"]) ++ pg_loc pg))).
  { rewrite <- app_assoc. apply norm_under; assumption. }
  repeat (apply Forall_app; split).
  - destruct (str_eqb (pg_stem pg) (s "index")); [|constructor].
    constructor; [|constructor]. now apply conf_under.
  - constructor; [|constructor]. apply conf_under; [reflexivity|].
    rewrite <- app_assoc. apply norm_under; [assumption|]. simpl app.
    change (s "page" :: pg_loc pg ++ [html (pg_stem pg)])
      with ((s "page" :: pg_loc pg) ++ [html (pg_stem pg)]).
    apply stays_snoc; [apply html_not_dotdot | exact L].
  - apply Forall_map_intro. intros item I. apply conf_under2; [reflexivity|].
    unfold copy_ok in K. rewrite forallb_forall in K. specialize (K item I).
    apply andb_true_iff in K as [K1 K2]. apply negb_true_iff in K1. unfold pjoin. rewrite K1.
    rewrite <- !app_assoc. apply norm_under; assumption.
  - apply Forall_map_intro. intros f _. now apply conf_under2.
Qed.

Lemma pages_ops_confined c pages :
  clean (out c) = true -> pages_confined pages = true ->
  Forall (op_confined (roots c)) (pages_ops c pages).
Proof.
  intros C P. unfold pages_ops. destruct (page_dir c) as [pd|]; [|constructor].
  unfold pages_confined, pages_loc_ok, pages_copy_ok in P. apply andb_true_iff in P as [P1 P2].
  rewrite forallb_forall in P1, P2.
  apply Forall_flat_map_intro. intros pg I. apply page_ops_confined; auto.
Qed.

Theorem main_ops_confined b pkg c p pages :
  clean (out c) = true -> pages_confined pages = true ->
  Forall (op_confined (roots c)) (main_ops b pkg c p pages).
Proof.
  intros C P. unfold main_ops, writeout_ops.
  repeat (apply Forall_app; split).
  - constructor; [|constructor; [|constructor]].
    + rewrite <- (app_nil_r (out c)). destruct b; now apply conf_out.
    + rewrite <- (app_nil_r (out c)). now apply conf_out.
  - apply Forall_map_intro. intros d _. now apply conf_out.
  - apply Forall_map_intro. intros d _. now apply conf_out2.
  - destruct (graph c); [apply graph_ops_confined | constructor].
  - destruct (search c); [|constructor].
    constructor; [now apply conf_out2 | constructor; [now apply conf_out | constructor]].
  - destruct (media c); [|constructor]. constructor; [now apply conf_out2 | constructor].
  - destruct (css c); [|constructor]. constructor; [now apply conf_out2 | constructor].
  - constructor; [now apply conf_out2 | constructor].
  - destruct (incl_src c); [|constructor]. apply Forall_map_intro. intros f _. now apply conf_out2.
  - destruct (mathjax c); [|constructor].
    constructor; [now apply conf_out | constructor; [now apply conf_out2 | constructor]].
  - apply Forall_map_intro. intros d _. now apply conf_out.
  - apply Forall_map_intro. intros d _. now apply conf_out.
  - now apply pages_ops_confined.
  - constructor; [now apply conf_out | constructor; [now apply conf_out | constructor]].
  - destruct (externalize c); [|constructor]. constructor; [now apply conf_out | constructor].
Qed.

Theorem ford_ops_confined b pkg c p pages :
  clean (out c) = true -> pages_confined pages = true ->
  Forall (op_confined (roots c)) (ford_ops b pkg c p pages).
Proof.
  intros C P. unfold ford_ops. destruct (refuse c); [constructor | now apply main_ops_confined].
Qed.

Lemma page_ops_harmless c pd pg :
  clean (out c) = true -> loc_ok pg = true -> copy_safe pg = true ->
  Forall (op_harmless (roots c)) (page_ops c pd pg).
Proof.
  intros C L K.
  assert (B : Forall (op_confined (roots c)) (page_ops c pd
            {| pg_loc := pg_loc pg; pg_stem := pg_stem pg; pg_copy := []; pg_files := pg_files pg |})).
  { apply page_ops_confined; auto. }
  unfold page_ops in *. cbn [pg_loc pg_stem pg_copy pg_files] in B.
  apply Forall_app in B as [B1 B]. apply Forall_app in B as [B2 B]. apply Forall_app in B as [_ B3].
  repeat (apply Forall_app; split).
  - eapply Forall_impl; [|exact B1]. intros o H. now left.
  - eapply Forall_impl; [|exact B2]. intros o H. now left.
  - apply Forall_map_intro. intros item I.
    unfold copy_safe in K. rewrite forallb_forall in K. specialize (K item I).
    destruct (rp_abs item) eqn:A.
    + right. unfold pjoin. rewrite A. eauto.
    + left. apply conf_under2; [reflexivity|]. simpl in K. unfold pjoin, page_root. rewrite A.
      rewrite <- !app_assoc. apply norm_under; assumption.
  - eapply Forall_impl; [|exact B3]. intros o H. now left.
Qed.

Lemma pages_ops_harmless c pages :
  clean (out c) = true -> pages_safe pages = true ->
  Forall (op_harmless (roots c)) (pages_ops c pages).
Proof.
  intros C P. unfold pages_ops. destruct (page_dir c) as [pd|]; [|constructor].
  unfold pages_safe, pages_loc_ok in P. apply andb_true_iff in P as [P1 P2].
  rewrite forallb_forall in P1, P2.
  apply Forall_flat_map_intro. intros pg I. apply page_ops_harmless; auto.
Qed.

Lemma main_ops_split b pkg c p pages o :
  In o (main_ops b pkg c p pages) -> In o (main_ops b pkg c p []) \/ In o (pages_ops c pages).
Proof.
  unfold main_ops, writeout_ops. rewrite !in_app_iff.
  assert (E : pages_ops c [] = []) by (unfold pages_ops; now destruct (page_dir c)).
  rewrite E. simpl (In o []). tauto.
Qed.

Theorem ford_ops_harmless b pkg c p pages :
  clean (out c) = true -> pages_safe pages = true ->
  Forall (op_harmless (roots c)) (ford_ops b pkg c p pages).
Proof.
  intros C P. unfold ford_ops. destruct (refuse c); [constructor|].
  apply Forall_forall. intros o I. apply main_ops_split in I as [I|I].
  - left. assert (H := main_ops_confined b pkg c p [] C eq_refl).
    rewrite Forall_forall in H. now apply H.
  - assert (H := pages_ops_harmless c pages C P). rewrite Forall_forall in H. now apply H.
Qed.

Lemma pages_confined_safe pages : pages_confined pages = true -> pages_safe pages = true.
Proof.
  unfold pages_confined, pages_safe, pages_copy_ok. intros H. apply andb_true_iff in H as [H1 H2].
  rewrite H1. simpl. rewrite forallb_forall in *. intros pg I. specialize (H2 pg I).
  unfold copy_ok, copy_safe in *. rewrite forallb_forall in *. intros item J.
  specialize (H2 item J). apply andb_true_iff in H2 as [_ H2]. rewrite H2. apply orb_true_r.
Qed.

(* every crash point: any prefix of the operation sequence, on any file system *)
Theorem prefix_safe b pkg c p pages :
  clean (out c) = true -> pages_safe pages = true ->
  forall (f : fs) k, agree_outside (roots c) f (run (firstn k (ford_ops b pkg c p pages)) f).
Proof.
  intros C P f k. apply run_agree, Forall_firstn. now apply ford_ops_harmless.
Qed.

Lemma under_anyb_false rs q : under_anyb rs q = false -> forall r, In r rs -> ~ under r q.
Proof.
  intros H r I U. unfold under_anyb in H.
  assert (E : existsb (fun r => prefixb r q) rs = true).
  { apply existsb_exists. exists r. split; [assumption | now apply prefixb_under]. }
  congruence.
Qed.

Theorem prefix_safe_eq b pkg c p pages :
  clean (out c) = true -> pages_safe pages = true ->
  forall (f : fs) k, ancestors_exist (roots c) f ->
  forall q, outside (roots c) (run (firstn k (ford_ops b pkg c p pages)) f) q = outside (roots c) f q.
Proof.
  intros C P f k A q. unfold outside. destruct (under_anyb (roots c) q) eqn:E; [reflexivity|].
  destruct (prefix_safe b pkg c p pages C P f k q (under_anyb_false _ _ E)) as [H|((r & I & U) & N & _)];
    [assumption|].
  exfalso. apply (A r q I U); [|exact N].
  intros ->. exact (under_anyb_false _ _ E r I (under_refl r)).
Qed.

(* ------------------------------------------------------------------ refusal *)

Theorem refuse_iff c : refuse c = true <-> exists src, In src (srcs c) /\ under (out c) src.
Proof.
  unfold refuse. rewrite existsb_exists. split; intros (src & I & H); exists src; split; auto;
    now apply prefixb_under.
Qed.

Theorem refusal b pkg c p pages src :
  In src (srcs c) -> under (out c) src -> ford_ops b pkg c p pages = [].
Proof.
  intros I U. unfold ford_ops.
  assert (R : refuse c = true) by (apply refuse_iff; eauto). now rewrite R.
Qed.

(* a source directory and its ancestors are never under the output directory of a run that is
   not refused, and nothing a run does changes them *)
Lemma src_not_under_out c src x :
  refuse c = false -> In src (srcs c) -> under x src -> ~ under (out c) x.
Proof.
  intros R I U V.
  assert (T : refuse c = true) by (apply refuse_iff; exists src; split; [assumption|]; eapply under_trans; eauto).
  congruence.
Qed.

Theorem no_source_deleted b pkg c p pages :
  clean (out c) = true -> pages_safe pages = true -> refuse c = false ->
  forall src x, In src (srcs c) -> under x src ->
  (forall g, graph_dir c = Some g -> ~ under g x) ->
  forall (f : fs) k n, f x = Some n -> run (firstn k (ford_ops b pkg c p pages)) f x = Some n.
Proof.
  intros C P R src x I U G f k n F.
  destruct (prefix_safe b pkg c p pages C P f k x) as [H|(_ & N & _)]; [|congruence|congruence].
  intros r Ir. unfold roots in Ir. destruct Ir as [<-|Ir].
  - eapply src_not_under_out; eauto.
  - destruct (graph_dir c) as [g|]; [|contradiction]. destruct Ir as [<-|[]]. now apply G.
Qed.

(* source discovery leaves out everything below the output directory (find_all_files with
   exclude_dir containing output_dir), so no file FORD reads as a source is touched *)
Lemma discovered_not_under_out c f :
  In (out c) (excl c) -> discovered c f = true -> f <> out c -> ~ under (out c) f.
Proof.
  intros I D N U. unfold discovered in D. apply andb_true_iff in D as [_ D].
  apply negb_true_iff in D.
  assert (E : existsb (fun e => properly_below e f) (excl c) = true).
  { apply existsb_exists. exists (out c). split; [assumption|]. unfold properly_below.
    apply andb_true_iff. split; [now apply prefixb_under|]. apply negb_true_iff.
    destruct (path_eqb (out c) f) eqn:Q; [|reflexivity]. apply path_eqb_eq in Q. congruence. }
  congruence.
Qed.

Theorem discovered_sources_kept b pkg c p pages :
  clean (out c) = true -> pages_safe pages = true ->
  In (out c) (excl c) ->
  forall x, discovered c x = true -> x <> out c ->
  (forall g, graph_dir c = Some g -> ~ under g x) ->
  forall (f : fs) k n, f x = Some n -> run (firstn k (ford_ops b pkg c p pages)) f x = Some n.
Proof.
  intros C P I x D N G f k n F.
  destruct (prefix_safe b pkg c p pages C P f k x) as [H|(_ & M & _)]; [|congruence|congruence].
  intros r Ir. unfold roots in Ir. destruct Ir as [<-|Ir].
  - now apply discovered_not_under_out.
  - destruct (graph_dir c) as [g|]; [|contradiction]. destruct Ir as [<-|[]]. now apply G.
Qed.

(* ------------------------------------------------------------------ refutation of the full statement *)

Definition confinedb (rs : list path) (ops : list op) : bool :=
  forallb (fun o => forallb (under_anyb rs) (targets o)) ops.

Lemma confinedb_complete rs ops : Forall (op_confined rs) ops -> confinedb rs ops = true.
Proof.
  intros H. unfold confinedb. apply forallb_forall. intros o I.
  rewrite Forall_forall in H. specialize (H o I). unfold op_confined in H.
  rewrite Forall_forall in H. apply forallb_forall. intros t It.
  destruct (H t It) as (r & Ir & U). unfold under_anyb. apply existsb_exists.
  exists r. split; [assumption | now apply prefixb_under].
Qed.

(* concrete inputs: project directory /proj, output ./doc, pages ./pages *)
Local Open Scope string_scope.
Definition rel (l : list string) : rpath := {| rp_abs := false; rp_comps := map s l |}.

Definition w_rcfg : rcfg :=
  {| r_out := rel ["."; "doc"]; r_out_meta := rel ["."; "doc"]; r_exclude_dir := [];
     r_graph_dir := Some (rel ["graphs"]); r_src := [rel ["."; "src"]]; r_media := Some (rel ["media"]);
     r_css := Some (rel ["user.css"]); r_favicon := None; r_mathjax := Some (rel ["conf"; "mj.js"]);
     r_page_dir := Some (rel ["pages"]);
     r_incl_src := true; r_graph := true; r_search := true; r_externalize := true |}.
Definition w_cfg : cfg := normalise_cfg [] [s "proj"] [s "<ford>"] w_rcfg.
Definition w_proj : proj :=
  {| p_docs := [(s "module", s "m"); (s "proc", s "sub")]; p_lists := [s "modules.html"];
     p_srcfiles := [([s "proj"; s "src"; s "m.f90"], s "m.f90")];
     p_graphs := [s "module~~m~~UsesGraph"] |}.
Definition w_page_ok : page :=
  {| pg_loc := [s "sub"]; pg_stem := s "index"; pg_copy := [rel [".."; "img"]; rel ["data"]];
     pg_files := [s "a.png"] |}.
(* copy_subdir: ../../shared  in pages/index.md *)
Definition w_page_copy : page :=
  {| pg_loc := []; pg_stem := s "index"; pg_copy := [rel [".."; ".."; "shared"]]; pg_files := [] |}.
(* a page reached through  ordered_subpage: sub/../../../note.md  has location ../.. *)
Definition w_page_loc : page :=
  {| pg_loc := [s ".."; s ".."]; pg_stem := s "note"; pg_copy := []; pg_files := [] |}.

Lemma copy_subdir_escapes :
  clean (out w_cfg) = true /\ pages_loc_ok [w_page_copy] = true /\
  confinedb (roots w_cfg) (ford_ops false [s "<ford>"] w_cfg w_proj [w_page_copy]) = false /\
  In (CopyTree [s "shared"] [s "proj"; s "shared"])
     (ford_ops false [s "<ford>"] w_cfg w_proj [w_page_copy]).
Proof. vm_compute. repeat split; auto 60. Qed.

Lemma page_location_escapes :
  clean (out w_cfg) = true /\ pages_copy_ok [w_page_loc] = true /\
  confinedb (roots w_cfg) (ford_ops false [s "<ford>"] w_cfg w_proj [w_page_loc]) = false /\
  In (Write [s "proj"; s "note.html"]) (ford_ops false [s "<ford>"] w_cfg w_proj [w_page_loc]).
Proof. vm_compute. repeat split; auto 60. Qed.

(* the escaping copy really lands outside: on a file system holding /shared/f and the project,
   the run creates /proj/shared/f, which is neither under /proj/doc nor under /proj/graphs *)
Definition w_fs : fs := of_list
  [([], Dir); ([s "proj"], Dir); ([s "proj"; s "src"], Dir); ([s "proj"; s "src"; s "m.f90"], File 1);
   ([s "proj"; s "pages"], Dir); ([s "proj"; s "pages"; s "index.md"], File 2);
   ([s "shared"], Dir); ([s "shared"; s "f"], File 3);
   ([s "<ford>"], Dir); ([s "<ford>"; s "css"], Dir); ([s "<ford>"; s "js"], Dir);
   ([s "<ford>"; s "webfonts"], Dir); ([s "<ford>"; s "search"], Dir);
   ([s "<ford>"; s "favicon.png"], File 4)].

Lemma copy_subdir_escape_effect :
  w_fs [s "proj"; s "shared"; s "f"] = None /\
  run (ford_ops false [s "<ford>"] w_cfg w_proj [w_page_copy]) w_fs [s "proj"; s "shared"; s "f"]
    = Some (File 3) /\
  under_anyb (roots w_cfg) [s "proj"; s "shared"; s "f"] = false.
Proof. vm_compute. auto. Qed.


(* the statement without the restriction on pages is false of the code, for each of the two
   ways a page can point above the output directory *)
Theorem statement_refuted_copy_subdir :
  ~ (forall b pkg c p pages, clean (out c) = true -> pages_loc_ok pages = true ->
       Forall (op_confined (roots c)) (ford_ops b pkg c p pages)).
Proof.
  intros H. destruct copy_subdir_escapes as (C & L & N & _).
  specialize (H false [s "<ford>"] w_cfg w_proj [w_page_copy] C L).
  apply confinedb_complete in H. congruence.
Qed.

Theorem statement_refuted_page_location :
  ~ (forall b pkg c p pages, clean (out c) = true -> pages_copy_ok pages = true ->
       Forall (op_confined (roots c)) (ford_ops b pkg c p pages)).
Proof.
  intros H. destruct page_location_escapes as (C & L & N & _).
  specialize (H false [s "<ford>"] w_cfg w_proj [w_page_loc] C L).
  apply confinedb_complete in H. congruence.
Qed.

Theorem statement_refuted :
  ~ (forall b pkg c p pages, clean (out c) = true ->
       Forall (op_confined (roots c)) (ford_ops b pkg c p pages)).
Proof. intros H. apply statement_refuted_copy_subdir. intros b pkg c p pages C _. now apply H. Qed.

Theorem prefix_safe_refuted :
  ~ (forall b pkg c p pages, clean (out c) = true -> pages_loc_ok pages = true ->
       forall (f : fs) k, agree_outside (roots c) f (run (firstn k (ford_ops b pkg c p pages)) f)).
Proof.
  intros H. destruct copy_subdir_escapes as (C & L & _). destruct copy_subdir_escape_effect as (N & E & U).
  specialize (H false [s "<ford>"] w_cfg w_proj [w_page_copy] C L w_fs
                (length (ford_ops false [s "<ford>"] w_cfg w_proj [w_page_copy]))
                [s "proj"; s "shared"; s "f"] (under_anyb_false _ _ U)).
  rewrite firstn_all in H. rewrite E, N in H. destruct H as [H|(_ & _ & H)]; discriminate H.
Qed.

(* ------------------------------------------------------------------ non-vacuity *)

Example confined_nonvacuous :
  clean (out w_cfg) = true /\ pages_confined [w_page_ok] = true /\ refuse w_cfg = false /\
  length (ford_ops false [s "<ford>"] w_cfg w_proj [w_page_ok]) = 39 /\
  confinedb (roots w_cfg) (ford_ops false [s "<ford>"] w_cfg w_proj [w_page_ok]) = true.
Proof. vm_compute. auto. Qed.

Lemma under_inv q a t : under q (a :: t) -> q = [] \/ exists q', q = a :: q' /\ under q' t.
Proof.
  intros [r H]. destruct q as [|b q]; [now left|]. right. simpl in H. injection H as -> H.
  exists q. split; [reflexivity | now exists r].
Qed.

Lemma under_nil_inv q : under q [] -> q = [].
Proof. intros [r H]. destruct q; [reflexivity | discriminate]. Qed.

Example prefix_safe_nonvacuous :
  ancestors_exist (roots w_cfg) w_fs /\
  run (ford_ops false [s "<ford>"] w_cfg w_proj [w_page_ok]) w_fs [s "proj"; s "doc"; s "src"; s "m.f90"]
    = Some (File 1) /\
  run (ford_ops false [s "<ford>"] w_cfg w_proj [w_page_ok]) w_fs [s "proj"; s "src"; s "m.f90"]
    = Some (File 1).
Proof.
  split; [|vm_compute; auto].
  intros r q I U N.
  change (roots w_cfg) with [[s "proj"; s "doc"]; [s "proj"; s "graphs"]] in I.
  destruct I as [<-|[<-|[]]];
    (apply under_inv in U as [->|(q1 & -> & U)]; [vm_compute; discriminate|];
     apply under_inv in U as [->|(q2 & -> & U)]; [vm_compute; discriminate|];
     apply under_nil_inv in U; subst; now elim N).
Qed.

(* project-level copy_subdir (absolute after normalise_paths): inside the wider class *)
Definition w_page_abs : page :=
  {| pg_loc := []; pg_stem := s "index";
     pg_copy := [{| rp_abs := true; rp_comps := [s "proj"; s "pages"; s "data"] |}]; pg_files := [] |}.
Example safe_nonvacuous :
  pages_safe [w_page_ok; w_page_abs] = true /\ pages_confined [w_page_ok; w_page_abs] = false /\
  In (CopyTree [s "proj"; s "pages"; s "data"] [s "proj"; s "pages"; s "data"])
     (ford_ops false [s "<ford>"] w_cfg w_proj [w_page_ok; w_page_abs]).
Proof. vm_compute. repeat split; auto 60. Qed.

Definition w_refused : rcfg :=
  {| r_out := rel ["."]; r_out_meta := rel ["."]; r_exclude_dir := [];
     r_graph_dir := None; r_src := [rel ["src"; ".."; "src"; "sub"]]; r_media := None;
     r_css := None; r_favicon := None; r_mathjax := None; r_page_dir := None;
     r_incl_src := true; r_graph := false; r_search := false; r_externalize := false |}.

Example refusal_nonvacuous :
  let c := normalise_cfg [] [s "proj"] [s "<ford>"] w_refused in
  In [s "proj"; s "src"; s "sub"] (srcs c) /\ under (out c) [s "proj"; s "src"; s "sub"] /\
  refuse c = true.
Proof. vm_compute. split; [now left|]. split; [now exists [s "src"; s "sub"] | reflexivity]. Qed.

(* through a symbolic link: output_dir ./lnk with /proj/lnk -> /proj/src is refused *)
Example refusal_symlink :
  let c := normalise_cfg [([s "proj"; s "lnk"], [s "proj"; s "src"])] [s "proj"] [s "<ford>"]
             {| r_out := rel ["lnk"]; r_out_meta := rel ["lnk"]; r_exclude_dir := [];
                r_graph_dir := None; r_src := [rel ["src"]]; r_media := None;
                r_css := None; r_favicon := None; r_mathjax := None; r_page_dir := None;
                r_incl_src := true; r_graph := false; r_search := false; r_externalize := false |} in
  out c = [s "proj"; s "src"] /\ refuse c = true.
Proof. vm_compute. auto. Qed.

Example out_clean_nonvacuous :
  links_clean [([s "proj"; s "lnk"], [s "elsewhere"; s "real"])] /\
  out (normalise_cfg [([s "proj"; s "lnk"], [s "elsewhere"; s "real"])] [s "proj"] [s "<ford>"]
         {| r_out := rel ["."; "lnk"; ".."; "lnk"; "sub"; "."]; r_out_meta := rel ["doc"]; r_exclude_dir := [];
            r_graph_dir := None; r_src := [rel ["src"]]; r_media := None; r_css := None; r_favicon := None;
            r_mathjax := None; r_page_dir := None; r_incl_src := true; r_graph := false; r_search := false;
            r_externalize := false |}) = [s "elsewhere"; s "lnk"; s "sub"].
Proof.
  split; [|vm_compute; reflexivity].
  unfold links_clean. apply Forall_cons; [reflexivity | apply Forall_nil].
Qed.

Example no_source_deleted_nonvacuous :
  refuse w_cfg = false /\ In [s "proj"; s "src"] (srcs w_cfg) /\
  discovered w_cfg [s "proj"; s "src"; s "m.f90"] = true /\
  discovered w_cfg [s "proj"; s "doc"; s "src"; s "m.f90"] = false /\
  In (out w_cfg) (excl w_cfg).
Proof. vm_compute. repeat split; auto. Qed.
