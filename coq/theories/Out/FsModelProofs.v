(* Out/FsModelProofs.v — confinement of a FORD run to its output / graph directory (C19) *)
From Ford Require Import Base.Str Base.StrFacts Out.FsModel.
From Coq Require Import Lia.

(* ------------------------------------------------------------------ Spec side *)

(* p lies in the subtree rooted at root (root itself included) *)
Definition under (root p : path) : Prop := exists rest, p = root ++ rest.

Definition op_confined (rs : list path) (o : op) : Prop :=
  Forall (fun t => exists r, In r rs /\ under r t) (targets o).

(* g agrees with f everywhere outside the roots, except that a missing ancestor directory of a
   root may have been created (as a directory) *)
Definition agree_outside (rs : list path) (f g : fs) : Prop :=
  forall q, (forall r, In r rs -> ~ under r q) ->
    g q = f q \/ ((exists r, In r rs /\ under q r) /\ f q = None /\ g q = Some Dir).

Definition ancestors_exist (rs : list path) (f : fs) : Prop :=
  forall r q, In r rs -> under q r -> q <> r -> f q <> None.

Definition links_clean (ln : links) : Prop := Forall (fun kt => clean (snd kt) = true) ln.

(* ------------------------------------------------------------------ paths *)

Lemma path_eqb_eq a b : path_eqb a b = true <-> a = b.
Proof. apply list_eqb_eq. apply str_eqb_eq. Qed.

Lemma path_eqb_refl a : path_eqb a a = true.
Proof. now apply path_eqb_eq. Qed.

Lemma under_refl p : under p p.
Proof. exists []. now rewrite app_nil_r. Qed.

Lemma under_app r x : under r (r ++ x).
Proof. now exists x. Qed.

Lemma under_trans a b c : under a b -> under b c -> under a c.
Proof. intros [x ->] [y ->]. exists (x ++ y). now rewrite app_assoc. Qed.

Lemma under_nil p : under [] p.
Proof. now exists p. Qed.

Lemma under_cons x a b : under (x :: a) (x :: b) <-> under a b.
Proof.
  split; intros [r H]; exists r.
  - simpl in H. now injection H.
  - simpl. now rewrite H.
Qed.

Lemma prefixb_under a b : prefixb a b = true <-> under a b.
Proof.
  revert b. induction a as [|x a IH]; intros b; simpl.
  - split; auto using under_nil.
  - destruct b as [|y b].
    + split; [discriminate|]. intros [r H]. discriminate.
    + rewrite andb_true_iff, str_eqb_eq, IH. split.
      * intros [-> H]. now apply under_cons.
      * intros [r H]. simpl in H. injection H as -> H. split; [reflexivity|]. now exists r.
Qed.

Lemma prefixb_false a b : prefixb a b = false <-> ~ under a b.
Proof.
  split.
  - intros H U. apply prefixb_under in U. congruence.
  - intros H. destruct (prefixb a b) eqn:E; [|reflexivity]. apply prefixb_under in E. contradiction.
Qed.

Lemma strip_prefix_some a b suf : strip_prefix a b = Some suf -> b = a ++ suf.
Proof.
  revert b. induction a as [|x a IH]; intros b H; simpl in *.
  - now injection H as ->.
  - destruct b as [|y b]; [discriminate|]. destruct (str_eqb x y) eqn:E; [|discriminate].
    apply str_eqb_eq in E. subst y. simpl. f_equal. now apply IH.
Qed.

Lemma under_comparable t q r : under q t -> under r t -> under q r \/ under r q.
Proof.
  revert r t. induction q as [|a q IH]; intros r t Hq Hr.
  - left. apply under_nil.
  - destruct r as [|b r]; [right; apply under_nil|].
    destruct Hq as [x Hx], Hr as [y Hy]. subst t. simpl in Hy. injection Hy as -> Hy.
    destruct (IH r (q ++ x)) as [H|H]; [apply under_app | now exists y | |].
    + left. now apply under_cons.
    + right. now apply under_cons.
Qed.

(* ------------------------------------------------------------------ normalisation *)

Lemma clean_app a b : clean (a ++ b) = clean a && clean b.
Proof. apply forallb_app. Qed.

Lemma clean_rev l : clean (rev l) = clean l.
Proof.
  induction l as [|x l IH]; [reflexivity|]. simpl rev. rewrite clean_app, IH. simpl.
  rewrite andb_true_r. apply andb_comm.
Qed.

Lemma clean_tl l : clean l = true -> clean (tl l) = true.
Proof. destruct l; simpl; auto. intros H. apply andb_true_iff in H. tauto. Qed.

Lemma resolve_aux_clean ln : links_clean ln ->
  forall cs st, clean st = true -> clean (resolve_aux ln st cs) = true.
Proof.
  intros L. induction cs as [|c cs IH]; intros st H; simpl.
  - now rewrite clean_rev.
  - destruct (is_dot c) eqn:D1; [now apply IH|].
    destruct (is_dotdot c) eqn:D2; [apply IH; now apply clean_tl|].
    destruct (link_get _ ln) as [t|] eqn:G.
    + apply IH. rewrite clean_rev.
      clear -L G. induction ln as [|[k t'] ln IHl]; simpl in G; [discriminate|].
      inversion L; subst. destruct (path_eqb _ k); [injection G as <-; assumption | auto].
    + apply IH. simpl. now rewrite D1, D2.
Qed.

Lemma resolve_clean ln cs : links_clean ln -> clean (resolve ln cs) = true.
Proof. intros L. now apply resolve_aux_clean. Qed.

Lemma normalise_cfg_out_clean ln dir pkg r :
  links_clean ln -> clean (out (normalise_cfg ln dir pkg r)) = true.
Proof. intros L. apply resolve_clean, L. Qed.

Lemma resolve_nil_clean_app a : forall st cs, clean a = true ->
  resolve_aux [] st (a ++ cs) = resolve_aux [] (rev a ++ st) cs.
Proof.
  induction a as [|x a IH]; intros st cs H; [reflexivity|].
  simpl in H. apply andb_true_iff in H as [H1 H2]. apply andb_true_iff in H1 as [D1 D2].
  apply negb_true_iff in D1, D2. simpl app. cbn [resolve_aux]. rewrite D1, D2. cbn [link_get].
  rewrite IH by assumption. simpl rev. now rewrite <- app_assoc.
Qed.

Lemma stays_keeps : forall cs s2 s1, stays (length s2) cs = true ->
  exists r, resolve_aux [] (s2 ++ s1) cs = rev s1 ++ r.
Proof.
  induction cs as [|c cs IH]; intros s2 s1 H.
  - exists (rev s2). simpl. apply rev_app_distr.
  - cbn [stays] in H. cbn [resolve_aux].
    destruct (is_dot c); [now apply IH|].
    destruct (is_dotdot c).
    + destruct s2 as [|x s2]; simpl in H; [discriminate|]. simpl. now apply IH.
    + cbn [link_get]. apply (IH (c :: s2) s1). exact H.
Qed.

Lemma norm_under o x : clean o = true -> stays 0 x = true -> under o (norm (o ++ x)).
Proof.
  intros C S. unfold norm. rewrite resolve_nil_clean_app by assumption.
  destruct (stays_keeps x [] (rev o) S) as [r E]. rewrite app_nil_r. simpl in E.
  rewrite E, rev_involutive. now exists r.
Qed.

Lemma stays_snoc c : is_dotdot c = false -> forall cs k, stays k cs = true -> stays k (cs ++ [c]) = true.
Proof.
  intros D. induction cs as [|x cs IH]; intros k H; simpl.
  - rewrite D. now destruct (is_dot c).
  - simpl in H. destruct (is_dot x); [now apply IH|].
    destruct (is_dotdot x); [destruct k; [discriminate | now apply IH] | now apply IH].
Qed.

Lemma html_not_dotdot x : is_dotdot (html x) = false.
Proof.
  unfold is_dotdot, html. apply str_eqb_neq. intros E.
  apply (f_equal (@length _)) in E. rewrite app_length in E. simpl in E. lia.
Qed.

(* ------------------------------------------------------------------ locality of the operations *)

Lemma upd_local f p n q : upd f p n q = f q \/ q = p.
Proof. unfold upd. destruct (path_eqb q p) eqn:E; [right; now apply path_eqb_eq | now left]. Qed.

Lemma mkdirs_local f p q :
  mkdirs f p q = f q \/ (under q p /\ f q = None /\ mkdirs f p q = Some Dir).
Proof.
  unfold mkdirs. destruct (chain_ok f [] p); [|now left].
  destruct (prefixb q p) eqn:E; [|now left]. apply prefixb_under in E.
  destruct (f q) eqn:F; [now left|]. right. auto.
Qed.

Lemma run_op_local o f q :
  run_op o f q = f q
  \/ (exists t, In t (targets o) /\ under t q)
  \/ (exists t, In t (targets o) /\ under q t /\ f q = None /\ run_op o f q = Some Dir).
Proof.
  destruct o as [p|p|p|p|p|a b|a b|a b]; simpl.
  - destruct (is_dir f p); [|now left]. destruct (prefixb p q) eqn:E; [|now left].
    right; left. exists p. split; [now left | now apply prefixb_under].
  - destruct (is_file f p); [|now left]. destruct (upd_local f p None q) as [H| ->]; [now left|].
    right; left. exists p. split; [now left | apply under_refl].
  - destruct (f p); [now left|]. destruct (is_dir f (parent p)); [|now left].
    destruct (upd_local f p (Some Dir) q) as [H| ->]; [now left|].
    right; left. exists p. split; [now left | apply under_refl].
  - destruct (mkdirs_local f p q) as [H|(U & N & D)]; [now left|].
    right; right. exists p. split; [now left | auto].
  - destruct (writable f p); [|now left].
    destruct (upd_local f p (Some (File 0)) q) as [H| ->]; [now left|].
    right; left. exists p. split; [now left | apply under_refl].
  - destruct (deref f a) as [[c| |t]|]; try now left.
    destruct (writable f _); [|now left].
    destruct (upd_local f (if is_dir f b then b ++ [last a []] else b) (Some (File c)) q) as [H| ->];
      [now left|].
    right; left. exists b. split; [now left|].
    destruct (is_dir f b); [apply under_app | apply under_refl].
  - destruct (leads_to_dir f a && is_none (deref f b) && is_none (f b)); [|now left].
    destruct (is_dir (mkdirs f b) b); [|now left].
    destruct (strip_prefix b q) as [suf|] eqn:E.
    + right; left. exists b. split; [now left|]. apply strip_prefix_some in E. now exists suf.
    + destruct (mkdirs_local f b q) as [H|(U & N & D)]; [now left|].
      right; right. exists b. split; [now left | auto].
  - destruct (f a) as [[c| |t]|]; try now left.
    destruct (writable f b); [|now left].
    destruct (upd_local (upd f a None) b (Some (File c)) q) as [H| ->].
    + rewrite H. destruct (upd_local f a None q) as [H2| ->]; [now left|].
      right; left. exists a. split; [now left | apply under_refl].
    + right; left. exists b. split; [right; now left | apply under_refl].
Qed.

Lemma agree_refl rs f : agree_outside rs f f.
Proof. intros q _. now left. Qed.

Lemma agree_trans rs f g h : agree_outside rs f g -> agree_outside rs g h -> agree_outside rs f h.
Proof.
  intros A B q Hq. destruct (A q Hq) as [E|(X & N & D)], (B q Hq) as [E'|(X' & N' & D')].
  - left. congruence.
  - right. split; [assumption|]. split; congruence.
  - right. split; [assumption|]. split; congruence.
  - congruence.
Qed.

Lemma step_agree rs o f : op_confined rs o -> agree_outside rs f (run_op o f).
Proof.
  intros C q Hq. unfold op_confined in C. rewrite Forall_forall in C.
  destruct (run_op_local o f q) as [H|[(t & I & U)|(t & I & U & N & D)]].
  - now left.
  - exfalso. destruct (C t I) as (r & Ir & Ur). apply (Hq r Ir). eapply under_trans; eauto.
  - destruct (C t I) as (r & Ir & Ur).
    destruct (under_comparable t q r U Ur) as [H|H].
    + right. split; [now exists r | auto].
    + exfalso. now apply (Hq r Ir).
Qed.

(* a copy of a tree onto itself cannot do anything *)
Lemma copytree_self a f : run_op (CopyTree a a) f = f.
Proof.
  simpl. unfold leads_to_dir, is_none. destruct (deref f a) as [[c| |t]|]; reflexivity.
Qed.

(* following links never answers with a link ... *)
Lemma follow_not_link : forall fuel f cs pre t, follow fuel f pre cs <> Some (Link t).
Proof.
  induction fuel as [|n IH]; intros f cs; induction cs as [|c cs IHcs]; intros pre t; simpl.
  - destruct (f pre) as [[x| |u]|]; discriminate.
  - destruct (f (pre ++ [c])) as [[x| |u]|]; try discriminate;
      destruct cs; try discriminate; apply IHcs.
  - destruct (f pre) as [[x| |u]|]; discriminate.
  - destruct (f (pre ++ [c])) as [[x| |u]|]; try discriminate;
      [destruct cs; discriminate | destruct cs; [discriminate | apply IHcs] | apply IH].
Qed.

(* ... so what copytree puts below its destination is never a link: the touches that
   ford.output.copytree applies to the copies act on the copies themselves *)
Lemma copies_are_not_links a b f suf n :
  deref f (a ++ suf) = Some n ->
  leads_to_dir f a && is_none (deref f b) && is_none (f b) = true -> is_dir (mkdirs f b) b = true ->
  run_op (CopyTree a b) f (b ++ suf) = Some n /\
  touch_acts_on (run_op (CopyTree a b) f) (b ++ suf) = b ++ suf.
Proof.
  intros D G M. simpl. rewrite G, M.
  assert (E : strip_prefix b (b ++ suf) = Some suf).
  { clear. induction b as [|x b IH]; simpl; [reflexivity|]. now rewrite str_eqb_refl. }
  unfold touch_acts_on. rewrite E, D. split; [reflexivity|].
  destruct n as [c| |t]; try reflexivity. exfalso. exact (follow_not_link _ _ _ _ _ D).
Qed.

Lemma run_agree rs ops : Forall (op_confined rs) ops -> forall f, agree_outside rs f (run ops f).
Proof.
  induction 1 as [|o ops C _ IH]; intros f; [apply agree_refl|].
  simpl. eapply agree_trans; [apply step_agree; eassumption | apply IH].
Qed.

Lemma Forall_firstn {A} (P : A -> Prop) k l : Forall P l -> Forall P (firstn k l).
Proof.
  intros H. revert k. induction H; intros [|k]; simpl; constructor; auto.
Qed.

(* ------------------------------------------------------------------ targets of a run *)

Lemma conf_out c l (X : path -> op) :
  (forall p, targets (X p) = [p]) -> op_confined (roots c) (X (out c ++ l)).
Proof.
  intros T. unfold op_confined. rewrite T. constructor; [|constructor].
  exists (out c). split; [now left | apply under_app].
Qed.

Lemma conf_out2 c a l (X : path -> path -> op) :
  (forall a p, targets (X a p) = [p]) -> op_confined (roots c) (X a (out c ++ l)).
Proof.
  intros T. unfold op_confined. rewrite T. constructor; [|constructor].
  exists (out c). split; [now left | apply under_app].
Qed.

Lemma conf_under c t (X : path -> op) :
  (forall p, targets (X p) = [p]) -> under (out c) t -> op_confined (roots c) (X t).
Proof.
  intros T U. unfold op_confined. rewrite T. constructor; [|constructor].
  exists (out c). split; [now left | assumption].
Qed.

Lemma conf_under2 c a t (X : path -> path -> op) :
  (forall a p, targets (X a p) = [p]) -> under (out c) t -> op_confined (roots c) (X a t).
Proof.
  intros T U. unfold op_confined. rewrite T. constructor; [|constructor].
  exists (out c). split; [now left | assumption].
Qed.

Lemma Forall_map_intro {A B} (P : B -> Prop) (g : A -> B) l :
  (forall x, In x l -> P (g x)) -> Forall P (map g l).
Proof. intros H. apply Forall_forall. intros y I. apply in_map_iff in I as (x & <- & I). auto. Qed.

Lemma Forall_flat_map_intro {A B} (P : B -> Prop) (g : A -> list B) l :
  (forall x, In x l -> Forall P (g x)) -> Forall P (flat_map g l).
Proof.
  intros H. induction l as [|x l IH]; simpl; [constructor|].
  apply Forall_app. split; [apply H; now left | apply IH; intros; apply H; now right].
Qed.

Lemma graph_ops_confined c p : Forall (op_confined (roots c)) (graph_ops c p).
Proof.
  unfold graph_ops. destruct (graph_dir c) as [gd|] eqn:G; [|constructor].
  assert (R : In gd (roots c)) by (unfold roots; rewrite G; right; now left).
  constructor.
  - constructor; [|constructor]. exists gd. split; [assumption | apply under_refl].
  - apply Forall_flat_map_intro. intros name _. unfold graph_file_ops.
    repeat constructor; exists gd; (split; [assumption | first [apply under_refl | apply under_app]]).
Qed.

(* ---- which candidates become pages: every accepted name is one clean component ---- *)

Lemma name_ok_clean n : name_ok n = true -> is_dot n = false /\ is_dotdot n = false.
Proof.
  destruct n as [|c r]; [discriminate|]. unfold name_ok. intros H.
  apply andb_true_iff in H as [H _]. apply andb_true_iff in H as [H _]. apply negb_true_iff in H.
  unfold is_dot, is_dotdot. simpl. unfold ch_eqb in H. rewrite H. split; reflexivity.
Qed.

Lemma names_stay : forall cs k, forallb name_ok cs = true -> stays k cs = true.
Proof.
  induction cs as [|c cs IH]; intros k H; [reflexivity|]. simpl in H.
  apply andb_true_iff in H as [H1 H2]. destruct (name_ok_clean c H1) as [D1 D2].
  cbn [stays]. rewrite D1, D2. now apply IH.
Qed.

Lemma forallb_removelast {A} (g : A -> bool) l : forallb g l = true -> forallb g (removelast l) = true.
Proof.
  induction l as [|x l IH]; [reflexivity|]. intros H. simpl in H. apply andb_true_iff in H as [H1 H2].
  destruct l as [|y l]; [reflexivity|]. change (removelast (x :: y :: l)) with (x :: removelast (y :: l)).
  simpl forallb at 1. rewrite H1. now apply IH.
Qed.

(* the invariant the patched get_page_tree establishes: whatever the candidates' names are, the
   pages that are built have locations below the page directory *)
Lemma pages_of_loc_ok cands pg : In pg (pages_of cands) -> loc_ok pg = true.
Proof.
  unfold pages_of. intros I. apply in_map_iff in I as (d & <- & I). apply filter_In in I as [_ K].
  unfold loc_ok, page_of, cand_ok in *. cbn [pg_loc].
  change (stays 0 (s "page" :: ?l)) with (stays 1 l).
  destruct (cd_index d); apply names_stay; [assumption | now apply forallb_removelast].
Qed.

Lemma page_ops_confined c pd pg :
  clean (out c) = true -> loc_ok pg = true ->
  Forall (op_confined (roots c)) (page_ops c pd pg).
Proof.
  intros C L. unfold page_ops.
  assert (U : under (out c) (norm (page_root c ++ pg_loc pg))).
  { unfold page_root. rewrite <- app_assoc. apply norm_under; assumption. }
  repeat (apply Forall_app; split).
  - destruct (str_eqb (pg_stem pg) (s "index")); [|constructor].
    constructor; [|constructor]. now apply conf_under.
  - constructor; [|constructor]. apply conf_under; [reflexivity|].
    unfold page_root. rewrite <- app_assoc. apply norm_under; [assumption|]. simpl app.
    change (s "page" :: pg_loc pg ++ [html (pg_stem pg)])
      with ((s "page" :: pg_loc pg) ++ [html (pg_stem pg)]).
    apply stays_snoc; [apply html_not_dotdot | exact L].
  - apply Forall_map_intro. intros item I. apply filter_In in I as [_ K].
    apply conf_under2; [reflexivity|]. unfold copy_kept in K. apply prefixb_under in K.
    eapply under_trans; [|exact K]. unfold page_root. apply under_app.
  - apply Forall_map_intro. intros f _. now apply conf_under2.
Qed.

Lemma pages_ops_confined c cands :
  clean (out c) = true -> Forall (op_confined (roots c)) (pages_ops c (pages_of cands)).
Proof.
  intros C. unfold pages_ops. destruct (page_dir c) as [pd|]; [|constructor].
  apply Forall_flat_map_intro. intros pg I. apply page_ops_confined; [assumption|].
  eapply pages_of_loc_ok; eassumption.
Qed.

Theorem main_ops_confined b pkg c p cands :
  clean (out c) = true -> Forall (op_confined (roots c)) (main_ops b pkg c p cands).
Proof.
  intros C. unfold main_ops, writeout_ops.
  repeat (apply Forall_app; split).
  - constructor; [|constructor; [|constructor]].
    + rewrite <- (app_nil_r (out c)). destruct b; now apply conf_out.
    + rewrite <- (app_nil_r (out c)). now apply conf_out.
  - apply Forall_map_intro. intros d _. now apply conf_out.
  - apply Forall_map_intro. intros d _. now apply conf_out2.
  - destruct (graph c); [apply graph_ops_confined | constructor].
  - destruct (search c); [|constructor].
    constructor; [now apply conf_out2 | constructor; [now apply conf_out | constructor]].
  - destruct (media c); [|constructor]. constructor; [now apply conf_out2 | constructor].
  - destruct (css c); [|constructor]. constructor; [now apply conf_out2 | constructor].
  - constructor; [now apply conf_out2 | constructor].
  - destruct (incl_src c); [|constructor]. apply Forall_map_intro. intros f _. now apply conf_out2.
  - destruct (mathjax c); [|constructor].
    constructor; [now apply conf_out | constructor; [now apply conf_out2 | constructor]].
  - apply Forall_map_intro. intros d _. now apply conf_out.
  - apply Forall_map_intro. intros d _. now apply conf_out.
  - now apply pages_ops_confined.
  - constructor; [now apply conf_out | constructor; [now apply conf_out | constructor]].
  - destruct (externalize c); [|constructor]. constructor; [now apply conf_out | constructor].
Qed.

Theorem ford_ops_confined b pkg c p cands :
  clean (out c) = true -> Forall (op_confined (roots c)) (ford_ops b pkg c p cands).
Proof.
  intros C. unfold ford_ops. destruct (refuse c); [constructor | now apply main_ops_confined].
Qed.

(* every crash point: any prefix of the operation sequence, on any file system *)
Theorem prefix_safe b pkg c p cands :
  clean (out c) = true ->
  forall (f : fs) k, agree_outside (roots c) f (run (firstn k (ford_ops b pkg c p cands)) f).
Proof.
  intros C f k. apply run_agree, Forall_firstn. now apply ford_ops_confined.
Qed.

Lemma under_anyb_false rs q : under_anyb rs q = false -> forall r, In r rs -> ~ under r q.
Proof.
  intros H r I U. unfold under_anyb in H.
  assert (E : existsb (fun r => prefixb r q) rs = true).
  { apply existsb_exists. exists r. split; [assumption | now apply prefixb_under]. }
  congruence.
Qed.

Theorem prefix_safe_eq b pkg c p cands :
  clean (out c) = true ->
  forall (f : fs) k, ancestors_exist (roots c) f ->
  forall q, outside (roots c) (run (firstn k (ford_ops b pkg c p cands)) f) q = outside (roots c) f q.
Proof.
  intros C f k A q. unfold outside. destruct (under_anyb (roots c) q) eqn:E; [reflexivity|].
  destruct (prefix_safe b pkg c p cands C f k q (under_anyb_false _ _ E)) as [H|((r & I & U) & N & _)];
    [assumption|].
  exfalso. apply (A r q I U); [|exact N].
  intros ->. exact (under_anyb_false _ _ E r I (under_refl r)).
Qed.

(* ------------------------------------------------------------------ refusal *)

Theorem refuse_iff c : refuse c = true <-> exists src, In src (srcs c) /\ under (out c) src.
Proof.
  unfold refuse. rewrite existsb_exists. split; intros (src & I & H); exists src; split; auto;
    now apply prefixb_under.
Qed.

Theorem refusal b pkg c p cands src :
  In src (srcs c) -> under (out c) src -> ford_ops b pkg c p cands = [].
Proof.
  intros I U. unfold ford_ops.
  assert (R : refuse c = true) by (apply refuse_iff; eauto). now rewrite R.
Qed.

(* a source directory and its ancestors are never under the output directory of a run that is
   not refused, and nothing a run does changes them *)
Lemma src_not_under_out c src x :
  refuse c = false -> In src (srcs c) -> under x src -> ~ under (out c) x.
Proof.
  intros R I U V.
  assert (T : refuse c = true) by (apply refuse_iff; exists src; split; [assumption|]; eapply under_trans; eauto).
  congruence.
Qed.

Theorem no_source_deleted b pkg c p cands :
  clean (out c) = true -> refuse c = false ->
  forall src x, In src (srcs c) -> under x src ->
  (forall g, graph_dir c = Some g -> ~ under g x) ->
  forall (f : fs) k n, f x = Some n -> run (firstn k (ford_ops b pkg c p cands)) f x = Some n.
Proof.
  intros C R src x I U G f k n F.
  destruct (prefix_safe b pkg c p cands C f k x) as [H|(_ & N & _)]; [|congruence|congruence].
  intros r Ir. unfold roots in Ir. destruct Ir as [<-|Ir].
  - eapply src_not_under_out; eauto.
  - destruct (graph_dir c) as [g|]; [|contradiction]. destruct Ir as [<-|[]]. now apply G.
Qed.

(* source discovery leaves out everything below the output directory (find_all_files with
   exclude_dir containing output_dir), so no file FORD reads as a source is touched *)
Lemma discovered_not_under_out c f :
  In (out c) (excl c) -> discovered c f = true -> f <> out c -> ~ under (out c) f.
Proof.
  intros I D N U. unfold discovered in D. apply andb_true_iff in D as [_ D].
  apply negb_true_iff in D.
  assert (E : existsb (fun e => properly_below e f) (excl c) = true).
  { apply existsb_exists. exists (out c). split; [assumption|]. unfold properly_below.
    apply andb_true_iff. split; [now apply prefixb_under|]. apply negb_true_iff.
    destruct (path_eqb (out c) f) eqn:Q; [|reflexivity]. apply path_eqb_eq in Q. congruence. }
  congruence.
Qed.

Theorem discovered_sources_kept b pkg c p cands :
  clean (out c) = true ->
  In (out c) (excl c) ->
  forall x, discovered c x = true -> x <> out c ->
  (forall g, graph_dir c = Some g -> ~ under g x) ->
  forall (f : fs) k n, f x = Some n -> run (firstn k (ford_ops b pkg c p cands)) f x = Some n.
Proof.
  intros C I x D N G f k n F.
  destruct (prefix_safe b pkg c p cands C f k x) as [H|(_ & M & _)]; [|congruence|congruence].
  intros r Ir. unfold roots in Ir. destruct Ir as [<-|Ir].
  - now apply discovered_not_under_out.
  - destruct (graph_dir c) as [g|]; [|contradiction]. destruct Ir as [<-|[]]. now apply G.
Qed.

(* whatever the project file and the command line say, the effective exclude_dir holds the
   effective output directory *)
Lemma effective_excl_has o base : In o (effective_excl o base).
Proof.
  unfold effective_excl. destruct (existsb (path_eqb o) base) eqn:E.
  - apply existsb_exists in E as (x & I & Q). apply path_eqb_eq in Q. now subst.
  - apply in_or_app. right. now left.
Qed.

Theorem out_excluded ln dir pkg r :
  In (out (normalise_cfg ln dir pkg r)) (excl (normalise_cfg ln dir pkg r)).
Proof. apply effective_excl_has. Qed.

Theorem discovered_sources_kept_cfg ln dir pkg r b p cands :
  links_clean ln -> let c := normalise_cfg ln dir pkg r in
  forall x, discovered c x = true -> x <> out c ->
  (forall g, graph_dir c = Some g -> ~ under g x) ->
  forall (f : fs) k n, f x = Some n -> run (firstn k (ford_ops b pkg c p cands)) f x = Some n.
Proof.
  intros L c. apply discovered_sources_kept; [now apply normalise_cfg_out_clean | apply out_excluded].
Qed.

(* ------------------------------------------------------------------ former counterexamples, now regression inputs *)

Definition confinedb (rs : list path) (ops : list op) : bool :=
  forallb (fun o => forallb (under_anyb rs) (targets o)) ops.

Lemma confinedb_complete rs ops : Forall (op_confined rs) ops -> confinedb rs ops = true.
Proof.
  intros H. unfold confinedb. apply forallb_forall. intros o I.
  rewrite Forall_forall in H. specialize (H o I). unfold op_confined in H.
  rewrite Forall_forall in H. apply forallb_forall. intros t It.
  destruct (H t It) as (r & Ir & U). unfold under_anyb. apply existsb_exists.
  exists r. split; [assumption | now apply prefixb_under].
Qed.

(* concrete inputs: project directory /proj, output ./doc, pages ./pages *)
Local Open Scope string_scope.
Definition rel (l : list string) : rpath := {| rp_abs := false; rp_comps := map s l |}.

Definition w_rcfg : rcfg :=
  {| r_out := rel ["."; "doc"]; r_out_meta := rel ["."; "doc"]; r_exclude_dir := [];
     r_graph_dir := Some (rel ["graphs"]); r_src := [rel ["."; "src"]]; r_media := Some (rel ["media"]);
     r_css := Some (rel ["user.css"]); r_favicon := None; r_mathjax := Some (rel ["conf"; "mj.js"]);
     r_page_dir := Some (rel ["pages"]);
     r_incl_src := true; r_graph := true; r_search := true; r_externalize := true |}.
Definition w_cfg : cfg := normalise_cfg [] [s "proj"] [s "<ford>"] w_rcfg.
Definition w_proj : proj :=
  {| p_docs := [(s "module", s "m"); (s "proc", s "sub")]; p_lists := [s "modules.html"];
     p_srcfiles := [([s "proj"; s "src"; s "m.f90"], s "m.f90")];
     p_graphs := [s "module~~m~~UsesGraph"] |}.
Definition mkcand (entries : list string) (idx : bool) (stem : string) (cp : list rpath)
                  (files : list string) : cand :=
  {| cd_entries := map s entries; cd_index := idx; cd_stem := s stem; cd_copy := cp;
     cd_files := map s files |}.
(* pages/sub/index.md with  copy_subdir: ../img, data  and a file a.png *)
Definition w_cand_ok : cand := mkcand ["sub"] true "index" [rel [".."; "img"]; rel ["data"]] ["a.png"].
(* copy_subdir: ../../shared  in pages/index.md — was copied to /proj/shared; now skipped *)
Definition w_cand_copy : cand := mkcand [] true "index" [rel [".."; ".."; "shared"]] [].
(* ordered_subpage: sub/../../../note.md — was written to /proj/note.html; now no page at all *)
Definition w_cand_loc : cand := mkcand ["sub/../../../note.md"] false "note" [] [].
Definition w_cand_dotdot : cand := mkcand [".."; ".."; "note.md"] false "note" [] [].
(* project-level copy_subdir (absolute after normalise_paths) *)
Definition w_cand_abs : cand :=
  mkcand [] true "index" [{| rp_abs := true; rp_comps := [s "proj"; s "pages"; s "data"] |}] [].

Definition w_fs : fs := of_list
  [([], Dir); ([s "proj"], Dir); ([s "proj"; s "src"], Dir); ([s "proj"; s "src"; s "m.f90"], File 1);
   ([s "proj"; s "pages"], Dir); ([s "proj"; s "pages"; s "index.md"], File 2);
   ([s "shared"], Dir); ([s "shared"; s "f"], File 3);
   ([s "<ford>"], Dir); ([s "<ford>"; s "css"], Dir); ([s "<ford>"; s "js"], Dir);
   ([s "<ford>"; s "webfonts"], Dir); ([s "<ford>"; s "search"], Dir);
   ([s "<ford>"; s "favicon.png"], File 4)].

(* the escaping entries produce exactly the operations of a page tree without them *)
Example former_witness_copy_subdir :
  ford_ops false [s "<ford>"] w_cfg w_proj [w_cand_copy]
    = ford_ops false [s "<ford>"] w_cfg w_proj [mkcand [] true "index" [] []] /\
  run (ford_ops false [s "<ford>"] w_cfg w_proj [w_cand_copy]) w_fs [s "proj"; s "shared"; s "f"] = None.
Proof. vm_compute. auto. Qed.

Example former_witness_ordered_subpage :
  ford_ops false [s "<ford>"] w_cfg w_proj [w_cand_loc] = ford_ops false [s "<ford>"] w_cfg w_proj [] /\
  ford_ops false [s "<ford>"] w_cfg w_proj [w_cand_dotdot] = ford_ops false [s "<ford>"] w_cfg w_proj [].
Proof. vm_compute. auto. Qed.

Example absolute_copy_subdir_skipped :
  ford_ops false [s "<ford>"] w_cfg w_proj [w_cand_abs]
    = ford_ops false [s "<ford>"] w_cfg w_proj [mkcand [] true "index" [] []].
Proof. vm_compute. reflexivity. Qed.

(* ------------------------------------------------------------------ non-vacuity *)

Example confined_nonvacuous :
  clean (out w_cfg) = true /\ refuse w_cfg = false /\
  length (ford_ops false [s "<ford>"] w_cfg w_proj [w_cand_ok; w_cand_copy; w_cand_loc]) = 41 /\
  In (CopyTree [s "proj"; s "pages"; s "img"] [s "proj"; s "doc"; s "page"; s "img"])
     (ford_ops false [s "<ford>"] w_cfg w_proj [w_cand_ok; w_cand_copy; w_cand_loc]) /\
  confinedb (roots w_cfg) (ford_ops false [s "<ford>"] w_cfg w_proj [w_cand_ok; w_cand_copy; w_cand_loc]) = true.
Proof. vm_compute. repeat split; auto 80. Qed.

Lemma under_inv q a t : under q (a :: t) -> q = [] \/ exists q', q = a :: q' /\ under q' t.
Proof.
  intros [r H]. destruct q as [|b q]; [now left|]. right. simpl in H. injection H as -> H.
  exists q. split; [reflexivity | now exists r].
Qed.

Lemma under_nil_inv q : under q [] -> q = [].
Proof. intros [r H]. destruct q; [reflexivity | discriminate]. Qed.

Example prefix_safe_nonvacuous :
  ancestors_exist (roots w_cfg) w_fs /\
  run (ford_ops false [s "<ford>"] w_cfg w_proj [w_cand_ok]) w_fs [s "proj"; s "doc"; s "src"; s "m.f90"]
    = Some (File 1) /\
  run (ford_ops false [s "<ford>"] w_cfg w_proj [w_cand_ok]) w_fs [s "proj"; s "src"; s "m.f90"]
    = Some (File 1).
Proof.
  split; [|vm_compute; auto].
  intros r q I U N.
  change (roots w_cfg) with [[s "proj"; s "doc"]; [s "proj"; s "graphs"]] in I.
  destruct I as [<-|[<-|[]]];
    (apply under_inv in U as [->|(q1 & -> & U)]; [vm_compute; discriminate|];
     apply under_inv in U as [->|(q2 & -> & U)]; [vm_compute; discriminate|];
     apply under_nil_inv in U; subst; now elim N).
Qed.

(* media_dir with a link to a file outside, a dangling link whose parent exists, a link to a
   directory and a link to its own parent: the copies are files / directories, the dangling one
   is left out, nothing outside /proj/doc changes *)
Definition w_fs_links : fs := of_list
  [([], Dir); ([s "proj"], Dir); ([s "proj"; s "build"], Dir); ([s "proj"; s "doc"], Dir);
   ([s "proj"; s "media"], Dir); ([s "proj"; s "media"; s "logo.png"], File 5);
   ([s "proj"; s "media"; s "lnk_abs"], Link [s "other"; s "keep.txt"]);
   ([s "proj"; s "media"; s "lnk_dangling"], Link [s "proj"; s "build"; s "manual.pdf"]);
   ([s "proj"; s "media"; s "lnk_dir"], Link [s "other"]);
   ([s "proj"; s "media"; s "loop"], Link [s "proj"; s "media"]);
   ([s "other"], Dir); ([s "other"; s "keep.txt"], File 7)].

Example copies_are_not_links_nonvacuous :
  let o := CopyTree [s "proj"; s "media"] [s "proj"; s "doc"; s "media"] in
  let g := run_op o w_fs_links in
  g [s "proj"; s "doc"; s "media"; s "lnk_abs"] = Some (File 7) /\
  g [s "proj"; s "doc"; s "media"; s "lnk_dir"; s "keep.txt"] = Some (File 7) /\
  g [s "proj"; s "doc"; s "media"; s "lnk_dangling"] = None /\
  g [s "proj"; s "build"; s "manual.pdf"] = None /\
  g [s "proj"; s "doc"; s "media"; s "loop"; s "loop"; s "logo.png"] = Some (File 5) /\
  touch_acts_on g [s "proj"; s "doc"; s "media"; s "lnk_abs"] = [s "proj"; s "doc"; s "media"; s "lnk_abs"] /\
  touch_acts_on w_fs_links [s "proj"; s "media"; s "lnk_dangling"] = [s "proj"; s "build"; s "manual.pdf"].
Proof. vm_compute. repeat split; reflexivity. Qed.

Example name_filter_nonvacuous :
  name_ok (s "sub") = true /\ name_ok (s "a.md") = true /\ name_ok (s "..") = false /\
  name_ok (s ".hidden") = false /\ name_ok (s "a.md~") = false /\ name_ok (s "sub/../../x.md") = false /\
  name_ok (s "sub/") = false /\ name_ok [] = false.
Proof. vm_compute. auto 10. Qed.

Definition w_refused : rcfg :=
  {| r_out := rel ["."]; r_out_meta := rel ["."]; r_exclude_dir := [];
     r_graph_dir := None; r_src := [rel ["src"; ".."; "src"; "sub"]]; r_media := None;
     r_css := None; r_favicon := None; r_mathjax := None; r_page_dir := None;
     r_incl_src := true; r_graph := false; r_search := false; r_externalize := false |}.

Example refusal_nonvacuous :
  let c := normalise_cfg [] [s "proj"] [s "<ford>"] w_refused in
  In [s "proj"; s "src"; s "sub"] (srcs c) /\ under (out c) [s "proj"; s "src"; s "sub"] /\
  refuse c = true.
Proof. vm_compute. split; [now left|]. split; [now exists [s "src"; s "sub"] | reflexivity]. Qed.

(* through a symbolic link: output_dir ./lnk with /proj/lnk -> /proj/src is refused *)
Example refusal_symlink :
  let c := normalise_cfg [([s "proj"; s "lnk"], [s "proj"; s "src"])] [s "proj"] [s "<ford>"]
             {| r_out := rel ["lnk"]; r_out_meta := rel ["lnk"]; r_exclude_dir := [];
                r_graph_dir := None; r_src := [rel ["src"]]; r_media := None;
                r_css := None; r_favicon := None; r_mathjax := None; r_page_dir := None;
                r_incl_src := true; r_graph := false; r_search := false; r_externalize := false |} in
  out c = [s "proj"; s "src"] /\ refuse c = true.
Proof. vm_compute. auto. Qed.

Example out_clean_nonvacuous :
  links_clean [([s "proj"; s "lnk"], [s "elsewhere"; s "real"])] /\
  out (normalise_cfg [([s "proj"; s "lnk"], [s "elsewhere"; s "real"])] [s "proj"] [s "<ford>"]
         {| r_out := rel ["."; "lnk"; ".."; "lnk"; "sub"; "."]; r_out_meta := rel ["doc"]; r_exclude_dir := [];
            r_graph_dir := None; r_src := [rel ["src"]]; r_media := None; r_css := None; r_favicon := None;
            r_mathjax := None; r_page_dir := None; r_incl_src := true; r_graph := false; r_search := false;
            r_externalize := false |}) = [s "elsewhere"; s "lnk"; s "sub"].
Proof.
  split; [|vm_compute; reflexivity].
  unfold links_clean. apply Forall_cons; [reflexivity | apply Forall_nil].
Qed.

Example no_source_deleted_nonvacuous :
  refuse w_cfg = false /\ In [s "proj"; s "src"] (srcs w_cfg) /\
  discovered w_cfg [s "proj"; s "src"; s "m.f90"] = true /\
  discovered w_cfg [s "proj"; s "doc"; s "src"; s "m.f90"] = false /\
  In (out w_cfg) (excl w_cfg).
Proof. vm_compute. repeat split; auto. Qed.
