(* Out/LinksProofs.v — proofs about Out/Links.v (property C11). *)
From Ford Require Import Base.Str Base.StrFacts Gen.LinkTypes Out.Links.
From Coq Require Import Lia.

Local Arguments Nat.div : simpl never.

(* ------------------------------------------------------------------------------------------ *)
(* the regenerated tables against the documented kind names (finite, complete) *)
Definition pair_str_eqb (a b : str * str) : bool := str_eqb (fst a) (fst b) && str_eqb (snd a) (snd b).
Definition pair_in (x : str * str) (l : list (str * str)) : bool := existsb (pair_str_eqb x) l.

Lemma pair_in_In x l : pair_in x l = true <-> In x l.
Proof.
  unfold pair_in. rewrite existsb_exists. split.
  - intros (y & Hy & E). unfold pair_str_eqb in E. apply andb_true_iff in E as [E1 E2].
    apply str_eqb_eq in E1, E2. destruct x, y. simpl in *. now subst.
  - intros H. exists x. split; auto. unfold pair_str_eqb. now rewrite !str_eqb_refl.
Qed.

Lemma assoc_get_In {V} k (v : V) l : assoc_get k l = Some v -> In (k, v) l.
Proof.
  induction l as [|[k' v'] l IH]; simpl; [discriminate|].
  destruct (str_eqb k k') eqn:E.
  - intros [= <-]. apply str_eqb_eq in E. subst. left. reflexivity.
  - intros H. right. auto.
Qed.

Definition documented_component : list (str * str) := doc_comp_kinds ++ doc_ext_kinds.

Theorem kind_tables_component k c :
  In (k, c) documented_component -> assoc_get k link_types = Some c.
Proof.
  intros H.
  assert (A : forallb (fun kc => opt_eqb str_eqb (assoc_get (fst kc) link_types) (Some (snd kc)))
                      documented_component = true) by (vm_compute; reflexivity).
  rewrite forallb_forall in A. specialize (A _ H). cbn [fst snd] in A.
  destruct (assoc_get k link_types) as [c'|]; [|discriminate A].
  cbn [opt_eqb] in A. apply str_eqb_eq in A. now subst.
Qed.

Theorem kind_tables_item k a :
  In (k, a) doc_item_kinds -> assoc_get k sublink_types = Some a.
Proof.
  intros H.
  assert (A : forallb (fun kc => opt_eqb str_eqb (assoc_get (fst kc) sublink_types) (Some (snd kc)))
                      doc_item_kinds = true) by (vm_compute; reflexivity).
  rewrite forallb_forall in A. specialize (A _ H). cbn [fst snd] in A.
  destruct (assoc_get k sublink_types) as [c'|]; [|discriminate A].
  cbn [opt_eqb] in A. apply str_eqb_eq in A. now subst.
Qed.

Theorem kind_tables_complete :
  (forall kc, In kc link_types -> In kc documented_component) /\
  (forall kc, In kc sublink_types -> In kc doc_item_kinds).
Proof.
  split; intros kc H; apply pair_in_In.
  - assert (A : forallb (fun x => pair_in x documented_component) link_types = true)
      by (vm_compute; reflexivity).
    rewrite forallb_forall in A. auto.
  - assert (A : forallb (fun x => pair_in x doc_item_kinds) sublink_types = true)
      by (vm_compute; reflexivity).
    rewrite forallb_forall in A. auto.
Qed.

(* consequences used below *)
Lemma assoc_get_none_not_in {V} k (v : V) l : assoc_get k l = None -> ~ In (k, v) l.
Proof.
  induction l as [|[k' v'] l IH]; simpl; intros H; [tauto|].
  destruct (str_eqb k k') eqn:E; [discriminate|].
  intros [[= -> ->]|H']; [now rewrite str_eqb_refl in E|]. now apply IH.
Qed.

Lemma comp_kind_table k : comp_kind k = assoc_get (lower k) link_types.
Proof.
  unfold comp_kind.
  destruct (assoc_get (lower k) doc_comp_kinds) as [c|] eqn:E1.
  - symmetry. apply kind_tables_component. apply in_or_app. left. now apply assoc_get_In.
  - destruct (assoc_get (lower k) doc_ext_kinds) as [c|] eqn:E2.
    + symmetry. apply kind_tables_component. apply in_or_app. right. now apply assoc_get_In.
    + destruct (assoc_get (lower k) link_types) as [c|] eqn:E3; auto.
      apply assoc_get_In, (proj1 kind_tables_complete), in_app_or in E3.
      exfalso. destruct E3 as [E3|E3].
      * exact (assoc_get_none_not_in _ _ _ E1 E3).
      * exact (assoc_get_none_not_in _ _ _ E2 E3).
Qed.

(* ------------------------------------------------------------------------------------------ *)
(* basic facts about the searches *)
Lemma find_in_some p n ids i :
  find_in p n ids = Some i -> In i ids /\ name_eqb n (name_of p i) = true.
Proof.
  induction ids as [|x ids IH]; simpl; [discriminate|].
  destruct (name_eqb n (name_of p x)) eqn:E.
  - intros [= <-]. auto.
  - intros H. destruct (IH H). auto.
Qed.

Lemma find_in_none p n ids :
  find_in p n ids = None -> forall i, In i ids -> name_eqb n (name_of p i) = false.
Proof.
  induction ids as [|x ids IH]; simpl; intros H i Hi; [destruct Hi|].
  destruct (name_eqb n (name_of p x)) eqn:E; [discriminate|].
  destruct Hi as [<-|Hi]; auto.
Qed.

Lemma name_eqb_lower n n' x : lower n = lower n' -> name_eqb n x = name_eqb n' x.
Proof. unfold name_eqb. now intros ->. Qed.

Lemma find_in_lower p n n' ids : lower n = lower n' -> find_in p n ids = find_in p n' ids.
Proof.
  intros H. induction ids as [|x ids IH]; simpl; auto.
  now rewrite (name_eqb_lower n n' _ H), IH.
Qed.

Lemma find_chain_lower p e n n' attrs :
  lower n = lower n' -> find_chain p e n attrs = find_chain p e n' attrs.
Proof.
  intros H. induction attrs as [|a attrs IH]; simpl; auto.
  destruct (assoc_get a (e_attrs e)) as [[ids|?| |]|]; auto.
  now rewrite (find_in_lower p n n' ids H), IH.
Qed.

Lemma find_singles_lower p e n n' attrs :
  lower n = lower n' -> find_singles p e n attrs = find_singles p e n' attrs.
Proof.
  intros H. induction attrs as [|a attrs IH]; simpl; auto.
  destruct (assoc_get a (e_attrs e)) as [[ids|i| |]|]; auto.
  now rewrite (name_eqb_lower n n' _ H), IH.
Qed.

Lemma find_children_lower p e n n' :
  lower n = lower n' -> find_children p e n = find_children p e n'.
Proof.
  intros H. unfold find_children.
  now rewrite (find_chain_lower p e n n' _ H), (find_singles_lower p e n n' _ H).
Qed.

Definition kind_equiv (k k' : option str) : Prop := option_map lower k = option_map lower k'.

Lemma find_child_equiv p i n n' k k' :
  lower n = lower n' -> kind_equiv k k' -> find_child p i n k = find_child p i n' k'.
Proof.
  intros H K. unfold find_child. destruct (get_ent p i) as [e|]; auto.
  destruct k as [k|], k' as [k'|]; try discriminate K.
  - injection K as K. rewrite K.
    destruct (assoc_get (lower k') sublink_types) as [a|]; auto.
    destruct (assoc_get a (e_attrs e)) as [[ids|j| |]|]; auto.
    + now rewrite (find_in_lower p n n' ids H).
    + now rewrite (name_eqb_lower n n' _ H).
  - now apply find_children_lower.
Qed.

Lemma find_scope_equiv p i n n' k k' :
  lower n = lower n' -> kind_equiv k k' -> find_scope p i n k = find_scope p i n' k'.
Proof.
  intros H K. unfold find_scope.
  destruct k as [k|], k' as [k'|]; try discriminate K.
  - pose proof K as K'. injection K' as K'. rewrite K'.
    destruct (assoc_get (lower k') scope_link_types) as [attrs|].
    + destruct (get_ent p i) as [e|]; auto. now apply find_chain_lower.
    + now apply find_child_equiv.
  - now apply find_child_equiv.
Qed.

Definition child_equiv (c c' : option str) : Prop := option_map lower c = option_map lower c'.

Lemma project_find_equiv p n n' k k' c c' ck ck' :
  lower n = lower n' -> kind_equiv k k' -> child_equiv c c' -> kind_equiv ck ck' ->
  project_find p n k c ck = project_find p n' k' c' ck'.
Proof.
  intros H K C CK. unfold project_find.
  assert (E : match k with
              | Some k0 => match assoc_get (lower k0) link_types with
                           | Some c0 => Some (col_ids p c0) | None => None end
              | None => Some (flat_map (col_ids p) project_order)
              end =
              match k' with
              | Some k0 => match assoc_get (lower k0) link_types with
                           | Some c0 => Some (col_ids p c0) | None => None end
              | None => Some (flat_map (col_ids p) project_order)
              end).
  { destruct k, k'; try discriminate K; auto. injection K as K. now rewrite K. }
  rewrite E. destruct (match k' with Some _ => _ | None => _ end) as [ids|]; auto.
  rewrite (find_in_lower p n n' ids H). destruct (find_in p n' ids) as [i|]; auto.
  destruct c as [c|], c' as [c'|]; try discriminate C; auto.
  injection C as C. now apply find_child_equiv.
Qed.

(* C11: names and kind words are case-insensitive *)
Definition ref_equiv (r r' : ref) : Prop :=
  lower (r_name r) = lower (r_name r') /\ kind_equiv (r_kind r) (r_kind r') /\
  child_equiv (r_child r) (r_child r') /\ kind_equiv (r_ckind r) (r_ckind r').

Lemma scope_find_equiv p c n n' k k' :
  lower n = lower n' -> kind_equiv k k' -> scope_find p c n k = scope_find p c n' k'.
Proof.
  intros H K. unfold scope_find, find_child_quiet.
  rewrite (find_scope_equiv p c n n' k k' H K).
  destruct (get_ent p c) as [e|]; auto. destruct (e_parent e) as [par|]; auto.
  now rewrite (find_scope_equiv p par n n' k k' H K).
Qed.

Theorem case_insensitive p ctx r r' :
  ref_equiv r r' -> convert_link p ctx r = convert_link p ctx r'.
Proof.
  intros (H & K & C & CK). unfold convert_link.
  assert (S1 : ctx_step p ctx r = ctx_step p ctx r').
  { unfold ctx_step. destruct ctx as [c|]; auto.
    rewrite (scope_find_equiv p c _ _ _ _ H K).
    destruct (scope_find p c (r_name r') (r_kind r')); auto.
    destruct (r_child r) as [cn|], (r_child r') as [cn'|]; try discriminate C; auto.
    injection C as C. now apply find_child_equiv. }
  assert (S2 : project_step p r = project_step p r').
  { unfold project_step.
    rewrite (project_find_equiv p _ _ _ _ _ _ _ _ H K C CK).
    rewrite (project_find_equiv p (r_name r) (r_name r') (r_kind r) (r_kind r') None None None None)
      by (auto; reflexivity).
    destruct (r_child r), (r_child r'); try discriminate C; reflexivity. }
  now rewrite S1, S2.
Qed.

(* ------------------------------------------------------------------------------------------ *)
(* whatever is found carries the name that was asked for *)
Lemma find_chain_named p e n attrs i :
  find_chain p e n attrs = Found i -> name_eqb n (name_of p i) = true.
Proof.
  induction attrs as [|a attrs IH]; simpl; [discriminate|].
  destruct (assoc_get a (e_attrs e)) as [[ids|?| |]|]; auto; try discriminate.
  destruct (find_in p n ids) as [j|] eqn:F; auto.
  intros [= <-]. now apply find_in_some in F.
Qed.

Lemma find_singles_named p e n attrs i :
  find_singles p e n attrs = Found i -> name_eqb n (name_of p i) = true.
Proof.
  induction attrs as [|a attrs IH]; simpl; [discriminate|].
  destruct (assoc_get a (e_attrs e)) as [[ids|j| |]|]; auto.
  destruct (name_eqb n (name_of p j)) eqn:E; auto. now intros [= <-].
Qed.

Lemma find_child_named p i n k j :
  find_child p i n k = Found j -> name_eqb n (name_of p j) = true.
Proof.
  unfold find_child. destruct (get_ent p i) as [e|]; [|discriminate].
  destruct k as [k|].
  - destruct (assoc_get (lower k) sublink_types) as [a|]; [|discriminate].
    destruct (assoc_get a (e_attrs e)) as [[ids|x| |]|]; try discriminate.
    + destruct (find_in p n ids) as [x|] eqn:F; [|discriminate].
      intros [= <-]. now apply find_in_some in F.
    + destruct (name_eqb n (name_of p x)) eqn:E; [|discriminate]. now intros [= <-].
  - unfold find_children. destruct (find_chain p e n children_attrs) eqn:F; try discriminate.
    + intros [= <-]. eapply find_chain_named; eauto.
    + apply find_singles_named.
Qed.

Lemma find_scope_named p i n k j :
  find_scope p i n k = Found j -> name_eqb n (name_of p j) = true.
Proof.
  unfold find_scope. destruct k as [k|]; [|apply find_child_named].
  destruct (assoc_get (lower k) scope_link_types) as [attrs|]; [|apply find_child_named].
  destruct (get_ent p i) as [e|]; [|discriminate]. apply find_chain_named.
Qed.

Lemma project_find_named p n k c ck j :
  project_find p n k c ck = Found j ->
  name_eqb (match c with Some cn => cn | None => n end) (name_of p j) = true.
Proof.
  unfold project_find.
  destruct (match k with Some _ => _ | None => _ end) as [ids|]; [|discriminate].
  destruct (find_in p n ids) as [i|] eqn:F; [|discriminate].
  destruct c as [cn|].
  - apply find_child_named.
  - intros [= <-]. now apply find_in_some in F.
Qed.

Lemma finish_link p f j : finish p f = RLink j -> f = Found j.
Proof.
  destruct f as [i| | |]; simpl; try discriminate.
  destruct (get_ent p i) as [e|]; [|discriminate].
  destruct (negb (displayed p i)); [discriminate|]. destruct (e_has_url e); [|discriminate].
  now intros [= <-].
Qed.

Lemma finish_displayed p f j : finish p f = RLink j -> displayed p j = true.
Proof.
  destruct f as [i| | |]; simpl; try discriminate.
  destruct (get_ent p i) as [e|]; [|discriminate].
  destruct (displayed p i) eqn:D; [|discriminate]. simpl. destruct (e_has_url e); [|discriminate].
  now intros [= <-].
Qed.

Lemma finish_valid p f j : finish p f = RLink j -> get_ent p j <> None.
Proof.
  destruct f as [i| | |]; simpl; try discriminate.
  destruct (get_ent p i) as [e|] eqn:G; [|discriminate].
  destruct (negb (displayed p i)); [discriminate|]. destruct (e_has_url e); [|discriminate].
  intros [= <-]. congruence.
Qed.

Lemma convert_link_valid p ctx r j : convert_link p ctx r = RLink j -> get_ent p j <> None.
Proof.
  unfold convert_link, project_step.
  destruct (ctx_step p ctx r); try apply finish_valid.
  destruct (project_find p (r_name r) (r_kind r) (r_child r) (r_ckind r)); try apply finish_valid.
  destruct (r_child r); [apply finish_valid|discriminate].
Qed.

Lemma settle_link res j : settle res = RLink j -> res = RLink j.
Proof. destruct res; simpl; intros H; try discriminate; exact H. Qed.

Lemma scope_find_named p c n k j :
  scope_find p c n k = Found j -> name_eqb n (name_of p j) = true.
Proof.
  unfold scope_find, find_child_quiet.
  destruct (find_scope p c n k) eqn:F1; try discriminate.
  - intros [= <-]. eapply find_scope_named; eauto.
  - destruct (get_ent p c) as [e|]; [|discriminate]. destruct (e_parent e) as [par|]; [|discriminate].
    destruct (find_scope p par n k) eqn:F2; try discriminate.
    intros [= <-]. eapply find_scope_named; eauto.
  - destruct (get_ent p c) as [e|]; [|discriminate]. destruct (e_parent e) as [par|]; [|discriminate].
    destruct (find_scope p par n k) eqn:F2; try discriminate.
    intros [= <-]. eapply find_scope_named; eauto.
Qed.

(* where a link can come from *)
Lemma convert_link_cases p ctx r j :
  convert_link p ctx r = RLink j ->
  ctx_step p ctx r = Found j \/
  (ctx_step p ctx r = NotFound /\
   (project_find p (r_name r) (r_kind r) (r_child r) (r_ckind r) = Found j \/
    (project_find p (r_name r) (r_kind r) (r_child r) (r_ckind r) = NotFound /\
     r_child r <> None /\ project_find p (r_name r) (r_kind r) None None = Found j))).
Proof.
  unfold convert_link. destruct (ctx_step p ctx r) as [i| | |] eqn:S.
  - intros H. apply finish_link in H. left. exact H.
  - unfold project_step.
    destruct (project_find p (r_name r) (r_kind r) (r_child r) (r_ckind r)) as [i| | |] eqn:P1.
    + intros H. apply finish_link in H. right. split; auto.
    + destruct (r_child r) as [cn|]; [|discriminate].
      intros H. apply finish_link in H. right. split; auto. right. split; auto. split; [discriminate|auto].
    + simpl. discriminate.
    + simpl. discriminate.
  - simpl. discriminate.
  - simpl. discriminate.
Qed.

(* C11: a link never leads to something of another name *)
Theorem child_sound p ctx r j :
  render p ctx r = RLink j ->
  match r_child r with
  | Some cn => name_eqb cn (name_of p j) = true \/ name_eqb (r_name r) (name_of p j) = true
  | None => name_eqb (r_name r) (name_of p j) = true
  end.
Proof.
  intros H. apply settle_link, convert_link_cases in H as [S|[S [P1|(P1 & Hc & P2)]]].
  - unfold ctx_step in S. destruct ctx as [c|]; [|discriminate].
    destruct (scope_find p c (r_name r) (r_kind r)) as [x| | |] eqn:SF.
    + destruct (r_child r) as [cn|].
      * left. eapply find_child_named; eauto.
      * injection S as ->. eapply scope_find_named; eauto.
    + destruct (r_child r); discriminate.
    + destruct (r_child r); discriminate.
    + destruct (r_child r); discriminate.
  - apply project_find_named in P1. destruct (r_child r); auto.
  - apply project_find_named in P2. destruct (r_child r); [auto|congruence].
Qed.

(* C11: an unknown kind word for the item never yields a link (a warning and plain text) *)
Theorem child_kind_error p ctx r cn ck :
  r_child r = Some cn -> r_ckind r = Some ck ->
  assoc_get (lower ck) sublink_types = None ->
  forall j, render p ctx r <> RLink j.
Proof.
  intros Hc Hk Hs j H.
  assert (FC : forall x, find_child p x cn (Some ck) = ErrV \/
                         (find_child p x cn (Some ck) = NotFound /\ get_ent p x = None)).
  { intros x. unfold find_child. destruct (get_ent p x); auto. rewrite Hs. auto. }
  pose proof (settle_link _ _ H) as C.
  apply convert_link_cases in C as [S|[S [P1|(P1 & _ & P2)]]].
  - unfold ctx_step in S. destruct ctx as [c|]; [|discriminate].
    rewrite Hc, Hk in S.
    destruct (scope_find p c (r_name r) (r_kind r)) as [x| | |]; try discriminate.
    destruct (FC x) as [X|[X _]]; congruence.
  - rewrite Hc, Hk in P1. unfold project_find in P1.
    destruct (match r_kind r with Some _ => _ | None => _ end) as [ids|]; [|discriminate].
    destruct (find_in p (r_name r) ids) as [x|]; [|discriminate].
    destruct (FC x) as [X|[X _]]; congruence.
  - rewrite Hc, Hk in P1. unfold project_find in P1, P2.
    destruct (match r_kind r with Some _ => _ | None => _ end) as [ids|]; [|discriminate].
    destruct (find_in p (r_name r) ids) as [x|]; [|discriminate]. injection P2 as ->.
    destruct (FC j) as [X|[_ G]]; [congruence|].
    (* the id names no entity: it cannot be finished into a link *)
    exact (convert_link_valid _ _ _ _ (settle_link _ _ H) G).
Qed.

(* ------------------------------------------------------------------------------------------ *)
(* no TypeError on well-shaped entities *)
Lemma shapes_list e a v :
  shapes_ok e = true -> In (a, v) (e_attrs e) -> str_in a children_attrs = true ->
  list_attr_ok v = true.
Proof.
  unfold shapes_ok. intros H Hin Ha. apply andb_true_iff in H as [H _].
  rewrite forallb_forall in H. specialize (H _ Hin). cbn [fst snd] in H. now rewrite Ha in H.
Qed.

Lemma find_chain_no_errT p e n attrs :
  shapes_ok e = true -> (forall a, In a attrs -> str_in a children_attrs = true) ->
  find_chain p e n attrs <> ErrT.
Proof.
  intros Hs. induction attrs as [|a attrs IH]; intros Ha; simpl; [discriminate|].
  destruct (assoc_get a (e_attrs e)) as [v|] eqn:A.
  - pose proof (shapes_list e a v Hs (assoc_get_In _ _ _ A) (Ha a (or_introl eq_refl))) as L.
    destruct v as [ids|?| |]; try discriminate L.
    + destruct (find_in p n ids); [discriminate|]. apply IH. intros; apply Ha; now right.
    + apply IH. intros; apply Ha; now right.
  - apply IH. intros; apply Ha; now right.
Qed.

Lemma find_singles_no_errT p e n attrs : find_singles p e n attrs <> ErrT.
Proof.
  induction attrs as [|a attrs IH]; simpl; [discriminate|].
  destruct (assoc_get a (e_attrs e)) as [[ids|j| |]|]; auto.
  destruct (name_eqb n (name_of p j)); [discriminate|auto].
Qed.

Lemma str_in_In x l : str_in x l = true <-> In x l.
Proof.
  induction l as [|y l IH]; simpl; [split; [discriminate|tauto]|].
  rewrite orb_true_iff, IH, str_eqb_eq. split; intros [H|H]; auto.
Qed.

Lemma find_children_no_errT p e n : shapes_ok e = true -> find_children p e n <> ErrT.
Proof.
  intros Hs. unfold find_children.
  pose proof (find_chain_no_errT p e n children_attrs Hs (fun a H => proj2 (str_in_In a _) H)) as H1.
  destruct (find_chain p e n children_attrs); try congruence; try discriminate.
  apply find_singles_no_errT.
Qed.

(* the attributes that find_in_scope searches are list attributes *)
Lemma scope_attrs_children k attrs a :
  assoc_get k scope_link_types = Some attrs -> In a attrs -> str_in a children_attrs = true.
Proof.
  intros H Ha.
  assert (A : forallb (fun kc => forallb (fun x => str_in x children_attrs) (snd kc))
                      scope_link_types = true) by (vm_compute; reflexivity).
  rewrite forallb_forall in A. specialize (A _ (assoc_get_In _ _ _ H)). cbn [snd] in A.
  rewrite forallb_forall in A. auto.
Qed.

Definition kind_known (k : option str) : Prop :=
  match k with None => True | Some k' => exists c, assoc_get (lower k') link_types = Some c end.

Lemma find_child_no_errT p i e n k :
  get_ent p i = Some e -> shapes_ok e = true -> find_child p i n k <> ErrT.
Proof.
  intros G Hs. unfold find_child. rewrite G. destruct k as [k|].
  - destruct (assoc_get (lower k) sublink_types) as [a|]; [|discriminate].
    destruct (assoc_get a (e_attrs e)) as [[ids|j| |]|]; try discriminate.
    + destruct (find_in p n ids); discriminate.
    + destruct (name_eqb n (name_of p j)); discriminate.
  - now apply find_children_no_errT.
Qed.

Lemma find_scope_no_errT p i e n k :
  get_ent p i = Some e -> shapes_ok e = true -> find_scope p i n k <> ErrT.
Proof.
  intros G Hs. unfold find_scope. destruct k as [k|]; [|eapply find_child_no_errT; eauto].
  destruct (assoc_get (lower k) scope_link_types) as [attrs|] eqn:A;
    [|eapply find_child_no_errT; eauto].
  rewrite G. apply find_chain_no_errT; auto.
  intros a Ha. eapply scope_attrs_children; eauto.
Qed.

(* C11: a reference to nothing is plain text *)
Definition ent_shapes (p : proj) (i : nat) : Prop :=
  match get_ent p i with Some e => shapes_ok e = true | None => True end.
Definition ctx_shapes (p : proj) (ctx : option nat) : Prop :=
  match ctx with
  | None => True
  | Some c => ent_shapes p c /\
              match get_ent p c with
              | Some e => match e_parent e with Some par => ent_shapes p par | None => True end
              | None => True
              end
  end.

Lemma find_scope_invalid p i n k : get_ent p i = None -> find_scope p i n k <> ErrT.
Proof.
  intros G. unfold find_scope, find_child. rewrite G.
  destruct k as [k|]; [|discriminate].
  destruct (assoc_get (lower k) scope_link_types); discriminate.
Qed.

Lemma find_scope_absent p i n k :
  (forall j, name_eqb n (name_of p j) = false) -> ent_shapes p i ->
  find_scope p i n k = NotFound \/ find_scope p i n k = ErrV.
Proof.
  intros Hn Hs.
  destruct (find_scope p i n k) as [j| | |] eqn:F; auto.
  - apply find_scope_named in F. now rewrite Hn in F.
  - exfalso. unfold ent_shapes in Hs. destruct (get_ent p i) as [e|] eqn:G.
    + eapply find_scope_no_errT; eauto.
    + eapply find_scope_invalid; eauto.
Qed.

Theorem absent_plain p ctx r :
  (forall j, name_eqb (r_name r) (name_of p j) = false) ->
  ctx_shapes p ctx ->
  render p ctx r = RPlain.
Proof.
  intros Hn Hs. unfold render, convert_link.
  assert (S : ctx_step p ctx r = NotFound).
  { unfold ctx_step. destruct ctx as [c|]; auto. destruct Hs as [Hc Hp].
    assert (SF : scope_find p c (r_name r) (r_kind r) = NotFound).
    { unfold scope_find, find_child_quiet.
      destruct (find_scope_absent p c _ (r_kind r) Hn Hc) as [-> | ->];
        (destruct (get_ent p c) as [e|]; auto; destruct (e_parent e) as [par|]; auto;
         destruct (find_scope_absent p par _ (r_kind r) Hn Hp) as [-> | ->]; reflexivity). }
    rewrite SF. now destruct (r_child r). }
  rewrite S. unfold project_step.
  assert (P : forall c ck, project_find p (r_name r) (r_kind r) c ck = NotFound \/
                           project_find p (r_name r) (r_kind r) c ck = ErrV).
  { intros c ck. unfold project_find.
    destruct (match r_kind r with Some _ => _ | None => _ end) as [ids|]; auto.
    destruct (find_in p (r_name r) ids) as [i|] eqn:F; auto.
    apply find_in_some in F as [_ F]. now rewrite Hn in F. }
  destruct (P (r_child r) (r_ckind r)) as [-> | ->]; [|reflexivity].
  destruct (r_child r); [|reflexivity].
  destruct (P None None) as [-> | ->]; reflexivity.
Qed.

(* C11: without a context the result is the first match in the project collections, in the
   order of the table (LINK_TYPES), restricted to one collection by a kind word *)
Definition project_ids (p : proj) (k : option str) : option (list nat) :=
  match k with
  | Some k' => match assoc_get (lower k') link_types with
               | Some c => Some (col_ids p c)
               | None => None
               end
  | None => Some (flat_map (col_ids p) project_order)
  end.

Theorem lookup_first_match p r ids :
  r_child r = None -> project_ids p (r_kind r) = Some ids ->
  render p None r =
  match find_in p (r_name r) ids with
  | Some i => settle (finish p (Found i))
  | None => RPlain
  end.
Proof.
  intros Hc Hk. unfold render, convert_link, ctx_step, project_step, project_find.
  unfold project_ids in Hk. rewrite Hk, Hc.
  destruct (find_in p (r_name r) ids); reflexivity.
Qed.

(* C11: a reference never aborts the conversion (whatever the kind words, existing or not) *)
Definition all_shapes (p : proj) : Prop := forall i e, get_ent p i = Some e -> shapes_ok e = true.

Lemma find_child_no_errT' p i n k : all_shapes p -> find_child p i n k <> ErrT.
Proof.
  intros A. destruct (get_ent p i) as [e|] eqn:G.
  - eapply find_child_no_errT; eauto.
  - unfold find_child. rewrite G. discriminate.
Qed.

Lemma find_scope_no_errT' p i n k : all_shapes p -> find_scope p i n k <> ErrT.
Proof.
  intros A. destruct (get_ent p i) as [e|] eqn:G.
  - eapply find_scope_no_errT; eauto.
  - now apply find_scope_invalid.
Qed.

Lemma finish_no_err p f : f <> ErrT -> finish p f <> RErr.
Proof.
  destruct f as [i| | |]; simpl; try discriminate; [|congruence].
  destruct (get_ent p i) as [e|]; [|discriminate].
  destruct (negb (displayed p i)); [discriminate|]. destruct (e_has_url e); discriminate.
Qed.

Theorem no_abort p ctx r :
  all_shapes p -> render p ctx r = RPlain \/ exists j, render p ctx r = RLink j.
Proof.
  intros A.
  assert (N : convert_link p ctx r <> RErr).
  { unfold convert_link.
    assert (S : ctx_step p ctx r <> ErrT).
    { unfold ctx_step. destruct ctx as [c|]; [|discriminate].
      assert (SF : scope_find p c (r_name r) (r_kind r) <> ErrT).
      { unfold scope_find, find_child_quiet.
        pose proof (find_scope_no_errT' p c (r_name r) (r_kind r) A) as F1.
        destruct (find_scope p c (r_name r) (r_kind r)); try congruence; try discriminate;
          (destruct (get_ent p c) as [e|]; [|discriminate]; destruct (e_parent e) as [par|]; [|discriminate];
           pose proof (find_scope_no_errT' p par (r_name r) (r_kind r) A) as F2;
           destruct (find_scope p par (r_name r) (r_kind r)); try congruence; discriminate). }
      destruct (scope_find p c (r_name r) (r_kind r)) as [i| | |]; try congruence;
        destruct (r_child r); try discriminate. now apply find_child_no_errT'. }
    assert (P : forall c ck, project_find p (r_name r) (r_kind r) c ck <> ErrT).
    { intros c ck. unfold project_find.
      destruct (match r_kind r with Some _ => _ | None => _ end) as [ids|]; [|discriminate].
      destruct (find_in p (r_name r) ids) as [i|]; [|discriminate].
      destruct c; [now apply find_child_no_errT'|discriminate]. }
    destruct (ctx_step p ctx r) as [i| | |] eqn:E; try (now apply finish_no_err); try congruence.
    unfold project_step.
    pose proof (P (r_child r) (r_ckind r)) as P1.
    destruct (project_find p (r_name r) (r_kind r) (r_child r) (r_ckind r)) as [i| | |];
      try (now apply finish_no_err); try congruence.
    destruct (r_child r); [|discriminate]. apply finish_no_err, P. }
  unfold render. destruct (convert_link p ctx r) as [j| | |]; simpl; eauto. congruence.
Qed.

(* ------------------------------------------------------------------------------------------ *)
(* C11_lookup_order: the searches of the code against the levels of the Spec *)
Lemma nodup_keys_assoc l a v : nodup_keys l = true -> In (a, v) l -> assoc_get a l = Some v.
Proof.
  induction l as [|[a' v'] l IH]; simpl; intros H Hin; [destruct Hin|].
  apply andb_true_iff in H as [H1 H2]. apply negb_true_iff in H1.
  destruct Hin as [[= -> ->]|Hin].
  - now rewrite str_eqb_refl.
  - destruct (str_eqb a a') eqn:E; auto.
    apply str_eqb_eq in E. subst a'. exfalso.
    assert (str_in a (map fst l) = true) by (apply str_in_In; apply (in_map fst) in Hin; exact Hin).
    congruence.
Qed.

Lemma find_chain_found p e n attrs i :
  find_chain p e n attrs = Found i ->
  exists a ids, In (a, AList ids) (e_attrs e) /\ In i ids /\ name_eqb n (name_of p i) = true.
Proof.
  induction attrs as [|a attrs IH]; simpl; [discriminate|].
  destruct (assoc_get a (e_attrs e)) as [[ids|?| |]|] eqn:A; auto; try discriminate.
  destruct (find_in p n ids) as [j|] eqn:F; auto.
  intros [= <-]. apply find_in_some in F as [F1 F2].
  exists a, ids. split; auto. now apply assoc_get_In.
Qed.

Lemma find_chain_notfound p e n attrs :
  find_chain p e n attrs = NotFound ->
  forall a ids, In a attrs -> assoc_get a (e_attrs e) = Some (AList ids) -> find_in p n ids = None.
Proof.
  induction attrs as [|a0 attrs IH]; simpl; intros H a ids Ha A; [destruct Ha|].
  destruct Ha as [->|Ha].
  - rewrite A in H. destruct (find_in p n ids); [discriminate|reflexivity].
  - destruct (assoc_get a0 (e_attrs e)) as [[ids0|?| |]|]; try discriminate; eauto.
    destruct (find_in p n ids0); [discriminate|eauto].
Qed.

Lemma find_singles_found p e n attrs i :
  find_singles p e n attrs = Found i ->
  exists a, In (a, ASingle i) (e_attrs e) /\ name_eqb n (name_of p i) = true.
Proof.
  induction attrs as [|a attrs IH]; simpl; [discriminate|].
  destruct (assoc_get a (e_attrs e)) as [[ids|j| |]|] eqn:A; auto.
  destruct (name_eqb n (name_of p j)) eqn:E; auto.
  intros [= <-]. exists a. split; auto. now apply assoc_get_In.
Qed.

Lemma find_singles_notfound p e n attrs :
  find_singles p e n attrs = NotFound ->
  forall a j, In a attrs -> assoc_get a (e_attrs e) = Some (ASingle j) ->
              name_eqb n (name_of p j) = false.
Proof.
  induction attrs as [|a0 attrs IH]; simpl; intros H a j Ha A; [destruct Ha|].
  destruct Ha as [->|Ha].
  - rewrite A in H. destruct (name_eqb n (name_of p j)); [discriminate|reflexivity].
  - destruct (assoc_get a0 (e_attrs e)) as [[ids0|j0| |]|]; eauto.
    destruct (name_eqb n (name_of p j0)); [discriminate|eauto].
Qed.

Lemma in_contents e i :
  In i (contents e) <-> exists a v, In (a, v) (e_attrs e) /\ In i (aval_ids v).
Proof.
  unfold contents. rewrite in_flat_map. split.
  - intros ([a v] & H1 & H2). eauto.
  - intros (a & v & H1 & H2). exists (a, v). auto.
Qed.

Definition ent_ok (e : ent) : Prop := shapes_ok e = true /\ attrs_covered e = true.

Lemma shapes_nodup e : shapes_ok e = true -> nodup_keys (e_attrs e) = true.
Proof. unfold shapes_ok. intros H. now apply andb_true_iff in H as [_ H]. Qed.

Lemma children_disjoint a :
  str_in a children_attrs = true -> str_in a non_list_children = false.
Proof.
  intros H. apply str_in_In in H.
  assert (A : forallb (fun x => negb (str_in x non_list_children)) children_attrs = true)
    by (vm_compute; reflexivity).
  rewrite forallb_forall in A. apply negb_true_iff. auto.
Qed.

Lemma find_singles_no_errV p e n attrs : find_singles p e n attrs <> ErrV.
Proof.
  induction attrs as [|a attrs IH]; simpl; [discriminate|].
  destruct (assoc_get a (e_attrs e)) as [[ids|j| |]|]; auto.
  destruct (name_eqb n (name_of p j)); [discriminate|auto].
Qed.

Lemma find_chain_no_errV p e n attrs : find_chain p e n attrs <> ErrV.
Proof.
  induction attrs as [|a attrs IH]; simpl; [discriminate|].
  destruct (assoc_get a (e_attrs e)) as [[ids|?| |]|]; auto; try discriminate.
  destruct (find_in p n ids); [discriminate|auto].
Qed.

Lemma find_children_spec p e n :
  ent_ok e ->
  match find_children p e n with
  | Found i => In i (contents e) /\ name_eqb n (name_of p i) = true
  | NotFound => forall i, In i (contents e) -> name_eqb n (name_of p i) = false
  | ErrV => False
  | ErrT => False
  end.
Proof.
  intros [Hs Hc]. unfold find_children.
  destruct (find_chain p e n children_attrs) as [i| | |] eqn:F1.
  - apply find_chain_found in F1 as (a & ids & H1 & H2 & H3). split; auto.
    apply in_contents. exists a, (AList ids). auto.
  - destruct (find_singles p e n non_list_children) as [i| | |] eqn:F2.
    + apply find_singles_found in F2 as (a & H1 & H2). split; auto.
      apply in_contents. exists a, (ASingle i). split; auto. now left.
    + intros i Hi. apply in_contents in Hi as (a & v & Hav & Hiv).
      pose proof (nodup_keys_assoc _ _ _ (shapes_nodup e Hs) Hav) as A.
      unfold attrs_covered in Hc. rewrite forallb_forall in Hc. specialize (Hc _ Hav).
      cbn [fst snd] in Hc.
      destruct (str_in a children_attrs) eqn:C1.
      * pose proof (shapes_list e a v Hs Hav C1) as L.
        destruct v as [ids|?| |]; try discriminate L; [|destruct Hiv].
        pose proof (find_chain_notfound p e n _ F1 a ids (proj1 (str_in_In _ _) C1) A) as X.
        eapply find_in_none; eauto.
      * destruct (str_in a non_list_children) eqn:C2.
        -- unfold shapes_ok in Hs. apply andb_true_iff in Hs as [Hs _].
           rewrite forallb_forall in Hs. specialize (Hs _ Hav). cbn [fst snd] in Hs.
           rewrite C1, C2 in Hs.
           destruct v as [ids|j| |]; try discriminate Hs; [|destruct Hiv].
           destruct Hiv as [<-|[]].
           eapply find_singles_notfound; eauto. now apply str_in_In.
        -- cbn [orb] in Hc. destruct v as [[|? ?]|?| |]; try discriminate Hc; destruct Hiv.
    + exact (find_singles_no_errV _ _ _ _ F2).
    + exact (find_singles_no_errT _ _ _ _ F2).
  - exact (find_chain_no_errV _ _ _ _ F1).
  - refine (find_chain_no_errT p e n children_attrs Hs _ F1).
    intros a H. now apply str_in_In.
Qed.

Lemma filter_nil {A} (f : A -> bool) l : (forall x, In x l -> f x = false) -> filter f l = [].
Proof.
  induction l as [|x l IH]; simpl; intros H; auto.
  rewrite (H x) by auto. apply IH. auto.
Qed.

Lemma get_ent_in p i e : get_ent p i = Some e -> In e (p_ents p) /\ i < length (p_ents p).
Proof.
  unfold get_ent. intros H. split; [eapply nth_error_In; eauto|].
  apply nth_error_Some. congruence.
Qed.

Lemma has_url_lt p i : urls_ok p = true -> i < length (p_ents p) -> has_url p i = true.
Proof.
  intros U L. unfold has_url, get_ent.
  destruct (nth_error (p_ents p) i) as [e|] eqn:N.
  - unfold urls_ok in U. rewrite forallb_forall in U. apply U. eapply nth_error_In; eauto.
  - apply nth_error_None in N. lia.
Qed.

Lemma contents_lt p e i :
  ids_ok p = true -> In e (p_ents p) -> In i (contents e) -> i < length (p_ents p).
Proof.
  unfold ids_ok. intros H He Hi. apply andb_true_iff in H as [H _].
  rewrite forallb_forall in H. specialize (H _ He). rewrite forallb_forall in H.
  apply Nat.ltb_lt. auto.
Qed.

Lemma col_lt p c i : ids_ok p = true -> In i (col_ids p c) -> i < length (p_ents p).
Proof.
  unfold ids_ok, col_ids. intros H Hi. apply andb_true_iff in H as [_ H].
  destruct (assoc_get c (p_cols p)) as [l|] eqn:A; [|destruct Hi].
  apply assoc_get_In in A. rewrite forallb_forall in H. specialize (H _ A).
  cbn [snd] in H. rewrite forallb_forall in H. apply Nat.ltb_lt. auto.
Qed.

Lemma matching_in p n ids i :
  In i (matching p n ids) <-> In i ids /\ name_eqb n (name_of p i) = true /\ has_url p i = true.
Proof. unfold matching. rewrite filter_In, andb_true_iff. tauto. Qed.

Lemma contents_of_in e attrs i :
  In i (contents_of e attrs) ->
  exists a v, In a attrs /\ assoc_get a (e_attrs e) = Some v /\ In i (aval_ids v).
Proof.
  unfold contents_of. rewrite in_flat_map. intros (a & Ha & Hi).
  destruct (assoc_get a (e_attrs e)) as [v|] eqn:A; [|destruct Hi]. eauto.
Qed.

Lemma contents_of_sub e attrs i : In i (contents_of e attrs) -> In i (contents e).
Proof.
  intros H. apply contents_of_in in H as (a & v & _ & A & Hi).
  apply in_contents. exists a, v. split; auto. now apply assoc_get_In.
Qed.

(* the regenerated SCOPE_LINK_TYPES against the Spec's reading of a kind word inside a scope *)
Lemma scope_table x c :
  In (x, c) documented_component ->
  match assoc_get x scope_link_types with
  | Some attrs => attrs = scope_attrs x c
  | None => scope_attrs x c = [] /\ assoc_get x sublink_types = None
  end.
Proof.
  intros H.
  assert (A : forallb (fun kc =>
                match assoc_get (fst kc) scope_link_types with
                | Some attrs => list_eqb str_eqb attrs (scope_attrs (fst kc) (snd kc))
                | None => match scope_attrs (fst kc) (snd kc), assoc_get (fst kc) sublink_types with
                          | [], None => true | _, _ => false end
                end) documented_component = true) by (vm_compute; reflexivity).
  rewrite forallb_forall in A. specialize (A _ H). cbn [fst snd] in A.
  destruct (assoc_get x scope_link_types) as [attrs|].
  - apply (list_eqb_eq str_eqb str_eqb_eq) in A. exact A.
  - destruct (scope_attrs x c); [|discriminate]. destruct (assoc_get x sublink_types); [discriminate|auto].
Qed.

Theorem kind_tables_scope_complete :
  forall kc, In kc scope_link_types -> exists c, In (fst kc, c) doc_comp_kinds.
Proof.
  intros kc H.
  assert (A : forallb (fun x => match assoc_get (fst x) doc_comp_kinds with Some _ => true | None => false end)
                      scope_link_types = true) by (vm_compute; reflexivity).
  rewrite forallb_forall in A. specialize (A _ H).
  destruct (assoc_get (fst kc) doc_comp_kinds) as [c|] eqn:E; [|discriminate].
  exists c. now apply assoc_get_In.
Qed.

Lemma comp_kind_in k c : comp_kind k = Some c -> In (lower k, c) documented_component.
Proof.
  unfold comp_kind, documented_component. intros H. apply in_or_app.
  destruct (assoc_get (lower k) doc_comp_kinds) as [c'|] eqn:E.
  - injection H as <-. left. now apply assoc_get_In.
  - right. now apply assoc_get_In.
Qed.

Lemma find_chain_spec p e n attrs :
  shapes_ok e = true -> (forall a, In a attrs -> str_in a children_attrs = true) ->
  match find_chain p e n attrs with
  | Found i => In i (contents_of e attrs) /\ name_eqb n (name_of p i) = true
  | NotFound => forall i, In i (contents_of e attrs) -> name_eqb n (name_of p i) = false
  | _ => False
  end.
Proof.
  intros Hs. induction attrs as [|a attrs IH]; intros Ha; simpl.
  - intros i [].
  - assert (IH' := IH (fun a' H => Ha a' (or_intror H))). clear IH.
    unfold contents_of in *. simpl.
    destruct (assoc_get a (e_attrs e)) as [v|] eqn:A.
    + pose proof (shapes_list e a v Hs (assoc_get_In _ _ _ A) (Ha a (or_introl eq_refl))) as L.
      destruct v as [ids|?| |]; try discriminate L; simpl.
      * destruct (find_in p n ids) as [i|] eqn:F.
        -- apply find_in_some in F as [F1 F2]. split; auto. apply in_or_app. now left.
        -- destruct (find_chain p e n attrs) as [i| | |]; try contradiction.
           ++ destruct IH' as [I1 I2]. split; auto. apply in_or_app. now right.
           ++ intros i Hi. apply in_app_or in Hi as [Hi|Hi]; auto. eapply find_in_none; eauto.
      * exact IH'.
    + exact IH'.
Qed.

Lemma scope_level p c e n k :
  get_ent p c = Some e -> ent_ok e -> urls_ok p = true -> ids_ok p = true ->
  kind_documented k = true ->
  match find_child_quiet p c n k with
  | Found i => In i (scope_cands p c n k)
  | NotFound => scope_cands p c n k = []
  | _ => False
  end.
Proof.
  intros G Hok U I K. pose proof (get_ent_in _ _ _ G) as [Hin _].
  unfold find_child_quiet, find_scope, scope_cands. rewrite G.
  destruct k as [k|].
  - unfold kind_documented in K. destruct (comp_kind k) as [cc|] eqn:CK; [|discriminate].
    pose proof (scope_table _ _ (comp_kind_in _ _ CK)) as ST.
    destruct Hok as [Hs Hc].
    destruct (assoc_get (lower k) scope_link_types) as [attrs|] eqn:SL.
    + subst attrs.
      pose proof (find_chain_spec p e n (scope_attrs (lower k) cc) Hs
                    (fun a H => scope_attrs_children _ _ a SL H)) as FC.
      destruct (find_chain p e n (scope_attrs (lower k) cc)) as [i| | |]; try contradiction.
      * destruct FC as [F1 F2]. apply matching_in. split; auto. split; auto.
        apply has_url_lt; auto. eapply contents_lt; eauto. eapply contents_of_sub; eauto.
      * apply filter_nil. intros i Hi. now rewrite (FC i Hi).
    + destruct ST as [S1 S2]. rewrite S1. unfold find_child. rewrite G, S2. reflexivity.
  - unfold find_child. rewrite G.
    pose proof (find_children_spec p e n Hok) as FS.
    destruct (find_children p e n) as [i| | |]; try contradiction.
    + destruct FS as [F1 F2]. apply matching_in. split; auto. split; auto.
      apply has_url_lt; auto. eapply contents_lt; eauto.
    + apply filter_nil. intros i Hi. now rewrite (FS i Hi).
Qed.

(* the collections an unqualified search goes through are exactly the documented ones *)
Lemma in_all_doc_collections c :
  In c all_doc_collections <-> In c project_order.
Proof.
  split; intros H.
  - assert (A : forallb (fun x => str_in x project_order) all_doc_collections = true)
      by (vm_compute; reflexivity).
    rewrite forallb_forall in A. now apply str_in_In, A.
  - assert (A : forallb (fun x => str_in x all_doc_collections) project_order = true)
      by (vm_compute; reflexivity).
    rewrite forallb_forall in A. now apply str_in_In, A.
Qed.

(* ... each once, those of the project itself before the "ext" ones *)
Lemma project_order_shape :
  exists own ext, project_order = own ++ ext /\
    forallb (fun n => negb (is_ext n)) own = true /\ forallb is_ext ext = true /\
    NoDup project_order.
Proof.
  exists (filter (fun n => negb (is_ext n)) (dedup_names (map snd link_types))),
         (filter is_ext (dedup_names (map snd link_types))).
  split; [reflexivity|]. split; [vm_compute; reflexivity|]. split; [vm_compute; reflexivity|].
  assert (A : (fix nd (l : list str) : bool :=
                 match l with [] => true | x :: l' => negb (str_in x l') && nd l' end) project_order = true)
    by (vm_compute; reflexivity).
  revert A. generalize project_order as l. induction l as [|x l IH]; intros A; constructor.
  - apply andb_true_iff in A as [A _]. apply negb_true_iff in A. intros H.
    apply str_in_In in H. congruence.
  - apply IH. now apply andb_true_iff in A as [_ A].
Qed.

Lemma project_level p n k :
  urls_ok p = true -> ids_ok p = true -> kind_documented k = true ->
  match project_find p n k None None with
  | Found i => In i (project_cands p n k)
  | NotFound => project_cands p n k = []
  | _ => False
  end.
Proof.
  intros U I K. unfold project_find, project_cands.
  destruct k as [k|].
  - rewrite <- comp_kind_table. unfold kind_documented in K.
    destruct (comp_kind k) as [c|]; [|discriminate].
    destruct (find_in p n (col_ids p c)) as [i|] eqn:F.
    + apply find_in_some in F as [F1 F2]. apply matching_in. split; auto. split; auto.
      apply has_url_lt; auto. eapply col_lt; eauto.
    + apply filter_nil. intros i Hi. now rewrite (find_in_none _ _ _ F i Hi).
  - destruct (find_in p n (flat_map (col_ids p) project_order)) as [i|] eqn:F.
    + apply find_in_some in F as [F1 F2]. apply in_flat_map in F1 as (c & H1 & H2).
      apply matching_in. split; [|split; auto].
      * apply in_flat_map. exists c. split; auto. now apply in_all_doc_collections.
      * apply has_url_lt; auto. eapply col_lt; eauto.
    + apply filter_nil. intros i Hi. apply in_flat_map in Hi as (c & Hc & Hi).
      rewrite (find_in_none _ _ _ F i); auto.
      apply in_flat_map. exists c. split; auto. now apply in_all_doc_collections.
Qed.

(* the code's test for "is displayed" is the Spec's "is documented" *)
Lemma page_written_shown p : forall f i e,
  get_ent p i = Some e -> e_owns_page e = false ->
  page_is_written f p i = forallb (vis p) (shown_on f p i).
Proof.
  induction f as [|f IH]; intros i e G O; simpl; rewrite G, O.
  - destruct (e_parent e); [|reflexivity]. destruct (up_parent p e) as [par|]; [|reflexivity].
    simpl. destruct (vis p par); simpl; [|reflexivity].
    destruct (get_ent p par); reflexivity.
  - destruct (e_parent e); [|reflexivity]. destruct (up_parent p e) as [par|]; [|reflexivity].
    simpl. destruct (vis p par); simpl; [|reflexivity].
    destruct (get_ent p par) as [pe|] eqn:Gp.
    + destruct (e_owns_page pe) eqn:Op.
      * destruct f; simpl; now rewrite Gp, Op.
      * now apply IH with (e := pe).
    + destruct f; simpl; now rewrite Gp.
Qed.

Lemma page_written_owner p f i e :
  get_ent p i = Some e -> e_owns_page e = true -> page_is_written f p i = true.
Proof. intros G O. destruct f; simpl; now rewrite G, O. Qed.

Lemma displayed_documented p i : displayed p i = documented p i.
Proof.
  unfold displayed, documented. destruct (get_ent p i) as [e|] eqn:G; [|reflexivity].
  destruct (e_owns_page e) eqn:O.
  - rewrite (page_written_owner p _ i e G O).
    destruct (e_iface_proc e); [destruct (e_parent e) as [par|]; [destruct (vis p par)|]|destruct (e_visible e)];
      reflexivity.
  - simpl. now apply page_written_shown with (e := e).
Qed.

Lemma finish_cand p i :
  has_url p i = true -> finish p (Found i) = if documented p i then RLink i else RPlain.
Proof.
  unfold has_url, finish. rewrite <- displayed_documented.
  destruct (get_ent p i) as [e|]; [|discriminate]. intros ->. now destruct (displayed p i).
Qed.

Lemma nat_in_In i l : In i l -> nat_in i l = true.
Proof.
  intros H. unfold nat_in. apply existsb_exists. exists i. split; auto. apply Nat.eqb_refl.
Qed.

Definition ctx_ok (p : proj) (ctx : option nat) : Prop :=
  match ctx with
  | None => True
  | Some c =>
    exists e, get_ent p c = Some e /\ ent_ok e /\
              match e_parent e with
              | Some par => exists e', get_ent p par = Some e' /\ ent_ok e'
              | None => True
              end
  end.

(* the shape of an accepted answer for a reference without item part *)
Definition accepted_simple (p : proj) (cs : list nat) (res : result) : bool :=
  match cs, res with
  | [], RPlain => true
  | _ :: _, RLink i => link_ok p i cs
  | _ :: _, RPlain => plain_ok p cs
  | _, _ => false
  end.

Lemma spec_accepts_simple p ctx r res :
  r_child r = None -> r_ckind r = None -> kind_documented (r_kind r) = true ->
  spec_accepts p ctx r res = accepted_simple p (comp_cands p ctx r) res.
Proof.
  intros Hc Hck K. unfold spec_accepts. rewrite K, Hck, Hc. reflexivity.
Qed.

(* the candidate that the code picked: a link if it is documented, plain text if not *)
Lemma cands_pick p l i :
  In i l -> accepted_simple p l (settle (if documented p i then RLink i else RPlain)) = true.
Proof.
  intros H. destruct l as [|x l']; [destruct H|]. unfold accepted_simple.
  destruct (documented p i) eqn:D; cbn [settle].
  - unfold link_ok. now rewrite (nat_in_In _ _ H), D.
  - unfold plain_ok. apply existsb_exists. exists i. split; auto. now rewrite D.
Qed.

Lemma scope_cands_url p c n k i : In i (scope_cands p c n k) -> has_url p i = true.
Proof.
  unfold scope_cands. destruct (get_ent p c); [|intros []].
  destruct k as [k|]; [destruct (comp_kind k);
                       [|destruct (assoc_get (lower k) doc_item_kinds); [|intros []]]|];
    intros H; now apply matching_in in H.
Qed.
Lemma project_cands_url p n k i : In i (project_cands p n k) -> has_url p i = true.
Proof.
  unfold project_cands.
  destruct k as [k|]; [destruct (comp_kind k); [|intros []]|]; intros H; now apply matching_in in H.
Qed.

(* C11_lookup_order: a reference without item part is rendered as the Spec demands: a link into
   the first of the three levels (contents of the context, of its parent, the whole project)
   that has a match -- honouring the kind word at every level --, plain text if none has *)
Theorem lookup_order p ctx r :
  r_child r = None -> r_ckind r = None -> kind_documented (r_kind r) = true ->
  ctx_ok p ctx -> urls_ok p = true -> ids_ok p = true ->
  spec_accepts p ctx r (render p ctx r) = true.
Proof.
  intros Hc Hck K Hctx U I.
  rewrite spec_accepts_simple by auto.
  unfold comp_cands, render, convert_link, ctx_step, project_step. rewrite Hc.
  pose proof (project_level p (r_name r) (r_kind r) U I K) as PL.
  assert (Proj : forall pre, (forall l, In l pre -> l = []) ->
            accepted_simple p (first_nonempty (pre ++ [project_cands p (r_name r) (r_kind r)]))
              (settle match project_find p (r_name r) (r_kind r) None None with
                      | NotFound => RPlain
                      | f => finish p f
                      end) = true).
  { intros pre Hpre.
    assert (E : first_nonempty (pre ++ [project_cands p (r_name r) (r_kind r)])
                = project_cands p (r_name r) (r_kind r)).
    { induction pre as [|l pre IH]; simpl.
      - destruct (project_cands p (r_name r) (r_kind r)); reflexivity.
      - rewrite (Hpre l (or_introl eq_refl)). apply IH. intros; apply Hpre; now right. }
    rewrite E.
    destruct (project_find p (r_name r) (r_kind r) None None) as [i| | |]; try contradiction.
    - rewrite (finish_cand p i (project_cands_url _ _ _ _ PL)). now apply cands_pick.
    - now rewrite PL. }
  destruct ctx as [c|].
  - destruct Hctx as (e & G & Hok & Hpar).
    unfold levels, scope_find. rewrite G.
    pose proof (scope_level p c e (r_name r) (r_kind r) G Hok U I K) as L1.
    destruct (find_child_quiet p c (r_name r) (r_kind r)) as [i| | |]; try contradiction.
    + rewrite (finish_cand p i (scope_cands_url _ _ _ _ _ L1)).
      cbn [first_nonempty app].
      destruct (scope_cands p c (r_name r) (r_kind r)) eqn:S; [destruct L1|].
      now apply cands_pick.
    + destruct (e_parent e) as [par|].
      * destruct Hpar as (e' & G' & Hok').
        pose proof (scope_level p par e' (r_name r) (r_kind r) G' Hok' U I K) as L2.
        destruct (find_child_quiet p par (r_name r) (r_kind r)) as [i| | |]; try contradiction.
        -- rewrite (finish_cand p i (scope_cands_url _ _ _ _ _ L2)).
           cbn [first_nonempty app]. rewrite L1.
           destruct (scope_cands p par (r_name r) (r_kind r)) eqn:S; [destruct L2|].
           now apply cands_pick.
        -- apply (Proj [scope_cands p c (r_name r) (r_kind r); scope_cands p par (r_name r) (r_kind r)]).
           intros l [<-|[<-|[]]]; auto.
      * apply (Proj [scope_cands p c (r_name r) (r_kind r)]). intros l [<-|[]]; auto.
  - apply (Proj []). intros l [].
Qed.

(* a word that is only an item kind ("bound", "variable", "final", ...) on the first part: the
   contents of the context, then of its parent, are searched for an item of that kind; the
   project-wide search knows no such word *)
Lemma scope_level_item p c e n k a :
  get_ent p c = Some e -> urls_ok p = true -> ids_ok p = true ->
  comp_kind k = None -> assoc_get (lower k) doc_item_kinds = Some a ->
  match find_child_quiet p c n (Some k) with
  | Found i => In i (scope_cands p c n (Some k))
  | NotFound => scope_cands p c n (Some k) = []
  | _ => False
  end.
Proof.
  intros G U I CK IK. pose proof (get_ent_in _ _ _ G) as [Hin _].
  assert (SL : assoc_get (lower k) scope_link_types = None).
  { destruct (assoc_get (lower k) scope_link_types) as [attrs|] eqn:E; auto.
    destruct (kind_tables_scope_complete _ (assoc_get_In _ _ _ E)) as [c' Hc']. cbn [fst] in Hc'.
    unfold comp_kind in CK.
    destruct (assoc_get (lower k) doc_comp_kinds) eqn:D; [discriminate|].
    exfalso. exact (assoc_get_none_not_in _ _ _ D Hc'). }
  pose proof (kind_tables_item _ _ (assoc_get_In _ _ _ IK)) as SB.
  unfold find_child_quiet, find_scope, scope_cands, find_child. rewrite SL, G, CK, IK, SB.
  unfold contents_of. cbn [flat_map]. rewrite app_nil_r.
  destruct (assoc_get a (e_attrs e)) as [[ids|j| |]|] eqn:A; cbn [aval_ids];
    try (apply filter_nil; intros i []).
  - destruct (find_in p n ids) as [i|] eqn:F.
    + apply find_in_some in F as [F1 F2]. apply matching_in. split; auto. split; auto.
      apply has_url_lt; auto. eapply contents_lt; eauto.
      apply in_contents. exists a, (AList ids). split; auto. now apply assoc_get_In.
    + apply filter_nil. intros i Hi. now rewrite (find_in_none _ _ _ F i Hi).
  - destruct (name_eqb n (name_of p j)) eqn:E.
    + apply matching_in. split; [now left|]. split; auto.
      apply has_url_lt; auto. eapply contents_lt; eauto.
      apply in_contents. exists a, (ASingle j). split; [now apply assoc_get_In|now left].
    + apply filter_nil. intros i [<-|[]]. now rewrite E.
Qed.

Theorem lookup_item_kind_word p ctx r k a :
  r_child r = None -> r_kind r = Some k ->
  comp_kind k = None -> assoc_get (lower k) doc_item_kinds = Some a ->
  match ctx with
  | None => True
  | Some c => exists e, get_ent p c = Some e /\
                        match e_parent e with Some par => exists e', get_ent p par = Some e' | None => True end
  end ->
  urls_ok p = true -> ids_ok p = true ->
  spec_accepts p ctx r (render p ctx r) = true.
Proof.
  intros Hc Hk CK IK Hctx U I.
  assert (KD : kind_documented (r_kind r) = false) by (rewrite Hk; unfold kind_documented; now rewrite CK).
  assert (PC : project_cands p (r_name r) (r_kind r) = []).
  { rewrite Hk. unfold project_cands. now rewrite CK. }
  rewrite Hk in PC.
  assert (PF : project_step p r = RWarn).
  { unfold project_step, project_find. rewrite Hk.
    assert (assoc_get (lower k) link_types = None) as -> by (rewrite <- comp_kind_table; exact CK).
    reflexivity. }
  unfold spec_accepts. rewrite KD, Hc. cbn [negb].
  unfold comp_cands, render, convert_link, ctx_step. rewrite Hc.
  destruct ctx as [c|].
  - destruct Hctx as (e & G & Hpar). unfold levels, scope_find. rewrite G, Hk, PC.
    pose proof (scope_level_item p c e (r_name r) k a G U I CK IK) as L1.
    destruct (find_child_quiet p c (r_name r) (Some k)) as [i| | |]; try contradiction.
    + rewrite (finish_cand p i (scope_cands_url _ _ _ _ _ L1)).
      cbn [first_nonempty app].
      destruct (scope_cands p c (r_name r) (Some k)) eqn:S; [destruct L1|].
      exact (cands_pick p _ i L1).
    + rewrite L1. destruct (e_parent e) as [par|].
      * destruct Hpar as (e' & G').
        pose proof (scope_level_item p par e' (r_name r) k a G' U I CK IK) as L2.
        destruct (find_child_quiet p par (r_name r) (Some k)) as [i| | |]; try contradiction.
        -- rewrite (finish_cand p i (scope_cands_url _ _ _ _ _ L2)).
           cbn [first_nonempty app].
           destruct (scope_cands p par (r_name r) (Some k)) eqn:S; [destruct L2|].
           exact (cands_pick p _ i L2).
        -- rewrite L2, PF. reflexivity.
      * rewrite PF. reflexivity.
  - unfold levels. rewrite Hk, PC, PF. reflexivity.
Qed.

(* the former witnesses of the repaired defects, kept as regression examples *)
Definition w_proj : proj :=
  {| p_ents :=
       [ {| e_name := s "m"; e_attrs := [(s "subroutines", AList [1]); (s "functions", AList [])];
            e_parent := None; e_has_url := true; e_owns_page := true; e_visible := true; e_iface_proc := false |};
         {| e_name := s "reset"; e_attrs := [(s "args", AList [])]; e_parent := Some 0;
            e_has_url := true; e_owns_page := true; e_visible := true; e_iface_proc := false |};
         {| e_name := s "reset"; e_attrs := [(s "args", AList [])]; e_parent := None;
            e_has_url := true; e_owns_page := true; e_visible := true; e_iface_proc := false |} ];
     p_cols := [(s "modules", [0]); (s "procedures", [2; 1])] |}.
Definition w_ref : ref :=
  {| r_name := s "reset"; r_kind := Some (s "proc"); r_child := None; r_ckind := None |}.
Definition w_ref2 : ref :=
  {| r_name := s "m"; r_kind := None; r_child := Some (s "reset"); r_ckind := Some (s "bound") |}.

(* [[reset(proc)]] in the documentation of m's own subroutine reset leads to m's reset, as [[reset]]
   does; [[m:reset(bound)]] (an item kind that a module cannot have) is plain text *)
Example regression_witnesses :
  render w_proj (Some 1) w_ref = RLink 1 /\ comp_cands w_proj (Some 1) w_ref = [1] /\
  render w_proj (Some 1) {| r_name := s "reset"; r_kind := None; r_child := None; r_ckind := None |}
  = RLink 1 /\
  render w_proj None w_ref = RLink 2 /\
  convert_link w_proj None w_ref2 = RWarn /\ render w_proj None w_ref2 = RPlain /\
  spec_accepts w_proj None w_ref2 RPlain = true.
Proof. repeat split; reflexivity. Qed.

(* non-vacuity *)
Definition w_ref0 : ref := {| r_name := s "Reset"; r_kind := None; r_child := None; r_ckind := None |}.
Example ex_lookup_hyps :
  r_child w_ref = None /\ r_ckind w_ref = None /\ kind_documented (r_kind w_ref) = true /\
  ctx_ok w_proj (Some 1) /\
  urls_ok w_proj = true /\ ids_ok w_proj = true /\ all_shapes w_proj /\
  render w_proj (Some 1) w_ref0 = RLink 1 /\ render w_proj None w_ref0 = RLink 2.
Proof.
  repeat split; try reflexivity.
  - eexists. split; [reflexivity|]. split; [split; reflexivity|].
    simpl. eexists. split; [reflexivity|]. split; reflexivity.
  - intros [|[|[|i]]] e H; simpl in H; try (injection H as <-; reflexivity).
    unfold get_ent in H. simpl in H. destruct i; discriminate.
Qed.

Example ex_absent_hyps :
  (forall j, name_eqb (s "nosuch") (name_of w_proj j) = false) /\
  ctx_shapes w_proj (Some 1) /\ kind_known (Some (s "Module")) /\
  ref_equiv w_ref0 {| r_name := s "RESET"; r_kind := None; r_child := None; r_ckind := None |}.
Proof.
  split; [|split; [|split]].
  - intros [|[|[|[|j]]]]; reflexivity.
  - split; [reflexivity|]. simpl. reflexivity.
  - eexists. reflexivity.
  - repeat split; reflexivity.
Qed.

(* non-vacuity of lookup_item_kind_word: [[area(bound)]] in the documentation of the type
   component n_sides is the bound procedure area of the enclosing type (found in the parent) *)
Definition w_proj2 : proj :=
  {| p_ents :=
       [ {| e_name := s "shape"; e_attrs := [(s "variables", AList [1]); (s "boundprocs", AList [2])];
            e_parent := None; e_has_url := true; e_owns_page := true; e_visible := true; e_iface_proc := false |};
         {| e_name := s "n_sides"; e_attrs := []; e_parent := Some 0; e_has_url := true; e_owns_page := true; e_visible := true; e_iface_proc := false |};
         {| e_name := s "area"; e_attrs := [(s "bindings", AList [])]; e_parent := Some 0;
            e_has_url := true; e_owns_page := true; e_visible := true; e_iface_proc := false |} ];
     p_cols := [(s "types", [0])] |}.
Definition w_ref3 : ref :=
  {| r_name := s "area"; r_kind := Some (s "bound"); r_child := None; r_ckind := None |}.
Example ex_item_kind_word :
  r_child w_ref3 = None /\ comp_kind (s "bound") = None /\
  assoc_get (lower (s "bound")) doc_item_kinds = Some (s "boundprocs") /\
  urls_ok w_proj2 = true /\ ids_ok w_proj2 = true /\
  render w_proj2 (Some 1) w_ref3 = RLink 2 /\ comp_cands w_proj2 (Some 1) w_ref3 = [2] /\
  spec_accepts w_proj2 (Some 1) w_ref3 RPlain = false /\
  render w_proj2 None w_ref3 = RPlain /\ spec_accepts w_proj2 None w_ref3 RPlain = true.
Proof. repeat split; reflexivity. Qed.

(* the C09 guarantee at the level of references: a link is only ever emitted to an entity whose
   page is written (the entities that show it are displayed) *)
Theorem link_only_documented p ctx r j : render p ctx r = RLink j -> documented p j = true.
Proof.
  intros H. apply settle_link in H. rewrite <- displayed_documented.
  revert H. unfold convert_link, project_step.
  destruct (ctx_step p ctx r); try apply finish_displayed.
  destruct (project_find p (r_name r) (r_kind r) (r_child r) (r_ckind r)); try apply finish_displayed.
  destruct (r_child r); [apply finish_displayed|discriminate].
Qed.

(* a private function [helper] of a module that is displayed: its page is not written, so its
   local variable [init] is not documented and a reference that selects it is plain text, while
   the argument [x] of the procedure in an interface block is shown on the interface's page *)
Definition w_proj3 : proj :=
  {| p_ents :=
       [ {| e_name := s "m"; e_attrs := [(s "functions", AList [1]); (s "interfaces", AList [4])];
            e_parent := None; e_has_url := true; e_owns_page := true; e_visible := true; e_iface_proc := false |};
         {| e_name := s "helper"; e_attrs := [(s "variables", AList [2]); (s "retvar", ASingle 3)];
            e_parent := Some 0; e_has_url := true; e_owns_page := true; e_visible := false; e_iface_proc := false |};
         {| e_name := s "init"; e_attrs := []; e_parent := Some 1; e_has_url := true;
            e_owns_page := false; e_visible := true; e_iface_proc := false |};
         {| e_name := s "res_helper"; e_attrs := []; e_parent := Some 1; e_has_url := true;
            e_owns_page := false; e_visible := true; e_iface_proc := false |};
         {| e_name := s "cb"; e_attrs := [(s "procedure", ASingle 5)]; e_parent := Some 0; e_has_url := true;
            e_owns_page := true; e_visible := true; e_iface_proc := false |};
         {| e_name := s "cb"; e_attrs := [(s "args", AList [6])]; e_parent := Some 4; e_has_url := true;
            e_owns_page := true; e_visible := false; e_iface_proc := true |};
         {| e_name := s "x"; e_attrs := []; e_parent := Some 5; e_has_url := true;
            e_owns_page := false; e_visible := true; e_iface_proc := false |} ];
     p_cols := [(s "modules", [0]); (s "procedures", [1]); (s "absinterfaces", [4])] |}.
Definition ref_of (n : string) : ref := {| r_name := s n; r_kind := None; r_child := None; r_ckind := None |}.
Example ex_documented :
  documented w_proj3 2 = false /\ render w_proj3 (Some 3) (ref_of "init") = RPlain /\
  spec_accepts w_proj3 (Some 3) (ref_of "init") RPlain = true /\
  spec_accepts w_proj3 (Some 3) (ref_of "init") (RLink 2) = false /\
  render w_proj3 None (ref_of "helper") = RPlain /\
  documented w_proj3 6 = true /\ render w_proj3 (Some 5) (ref_of "x") = RLink 6 /\
  spec_accepts w_proj3 (Some 5) (ref_of "x") RPlain = false /\
  render w_proj3 (Some 6) (ref_of "cb") = RLink 4.
Proof. repeat split; reflexivity. Qed.

(* the context of a conversion is never inherited from an earlier conversion on the same instance *)
Theorem context_not_inherited p calls : forall st,
  md_run p st calls = map (fun c => render p (fst c) (snd c)) calls.
Proof.
  induction calls as [|[ctx r] calls IH]; intros st; simpl; [reflexivity|]. now rewrite IH.
Qed.
