(* Out/LinksProofs.v — proofs about Out/Links.v (property C11). *)
From Ford Require Import Base.Str Base.StrFacts Gen.LinkTypes Out.Links.
From Coq Require Import Lia.

Local Arguments Nat.div : simpl never.

(* ------------------------------------------------------------------------------------------ *)
(* the regenerated tables against the documented kind names (finite, complete) *)
Definition pair_str_eqb (a b : str * str) : bool := str_eqb (fst a) (fst b) && str_eqb (snd a) (snd b).
Definition pair_in (x : str * str) (l : list (str * str)) : bool := existsb (pair_str_eqb x) l.

Lemma pair_in_In x l : pair_in x l = true <-> In x l.
Proof.
  unfold pair_in. rewrite existsb_exists. split.
  - intros (y & Hy & E). unfold pair_str_eqb in E. apply andb_true_iff in E as [E1 E2].
    apply str_eqb_eq in E1, E2. destruct x, y. simpl in *. now subst.
  - intros H. exists x. split; auto. unfold pair_str_eqb. now rewrite !str_eqb_refl.
Qed.

Lemma assoc_get_In {V} k (v : V) l : assoc_get k l = Some v -> In (k, v) l.
Proof.
  induction l as [|[k' v'] l IH]; simpl; [discriminate|].
  destruct (str_eqb k k') eqn:E.
  - intros [= <-]. apply str_eqb_eq in E. subst. left. reflexivity.
  - intros H. right. auto.
Qed.

Definition documented_component : list (str * str) := doc_comp_kinds ++ doc_ext_kinds.

Theorem kind_tables_component k c :
  In (k, c) documented_component -> assoc_get k link_types = Some c.
Proof.
  intros H.
  assert (A : forallb (fun kc => opt_eqb str_eqb (assoc_get (fst kc) link_types) (Some (snd kc)))
                      documented_component = true) by (vm_compute; reflexivity).
  rewrite forallb_forall in A. specialize (A _ H). cbn [fst snd] in A.
  destruct (assoc_get k link_types) as [c'|]; [|discriminate A].
  cbn [opt_eqb] in A. apply str_eqb_eq in A. now subst.
Qed.

Theorem kind_tables_item k a :
  In (k, a) doc_item_kinds -> assoc_get k sublink_types = Some a.
Proof.
  intros H.
  assert (A : forallb (fun kc => opt_eqb str_eqb (assoc_get (fst kc) sublink_types) (Some (snd kc)))
                      doc_item_kinds = true) by (vm_compute; reflexivity).
  rewrite forallb_forall in A. specialize (A _ H). cbn [fst snd] in A.
  destruct (assoc_get k sublink_types) as [c'|]; [|discriminate A].
  cbn [opt_eqb] in A. apply str_eqb_eq in A. now subst.
Qed.

Theorem kind_tables_complete :
  (forall kc, In kc link_types -> In kc documented_component) /\
  (forall kc, In kc sublink_types -> In kc doc_item_kinds).
Proof.
  split; intros kc H; apply pair_in_In.
  - assert (A : forallb (fun x => pair_in x documented_component) link_types = true)
      by (vm_compute; reflexivity).
    rewrite forallb_forall in A. auto.
  - assert (A : forallb (fun x => pair_in x doc_item_kinds) sublink_types = true)
      by (vm_compute; reflexivity).
    rewrite forallb_forall in A. auto.
Qed.

(* consequences used below *)
Lemma assoc_get_none_not_in {V} k (v : V) l : assoc_get k l = None -> ~ In (k, v) l.
Proof.
  induction l as [|[k' v'] l IH]; simpl; intros H; [tauto|].
  destruct (str_eqb k k') eqn:E; [discriminate|].
  intros [[= -> ->]|H']; [now rewrite str_eqb_refl in E|]. now apply IH.
Qed.

Lemma comp_kind_table k : comp_kind k = assoc_get (lower k) link_types.
Proof.
  unfold comp_kind.
  destruct (assoc_get (lower k) doc_comp_kinds) as [c|] eqn:E1.
  - symmetry. apply kind_tables_component. apply in_or_app. left. now apply assoc_get_In.
  - destruct (assoc_get (lower k) doc_ext_kinds) as [c|] eqn:E2.
    + symmetry. apply kind_tables_component. apply in_or_app. right. now apply assoc_get_In.
    + destruct (assoc_get (lower k) link_types) as [c|] eqn:E3; auto.
      apply assoc_get_In, (proj1 kind_tables_complete), in_app_or in E3.
      exfalso. destruct E3 as [E3|E3].
      * exact (assoc_get_none_not_in _ _ _ E1 E3).
      * exact (assoc_get_none_not_in _ _ _ E2 E3).
Qed.

(* ------------------------------------------------------------------------------------------ *)
(* basic facts about the searches *)
Lemma find_in_some p n ids i :
  find_in p n ids = Some i -> In i ids /\ name_eqb n (name_of p i) = true.
Proof.
  induction ids as [|x ids IH]; simpl; [discriminate|].
  destruct (name_eqb n (name_of p x)) eqn:E.
  - intros [= <-]. auto.
  - intros H. destruct (IH H). auto.
Qed.

Lemma find_in_none p n ids :
  find_in p n ids = None -> forall i, In i ids -> name_eqb n (name_of p i) = false.
Proof.
  induction ids as [|x ids IH]; simpl; intros H i Hi; [destruct Hi|].
  destruct (name_eqb n (name_of p x)) eqn:E; [discriminate|].
  destruct Hi as [<-|Hi]; auto.
Qed.

Lemma name_eqb_lower n n' x : lower n = lower n' -> name_eqb n x = name_eqb n' x.
Proof. unfold name_eqb. now intros ->. Qed.

Lemma find_in_lower p n n' ids : lower n = lower n' -> find_in p n ids = find_in p n' ids.
Proof.
  intros H. induction ids as [|x ids IH]; simpl; auto.
  now rewrite (name_eqb_lower n n' _ H), IH.
Qed.

Lemma find_chain_lower p e n n' attrs :
  lower n = lower n' -> find_chain p e n attrs = find_chain p e n' attrs.
Proof.
  intros H. induction attrs as [|a attrs IH]; simpl; auto.
  destruct (assoc_get a (e_attrs e)) as [[ids|?| |]|]; auto.
  now rewrite (find_in_lower p n n' ids H), IH.
Qed.

Lemma find_singles_lower p e n n' attrs :
  lower n = lower n' -> find_singles p e n attrs = find_singles p e n' attrs.
Proof.
  intros H. induction attrs as [|a attrs IH]; simpl; auto.
  destruct (assoc_get a (e_attrs e)) as [[ids|i| |]|]; auto.
  now rewrite (name_eqb_lower n n' _ H), IH.
Qed.

Lemma find_children_lower p e n n' :
  lower n = lower n' -> find_children p e n = find_children p e n'.
Proof.
  intros H. unfold find_children.
  now rewrite (find_chain_lower p e n n' _ H), (find_singles_lower p e n n' _ H).
Qed.

Definition kind_equiv (k k' : option str) : Prop := option_map lower k = option_map lower k'.

Lemma find_child_equiv p i n n' k k' :
  lower n = lower n' -> kind_equiv k k' -> find_child p i n k = find_child p i n' k'.
Proof.
  intros H K. unfold find_child. destruct (get_ent p i) as [e|]; auto.
  destruct k as [k|], k' as [k'|]; try discriminate K.
  - injection K as K. rewrite K.
    destruct (assoc_get (lower k') sublink_types) as [a|]; auto.
    destruct (assoc_get a (e_attrs e)) as [[ids|?| |]|]; auto.
    now rewrite (find_in_lower p n n' ids H).
  - now apply find_children_lower.
Qed.

Definition child_equiv (c c' : option str) : Prop := option_map lower c = option_map lower c'.

Lemma project_find_equiv p n n' k k' c c' ck ck' :
  lower n = lower n' -> kind_equiv k k' -> child_equiv c c' -> kind_equiv ck ck' ->
  project_find p n k c ck = project_find p n' k' c' ck'.
Proof.
  intros H K C CK. unfold project_find.
  assert (E : match k with
              | Some k0 => match assoc_get (lower k0) link_types with
                           | Some c0 => Some (col_ids p c0) | None => None end
              | None => Some (flat_map (fun kc => col_ids p (snd kc)) link_types)
              end =
              match k' with
              | Some k0 => match assoc_get (lower k0) link_types with
                           | Some c0 => Some (col_ids p c0) | None => None end
              | None => Some (flat_map (fun kc => col_ids p (snd kc)) link_types)
              end).
  { destruct k, k'; try discriminate K; auto. injection K as K. now rewrite K. }
  rewrite E. destruct (match k' with Some _ => _ | None => _ end) as [ids|]; auto.
  rewrite (find_in_lower p n n' ids H). destruct (find_in p n' ids) as [i|]; auto.
  destruct c as [c|], c' as [c'|]; try discriminate C; auto.
  injection C as C. now apply find_child_equiv.
Qed.

(* C11: names and kind words are case-insensitive *)
Definition ref_equiv (r r' : ref) : Prop :=
  lower (r_name r) = lower (r_name r') /\ kind_equiv (r_kind r) (r_kind r') /\
  child_equiv (r_child r) (r_child r') /\ kind_equiv (r_ckind r) (r_ckind r').

Lemma scope_find_equiv p c n n' k k' :
  lower n = lower n' -> kind_equiv k k' -> scope_find p c n k = scope_find p c n' k'.
Proof.
  intros H K. unfold scope_find, find_child_quiet.
  rewrite (find_child_equiv p c n n' k k' H K).
  destruct (get_ent p c) as [e|]; auto. destruct (e_parent e) as [par|]; auto.
  now rewrite (find_child_equiv p par n n' k k' H K).
Qed.

Theorem case_insensitive p ctx r r' :
  ref_equiv r r' -> convert_link p ctx r = convert_link p ctx r'.
Proof.
  intros (H & K & C & CK). unfold convert_link.
  assert (S1 : ctx_step p ctx r = ctx_step p ctx r').
  { unfold ctx_step. destruct ctx as [c|]; auto.
    rewrite (scope_find_equiv p c _ _ _ _ H K).
    destruct (scope_find p c (r_name r') (r_kind r')); auto.
    destruct (r_child r) as [cn|], (r_child r') as [cn'|]; try discriminate C; auto.
    injection C as C. now apply find_child_equiv. }
  assert (S2 : project_step p r = project_step p r').
  { unfold project_step.
    rewrite (project_find_equiv p _ _ _ _ _ _ _ _ H K C CK).
    rewrite (project_find_equiv p (r_name r) (r_name r') (r_kind r) (r_kind r') None None None None)
      by (auto; reflexivity).
    destruct (r_child r), (r_child r'); try discriminate C; reflexivity. }
  now rewrite S1, S2.
Qed.

(* ------------------------------------------------------------------------------------------ *)
(* whatever is found carries the name that was asked for *)
Lemma find_chain_named p e n attrs i :
  find_chain p e n attrs = Found i -> name_eqb n (name_of p i) = true.
Proof.
  induction attrs as [|a attrs IH]; simpl; [discriminate|].
  destruct (assoc_get a (e_attrs e)) as [[ids|?| |]|]; auto; try discriminate.
  destruct (find_in p n ids) as [j|] eqn:F; auto.
  intros [= <-]. now apply find_in_some in F.
Qed.

Lemma find_singles_named p e n attrs i :
  find_singles p e n attrs = Found i -> name_eqb n (name_of p i) = true.
Proof.
  induction attrs as [|a attrs IH]; simpl; [discriminate|].
  destruct (assoc_get a (e_attrs e)) as [[ids|j| |]|]; auto.
  destruct (name_eqb n (name_of p j)) eqn:E; auto. now intros [= <-].
Qed.

Lemma find_child_named p i n k j :
  find_child p i n k = Found j -> name_eqb n (name_of p j) = true.
Proof.
  unfold find_child. destruct (get_ent p i) as [e|]; [|discriminate].
  destruct k as [k|].
  - destruct (assoc_get (lower k) sublink_types) as [a|]; [|discriminate].
    destruct (assoc_get a (e_attrs e)) as [[ids|?| |]|]; try discriminate.
    destruct (find_in p n ids) as [x|] eqn:F; [|discriminate].
    intros [= <-]. now apply find_in_some in F.
  - unfold find_children. destruct (find_chain p e n children_attrs) eqn:F; try discriminate.
    + intros [= <-]. eapply find_chain_named; eauto.
    + apply find_singles_named.
Qed.

Lemma project_find_named p n k c ck j :
  project_find p n k c ck = Found j ->
  name_eqb (match c with Some cn => cn | None => n end) (name_of p j) = true.
Proof.
  unfold project_find.
  destruct (match k with Some _ => _ | None => _ end) as [ids|]; [|discriminate].
  destruct (find_in p n ids) as [i|] eqn:F; [|discriminate].
  destruct c as [cn|].
  - apply find_child_named.
  - intros [= <-]. now apply find_in_some in F.
Qed.

Lemma finish_link p f j : finish p f = RLink j -> f = Found j.
Proof.
  destruct f as [i| | |]; simpl; try discriminate.
  destruct (get_ent p i) as [e|]; [|discriminate]. destruct (e_has_url e); [|discriminate].
  now intros [= <-].
Qed.

Lemma scope_find_named p c n k j :
  scope_find p c n k = Found j -> name_eqb n (name_of p j) = true.
Proof.
  unfold scope_find, find_child_quiet.
  destruct (find_child p c n k) eqn:F1; try discriminate.
  - intros [= <-]. eapply find_child_named; eauto.
  - destruct (get_ent p c) as [e|]; [|discriminate]. destruct (e_parent e) as [par|]; [|discriminate].
    destruct (find_child p par n k) eqn:F2; try discriminate.
    intros [= <-]. eapply find_child_named; eauto.
  - destruct (get_ent p c) as [e|]; [|discriminate]. destruct (e_parent e) as [par|]; [|discriminate].
    destruct (find_child p par n k) eqn:F2; try discriminate.
    intros [= <-]. eapply find_child_named; eauto.
Qed.

(* C11: a link never leads to something of another name *)
Theorem child_sound p ctx r j :
  convert_link p ctx r = RLink j ->
  match r_child r with
  | Some cn => name_eqb cn (name_of p j) = true \/ name_eqb (r_name r) (name_of p j) = true
  | None => name_eqb (r_name r) (name_of p j) = true
  end.
Proof.
  unfold convert_link. destruct (ctx_step p ctx r) as [i| | |] eqn:S; try discriminate.
  - intros H. apply finish_link in H. injection H as ->.
    unfold ctx_step in S. destruct ctx as [c|]; [|discriminate].
    destruct (scope_find p c (r_name r) (r_kind r)) as [x| | |] eqn:SF.
    + destruct (r_child r) as [cn|].
      * left. eapply find_child_named; eauto.
      * injection S as ->. eapply scope_find_named; eauto.
    + destruct (r_child r); discriminate.
    + destruct (r_child r); discriminate.
    + destruct (r_child r); discriminate.
  - unfold project_step.
    destruct (project_find p (r_name r) (r_kind r) (r_child r) (r_ckind r)) as [i| | |] eqn:P1;
      try discriminate.
    + intros H. apply finish_link in H. injection H as ->.
      apply project_find_named in P1. destruct (r_child r); auto.
    + destruct (r_child r) as [cn|]; [|discriminate].
      destruct (project_find p (r_name r) (r_kind r) None None) as [i| | |] eqn:P2; try discriminate.
      intros H. apply finish_link in H. injection H as ->.
      apply project_find_named in P2. auto.
Qed.

(* C11: an unknown kind word for the item never yields a link (it is an error when the
   component exists, plain text otherwise) *)
Theorem child_kind_error p ctx r cn ck :
  r_child r = Some cn -> r_ckind r = Some ck ->
  assoc_get (lower ck) sublink_types = None ->
  forall j, convert_link p ctx r <> RLink j.
Proof.
  intros Hc Hk Hs j C.
  unfold convert_link in C.
  assert (FC : forall x f, find_child p x cn (Some ck) = f -> f = ErrV \/ (f = NotFound /\ get_ent p x = None)).
  { intros x f <-. unfold find_child. destruct (get_ent p x); auto. rewrite Hs. auto. }
  destruct (ctx_step p ctx r) as [i| | |] eqn:S; try discriminate.
  - apply finish_link in C. injection C as ->.
    unfold ctx_step in S. destruct ctx as [c|]; [|discriminate].
    rewrite Hc, Hk in S.
    destruct (scope_find p c (r_name r) (r_kind r)) as [x| | |]; try discriminate.
    destruct (FC _ _ S) as [X|[X _]]; discriminate.
  - unfold project_step in C. rewrite Hc, Hk in C.
    destruct (project_find p (r_name r) (r_kind r) (Some cn) (Some ck)) as [i| | |] eqn:P1;
      try discriminate.
    + apply finish_link in C. injection C as ->.
      unfold project_find in P1.
      destruct (match r_kind r with Some _ => _ | None => _ end) as [ids|]; [|discriminate].
      destruct (find_in p (r_name r) ids) as [x|]; [|discriminate].
      destruct (FC _ _ P1) as [X|[X _]]; discriminate.
    + destruct (project_find p (r_name r) (r_kind r) None None) as [i| | |] eqn:P2; try discriminate.
      unfold project_find in P1, P2.
      destruct (match r_kind r with Some _ => _ | None => _ end) as [ids|]; [|discriminate].
      destruct (find_in p (r_name r) ids) as [x|]; [|discriminate]. injection P2 as ->.
      destruct (FC _ _ P1) as [X|[_ X]]; [discriminate|].
      unfold finish in C. rewrite X in C. discriminate.
Qed.

(* ------------------------------------------------------------------------------------------ *)
(* no TypeError on well-shaped entities *)
Lemma shapes_list e a v :
  shapes_ok e = true -> In (a, v) (e_attrs e) -> str_in a children_attrs = true ->
  list_attr_ok v = true.
Proof.
  unfold shapes_ok. intros H Hin Ha. apply andb_true_iff in H as [H _].
  rewrite forallb_forall in H. specialize (H _ Hin). cbn [fst snd] in H. now rewrite Ha in H.
Qed.

Lemma find_chain_no_errT p e n attrs :
  shapes_ok e = true -> (forall a, In a attrs -> str_in a children_attrs = true) ->
  find_chain p e n attrs <> ErrT.
Proof.
  intros Hs. induction attrs as [|a attrs IH]; intros Ha; simpl; [discriminate|].
  destruct (assoc_get a (e_attrs e)) as [v|] eqn:A.
  - pose proof (shapes_list e a v Hs (assoc_get_In _ _ _ A) (Ha a (or_introl eq_refl))) as L.
    destruct v as [ids|?| |]; try discriminate L.
    + destruct (find_in p n ids); [discriminate|]. apply IH. intros; apply Ha; now right.
    + apply IH. intros; apply Ha; now right.
  - apply IH. intros; apply Ha; now right.
Qed.

Lemma find_singles_no_errT p e n attrs : find_singles p e n attrs <> ErrT.
Proof.
  induction attrs as [|a attrs IH]; simpl; [discriminate|].
  destruct (assoc_get a (e_attrs e)) as [[ids|j| |]|]; auto.
  destruct (name_eqb n (name_of p j)); [discriminate|auto].
Qed.

Lemma str_in_In x l : str_in x l = true <-> In x l.
Proof.
  induction l as [|y l IH]; simpl; [split; [discriminate|tauto]|].
  rewrite orb_true_iff, IH, str_eqb_eq. split; intros [H|H]; auto.
Qed.

Lemma find_children_no_errT p e n : shapes_ok e = true -> find_children p e n <> ErrT.
Proof.
  intros Hs. unfold find_children.
  pose proof (find_chain_no_errT p e n children_attrs Hs (fun a H => proj2 (str_in_In a _) H)) as H1.
  destruct (find_chain p e n children_attrs); try congruence; try discriminate.
  apply find_singles_no_errT.
Qed.

(* a component kind word, read as an item kind by the context step, names a list attribute *)
Lemma comp_kind_attr_is_list k c a :
  assoc_get k link_types = Some c -> assoc_get k sublink_types = Some a ->
  str_in a children_attrs = true.
Proof.
  intros H1 H2.
  assert (A : forallb (fun kc => match assoc_get (fst kc) sublink_types with
                                 | Some a' => str_in a' children_attrs | None => true end)
                      link_types = true) by (vm_compute; reflexivity).
  rewrite forallb_forall in A. specialize (A _ (assoc_get_In _ _ _ H1)). cbn [fst] in A.
  now rewrite H2 in A.
Qed.

Definition kind_known (k : option str) : Prop :=
  match k with None => True | Some k' => exists c, assoc_get (lower k') link_types = Some c end.

Lemma find_child_no_errT p i e n k :
  get_ent p i = Some e -> shapes_ok e = true -> kind_known k -> find_child p i n k <> ErrT.
Proof.
  intros G Hs K. unfold find_child. rewrite G. destruct k as [k|].
  - destruct K as [c Hc].
    destruct (assoc_get (lower k) sublink_types) as [a|] eqn:A; [|discriminate].
    destruct (assoc_get a (e_attrs e)) as [v|] eqn:V; [|discriminate].
    pose proof (shapes_list e a v Hs (assoc_get_In _ _ _ V) (comp_kind_attr_is_list _ _ _ Hc A)) as L.
    destruct v as [ids|?| |]; try discriminate L; try discriminate.
    destruct (find_in p n ids); discriminate.
  - now apply find_children_no_errT.
Qed.

(* C11: a reference to nothing is plain text *)
Definition ent_shapes (p : proj) (i : nat) : Prop :=
  match get_ent p i with Some e => shapes_ok e = true | None => True end.
Definition ctx_shapes (p : proj) (ctx : option nat) : Prop :=
  match ctx with
  | None => True
  | Some c => ent_shapes p c /\
              match get_ent p c with
              | Some e => match e_parent e with Some par => ent_shapes p par | None => True end
              | None => True
              end
  end.

Lemma find_child_absent p i n k :
  (forall j, name_eqb n (name_of p j) = false) -> ent_shapes p i -> kind_known k ->
  find_child p i n k = NotFound \/ find_child p i n k = ErrV.
Proof.
  intros Hn Hs K.
  destruct (find_child p i n k) as [j| | |] eqn:F; auto.
  - apply find_child_named in F. now rewrite Hn in F.
  - exfalso. unfold ent_shapes in Hs. destruct (get_ent p i) as [e|] eqn:G.
    + eapply find_child_no_errT; eauto.
    + unfold find_child in F. rewrite G in F. discriminate.
Qed.

Theorem absent_plain p ctx r :
  (forall j, name_eqb (r_name r) (name_of p j) = false) ->
  ctx_shapes p ctx -> kind_known (r_kind r) ->
  convert_link p ctx r = RPlain.
Proof.
  intros Hn Hs K. unfold convert_link.
  assert (S : ctx_step p ctx r = NotFound).
  { unfold ctx_step. destruct ctx as [c|]; auto. destruct Hs as [Hc Hp].
    assert (SF : scope_find p c (r_name r) (r_kind r) = NotFound).
    { unfold scope_find, find_child_quiet.
      destruct (find_child_absent p c _ _ Hn Hc K) as [-> | ->];
        (destruct (get_ent p c) as [e|]; auto; destruct (e_parent e) as [par|]; auto;
         destruct (find_child_absent p par _ _ Hn Hp K) as [-> | ->]; reflexivity). }
    rewrite SF. now destruct (r_child r). }
  rewrite S. unfold project_step.
  assert (P : forall c ck, project_find p (r_name r) (r_kind r) c ck = NotFound).
  { intros c ck. unfold project_find.
    assert (X : exists ids, match r_kind r with
                | Some k => match assoc_get (lower k) link_types with
                            | Some c0 => Some (col_ids p c0) | None => None end
                | None => Some (flat_map (fun kc => col_ids p (snd kc)) link_types)
                end = Some ids).
    { destruct (r_kind r) as [k|]; [|eauto]. destruct K as [c0 ->]. eauto. }
    destruct X as [ids ->].
    destruct (find_in p (r_name r) ids) as [i|] eqn:F; auto.
    apply find_in_some in F as [_ F]. now rewrite Hn in F. }
  rewrite !P. now destruct (r_child r).
Qed.

(* C11: without a context the result is the first match in the project collections, in the
   order of the table (LINK_TYPES), restricted to one collection by a kind word *)
Definition project_ids (p : proj) (k : option str) : option (list nat) :=
  match k with
  | Some k' => match assoc_get (lower k') link_types with
               | Some c => Some (col_ids p c)
               | None => None
               end
  | None => Some (flat_map (fun kc => col_ids p (snd kc)) link_types)
  end.

Theorem lookup_first_match p r ids :
  r_child r = None -> project_ids p (r_kind r) = Some ids ->
  convert_link p None r =
  match find_in p (r_name r) ids with
  | Some i => finish p (Found i)
  | None => RPlain
  end.
Proof.
  intros Hc Hk. unfold convert_link, ctx_step, project_step, project_find.
  unfold project_ids in Hk. rewrite Hk, Hc.
  destruct (find_in p (r_name r) ids); reflexivity.
Qed.

(* ------------------------------------------------------------------------------------------ *)
(* C11_lookup_order: the searches of the code against the levels of the Spec *)
Lemma nodup_keys_assoc l a v : nodup_keys l = true -> In (a, v) l -> assoc_get a l = Some v.
Proof.
  induction l as [|[a' v'] l IH]; simpl; intros H Hin; [destruct Hin|].
  apply andb_true_iff in H as [H1 H2]. apply negb_true_iff in H1.
  destruct Hin as [[= -> ->]|Hin].
  - now rewrite str_eqb_refl.
  - destruct (str_eqb a a') eqn:E; auto.
    apply str_eqb_eq in E. subst a'. exfalso.
    assert (str_in a (map fst l) = true) by (apply str_in_In; apply (in_map fst) in Hin; exact Hin).
    congruence.
Qed.

Lemma find_chain_found p e n attrs i :
  find_chain p e n attrs = Found i ->
  exists a ids, In (a, AList ids) (e_attrs e) /\ In i ids /\ name_eqb n (name_of p i) = true.
Proof.
  induction attrs as [|a attrs IH]; simpl; [discriminate|].
  destruct (assoc_get a (e_attrs e)) as [[ids|?| |]|] eqn:A; auto; try discriminate.
  destruct (find_in p n ids) as [j|] eqn:F; auto.
  intros [= <-]. apply find_in_some in F as [F1 F2].
  exists a, ids. split; auto. now apply assoc_get_In.
Qed.

Lemma find_chain_notfound p e n attrs :
  find_chain p e n attrs = NotFound ->
  forall a ids, In a attrs -> assoc_get a (e_attrs e) = Some (AList ids) -> find_in p n ids = None.
Proof.
  induction attrs as [|a0 attrs IH]; simpl; intros H a ids Ha A; [destruct Ha|].
  destruct Ha as [->|Ha].
  - rewrite A in H. destruct (find_in p n ids); [discriminate|reflexivity].
  - destruct (assoc_get a0 (e_attrs e)) as [[ids0|?| |]|]; try discriminate; eauto.
    destruct (find_in p n ids0); [discriminate|eauto].
Qed.

Lemma find_singles_found p e n attrs i :
  find_singles p e n attrs = Found i ->
  exists a, In (a, ASingle i) (e_attrs e) /\ name_eqb n (name_of p i) = true.
Proof.
  induction attrs as [|a attrs IH]; simpl; [discriminate|].
  destruct (assoc_get a (e_attrs e)) as [[ids|j| |]|] eqn:A; auto.
  destruct (name_eqb n (name_of p j)) eqn:E; auto.
  intros [= <-]. exists a. split; auto. now apply assoc_get_In.
Qed.

Lemma find_singles_notfound p e n attrs :
  find_singles p e n attrs = NotFound ->
  forall a j, In a attrs -> assoc_get a (e_attrs e) = Some (ASingle j) ->
              name_eqb n (name_of p j) = false.
Proof.
  induction attrs as [|a0 attrs IH]; simpl; intros H a j Ha A; [destruct Ha|].
  destruct Ha as [->|Ha].
  - rewrite A in H. destruct (name_eqb n (name_of p j)); [discriminate|reflexivity].
  - destruct (assoc_get a0 (e_attrs e)) as [[ids0|j0| |]|]; eauto.
    destruct (name_eqb n (name_of p j0)); [discriminate|eauto].
Qed.

Lemma in_contents e i :
  In i (contents e) <-> exists a v, In (a, v) (e_attrs e) /\ In i (aval_ids v).
Proof.
  unfold contents. rewrite in_flat_map. split.
  - intros ([a v] & H1 & H2). eauto.
  - intros (a & v & H1 & H2). exists (a, v). auto.
Qed.

Definition ent_ok (e : ent) : Prop := shapes_ok e = true /\ attrs_covered e = true.

Lemma shapes_nodup e : shapes_ok e = true -> nodup_keys (e_attrs e) = true.
Proof. unfold shapes_ok. intros H. now apply andb_true_iff in H as [_ H]. Qed.

Lemma children_disjoint a :
  str_in a children_attrs = true -> str_in a non_list_children = false.
Proof.
  intros H. apply str_in_In in H.
  assert (A : forallb (fun x => negb (str_in x non_list_children)) children_attrs = true)
    by (vm_compute; reflexivity).
  rewrite forallb_forall in A. apply negb_true_iff. auto.
Qed.

Lemma find_singles_no_errV p e n attrs : find_singles p e n attrs <> ErrV.
Proof.
  induction attrs as [|a attrs IH]; simpl; [discriminate|].
  destruct (assoc_get a (e_attrs e)) as [[ids|j| |]|]; auto.
  destruct (name_eqb n (name_of p j)); [discriminate|auto].
Qed.

Lemma find_chain_no_errV p e n attrs : find_chain p e n attrs <> ErrV.
Proof.
  induction attrs as [|a attrs IH]; simpl; [discriminate|].
  destruct (assoc_get a (e_attrs e)) as [[ids|?| |]|]; auto; try discriminate.
  destruct (find_in p n ids); [discriminate|auto].
Qed.

Lemma find_children_spec p e n :
  ent_ok e ->
  match find_children p e n with
  | Found i => In i (contents e) /\ name_eqb n (name_of p i) = true
  | NotFound => forall i, In i (contents e) -> name_eqb n (name_of p i) = false
  | ErrV => False
  | ErrT => False
  end.
Proof.
  intros [Hs Hc]. unfold find_children.
  destruct (find_chain p e n children_attrs) as [i| | |] eqn:F1.
  - apply find_chain_found in F1 as (a & ids & H1 & H2 & H3). split; auto.
    apply in_contents. exists a, (AList ids). auto.
  - destruct (find_singles p e n non_list_children) as [i| | |] eqn:F2.
    + apply find_singles_found in F2 as (a & H1 & H2). split; auto.
      apply in_contents. exists a, (ASingle i). split; auto. now left.
    + intros i Hi. apply in_contents in Hi as (a & v & Hav & Hiv).
      pose proof (nodup_keys_assoc _ _ _ (shapes_nodup e Hs) Hav) as A.
      unfold attrs_covered in Hc. rewrite forallb_forall in Hc. specialize (Hc _ Hav).
      cbn [fst snd] in Hc.
      destruct (str_in a children_attrs) eqn:C1.
      * pose proof (shapes_list e a v Hs Hav C1) as L.
        destruct v as [ids|?| |]; try discriminate L; [|destruct Hiv].
        pose proof (find_chain_notfound p e n _ F1 a ids (proj1 (str_in_In _ _) C1) A) as X.
        eapply find_in_none; eauto.
      * destruct (str_in a non_list_children) eqn:C2.
        -- unfold shapes_ok in Hs. apply andb_true_iff in Hs as [Hs _].
           rewrite forallb_forall in Hs. specialize (Hs _ Hav). cbn [fst snd] in Hs.
           rewrite C1, C2 in Hs.
           destruct v as [ids|j| |]; try discriminate Hs; [|destruct Hiv].
           destruct Hiv as [<-|[]].
           eapply find_singles_notfound; eauto. now apply str_in_In.
        -- cbn [orb] in Hc. destruct v as [[|? ?]|?| |]; try discriminate Hc; destruct Hiv.
    + exact (find_singles_no_errV _ _ _ _ F2).
    + exact (find_singles_no_errT _ _ _ _ F2).
  - exact (find_chain_no_errV _ _ _ _ F1).
  - refine (find_chain_no_errT p e n children_attrs Hs _ F1).
    intros a H. now apply str_in_In.
Qed.

Lemma filter_nil {A} (f : A -> bool) l : (forall x, In x l -> f x = false) -> filter f l = [].
Proof.
  induction l as [|x l IH]; simpl; intros H; auto.
  rewrite (H x) by auto. apply IH. auto.
Qed.

Lemma get_ent_in p i e : get_ent p i = Some e -> In e (p_ents p) /\ i < length (p_ents p).
Proof.
  unfold get_ent. intros H. split; [eapply nth_error_In; eauto|].
  apply nth_error_Some. congruence.
Qed.

Lemma has_url_lt p i : urls_ok p = true -> i < length (p_ents p) -> has_url p i = true.
Proof.
  intros U L. unfold has_url, get_ent.
  destruct (nth_error (p_ents p) i) as [e|] eqn:N.
  - unfold urls_ok in U. rewrite forallb_forall in U. apply U. eapply nth_error_In; eauto.
  - apply nth_error_None in N. lia.
Qed.

Lemma contents_lt p e i :
  ids_ok p = true -> In e (p_ents p) -> In i (contents e) -> i < length (p_ents p).
Proof.
  unfold ids_ok. intros H He Hi. apply andb_true_iff in H as [H _].
  rewrite forallb_forall in H. specialize (H _ He). rewrite forallb_forall in H.
  apply Nat.ltb_lt. auto.
Qed.

Lemma col_lt p c i : ids_ok p = true -> In i (col_ids p c) -> i < length (p_ents p).
Proof.
  unfold ids_ok, col_ids. intros H Hi. apply andb_true_iff in H as [_ H].
  destruct (assoc_get c (p_cols p)) as [l|] eqn:A; [|destruct Hi].
  apply assoc_get_In in A. rewrite forallb_forall in H. specialize (H _ A).
  cbn [snd] in H. rewrite forallb_forall in H. apply Nat.ltb_lt. auto.
Qed.

Lemma matching_in p n ids i :
  In i (matching p n ids) <-> In i ids /\ name_eqb n (name_of p i) = true /\ has_url p i = true.
Proof. unfold matching. rewrite filter_In, andb_true_iff. tauto. Qed.

Lemma contents_of_in e attrs i :
  In i (contents_of e attrs) ->
  exists a v, In a attrs /\ assoc_get a (e_attrs e) = Some v /\ In i (aval_ids v).
Proof.
  unfold contents_of. rewrite in_flat_map. intros (a & Ha & Hi).
  destruct (assoc_get a (e_attrs e)) as [v|] eqn:A; [|destruct Hi]. eauto.
Qed.

Lemma contents_of_sub e attrs i : In i (contents_of e attrs) -> In i (contents e).
Proof.
  intros H. apply contents_of_in in H as (a & v & _ & A & Hi).
  apply in_contents. exists a, v. split; auto. now apply assoc_get_In.
Qed.

(* the two kind words that mean the same in the item table and in the component table *)
Lemma same_kind_facts k :
  kind_same_in_scope (Some k) = true ->
  exists a, str_in a children_attrs = true /\
            assoc_get (lower k) sublink_types = Some a /\ comp_kind k = Some a /\
            scope_attrs k a = [a].
Proof.
  unfold kind_same_in_scope. intros H. apply orb_true_iff in H as [H|H];
    apply str_eqb_eq in H; unfold comp_kind, scope_attrs; rewrite H.
  - exists (s "types"). repeat split; reflexivity.
  - exists (s "absinterfaces"). repeat split; reflexivity.
Qed.

Lemma scope_level p c e n k :
  get_ent p c = Some e -> ent_ok e -> urls_ok p = true -> ids_ok p = true ->
  kind_same_in_scope k = true ->
  match find_child_quiet p c n k with
  | Found i => In i (scope_cands p c n k)
  | NotFound => scope_cands p c n k = []
  | _ => False
  end.
Proof.
  intros G Hok U I K. pose proof (get_ent_in _ _ _ G) as [Hin _].
  unfold find_child_quiet, find_child, scope_cands. rewrite G.
  destruct k as [k|].
  - destruct (same_kind_facts k K) as (a & Ca & S1 & S2 & S3). rewrite S1, S2, S3.
    destruct Hok as [Hs Hc].
    destruct (assoc_get a (e_attrs e)) as [v|] eqn:A.
    + pose proof (shapes_list e a v Hs (assoc_get_In _ _ _ A) Ca) as L.
      destruct v as [ids|?| |]; try discriminate L.
      * destruct (find_in p n ids) as [i|] eqn:F.
        -- apply find_in_some in F as [F1 F2]. apply matching_in.
           assert (Hi : In i (contents_of e [a])) by (unfold contents_of; simpl; rewrite A; simpl; rewrite app_nil_r; exact F1).
           split; auto. split; auto. apply has_url_lt; auto.
           eapply contents_lt; eauto. eapply contents_of_sub; eauto.
        -- apply filter_nil. intros i Hi. apply contents_of_in in Hi as (a' & v' & [<-|[]] & A' & Hi).
           rewrite A in A'. injection A' as <-. simpl in Hi.
           rewrite (find_in_none _ _ _ F i Hi). reflexivity.
      * apply filter_nil. intros i Hi. apply contents_of_in in Hi as (a' & v' & [<-|[]] & A' & Hi).
        rewrite A in A'. injection A' as <-. destruct Hi.
    + apply filter_nil. intros i Hi. apply contents_of_in in Hi as (a' & v' & [<-|[]] & A' & Hi).
      congruence.
  - pose proof (find_children_spec p e n Hok) as FS.
    destruct (find_children p e n) as [i| | |]; try contradiction.
    + destruct FS as [F1 F2]. apply matching_in. split; auto. split; auto.
      apply has_url_lt; auto. eapply contents_lt; eauto.
    + apply filter_nil. intros i Hi. now rewrite (FS i Hi).
Qed.

Lemma in_all_doc_collections c :
  In c all_doc_collections <-> In c (map snd link_types).
Proof.
  split; intros H.
  - assert (A : forallb (fun x => str_in x (map snd link_types)) all_doc_collections = true)
      by (vm_compute; reflexivity).
    rewrite forallb_forall in A. now apply str_in_In, A.
  - assert (A : forallb (fun x => str_in x all_doc_collections) (map snd link_types) = true)
      by (vm_compute; reflexivity).
    rewrite forallb_forall in A. now apply str_in_In, A.
Qed.

Lemma project_level p n k :
  urls_ok p = true -> ids_ok p = true -> kind_documented k = true ->
  match project_find p n k None None with
  | Found i => In i (project_cands p n k)
  | NotFound => project_cands p n k = []
  | _ => False
  end.
Proof.
  intros U I K. unfold project_find, project_cands.
  destruct k as [k|].
  - rewrite <- comp_kind_table. unfold kind_documented in K.
    destruct (comp_kind k) as [c|]; [|discriminate].
    destruct (find_in p n (col_ids p c)) as [i|] eqn:F.
    + apply find_in_some in F as [F1 F2]. apply matching_in. split; auto. split; auto.
      apply has_url_lt; auto. eapply col_lt; eauto.
    + apply filter_nil. intros i Hi. now rewrite (find_in_none _ _ _ F i Hi).
  - destruct (find_in p n (flat_map (fun kc => col_ids p (snd kc)) link_types)) as [i|] eqn:F.
    + apply find_in_some in F as [F1 F2]. apply in_flat_map in F1 as ([k c] & H1 & H2).
      cbn [snd] in H2. apply matching_in. split; [|split; auto].
      * apply in_flat_map. exists c. split; auto. apply in_all_doc_collections.
        apply (in_map snd) in H1. exact H1.
      * apply has_url_lt; auto. eapply col_lt; eauto.
    + apply filter_nil. intros i Hi. apply in_flat_map in Hi as (c & Hc & Hi).
      apply in_all_doc_collections, in_map_iff in Hc as ([k c'] & E & Hkc). cbn [snd] in E. subst c'.
      rewrite (find_in_none _ _ _ F i); auto.
      apply in_flat_map. exists (k, c). auto.
Qed.

Lemma finish_cand p i : has_url p i = true -> finish p (Found i) = RLink i.
Proof.
  unfold has_url, finish. destruct (get_ent p i) as [e|]; [|discriminate]. now intros ->.
Qed.

Lemma nat_in_In i l : In i l -> nat_in i l = true.
Proof.
  intros H. unfold nat_in. apply existsb_exists. exists i. split; auto. apply Nat.eqb_refl.
Qed.

Definition ctx_ok (p : proj) (ctx : option nat) : Prop :=
  match ctx with
  | None => True
  | Some c =>
    exists e, get_ent p c = Some e /\ ent_ok e /\
              match e_parent e with
              | Some par => exists e', get_ent p par = Some e' /\ ent_ok e'
              | None => True
              end
  end.

(* the shape of an accepted answer for a reference without item part *)
Definition accepted_simple (cs : list nat) (res : result) : bool :=
  match cs, res with
  | [], RPlain => true
  | _ :: _, RLink i => nat_in i cs
  | _, _ => false
  end.

Lemma spec_accepts_simple p ctx r res :
  r_child r = None -> r_ckind r = None -> kind_documented (r_kind r) = true ->
  spec_accepts p ctx r res = accepted_simple (comp_cands p ctx r) res.
Proof.
  intros Hc Hck K. unfold spec_accepts. rewrite K, Hck, Hc. reflexivity.
Qed.

Lemma cands_link l i : In i l -> accepted_simple l (RLink i) = true.
Proof. intros H. destruct l; [destruct H|]. unfold accepted_simple. now apply nat_in_In. Qed.

Lemma scope_cands_url p c n k i : In i (scope_cands p c n k) -> has_url p i = true.
Proof.
  unfold scope_cands. destruct (get_ent p c); [|intros []].
  destruct k as [k|]; [destruct (comp_kind k); [|intros []]|]; intros H; now apply matching_in in H.
Qed.
Lemma project_cands_url p n k i : In i (project_cands p n k) -> has_url p i = true.
Proof.
  unfold project_cands.
  destruct k as [k|]; [destruct (comp_kind k); [|intros []]|]; intros H; now apply matching_in in H.
Qed.

(* C11_lookup_order: outside the region of the known finding, a reference without item part is
   rendered as the Spec demands: a link into the first of the three levels (contents of the
   context, of its parent, the whole project) that has a match, plain text if none has *)
Theorem lookup_order p ctx r :
  r_child r = None -> r_ckind r = None -> kind_documented (r_kind r) = true ->
  region_kind_scope ctx r = false ->
  ctx_ok p ctx -> urls_ok p = true -> ids_ok p = true ->
  spec_accepts p ctx r (convert_link p ctx r) = true.
Proof.
  intros Hc Hck K R Hctx U I.
  rewrite spec_accepts_simple by auto.
  unfold comp_cands, convert_link, ctx_step, project_step. rewrite Hc.
  pose proof (project_level p (r_name r) (r_kind r) U I K) as PL.
  assert (Proj : forall pre, (forall l, In l pre -> l = []) ->
            accepted_simple (first_nonempty (pre ++ [project_cands p (r_name r) (r_kind r)]))
              match project_find p (r_name r) (r_kind r) None None with
              | Found i => finish p (Found i)
              | NotFound => RPlain
              | _ => RErr
              end = true).
  { intros pre Hpre.
    assert (E : first_nonempty (pre ++ [project_cands p (r_name r) (r_kind r)])
                = project_cands p (r_name r) (r_kind r)).
    { induction pre as [|l pre IH]; simpl.
      - destruct (project_cands p (r_name r) (r_kind r)); reflexivity.
      - rewrite (Hpre l (or_introl eq_refl)). apply IH. intros; apply Hpre; now right. }
    rewrite E.
    destruct (project_find p (r_name r) (r_kind r) None None) as [i| | |]; try contradiction.
    - rewrite (finish_cand p i (project_cands_url _ _ _ _ PL)). now apply cands_link.
    - now rewrite PL. }
  destruct ctx as [c|].
  - unfold region_kind_scope in R. apply negb_false_iff in R.
    destruct Hctx as (e & G & Hok & Hpar).
    unfold levels, scope_find. rewrite G.
    pose proof (scope_level p c e (r_name r) (r_kind r) G Hok U I R) as L1.
    destruct (find_child_quiet p c (r_name r) (r_kind r)) as [i| | |]; try contradiction.
    + rewrite (finish_cand p i (scope_cands_url _ _ _ _ _ L1)).
      cbn [first_nonempty app].
      destruct (scope_cands p c (r_name r) (r_kind r)) eqn:S; [destruct L1|].
      unfold accepted_simple. now apply nat_in_In.
    + destruct (e_parent e) as [par|].
      * destruct Hpar as (e' & G' & Hok').
        pose proof (scope_level p par e' (r_name r) (r_kind r) G' Hok' U I R) as L2.
        destruct (find_child_quiet p par (r_name r) (r_kind r)) as [i| | |]; try contradiction.
        -- rewrite (finish_cand p i (scope_cands_url _ _ _ _ _ L2)).
           cbn [first_nonempty app]. rewrite L1.
           destruct (scope_cands p par (r_name r) (r_kind r)) eqn:S; [destruct L2|].
           unfold accepted_simple. now apply nat_in_In.
        -- apply (Proj [scope_cands p c (r_name r) (r_kind r); scope_cands p par (r_name r) (r_kind r)]).
           intros l [<-|[<-|[]]]; auto.
      * apply (Proj [scope_cands p c (r_name r) (r_kind r)]). intros l [<-|[]]; auto.
  - apply (Proj []). intros l [].
Qed.

(* refutations: the regions of the known findings *)
Definition w_proj : proj :=
  {| p_ents :=
       [ {| e_name := s "m"; e_attrs := [(s "subroutines", AList [1]); (s "functions", AList [])];
            e_parent := None; e_has_url := true |};
         {| e_name := s "reset"; e_attrs := [(s "args", AList [])]; e_parent := Some 0;
            e_has_url := true |};
         {| e_name := s "reset"; e_attrs := [(s "args", AList [])]; e_parent := None;
            e_has_url := true |} ];
     p_cols := [(s "modules", [0]); (s "procedures", [2; 1])] |}.
Definition w_ref : ref :=
  {| r_name := s "reset"; r_kind := Some (s "proc"); r_child := None; r_ckind := None |}.

(* [[reset(proc)]] in the documentation of m's own subroutine reset leads to the other reset *)
Lemma lookup_order_refuted :
  exists p ctx r, r_child r = None /\ r_ckind r = None /\ kind_documented (r_kind r) = true /\
    ctx_ok p ctx /\ urls_ok p = true /\ ids_ok p = true /\
    region_kind_scope ctx r = true /\
    convert_link p ctx r = RLink 2 /\ comp_cands p ctx r = [1] /\
    spec_accepts p ctx r (convert_link p ctx r) = false /\
    convert_link p ctx {| r_name := s "reset"; r_kind := None; r_child := None; r_ckind := None |}
    = RLink 1.
Proof.
  exists w_proj, (Some 1), w_ref. repeat split; try reflexivity.
  exists (nth 1 (p_ents w_proj) (nth 0 (p_ents w_proj) {| e_name := []; e_attrs := []; e_parent := None; e_has_url := true |})).
  split; [reflexivity|]. split; [split; reflexivity|].
  simpl. eexists. split; [reflexivity|]. split; reflexivity.
Qed.

(* [[m:reset(bound)]]: a documented item kind that a module cannot have: the guide promises a
   warning and no link, the code raises *)
Definition w_ref2 : ref :=
  {| r_name := s "m"; r_kind := None; r_child := Some (s "reset"); r_ckind := Some (s "bound") |}.
Lemma child_kind_refuted :
  exists p ctx r, kind_documented (r_kind r) = true /\ ckind_documented (r_ckind r) = true /\
    convert_link p ctx r = RErr /\ spec_accepts p ctx r RErr = false /\
    spec_accepts p ctx r RPlain = true.
Proof. exists w_proj, None, w_ref2. repeat split; reflexivity. Qed.

(* non-vacuity *)
Definition w_ref0 : ref := {| r_name := s "Reset"; r_kind := None; r_child := None; r_ckind := None |}.
Example ex_lookup_hyps :
  r_child w_ref0 = None /\ r_ckind w_ref0 = None /\ kind_documented (r_kind w_ref0) = true /\
  region_kind_scope (Some 1) w_ref0 = false /\ ctx_ok w_proj (Some 1) /\
  urls_ok w_proj = true /\ ids_ok w_proj = true /\
  convert_link w_proj (Some 1) w_ref0 = RLink 1 /\ convert_link w_proj None w_ref0 = RLink 2.
Proof.
  repeat split; try reflexivity.
  eexists. split; [reflexivity|]. split; [split; reflexivity|].
  simpl. eexists. split; [reflexivity|]. split; reflexivity.
Qed.

Example ex_absent_hyps :
  (forall j, name_eqb (s "nosuch") (name_of w_proj j) = false) /\
  ctx_shapes w_proj (Some 1) /\ kind_known (Some (s "Module")) /\
  ref_equiv w_ref0 {| r_name := s "RESET"; r_kind := None; r_child := None; r_ckind := None |}.
Proof.
  split; [|split; [|split]].
  - intros [|[|[|[|j]]]]; reflexivity.
  - split; [reflexivity|]. simpl. reflexivity.
  - eexists. reflexivity.
  - repeat split; reflexivity.
Qed.
