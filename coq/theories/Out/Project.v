(* Out/Project.v — model of the order-dependent part of a FORD run (property C12).

   Python sets whose iteration order reaches the output are modelled as "a list plus an
   arbitrary permutation" ([enumerate l pi]); the permutation is universally quantified in the
   theorems and measured (forced) in the correspondence check.

   Mirrors, as they are (after the repairs 80d6c91, c3c7c8e, the toposort repair and the
   "Uses" repair):
     ford/fortran_project.py  find_all_files (returns a set of paths), Project.__init__ (iterates
                              sorted(that set): every project-level list is in the sorted order
                              of the absolute paths), Project.correlate (the loop that asks for
                              the identifiers of modules and submodules in list order, then
                              toposort_flatten over sets of module objects, the ranklist / prune
                              loops), Project.markdown
     ford/sourceform.py       FortranBase.ident -> NameSelector.get_name (Out/Names.v): first
                              come, first served numbering "name", "name~2", ...;
                              FortranCodeUnit.correlate: self.uses = set(objects hashed by id)
     ford/output.py           sort_by_name (the "Uses" list is rendered through it),
                              Documentation.__init__ (page objects list by list; the search
                              index renders every page), Documentation.writeout (remove the
                              output directory, then write)
     ford/graphs.py           add_to_graph: "for n in sorted(nodes)"; InheritedByGraph.add_node:
                              "for c in sorted(node.children)"

   A run is a sequence of phases.
   [PFile k]  a loop over something that is in file enumeration order; what one file contributes
              (its k-th segment: the get_name requests issued on behalf of that file's entities,
              in order) does not depend on the other files.
   [PIdSet k] a loop whose order comes from a set of objects hashed by id(): its requests come in
              an arbitrary order (sigma).  In the repaired code such a loop only ever asks for
              entities whose identifier an earlier loop (by-file or fixed) has already requested:
              the model draws its requests from those (a selection of entity ids), so this holds
              by construction; every traced run is checked for it, and a first request inside
              such a loop is reported as a violation.
   [PFixed k] a loop whose order is computed from data that is already fixed (the rank order:
              toposort levels sorted by the — by now assigned — identifiers; the loop of
              graph_all that collects bound and internal procedures; list pages sorted by name):
              a sequence of requests that is part of the project.

   The pipelines before the repairs ([BySet]: a set-ordered loop that may ask for anything) are
   kept at the end only to state what the repairs repaired.

   Executable definitions only; proofs are in Out/ProjectProofs.v. *)
From Coq Require Import Permutation.
From Ford Require Import Base.Str Base.Order Out.Names.

(* ------------------------------------------------------------------ set iteration *)

(* the elements of [l] in the order [pi] (a list of positions) *)
Definition enumerate {A} (l : list A) (pi : list nat) : list A :=
  flat_map (fun i => match nth_error l i with Some x => [x] | None => [] end) pi.

Definition is_perm (pi : list nat) (n : nat) : Prop := Permutation pi (seq 0 n).

Definition is_permb (pi : list nat) (n : nat) : bool :=
  (length pi =? n) && forallb (fun i => existsb (Nat.eqb i) pi) (seq 0 n).

(* ------------------------------------------------------------------ the project *)

Record pfile := {
  f_path : list str;               (* path components: the sort key of Project.__init__ *)
  f_segs : list (list req)         (* k-th segment: requests of this file in the PFile k phase *)
}.

Record project := {
  p_files : list pfile;
  p_sets : list (list req);        (* k-th sequence: requests of the PFixed k phase, in order *)
  p_idsel : list (list nat)        (* k-th selection: entity ids the PIdSet k phase asks for *)
}.

Definition seg (k : nat) (f : pfile) : list req := nth k (f_segs f) [].

Inductive phase := PFile (k : nat) | PIdSet (k : nat) | PFixed (k : nat).

Definition phase_reqs (enum : list pfile) (fixed idt : list (list req)) (ph : phase) : list req :=
  match ph with
  | PFile k => flat_map (seg k) enum
  | PIdSet k => nth k idt []
  | PFixed k => nth k fixed []
  end.

(* the twelve project-level lists Documentation.__init__ walks, in its order:
   types, absinterfaces, procedures (top-level part, contained part), submodprocedures, modules,
   submodules, programs, blockdata, namelists, allfiles (files, extra files) *)
Definition n_page_lists : nat := 12.

Definition pipeline : list phase :=
  [ PFile 0                        (* Project.__init__: for filename in sorted(find_all_files(...)) *)
  ; PFile 45; PFile 46             (* correlate: for module in chain(self.modules, self.submodules): module.ident *)
  ; PIdSet 0                       (* correlate: toposort_flatten(deplist): sorted(set of modules) *)
  ; PFixed 1                       (* ranklist loop, module/submodule part: container.correlate; it asks for the
                                      identifiers of the scope's types (and their parents) in list order *)
  ; PFile 1; PFile 2; PFile 3      (* ranklist loop: top-level procedures, programs, block data *)
  ; PIdSet 2                       (* the toposort_flatten(typelist) of every container.correlate above:
                                      sorted(set of types); interleaved with those loops in the code *)
  ; PFixed 2                       (* prune loop, module/submodule part *)
  ; PFile 4; PFile 5; PFile 6      (* prune loop: top-level procedures, programs, block data *)
  ; PFixed 3                       (* rest of correlate and of main before markdown *)
  ; PFile 7; PFile 8 ]             (* Project.markdown: project.files, project.extra_files *)
  ++ map PFile (seq 9 n_page_lists)     (* Documentation.__init__: page objects (outfile -> ident) *)
  ++ [ PFixed 4                    (* graph_all: bound / internal procedures collected over sorted(graph_objs) *)
     ; PIdSet 1                    (* graphs: register, sorted(set of procedures), nodes created while sets are
                                      walked; interleaved with the loop above in the code *)
     ; PFixed 5 ]                  (* search index: the index page *)
  ++ map PFile (seq 21 n_page_lists)    (* search index: page.html of every entity page *)
  ++ [ PFixed 6 ]                  (* search index: static pages; writeout: graph files *)
  ++ map PFile (seq 33 n_page_lists)    (* writeout: page.html of every entity page *)
  ++ [ PFixed 7 ].                 (* writeout: list pages, static pages, index, search page *)

Definition registration_of (pl : list phase) (enum : list pfile) (fixed idt : list (list req))
  : list req :=
  flat_map (phase_reqs enum fixed idt) pl.

Definition registration := registration_of pipeline.

Definition final_state (enum : list pfile) (fixed idt : list (list req)) : nstate :=
  fst (run init (registration enum fixed idt)).

(* the identifier an entity ends up with (None: never requested) *)
Definition ident_in (st : nstate) (id : nat) : option str :=
  option_map ident_of (find_item id (items st)).

(* what the by-file and fixed phases before the (first) PIdSet k phase have requested *)
Fixpoint seen_before (pl : list phase) (enum : list pfile) (fixed : list (list req)) (k : nat)
                     (acc : list req) : list req :=
  match pl with
  | [] => acc
  | PFile j :: pl' => seen_before pl' enum fixed k (acc ++ flat_map (seg j) enum)
  | PIdSet j :: pl' => if Nat.eqb j k then acc else seen_before pl' enum fixed k acc
  | PFixed j :: pl' => seen_before pl' enum fixed k (acc ++ nth j fixed [])
  end.

Definition memb (x : nat) (l : list nat) : bool := existsb (Nat.eqb x) l.

(* the requests of the id-set phases, in some canonical order: the selected entities among what
   has been requested before *)
Definition idsel_of (pl : list phase) (enum : list pfile) (fixed : list (list req))
                    (sel : list (list nat)) : list (list req) :=
  map (fun k => filter (fun r => memb (r_id r) (nth k sel [])) (seen_before pl enum fixed k []))
      (seq 0 (length sel)).

(* lists under the permutations [sigma] *)
Definition enum_sets (sets : list (list req)) (sigma : list (list nat)) : list (list req) :=
  map (fun lp => enumerate (fst lp) (snd lp)) (combine sets sigma).

Definition perms_ok (sets : list (list req)) (sigma : list (list nat)) : Prop :=
  Forall2 (fun l pi => is_perm pi (length l)) sets sigma.

(* every request of the project, and its entities in an order that does not depend on any
   enumeration order (the id-set phases only repeat requests of the files) *)
Definition file_reqs (f : pfile) : list req := concat (f_segs f).
Definition all_reqs (P : project) : list req := flat_map file_reqs (p_files P) ++ concat (p_sets P).
Definition ent_ids (P : project) : list nat := nodup Nat.eq_dec (map r_id (all_reqs P)).

(* "for filename in sorted(find_all_files(settings))": pathlib paths compare as the lists of their
   components *)
Definition file_leb (a b : pfile) : bool := path_leb (f_path a) (f_path b).

Definition idents_enum (P : project) (enum : list pfile) (fixed idt : list (list req))
  : list (nat * option str) :=
  let st := final_state enum fixed idt in map (fun id => (id, ident_in st id)) (ent_ids P).

Definition sorted_enum (P : project) (pi : list nat) : list pfile :=
  isort file_leb (enumerate (p_files P) pi).

Definition idsel (P : project) (pi : list nat) : list (list req) :=
  idsel_of pipeline (sorted_enum P pi) (p_sets P) (p_idsel P).

(* THE function of (files, pi, sigma): the identifier of every entity.  pi is the iteration order
   of the set find_all_files returns (Project.__init__ sorts it before parsing), sigma the
   iteration orders of the sets of objects hashed by id. *)
Definition idents (P : project) (pi : list nat) (sigma : list (list nat)) : list (nat * option str) :=
  idents_enum P (sorted_enum P pi) (p_sets P) (enum_sets (idsel P pi) sigma).

Definition name_key (r : req) : str * str := (r_dir r, final_name (r_name r)).
Definition has_key (K : str * str) (r : req) : bool := key_eqb (name_key r) K.

Definition sigma_ok (P : project) (pi : list nat) (sigma : list (list nat)) : Prop :=
  perms_ok (idsel P pi) sigma.

(* the same project somewhere else: every path gains the prefix [root] *)
Definition relocate_file (root : list str) (f : pfile) : pfile :=
  {| f_path := root ++ f_path f; f_segs := f_segs f |}.
Definition relocate (root : list str) (P : project) : project :=
  {| p_files := map (relocate_file root) (p_files P); p_sets := p_sets P; p_idsel := p_idsel P |}.

(* ------------------------------------------------------------------ clashes *)

Definition req_eqb (a b : req) : bool :=
  Nat.eqb (r_id a) (r_id b) && str_eqb (r_dir a) (r_dir b) && str_eqb (r_name a) (r_name b).

(* two requests are compatible: same entity -> same request; different entities -> they do not
   compete for one counter of the NameSelector *)
Definition pair_ok (a b : req) : bool :=
  if Nat.eqb (r_id a) (r_id b) then req_eqb a b else negb (key_eqb (name_key a) (name_key b)).

Definition no_clash_list (rs : list req) : bool := forallb (fun a => forallb (pair_ok a) rs) rs.

(* ------------------------------------------------------------------ other sets that reach the output *)

(* FortranCodeUnit.correlate: self.uses = set([m[0] for m in self.uses]); the page template walks
   "obj.uses | sort_by_name": sorted(entities, key = (name.lower(), name)) *)
Definition use_leb (a b : str) : bool := path_leb [lower a; a] [lower b; b].

Definition shown_uses (uses : list str) (pi : list nat) : list str :=
  isort use_leb (enumerate uses pi).

(* before the "Uses" repair: in set order *)
Definition shown_uses_unsorted (uses : list str) (pi : list nat) : list str := enumerate uses pi.

(* FortranGraph.add_to_graph / __init__: "for n in sorted(nodes): self.dot.node(n.ident, ...)";
   BaseNode.__lt__ compares identifiers, BaseNode.__eq__/__hash__ make a set hold one node per
   identifier *)
Definition emit_nodes (node_idents : list str) (pi : list nat) : list str :=
  isort str_leb (enumerate node_idents pi).

(* InheritedByGraph.add_node: "for c in sorted(node.children): hop_edges.append(_solid_edge(c, node))";
   children is a set of nodes hashed by hash(ident) *)
Definition emit_child_edges (parent : str) (children : list str) (pi : list nat) : list (str * str) :=
  map (fun c => (c, parent)) (isort str_leb (enumerate children pi)).

(* before c3c7c8e: in set order *)
Definition emit_child_edges_unsorted (parent : str) (children : list str) (pi : list nat)
  : list (str * str) :=
  map (fun c => (c, parent)) (enumerate children pi).

(* FortranGraph._make_graph_as_table (the HTML table shown instead of a graph whose first hop
   exceeds graph_maxnodes): the edges of the hop were appended neighbour by neighbour, the
   neighbours walked in sorted (identifier) order by add_node; the rows are
   "self.hop_edges.sort(key=label.lower())", a stable sort.  A neighbour is (identifier, label). *)
Definition ident_leb (a b : str * str) : bool := str_leb (fst a) (fst b).
Definition label_leb (a b : str * str) : bool := str_leb (lower (snd a)) (lower (snd b)).

Definition emit_table_rows (neighbours : list (str * str)) (pi : list nat) : list (str * str) :=
  isort label_leb (isort ident_leb (enumerate neighbours pi)).

(* what the code does NOT do: sort the set of neighbours by label directly (equal labels would
   come out in set order) *)
Definition emit_table_rows_from_set (neighbours : list (str * str)) (pi : list nat) : list (str * str) :=
  isort label_leb (enumerate neighbours pi).

(* ------------------------------------------------------------------ before the repairs *)

(* a set-ordered loop that may ask for anything, in any order: the toposort before the repair
   (and, in the same model, every loop whose order was not examined) *)
Inductive phase0 := ByFile (k : nat) | BySet (k : nat).

Definition phase0_reqs (enum : list pfile) (sets : list (list req)) (ph : phase0) : list req :=
  match ph with
  | ByFile k => flat_map (seg k) enum
  | BySet k => nth k sets []
  end.

Definition pipeline0 : list phase0 :=
  [ ByFile 0; BySet 0; BySet 1; ByFile 1; ByFile 2; ByFile 3; BySet 2; ByFile 4; ByFile 5; ByFile 6
  ; BySet 3; ByFile 7; ByFile 8 ]
  ++ map ByFile (seq 9 n_page_lists) ++ [ BySet 4; BySet 5 ]
  ++ map ByFile (seq 21 n_page_lists) ++ [ BySet 6 ]
  ++ map ByFile (seq 33 n_page_lists) ++ [ BySet 7 ].

Definition registration0_of (pl : list phase0) (enum : list pfile) (sets : list (list req)) : list req :=
  flat_map (phase0_reqs enum sets) pl.

Definition idents0_enum (P : project) (enum : list pfile) (sets : list (list req))
  : list (nat * option str) :=
  let st := fst (run init (registration0_of pipeline0 enum sets)) in
  map (fun id => (id, ident_in st id)) (ent_ids P).

(* before the toposort repair (files already sorted): p_sets are free sets, permuted by sigma *)
Definition idents_free_sets (P : project) (pi : list nat) (sigma : list (list nat))
  : list (nat * option str) :=
  idents0_enum P (sorted_enum P pi) (enum_sets (p_sets P) sigma).

(* before 80d6c91: the set of files was iterated as it came *)
Definition idents_unsorted (P : project) (pi : list nat) (sigma : list (list nat))
  : list (nat * option str) :=
  idents0_enum P (enumerate (p_files P) pi) (enum_sets (p_sets P) sigma).

(* ------------------------------------------------------------------ writeout *)

Definition path := list str.

Fixpoint prefixb (a b : path) : bool :=
  match a, b with
  | [], _ => true
  | x :: a', y :: b' => str_eqb x y && prefixb a' b'
  | _ :: _, [] => false
  end.

(* a file system is a finite map path -> content, as an association list (first binding wins) *)
Definition fsmap := list (path * str).

Fixpoint fs_get (p : path) (f : fsmap) : option str :=
  match f with
  | [] => None
  | (k, v) :: f' => if list_eqb str_eqb p k then Some v else fs_get p f'
  end.

(* shutil.rmtree(out_dir) *)
Definition remove_subtree (out : path) (f : fsmap) : fsmap :=
  filter (fun kv => negb (prefixb out (fst kv))) f.

(* the writes, in order; a later write to the same path wins *)
Definition write_all (out : path) (pages : list (path * str)) (f : fsmap) : fsmap :=
  fold_left (fun g kv => (out ++ fst kv, snd kv) :: g) pages f.

(* Documentation.writeout: remove the output directory, then write every page / asset *)
Definition writeout (out : path) (pages : list (path * str)) (f : fsmap) : fsmap :=
  write_all out pages (remove_subtree out f).

(* the variant that merges into an existing directory (what the code does NOT do) *)
Definition writeout_merge (out : path) (pages : list (path * str)) (f : fsmap) : fsmap :=
  write_all out pages f.

(* the part of a file system below [out] *)
Definition restrict (out : path) (f : fsmap) : fsmap := filter (fun kv => prefixb out (fst kv)) f.

(* ------------------------------------------------------------------ the source set of a run *)

(* find_all_files: the files below the source directory that are not below an excluded directory.
   ProjectSettings.__post_init__ puts the output directory of the project file among the excluded
   directories, parse_arguments the one that is finally used. *)
Definition sources (src : path) (excl : list path) (f : fsmap) : fsmap :=
  filter (fun kv => prefixb src (fst kv) && negb (existsb (fun e => prefixb e (fst kv)) excl)) f.

(* a whole run as a function of the file system it starts from: the pages are computed ([render], any
   function) from the source files found, then written *)
Definition rerun (render : fsmap -> list (path * str)) (src : path) (excl : list path) (out : path)
                 (f : fsmap) : fsmap :=
  writeout out (render (sources src excl f)) f.
