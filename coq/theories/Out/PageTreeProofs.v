(* Out/PageTreeProofs.v — proofs about Out/PageTree.v (property C17). *)
From Ford Require Import Base.Str Base.StrFacts Out.PageTree.
From Coq Require Import Lia Sorted Permutation.

Local Arguments Nat.div : simpl never.
Local Notation sort := PageTree.sort (only parsing).

(* ------------------------------------------------------------------------------------------ *)
(* induction over directory trees / node trees (nested lists) *)
Fixpoint entry_ind' (P : entry -> Prop)
  (HF : forall n t o c, P (File n t o c))
  (HD : forall n es, Forall P es -> P (Dir n es)) (e : entry) : P e :=
  match e with
  | File n t o c => HF n t o c
  | Dir n es =>
    HD n es ((fix go (l : list entry) : Forall P l :=
                match l with
                | [] => Forall_nil P
                | x :: l' => Forall_cons x (entry_ind' P HF HD x) (go l')
                end) es)
  end.

Fixpoint node_ind' (P : node -> Prop)
  (HN : forall a b c d e f subs, Forall P subs -> P (Node a b c d e f subs)) (n : node) : P n :=
  match n with
  | Node a b c d e f subs =>
    HN a b c d e f subs ((fix go (l : list node) : Forall P l :=
                            match l with
                            | [] => Forall_nil P
                            | x :: l' => Forall_cons x (node_ind' P HN x) (go l')
                            end) subs)
  end.

(* ------------------------------------------------------------------------------------------ *)
(* the string order and sorting *)
Lemma str_leb_refl a : str_leb a a = true.
Proof. induction a as [|c a IH]; simpl; auto. rewrite Nat.ltb_irrefl. exact IH. Qed.

Lemma str_leb_total a b : str_leb a b = false -> str_leb b a = true.
Proof.
  revert b; induction a as [|x a IH]; intros [|y b] H; simpl in *; try discriminate; auto.
  destruct (code x <? code y) eqn:E1; [discriminate|].
  destruct (code y <? code x) eqn:E2; auto.
Qed.

Lemma str_leb_trans a b c : str_leb a b = true -> str_leb b c = true -> str_leb a c = true.
Proof.
  revert b c; induction a as [|x a IH]; intros [|y b] [|z c] H1 H2; simpl in *;
    try discriminate; auto.
  destruct (code x <? code y) eqn:E1, (code y <? code z) eqn:E2;
    destruct (code y <? code x) eqn:E3; destruct (code z <? code y) eqn:E4;
    try discriminate;
    repeat match goal with
           | H : (_ <? _) = true |- _ => apply Nat.ltb_lt in H
           | H : (_ <? _) = false |- _ => apply Nat.ltb_ge in H
           end; try lia.
  - assert (code x <? code z = true) as -> by (apply Nat.ltb_lt; lia). reflexivity.
  - assert (code x <? code z = true) as -> by (apply Nat.ltb_lt; lia). reflexivity.
  - assert (code x <? code z = true) as -> by (apply Nat.ltb_lt; lia). reflexivity.
  - assert (code x = code z) as Exz by lia. rewrite Exz, Nat.ltb_irrefl. eapply IH; eauto.
Qed.

Definition str_le (a b : str) : Prop := str_leb a b = true.

Lemma insert_perm x l : Permutation (insert x l) (x :: l).
Proof.
  induction l as [|y l IH]; simpl; auto.
  destruct (str_leb x y); auto.
  rewrite IH. apply perm_swap.
Qed.

Lemma sort_perm l : Permutation (sort l) l.
Proof.
  induction l as [|x l IH]; simpl; auto.
  rewrite insert_perm. auto.
Qed.

Lemma insert_sorted x l : StronglySorted str_le l -> StronglySorted str_le (insert x l).
Proof.
  induction 1 as [|y l Hs IH Hall]; simpl.
  - constructor; constructor.
  - destruct (str_leb x y) eqn:E.
    + constructor; [constructor; auto|].
      constructor; auto.
      eapply Forall_impl; [|exact Hall]. intros z Hz. eapply str_leb_trans; eauto.
    + constructor; auto.
      apply str_leb_total in E.
      eapply Permutation_Forall; [symmetry; apply insert_perm|].
      constructor; auto.
Qed.

Lemma sort_strongly_sorted l : StronglySorted str_le (sort l).
Proof.
  induction l as [|x l IH]; simpl; [constructor|]. now apply insert_sorted.
Qed.

Lemma sort_sorted l : Sorted str_le (sort l).
Proof. apply StronglySorted_Sorted, sort_strongly_sorted. Qed.

Lemma sort_in x l : In x (sort l) <-> In x l.
Proof.
  split; intros H.
  - eapply Permutation_in; [apply sort_perm|exact H].
  - eapply Permutation_in; [symmetry; apply sort_perm|exact H].
Qed.

Lemma sort_nodup l : NoDup l -> NoDup (sort l).
Proof. intros H. eapply Permutation_NoDup; [symmetry; apply sort_perm|exact H]. Qed.

(* filtering commutes with sorting *)
Lemma filter_insert p x l :
  StronglySorted str_le l ->
  filter p (insert x l) = if p x then insert x (filter p l) else filter p l.
Proof.
  induction 1 as [|y l Hs IH Hall]; simpl.
  - destruct (p x); reflexivity.
  - destruct (str_leb x y) eqn:E; simpl.
    + destruct (p x) eqn:Px; [|reflexivity].
      destruct (p y) eqn:Py; simpl; [now rewrite E|].
      (* x goes in front of whatever survives of l *)
      clear IH. induction l as [|z l IHl]; simpl; auto.
      inversion Hall as [|? ? Hz Hall']; subst. inversion Hs; subst.
      destruct (p z); simpl.
      * assert (str_leb x z = true) as -> by (eapply str_leb_trans; eauto). reflexivity.
      * apply IHl; auto.
    + rewrite IH. destruct (p y) eqn:Py; simpl; destruct (p x); try reflexivity.
      now rewrite E.
Qed.

Lemma filter_sorted p l : StronglySorted str_le l -> StronglySorted str_le (filter p l).
Proof.
  induction 1 as [|y l Hs IH Hall]; simpl; [constructor|].
  destruct (p y); auto. constructor; auto.
  apply Forall_forall. intros z Hz. apply filter_In in Hz as [Hz _].
  eapply Forall_forall in Hall; eauto.
Qed.

Lemma filter_sort p l : filter p (sort l) = sort (filter p l).
Proof.
  induction l as [|x l IH]; simpl; auto.
  rewrite filter_insert by apply sort_strongly_sorted.
  destruct (p x); simpl; now rewrite IH.
Qed.

(* ------------------------------------------------------------------------------------------ *)
(* lists of names *)
Lemma str_eqb_sym a b : str_eqb a b = str_eqb b a.
Proof.
  destruct (str_eqb a b) eqn:E.
  - apply str_eqb_eq in E. subst. symmetry. apply str_eqb_refl.
  - apply str_eqb_neq in E. symmetry. apply str_eqb_neq. congruence.
Qed.

Lemma str_in_iff x l : str_in x l = true <-> In x l.
Proof.
  induction l as [|y l IH]; simpl; [split; [discriminate|tauto]|].
  rewrite orb_true_iff, IH, str_eqb_eq. split; intros [H|H]; auto.
Qed.

Lemma str_in_false x l : str_in x l = false <-> ~ In x l.
Proof.
  rewrite <- str_in_iff. destruct (str_in x l); split; intros; try discriminate; auto.
  exfalso; auto.
Qed.

Lemma filter_filter {A} (p q : A -> bool) l :
  filter p (filter q l) = filter (fun y => q y && p y) l.
Proof.
  induction l as [|x l IH]; simpl; auto.
  destruct (q x); simpl; [destruct (p x)|]; now rewrite IH.
Qed.

Lemma filter_all {A} (p : A -> bool) l : (forall x, In x l -> p x = true) -> filter p l = l.
Proof.
  induction l as [|x l IH]; simpl; intros H; auto.
  rewrite (H x) by auto. f_equal. apply IH. auto.
Qed.

Lemma filter_nodup {A} (p : A -> bool) l : NoDup l -> NoDup (filter p l).
Proof.
  induction 1 as [|x l Hx Hn IH]; simpl; [constructor|].
  destruct (p x); auto. constructor; auto. intros H. apply filter_In in H. tauto.
Qed.

Lemma dedup_in y l : In y (dedup l) <-> In y l.
Proof.
  induction l as [|x l IH]; simpl; [tauto|].
  rewrite filter_In, IH. split.
  - intros [H|[H _]]; auto.
  - intros [H|H]; auto. destruct (str_eqb x y) eqn:E.
    + apply str_eqb_eq in E. auto.
    + right. auto.
Qed.

Lemma dedup_nodup l : NoDup (dedup l).
Proof.
  induction l as [|x l IH]; simpl; constructor.
  - intros H. apply filter_In in H as [_ H]. now rewrite str_eqb_refl in H.
  - now apply filter_nodup.
Qed.

Lemma dedup_id l : NoDup l -> dedup l = l.
Proof.
  induction 1 as [|x l Hx Hn IH]; simpl; auto.
  rewrite IH. f_equal. apply filter_all. intros y Hy.
  apply negb_true_iff, str_eqb_neq. congruence.
Qed.

Lemma dedup_filter p l : dedup (filter p l) = filter p (dedup l).
Proof.
  induction l as [|x l IH]; simpl; auto.
  destruct (p x) eqn:Px; simpl.
  - f_equal. rewrite IH, !filter_filter. apply filter_ext. intros y. apply andb_comm.
  - rewrite IH, filter_filter.
    apply filter_ext_in. intros y Hy.
    destruct (str_eqb x y) eqn:E; simpl; auto.
    apply str_eqb_eq in E. subst y. now rewrite Px.
Qed.

Lemma dedup_app a b :
  dedup (a ++ b) = dedup a ++ filter (fun y => negb (str_in y a)) (dedup b).
Proof.
  induction a as [|x a IH]; simpl.
  - symmetry. apply filter_all. auto.
  - f_equal. rewrite IH, filter_app. f_equal.
    rewrite filter_filter. apply filter_ext. intros y.
    rewrite (str_eqb_sym y x). destruct (str_eqb x y), (str_in y a); reflexivity.
Qed.

Lemma remove_first_filter x l :
  NoDup l -> remove_first x l = filter (fun y => negb (str_eqb x y)) l.
Proof.
  induction 1 as [|y l Hy Hn IH]; simpl; auto.
  destruct (str_eqb x y) eqn:E; simpl.
  - apply str_eqb_eq in E. subst y. symmetry. apply filter_all.
    intros z Hz. apply negb_true_iff, str_eqb_neq. congruence.
  - now rewrite IH.
Qed.

Lemma nodup_names_iff l : nodup_names l = true <-> NoDup l.
Proof.
  induction l as [|x l IH]; simpl.
  - split; auto. constructor.
  - rewrite andb_true_iff, negb_true_iff, str_in_false, IH. split.
    + intros [H1 H2]. now constructor.
    + intros H. inversion H; auto.
Qed.

Lemma flat_map_filter {A B} (p : A -> bool) (f : A -> list B) l :
  (forall x, p x = false -> f x = []) -> flat_map f (filter p l) = flat_map f l.
Proof.
  intros H. induction l as [|x l IH]; simpl; auto.
  destruct (p x) eqn:E; simpl; rewrite IH; auto. now rewrite (H x E).
Qed.

Lemma flat_map_map {A B C} (g : A -> B) (f : B -> list C) l :
  flat_map f (map g l) = flat_map (fun x => f (g x)) l.
Proof. induction l as [|x l IH]; simpl; auto. now rewrite IH. Qed.

Lemma flat_map_ext_in {A B} (f g : A -> list B) l :
  (forall x, In x l -> f x = g x) -> flat_map f l = flat_map g l.
Proof.
  induction l as [|x l IH]; simpl; intros H; auto.
  rewrite (H x), IH; auto.
Qed.

(* lookups in a directory *)
Lemma find_entry_name n es e : find_entry n es = Some e -> ename e = n /\ In e es.
Proof.
  induction es as [|x es IH]; simpl; [discriminate|].
  destruct (str_eqb n (ename x)) eqn:E.
  - intros [= <-]. apply str_eqb_eq in E. auto.
  - intros H. destruct (IH H). auto.
Qed.

Lemma find_entry_none n es : find_entry n es = None <-> ~ In n (map ename es).
Proof.
  induction es as [|x es IH]; simpl; [tauto|].
  destruct (str_eqb n (ename x)) eqn:E.
  - apply str_eqb_eq in E. split; [discriminate|]. intros H. exfalso. auto.
  - apply str_eqb_neq in E. rewrite IH. split; intros H; [intros [H'|H']; auto|auto].
Qed.

Lemma assoc_map_find {V} (g : entry -> V) n es :
  assoc_get n (map (fun x => (ename x, g x)) es) = option_map g (find_entry n es).
Proof.
  induction es as [|x es IH]; simpl; auto.
  destruct (str_eqb n (ename x)); auto.
Qed.

(* ------------------------------------------------------------------------------------------ *)
(* the order in which get_page_tree visits a directory = the documented order *)
Definition not_idx (y : str) : bool := negb (str_eqb idx y).

Lemma ordered_of_filter ord : ordered_of ord = filter not_idx ord.
Proof. apply filter_ext. intros x. unfold not_idx. now rewrite str_eqb_sym. Qed.

Lemma str_in_filter (q : str -> bool) y l :
  str_in y (filter q l) = str_in y l && q y.
Proof.
  induction l as [|x l IH]; simpl; auto.
  destruct (q x) eqn:Q; simpl; rewrite IH.
  - destruct (str_eqb y x) eqn:E; simpl; auto.
    apply str_eqb_eq in E. subst. now rewrite Q.
  - destruct (str_eqb y x) eqn:E; simpl; auto.
    apply str_eqb_eq in E. subst. rewrite Q. now rewrite andb_false_r.
Qed.

Lemma merged_dedup o l : NoDup l -> merged o l = dedup (o ++ l).
Proof.
  intros H. destruct o; simpl; auto. symmetry. now apply dedup_id.
Qed.

Lemma listing_filter es :
  NoDup (map ename es) -> listing es = sort (filter not_idx (map ename es)).
Proof.
  intros H. unfold listing. rewrite remove_first_filter by now apply sort_nodup.
  apply filter_sort.
Qed.

Lemma listing_nodup es : NoDup (map ename es) -> NoDup (listing es).
Proof.
  intros H. rewrite listing_filter by auto. apply sort_nodup. now apply filter_nodup.
Qed.

Theorem order_documented ord es :
  NoDup (map ename es) ->
  merged (ordered_of ord) (listing es) = filter not_idx (spec_order ord (map ename es)).
Proof.
  intros H. rewrite merged_dedup by now apply listing_nodup.
  rewrite dedup_app, (dedup_id (listing es)) by now apply listing_nodup.
  unfold spec_order. rewrite filter_app, <- dedup_filter, <- ordered_of_filter. f_equal.
  rewrite listing_filter by auto.
  rewrite !filter_sort. f_equal.
  rewrite !filter_filter. apply filter_ext. intros y.
  rewrite ordered_of_filter, str_in_filter.
  destruct (not_idx y), (str_in y ord); reflexivity.
Qed.

Lemma merged_nodup ord es : NoDup (map ename es) -> NoDup (merged ord (listing es)).
Proof.
  intros H. rewrite merged_dedup by now apply listing_nodup. apply dedup_nodup.
Qed.

(* ------------------------------------------------------------------------------------------ *)
(* pathlib's suffix test against "name ends in .md" *)
Lemma last_dot_none n i acc : ~ In dot n -> last_dot n i acc = acc.
Proof.
  revert i acc; induction n as [|c n IH]; intros i acc H; simpl; auto.
  assert (ch_eqb c dot = false) as ->.
  { destruct (ch_eqb c dot) eqn:E; auto. apply Ascii.eqb_eq in E. subst. exfalso. apply H. now left. }
  apply IH. intros H'. apply H. now right.
Qed.

Lemma last_dot_split a b i acc :
  ~ In dot b -> last_dot (a ++ dot :: b) i acc = Some (i + length a).
Proof.
  revert i acc; induction a as [|c a IH]; intros i acc H; simpl.
  - rewrite last_dot_none by auto. f_equal. lia.
  - rewrite IH by auto. f_equal. lia.
Qed.

Lemma last_dot_some n i acc k :
  last_dot n i acc = Some k -> acc = Some k \/ (i <= k /\ nth_error n (k - i) = Some dot).
Proof.
  revert i acc; induction n as [|c n IH]; intros i acc H; simpl in *; auto.
  apply IH in H as [H|[H1 H2]].
  - destruct (ch_eqb c dot) eqn:E; auto.
    injection H as <-. right. split; [lia|]. rewrite Nat.sub_diag. simpl.
    apply Ascii.eqb_eq in E. now subst.
  - right. split; [lia|]. replace (k - i) with (S (k - S i)) by lia. exact H2.
Qed.

Lemma ends_with_iff suf x : ends_with suf x = true <-> exists a, x = a ++ suf.
Proof.
  induction x as [|c x IH]; simpl.
  - destruct (str_eqb suf []) eqn:E.
    + apply str_eqb_eq in E. subst. split; auto. intros _. now exists [].
    + split; [discriminate|]. intros [a Ha]. apply str_eqb_neq in E.
      symmetry in Ha. apply app_eq_nil in Ha as [_ Ha]. contradiction.
  - destruct (str_eqb suf (c :: x)) eqn:E.
    + apply str_eqb_eq in E. subst. split; auto. intros _. now exists [].
    + apply str_eqb_neq in E. rewrite IH. split.
      * intros [a ->]. now exists (c :: a).
      * intros [[|d a] Ha]; simpl in Ha; [congruence|].
        injection Ha as -> ->. now exists a.
Qed.

Lemma is_md_spec n : is_md n = ends_with (s ".md") n && (3 <? length n).
Proof.
  unfold is_md.
  destruct (ends_with (s ".md") n && (3 <? length n)) eqn:E.
  - apply andb_true_iff in E as [E1 E2]. apply ends_with_iff in E1 as [a ->].
    apply Nat.ltb_lt in E2. rewrite app_length in E2. simpl in E2.
    unfold suffix, suffix_pos.
    change (s ".md") with (dot :: s "md").
    rewrite last_dot_split
      by (intros [H|[H|[]]]; discriminate).
    simpl. rewrite app_length. simpl.
    assert ((0 <? length a) && (S (length a) <? length a + 3) = true) as ->.
    { apply andb_true_iff. split; apply Nat.ltb_lt; lia. }
    rewrite skipn_app, skipn_all, Nat.sub_diag. simpl. reflexivity.
  - destruct (str_eqb (suffix n) (s ".md")) eqn:E'; auto.
    apply str_eqb_eq in E'. exfalso.
    unfold suffix, suffix_pos in E'.
    destruct (last_dot n 0 None) as [i|] eqn:L; [|discriminate].
    destruct ((0 <? i) && (S i <? length n)) eqn:B; [|discriminate].
    apply andb_true_iff in B as [B1 B2]. apply Nat.ltb_lt in B1, B2.
    assert (n = firstn i n ++ s ".md") as Hn by (rewrite <- E'; symmetry; apply firstn_skipn).
    assert (length (firstn i n) = i) as Hl by (apply firstn_length_le; lia).
    assert (ends_with (s ".md") n = true) as X1 by (apply ends_with_iff; eauto).
    assert (3 <? length n = true) as X2.
    { apply Nat.ltb_lt. rewrite Hn, app_length, Hl. simpl. lia. }
    rewrite X1, X2 in E. discriminate.
Qed.

Lemma md_name_visible n : visible n = true -> md_name n = is_md n.
Proof.
  unfold md_name, visible. rewrite is_md_spec. destruct n; [discriminate|].
  intros H. apply andb_true_iff in H as [H1 H2]. rewrite H1, H2. now rewrite !andb_true_r.
Qed.

Lemma md_name_is_visible n : md_name n = true -> visible n = true.
Proof.
  unfold md_name, visible. destruct n; simpl; [discriminate|].
  intros H. apply andb_true_iff in H as [H H3]. apply andb_true_iff in H as [H H2].
  now rewrite H2, H3.
Qed.

Lemma html_name_inj a b :
  ends_with (s ".md") a = true -> ends_with (s ".md") b = true ->
  html_name a = html_name b -> a = b.
Proof.
  intros Ha Hb. apply ends_with_iff in Ha as [a' ->]. apply ends_with_iff in Hb as [b' ->].
  unfold html_name. rewrite !app_length. simpl.
  replace (length a' + 3 - 3) with (length a') by lia.
  replace (length b' + 3 - 3) with (length b') by lia.
  rewrite !firstn_app, !Nat.sub_diag, !firstn_all. simpl. rewrite !app_nil_r.
  intros H. apply app_inv_tail in H. now subst.
Qed.

(* ------------------------------------------------------------------------------------------ *)
(* unfolding lemmas *)
Lemma gpt_dir proj pc loc d es :
  gpt proj pc loc (Dir d es) =
  match titled_index es with
  | Some (ord, cp) =>
    let ordered := ordered_of ord in
    let copy := eff_copy proj cp in
    let sub := map (fun x => (ename x, gpt proj (Some copy) (loc ++ [ename x]) x)) es in
    let vs := map (visit_name proj pc loc es sub) (merged ordered (listing es)) in
    if v_err vs then RErr
    else RNode (Node d idx loc ordered copy (v_files vs) (v_subs vs))
  | None => RNone
  end.
Proof.
  unfold titled_index. simpl.
  destruct (find_entry idx es) as [[? [] ? ?|? ?]|]; reflexivity.
Qed.

Lemma spec_pages_dir skip proj loc d es :
  spec_pages skip proj loc (Dir d es) =
  match titled_index es with
  | None => []
  | Some (ord, cp) =>
    (loc ++ [idx], loc ++ [s "index.html"])
      :: flat_map (fun n => if visible n && negb (str_eqb n idx)
                            then match assoc_get n
                                   (map (fun x => (ename x,
                                      match x with
                                      | File _ _ _ _ => spec_pages skip proj loc x
                                      | Dir n _ =>
                                        if str_in n (eff_copy proj cp) && skip (loc ++ [n]) then []
                                        else spec_pages skip proj (loc ++ [n]) x
                                      end)) es)
                                 with Some l => l | None => [] end
                            else [])
                  (spec_order ord (map ename es))
  end.
Proof. reflexivity. Qed.

Definition pg (n : node) : list str * list str := (src_path n, out_path n).
Definition visit_pages (v : visit) : list (list str * list str) :=
  match v with VSub n => map pg (preorder n) | _ => [] end.

Lemma pages_node a b c d e f subs :
  pages (RNode (Node a b c d e f subs)) =
  (c ++ [b], c ++ [out_name b]) :: flat_map (fun n => map pg (preorder n)) subs.
Proof.
  unfold pages, res_nodes. simpl. f_equal.
  induction subs as [|x subs IH]; simpl; auto.
  rewrite map_app. f_equal. exact IH.
Qed.

Lemma flat_map_v_subs {B} (f : node -> list B) vs :
  flat_map f (v_subs vs) = flat_map (fun v => match v with VSub n => f n | _ => [] end) vs.
Proof.
  unfold v_subs. induction vs as [|v vs IH]; simpl; auto.
  rewrite flat_map_app, IH. destruct v; simpl; auto. now rewrite app_nil_r.
Qed.

Lemma v_err_false vs v : v_err vs = false -> In v vs -> v <> VErr.
Proof.
  unfold v_err. intros H Hin ->.
  assert (existsb (fun v => match v with VErr => true | _ => false end) vs = true).
  { apply existsb_exists. exists VErr. auto. }
  congruence.
Qed.

Lemma titled_index_none_gpt proj pc loc d es :
  titled_index es = None -> gpt proj pc loc (Dir d es) = RNone.
Proof. intros H. now rewrite gpt_dir, H. Qed.

Lemma wf_dir d es : wf_tree (Dir d es) = true ->
  NoDup (map ename es) /\ forall x, In x es -> wf_tree x = true.
Proof.
  simpl. intros H. apply andb_true_iff in H as [H1 H2].
  split; [now apply nodup_names_iff|]. now apply forallb_forall.
Qed.

(* ------------------------------------------------------------------------------------------ *)
(* C17_mirror *)
Definition mirror_at (skip : list str -> bool) (proj : list str) (e : entry) : Prop :=
  forall d es, e = Dir d es -> forall pc loc,
    wf_tree e = true -> regular proj pc e = true -> plain_names e = true ->
    gpt proj pc loc e <> RErr ->
    pages (gpt proj pc loc e) = spec_pages skip proj loc e.

Lemma mirror_all skip proj e : mirror_at skip proj e.
Proof.
  induction e as [|d0 es0 IH] using entry_ind'; intros d es E pc loc Hwf Hreg Hplain Hne;
    [discriminate|].
  injection E as -> ->.
  rewrite spec_pages_dir. rewrite gpt_dir in *.
  simpl in Hreg.
  destruct (titled_index es) as [[ord cp]|] eqn:TI; [|reflexivity].
  cbv zeta in *.
  set (copy := eff_copy proj cp) in *.
  set (sub := map (fun x => (ename x, gpt proj (Some copy) (loc ++ [ename x]) x)) es) in *.
  set (M := merged (ordered_of ord) (listing es)) in *.
  destruct (v_err (map (visit_name proj pc loc es sub) M)) eqn:VE; [congruence|].
  apply wf_dir in Hwf as [Hnd Hwf].
  rewrite pages_node. f_equal.
  rewrite flat_map_v_subs, flat_map_map.
  rewrite <- (flat_map_filter not_idx _ (spec_order ord (map ename es))).
  2:{ intros n Hn. unfold not_idx in Hn. apply negb_false_iff in Hn.
      rewrite str_eqb_sym in Hn. now rewrite Hn, andb_false_r. }
  rewrite <- order_documented by auto. fold M.
  apply flat_map_ext_in. intros n Hn.
  assert (Hv : visit_name proj pc loc es sub n <> VErr).
  { eapply v_err_false; eauto. now apply in_map. }
  assert (Hni : negb (str_eqb n idx) = true).
  { unfold M in Hn. rewrite order_documented in Hn by auto.
    apply filter_In in Hn as [_ Hn]. unfold not_idx in Hn. now rewrite str_eqb_sym. }
  rewrite Hni, andb_true_r.
  unfold visit_name in *. destruct n as [|c0 n']; [congruence|].
  set (n := c0 :: n') in *.
  unfold visible. fold n.
  destruct (hidden n) eqn:Hh; [reflexivity|].
  destruct (backup n) eqn:Hb; [reflexivity|]. simpl negb. simpl andb.
  assert (Hvis : visible n = true) by (unfold visible; fold n; now rewrite Hh, Hb).
  rewrite assoc_map_find.
  destruct (find_entry n es) as [x|] eqn:FE; [|congruence].
  apply find_entry_name in FE as [En Hin]. simpl option_map.
  assert (Hpx : plain_names x = true).
  { simpl in Hplain. eapply forallb_forall in Hplain; eauto. }
  pose proof (proj1 (forallb_forall _ _) Hreg x Hin) as Hrx.
  destruct x as [f t o c'|dn des]; simpl in En; subst.
  - (* a file *)
    simpl. rewrite (md_name_visible _ Hvis).
    destruct (is_md n) eqn:MD; [|reflexivity].
    destruct t; [|reflexivity]. simpl.
    simpl in Hpx. rewrite (md_name_visible _ Hvis), MD in Hpx. simpl in Hpx.
    apply str_eqb_eq in Hpx. unfold pg, src_path, out_path. simpl. now rewrite Hpx.
  - (* a sub-directory *)
    fold n in Hrx. apply andb_true_iff in Hrx as [Hr1 Hr2].
    unfold sub in *. rewrite assoc_map_find in *.
    pose proof (find_entry_name n es) as _.
    assert (FE : find_entry n es = Some (Dir n des)).
    { destruct (find_entry n es) as [y|] eqn:F.
      - apply find_entry_name in F as [Ey Hy].
        (* names are distinct *)
        clear - Hnd Hin Hy Ey. f_equal.
        induction es as [|z es IHes]; [destruct Hin|].
        simpl in Hnd. inversion Hnd as [|? ? Hz Hnd']; subst.
        destruct Hin as [->|Hin], Hy as [->|Hy]; auto.
        + exfalso. apply Hz. simpl. rewrite <- Ey. now apply in_map.
        + exfalso. apply Hz. rewrite Ey. change n with (ename (Dir n des)). now apply in_map.
      - exfalso. apply find_entry_none in F. apply F.
        change n with (ename (Dir n des)). now apply in_map. }
    rewrite FE in *. simpl option_map in *. simpl ename in *.
    destruct (has_titled_index (Dir n des)) eqn:HT.
    + simpl in Hr1. apply andb_true_iff in Hr1 as [Hp Hc].
      apply negb_true_iff in Hp, Hc. rewrite Hp in *. fold copy in Hc. rewrite Hc. simpl andb.
      assert (G : gpt proj (Some copy) (loc ++ [n]) (Dir n des) <> RErr).
      { intros G. rewrite G in Hv. congruence. }
      rewrite Forall_forall in IH.
      rewrite <- (IH _ Hin n des eq_refl (Some copy) (loc ++ [n])); auto.
      destruct (gpt proj (Some copy) (loc ++ [n]) (Dir n des)); try reflexivity. congruence.
    + simpl in HT. destruct (titled_index des) eqn:TD; [discriminate|].
      rewrite (titled_index_none_gpt _ _ _ _ _ TD).
      rewrite spec_pages_dir, TD.
      destruct (in_opt n pc), (str_in n (eff_copy proj cp) && skip (loc ++ [n])); reflexivity.
Qed.
