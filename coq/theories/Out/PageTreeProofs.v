(* Out/PageTreeProofs.v — proofs about Out/PageTree.v (property C17). *)
From Ford Require Import Base.Str Base.StrFacts Out.PageTree.
From Coq Require Import Lia Sorted Permutation.

Local Arguments Nat.div : simpl never.
Local Notation sort := PageTree.sort (only parsing).

(* ------------------------------------------------------------------------------------------ *)
(* induction over directory trees / node trees (nested lists) *)
Fixpoint entry_ind' (P : entry -> Prop)
  (HF : forall n t o c, P (File n t o c))
  (HD : forall n es, Forall P es -> P (Dir n es)) (e : entry) : P e :=
  match e with
  | File n t o c => HF n t o c
  | Dir n es =>
    HD n es ((fix go (l : list entry) : Forall P l :=
                match l with
                | [] => Forall_nil P
                | x :: l' => Forall_cons x (entry_ind' P HF HD x) (go l')
                end) es)
  end.

Fixpoint node_ind' (P : node -> Prop)
  (HN : forall a b c d e f subs, Forall P subs -> P (Node a b c d e f subs)) (n : node) : P n :=
  match n with
  | Node a b c d e f subs =>
    HN a b c d e f subs ((fix go (l : list node) : Forall P l :=
                            match l with
                            | [] => Forall_nil P
                            | x :: l' => Forall_cons x (node_ind' P HN x) (go l')
                            end) subs)
  end.

(* ------------------------------------------------------------------------------------------ *)
(* the string order and sorting *)
Lemma str_leb_refl a : str_leb a a = true.
Proof. induction a as [|c a IH]; simpl; auto. rewrite Nat.ltb_irrefl. exact IH. Qed.

Lemma str_leb_total a b : str_leb a b = false -> str_leb b a = true.
Proof.
  revert b; induction a as [|x a IH]; intros [|y b] H; simpl in *; try discriminate; auto.
  destruct (code x <? code y) eqn:E1; [discriminate|].
  destruct (code y <? code x) eqn:E2; auto.
Qed.

Lemma str_leb_trans a b c : str_leb a b = true -> str_leb b c = true -> str_leb a c = true.
Proof.
  revert b c; induction a as [|x a IH]; intros [|y b] [|z c] H1 H2; simpl in *;
    try discriminate; auto.
  destruct (code x <? code y) eqn:E1, (code y <? code z) eqn:E2;
    destruct (code y <? code x) eqn:E3; destruct (code z <? code y) eqn:E4;
    try discriminate;
    repeat match goal with
           | H : (_ <? _) = true |- _ => apply Nat.ltb_lt in H
           | H : (_ <? _) = false |- _ => apply Nat.ltb_ge in H
           end; try lia.
  - assert (code x <? code z = true) as -> by (apply Nat.ltb_lt; lia). reflexivity.
  - assert (code x <? code z = true) as -> by (apply Nat.ltb_lt; lia). reflexivity.
  - assert (code x <? code z = true) as -> by (apply Nat.ltb_lt; lia). reflexivity.
  - assert (code x = code z) as Exz by lia. rewrite Exz, Nat.ltb_irrefl. eapply IH; eauto.
Qed.

Definition str_le (a b : str) : Prop := str_leb a b = true.

Lemma insert_perm x l : Permutation (insert x l) (x :: l).
Proof.
  induction l as [|y l IH]; simpl; auto.
  destruct (str_leb x y); auto.
  rewrite IH. apply perm_swap.
Qed.

Lemma sort_perm l : Permutation (sort l) l.
Proof.
  induction l as [|x l IH]; simpl; auto.
  rewrite insert_perm. auto.
Qed.

Lemma insert_sorted x l : StronglySorted str_le l -> StronglySorted str_le (insert x l).
Proof.
  induction 1 as [|y l Hs IH Hall]; simpl.
  - constructor; constructor.
  - destruct (str_leb x y) eqn:E.
    + constructor; [constructor; auto|].
      constructor; auto.
      eapply Forall_impl; [|exact Hall]. intros z Hz. eapply str_leb_trans; eauto.
    + constructor; auto.
      apply str_leb_total in E.
      eapply Permutation_Forall; [symmetry; apply insert_perm|].
      constructor; auto.
Qed.

Lemma sort_strongly_sorted l : StronglySorted str_le (sort l).
Proof.
  induction l as [|x l IH]; simpl; [constructor|]. now apply insert_sorted.
Qed.

Lemma sort_sorted l : Sorted str_le (sort l).
Proof. apply StronglySorted_Sorted, sort_strongly_sorted. Qed.

Lemma sort_in x l : In x (sort l) <-> In x l.
Proof.
  split; intros H.
  - eapply Permutation_in; [apply sort_perm|exact H].
  - eapply Permutation_in; [symmetry; apply sort_perm|exact H].
Qed.

Lemma sort_nodup l : NoDup l -> NoDup (sort l).
Proof. intros H. eapply Permutation_NoDup; [symmetry; apply sort_perm|exact H]. Qed.

(* filtering commutes with sorting *)
Lemma filter_insert p x l :
  StronglySorted str_le l ->
  filter p (insert x l) = if p x then insert x (filter p l) else filter p l.
Proof.
  induction 1 as [|y l Hs IH Hall]; simpl.
  - destruct (p x); reflexivity.
  - destruct (str_leb x y) eqn:E; simpl.
    + destruct (p x) eqn:Px; [|reflexivity].
      destruct (p y) eqn:Py; simpl; [now rewrite E|].
      (* x goes in front of whatever survives of l *)
      clear IH. induction l as [|z l IHl]; simpl; auto.
      inversion Hall as [|? ? Hz Hall']; subst. inversion Hs; subst.
      destruct (p z); simpl.
      * assert (str_leb x z = true) as -> by (eapply str_leb_trans; eauto). reflexivity.
      * apply IHl; auto.
    + rewrite IH. destruct (p y) eqn:Py; simpl; destruct (p x); try reflexivity.
      now rewrite E.
Qed.

Lemma filter_sorted p l : StronglySorted str_le l -> StronglySorted str_le (filter p l).
Proof.
  induction 1 as [|y l Hs IH Hall]; simpl; [constructor|].
  destruct (p y); auto. constructor; auto.
  apply Forall_forall. intros z Hz. apply filter_In in Hz as [Hz _].
  eapply Forall_forall in Hall; eauto.
Qed.

Lemma filter_sort p l : filter p (sort l) = sort (filter p l).
Proof.
  induction l as [|x l IH]; simpl; auto.
  rewrite filter_insert by apply sort_strongly_sorted.
  destruct (p x); simpl; now rewrite IH.
Qed.

(* ------------------------------------------------------------------------------------------ *)
(* lists of names *)
Lemma str_eqb_sym a b : str_eqb a b = str_eqb b a.
Proof.
  destruct (str_eqb a b) eqn:E.
  - apply str_eqb_eq in E. subst. symmetry. apply str_eqb_refl.
  - apply str_eqb_neq in E. symmetry. apply str_eqb_neq. congruence.
Qed.

Lemma str_in_iff x l : str_in x l = true <-> In x l.
Proof.
  induction l as [|y l IH]; simpl; [split; [discriminate|tauto]|].
  rewrite orb_true_iff, IH, str_eqb_eq. split; intros [H|H]; auto.
Qed.

Lemma str_in_false x l : str_in x l = false <-> ~ In x l.
Proof.
  rewrite <- str_in_iff. destruct (str_in x l); split; intros; try discriminate; auto.
  exfalso; auto.
Qed.

Lemma filter_filter {A} (p q : A -> bool) l :
  filter p (filter q l) = filter (fun y => q y && p y) l.
Proof.
  induction l as [|x l IH]; simpl; auto.
  destruct (q x); simpl; [destruct (p x)|]; now rewrite IH.
Qed.

Lemma filter_all {A} (p : A -> bool) l : (forall x, In x l -> p x = true) -> filter p l = l.
Proof.
  induction l as [|x l IH]; simpl; intros H; auto.
  rewrite (H x) by auto. f_equal. apply IH. auto.
Qed.

Lemma filter_nodup {A} (p : A -> bool) l : NoDup l -> NoDup (filter p l).
Proof.
  induction 1 as [|x l Hx Hn IH]; simpl; [constructor|].
  destruct (p x); auto. constructor; auto. intros H. apply filter_In in H. tauto.
Qed.

Lemma dedup_in y l : In y (dedup l) <-> In y l.
Proof.
  induction l as [|x l IH]; simpl; [tauto|].
  rewrite filter_In, IH. split.
  - intros [H|[H _]]; auto.
  - intros [H|H]; auto. destruct (str_eqb x y) eqn:E.
    + apply str_eqb_eq in E. auto.
    + right. auto.
Qed.

Lemma dedup_nodup l : NoDup (dedup l).
Proof.
  induction l as [|x l IH]; simpl; constructor.
  - intros H. apply filter_In in H as [_ H]. now rewrite str_eqb_refl in H.
  - now apply filter_nodup.
Qed.

Lemma dedup_id l : NoDup l -> dedup l = l.
Proof.
  induction 1 as [|x l Hx Hn IH]; simpl; auto.
  rewrite IH. f_equal. apply filter_all. intros y Hy.
  apply negb_true_iff, str_eqb_neq. congruence.
Qed.

Lemma dedup_filter p l : dedup (filter p l) = filter p (dedup l).
Proof.
  induction l as [|x l IH]; simpl; auto.
  destruct (p x) eqn:Px; simpl.
  - f_equal. rewrite IH, !filter_filter. apply filter_ext. intros y. apply andb_comm.
  - rewrite IH, filter_filter.
    apply filter_ext_in. intros y Hy.
    destruct (str_eqb x y) eqn:E; simpl; auto.
    apply str_eqb_eq in E. subst y. now rewrite Px.
Qed.

Lemma dedup_app a b :
  dedup (a ++ b) = dedup a ++ filter (fun y => negb (str_in y a)) (dedup b).
Proof.
  induction a as [|x a IH]; simpl.
  - symmetry. apply filter_all. auto.
  - f_equal. rewrite IH, filter_app. f_equal.
    rewrite filter_filter. apply filter_ext. intros y.
    rewrite (str_eqb_sym y x). destruct (str_eqb x y), (str_in y a); reflexivity.
Qed.

Lemma remove_first_filter x l :
  NoDup l -> remove_first x l = filter (fun y => negb (str_eqb x y)) l.
Proof.
  induction 1 as [|y l Hy Hn IH]; simpl; auto.
  destruct (str_eqb x y) eqn:E; simpl.
  - apply str_eqb_eq in E. subst y. symmetry. apply filter_all.
    intros z Hz. apply negb_true_iff, str_eqb_neq. congruence.
  - now rewrite IH.
Qed.

Lemma nodup_names_iff l : nodup_names l = true <-> NoDup l.
Proof.
  induction l as [|x l IH]; simpl.
  - split; auto. constructor.
  - rewrite andb_true_iff, negb_true_iff, str_in_false, IH. split.
    + intros [H1 H2]. now constructor.
    + intros H. inversion H; auto.
Qed.

Lemma flat_map_filter {A B} (p : A -> bool) (f : A -> list B) l :
  (forall x, p x = false -> f x = []) -> flat_map f (filter p l) = flat_map f l.
Proof.
  intros H. induction l as [|x l IH]; simpl; auto.
  destruct (p x) eqn:E; simpl; rewrite IH; auto. now rewrite (H x E).
Qed.

Lemma flat_map_map {A B C} (g : A -> B) (f : B -> list C) l :
  flat_map f (map g l) = flat_map (fun x => f (g x)) l.
Proof. induction l as [|x l IH]; simpl; auto. now rewrite IH. Qed.

Lemma flat_map_ext_in {A B} (f g : A -> list B) l :
  (forall x, In x l -> f x = g x) -> flat_map f l = flat_map g l.
Proof.
  induction l as [|x l IH]; simpl; intros H; auto.
  rewrite (H x), IH; auto.
Qed.

(* lookups in a directory *)
Lemma find_entry_name n es e : find_entry n es = Some e -> ename e = n /\ In e es.
Proof.
  induction es as [|x es IH]; simpl; [discriminate|].
  destruct (str_eqb n (ename x)) eqn:E.
  - intros [= <-]. apply str_eqb_eq in E. auto.
  - intros H. destruct (IH H). auto.
Qed.

Lemma find_entry_none n es : find_entry n es = None <-> ~ In n (map ename es).
Proof.
  induction es as [|x es IH]; simpl; [tauto|].
  destruct (str_eqb n (ename x)) eqn:E.
  - apply str_eqb_eq in E. split; [discriminate|]. intros H. exfalso. auto.
  - apply str_eqb_neq in E. rewrite IH. split; intros H; [intros [H'|H']; auto|auto].
Qed.

Lemma assoc_map_find {V} (g : entry -> V) n es :
  assoc_get n (map (fun x => (ename x, g x)) es) = option_map g (find_entry n es).
Proof.
  induction es as [|x es IH]; simpl; auto.
  destruct (str_eqb n (ename x)); auto.
Qed.

(* ------------------------------------------------------------------------------------------ *)
(* the order in which get_page_tree visits a directory = the documented order *)
Definition not_idx (y : str) : bool := negb (str_eqb idx y).

Lemma ordered_of_filter ord : ordered_of ord = filter not_idx ord.
Proof. apply filter_ext. intros x. unfold not_idx. now rewrite str_eqb_sym. Qed.

Lemma str_in_filter (q : str -> bool) y l :
  str_in y (filter q l) = str_in y l && q y.
Proof.
  induction l as [|x l IH]; simpl; auto.
  destruct (q x) eqn:Q; simpl; rewrite IH.
  - destruct (str_eqb y x) eqn:E; simpl; auto.
    apply str_eqb_eq in E. subst. now rewrite Q.
  - destruct (str_eqb y x) eqn:E; simpl; auto.
    apply str_eqb_eq in E. subst. rewrite Q. now rewrite andb_false_r.
Qed.

Lemma merged_dedup o l : NoDup l -> merged o l = dedup (o ++ l).
Proof.
  intros H. destruct o; simpl; auto. symmetry. now apply dedup_id.
Qed.

Lemma listing_filter es :
  NoDup (map ename es) -> listing es = sort (filter not_idx (map ename es)).
Proof.
  intros H. unfold listing. rewrite remove_first_filter by now apply sort_nodup.
  apply filter_sort.
Qed.

Lemma listing_nodup es : NoDup (map ename es) -> NoDup (listing es).
Proof.
  intros H. rewrite listing_filter by auto. apply sort_nodup. now apply filter_nodup.
Qed.

Theorem order_documented ord es :
  NoDup (map ename es) ->
  merged (ordered_of ord) (listing es) = filter not_idx (spec_order ord (map ename es)).
Proof.
  intros H. rewrite merged_dedup by now apply listing_nodup.
  rewrite dedup_app, (dedup_id (listing es)) by now apply listing_nodup.
  unfold spec_order. rewrite filter_app, <- dedup_filter, <- ordered_of_filter. f_equal.
  rewrite listing_filter by auto.
  rewrite !filter_sort. f_equal.
  rewrite !filter_filter. apply filter_ext. intros y.
  rewrite ordered_of_filter, str_in_filter.
  destruct (not_idx y), (str_in y ord); reflexivity.
Qed.

Lemma merged_nodup ord es : NoDup (map ename es) -> NoDup (merged ord (listing es)).
Proof.
  intros H. rewrite merged_dedup by now apply listing_nodup. apply dedup_nodup.
Qed.

(* ------------------------------------------------------------------------------------------ *)
(* pathlib's suffix test against "name ends in .md" *)
Lemma last_dot_none n i acc : ~ In dot n -> last_dot n i acc = acc.
Proof.
  revert i acc; induction n as [|c n IH]; intros i acc H; simpl; auto.
  assert (ch_eqb c dot = false) as ->.
  { destruct (ch_eqb c dot) eqn:E; auto. apply Ascii.eqb_eq in E. subst. exfalso. apply H. now left. }
  apply IH. intros H'. apply H. now right.
Qed.

Lemma last_dot_split a b i acc :
  ~ In dot b -> last_dot (a ++ dot :: b) i acc = Some (i + length a).
Proof.
  revert i acc; induction a as [|c a IH]; intros i acc H; simpl.
  - rewrite last_dot_none by auto. f_equal. lia.
  - rewrite IH by auto. f_equal. lia.
Qed.

Lemma last_dot_some n i acc k :
  last_dot n i acc = Some k -> acc = Some k \/ (i <= k /\ nth_error n (k - i) = Some dot).
Proof.
  revert i acc; induction n as [|c n IH]; intros i acc H; simpl in *; auto.
  apply IH in H as [H|[H1 H2]].
  - destruct (ch_eqb c dot) eqn:E; auto.
    injection H as <-. right. split; [lia|]. rewrite Nat.sub_diag. simpl.
    apply Ascii.eqb_eq in E. now subst.
  - right. split; [lia|]. replace (k - i) with (S (k - S i)) by lia. exact H2.
Qed.

Lemma ends_with_iff suf x : ends_with suf x = true <-> exists a, x = a ++ suf.
Proof.
  induction x as [|c x IH]; simpl.
  - destruct (str_eqb suf []) eqn:E.
    + apply str_eqb_eq in E. subst. split; auto. intros _. now exists [].
    + split; [discriminate|]. intros [a Ha]. apply str_eqb_neq in E.
      symmetry in Ha. apply app_eq_nil in Ha as [_ Ha]. contradiction.
  - destruct (str_eqb suf (c :: x)) eqn:E.
    + apply str_eqb_eq in E. subst. split; auto. intros _. now exists [].
    + apply str_eqb_neq in E. rewrite IH. split.
      * intros [a ->]. now exists (c :: a).
      * intros [[|d a] Ha]; simpl in Ha; [congruence|].
        injection Ha as -> ->. now exists a.
Qed.

Lemma is_md_spec n : is_md n = ends_with (s ".md") n && (3 <? length n).
Proof.
  unfold is_md.
  destruct (ends_with (s ".md") n && (3 <? length n)) eqn:E.
  - apply andb_true_iff in E as [E1 E2]. apply ends_with_iff in E1 as [a ->].
    apply Nat.ltb_lt in E2. rewrite app_length in E2. simpl in E2.
    unfold suffix, suffix_pos.
    change (s ".md") with (dot :: s "md").
    rewrite last_dot_split
      by (intros [H|[H|[]]]; discriminate).
    simpl. rewrite app_length. simpl.
    assert ((0 <? length a) && (S (length a) <? length a + 3) = true) as ->.
    { apply andb_true_iff. split; apply Nat.ltb_lt; lia. }
    rewrite skipn_app, skipn_all, Nat.sub_diag. simpl. reflexivity.
  - destruct (str_eqb (suffix n) (s ".md")) eqn:E'; auto.
    apply str_eqb_eq in E'. exfalso.
    unfold suffix, suffix_pos in E'.
    destruct (last_dot n 0 None) as [i|] eqn:L; [|discriminate].
    destruct ((0 <? i) && (S i <? length n)) eqn:B; [|discriminate].
    apply andb_true_iff in B as [B1 B2]. apply Nat.ltb_lt in B1, B2.
    assert (n = firstn i n ++ s ".md") as Hn by (rewrite <- E'; symmetry; apply firstn_skipn).
    assert (length (firstn i n) = i) as Hl by (apply firstn_length_le; lia).
    assert (ends_with (s ".md") n = true) as X1 by (apply ends_with_iff; eauto).
    assert (3 <? length n = true) as X2.
    { apply Nat.ltb_lt. rewrite Hn, app_length, Hl. simpl. lia. }
    rewrite X1, X2 in E. discriminate.
Qed.

Lemma md_name_visible n : visible n = true -> md_name n = is_md n.
Proof.
  unfold md_name, visible. rewrite is_md_spec. destruct n; [discriminate|].
  intros H. apply andb_true_iff in H as [H1 H2]. rewrite H1, H2. now rewrite !andb_true_r.
Qed.

Lemma md_name_is_visible n : md_name n = true -> visible n = true.
Proof.
  unfold md_name, visible. destruct n; simpl; [discriminate|].
  intros H. apply andb_true_iff in H as [H H3]. apply andb_true_iff in H as [H H2].
  now rewrite H2, H3.
Qed.

Lemma html_name_inj a b :
  ends_with (s ".md") a = true -> ends_with (s ".md") b = true ->
  html_name a = html_name b -> a = b.
Proof.
  intros Ha Hb. apply ends_with_iff in Ha as [a' ->]. apply ends_with_iff in Hb as [b' ->].
  unfold html_name. rewrite !app_length. simpl.
  replace (length a' + 3 - 3) with (length a') by lia.
  replace (length b' + 3 - 3) with (length b') by lia.
  rewrite !firstn_app, !Nat.sub_diag, !firstn_all. simpl. rewrite !app_nil_r.
  intros H. apply app_inv_tail in H. now subst.
Qed.

(* ------------------------------------------------------------------------------------------ *)
(* unfolding lemmas *)
Lemma gpt_dir proj pc loc d es :
  gpt proj pc loc (Dir d es) =
  match titled_index es with
  | Some (ord, cp) =>
    let ordered := ordered_of ord in
    let copy := eff_copy proj cp in
    let sub := map (fun x => (ename x, gpt proj (Some copy) (loc ++ [ename x]) x)) es in
    let vs := map (visit_name proj (Some copy) loc es sub) (merged ordered (listing es)) in
    if v_err vs then RErr
    else RNode (Node d idx loc ordered copy (v_files vs) (v_subs vs))
  | None => RNone
  end.
Proof.
  unfold titled_index. simpl.
  destruct (find_entry idx es) as [[? [] ? ?|? ?]|]; reflexivity.
Qed.

Lemma spec_pages_dir skip proj loc d es :
  spec_pages skip proj loc (Dir d es) =
  match titled_index es with
  | None => []
  | Some (ord, cp) =>
    (loc ++ [idx], loc ++ [s "index.html"])
      :: flat_map (fun n => if visible n && negb (str_eqb n idx)
                            then match assoc_get n
                                   (map (fun x => (ename x,
                                      match x with
                                      | File _ _ _ _ => spec_pages skip proj loc x
                                      | Dir n _ =>
                                        if str_in n (eff_copy proj cp) && skip (loc ++ [n]) then []
                                        else spec_pages skip proj (loc ++ [n]) x
                                      end)) es)
                                 with Some l => l | None => [] end
                            else [])
                  (spec_order ord (map ename es))
  end.
Proof. reflexivity. Qed.

Definition pg (n : node) : list str * list str := (src_path n, out_path n).
Definition visit_pages (v : visit) : list (list str * list str) :=
  match v with VSub n => map pg (preorder n) | _ => [] end.

Lemma pages_node a b c d e f subs :
  pages (RNode (Node a b c d e f subs)) =
  (c ++ [b], c ++ [out_name b]) :: flat_map (fun n => map pg (preorder n)) subs.
Proof.
  unfold pages, res_nodes. simpl. f_equal.
  induction subs as [|x subs IH]; simpl; auto.
  rewrite map_app. f_equal. exact IH.
Qed.

Lemma flat_map_v_subs {B} (f : node -> list B) vs :
  flat_map f (v_subs vs) = flat_map (fun v => match v with VSub n => f n | _ => [] end) vs.
Proof.
  unfold v_subs. induction vs as [|v vs IH]; simpl; auto.
  rewrite flat_map_app, IH. destruct v; simpl; auto. now rewrite app_nil_r.
Qed.

Lemma v_err_false vs v : v_err vs = false -> In v vs -> v <> VErr.
Proof.
  unfold v_err. intros H Hin ->.
  assert (existsb (fun v => match v with VErr => true | _ => false end) vs = true).
  { apply existsb_exists. exists VErr. auto. }
  congruence.
Qed.

Lemma titled_index_none_gpt proj pc loc d es :
  titled_index es = None -> gpt proj pc loc (Dir d es) = RNone.
Proof. intros H. now rewrite gpt_dir, H. Qed.

Lemma wf_dir d es : wf_tree (Dir d es) = true ->
  NoDup (map ename es) /\ forall x, In x es -> wf_tree x = true.
Proof.
  simpl. intros H. apply andb_true_iff in H as [H1 H2].
  split; [now apply nodup_names_iff|]. now apply forallb_forall.
Qed.

Lemma visit_name_vis proj pc loc es sub n :
  visible n = true ->
  visit_name proj pc loc es sub n =
  match find_entry n es with
  | None => VErr
  | Some (Dir _ _) =>
    if in_opt n pc then VSkip
    else match assoc_get n sub with
         | Some (RNode nd) => VSub nd
         | Some RErr => VErr
         | _ => VSkip
         end
  | Some (File _ titled ord cp) =>
    if is_md n then (if titled then VSub (leaf proj loc n ord cp) else VSkip) else VFile n
  end.
Proof.
  unfold visible, visit_name. destruct n; [discriminate|].
  intros H. apply andb_true_iff in H as [H1 H2]. apply negb_true_iff in H1, H2.
  now rewrite H1, H2.
Qed.

Lemma visit_name_invis proj pc loc es sub n :
  visible n = false ->
  visit_name proj pc loc es sub n = VErr \/ visit_name proj pc loc es sub n = VSkip.
Proof.
  unfold visible, visit_name. destruct n; auto.
  destruct (hidden (a :: n)); auto. destruct (backup (a :: n)); auto. discriminate.
Qed.

Lemma find_entry_in es x : NoDup (map ename es) -> In x es -> find_entry (ename x) es = Some x.
Proof.
  induction es as [|z es IH]; intros Hnd Hin; [destruct Hin|].
  destruct Hin as [->|Hin]; simpl.
  - now rewrite str_eqb_refl.
  - inversion Hnd as [|? ? Hz Hnd']; subst.
    destruct (str_eqb (ename x) (ename z)) eqn:E; auto.
    apply str_eqb_eq in E. exfalso. apply Hz. rewrite <- E. now apply in_map.
Qed.

(* the output file of a Markdown page: "md" replaced by "html", whatever other dots the name has *)
Lemma out_name_md n : is_md n = true -> out_name n = html_name n.
Proof.
  unfold is_md, out_name, html_name, stem, suffix. intros H. apply str_eqb_eq in H.
  destruct (suffix_pos n) as [i|] eqn:SP; [|discriminate].
  assert (L : length n = i + 3).
  { rewrite <- (firstn_skipn i n) at 1. rewrite app_length, H. simpl.
    unfold suffix_pos in SP. destruct (last_dot n 0 None) as [k|]; [|discriminate].
    destruct ((0 <? k) && (S k <? length n)) eqn:B; [|discriminate]. injection SP as ->.
    apply andb_true_iff in B as [_ B]. apply Nat.ltb_lt in B.
    rewrite firstn_length_le by lia. reflexivity. }
  rewrite L. now replace (i + 3 - 3) with i by lia.
Qed.

(* ------------------------------------------------------------------------------------------ *)
(* C17_mirror *)
Definition mirror_at (proj : list str) (e : entry) : Prop :=
  forall d es, e = Dir d es -> forall pc loc,
    wf_tree e = true -> gpt proj pc loc e <> RErr ->
    pages (gpt proj pc loc e) = spec_pages only_copied proj loc e.

Lemma mirror_all proj e : mirror_at proj e.
Proof.
  induction e as [|d0 es0 IH] using entry_ind'; intros d es E pc loc Hwf Hne;
    [discriminate|].
  injection E as -> ->.
  rewrite spec_pages_dir. rewrite gpt_dir in *.
  destruct (titled_index es) as [[ord cp]|] eqn:TI; [|reflexivity].
  cbv zeta in *.
  set (copy := eff_copy proj cp) in *.
  set (sub := map (fun x => (ename x, gpt proj (Some copy) (loc ++ [ename x]) x)) es) in *.
  set (M := merged (ordered_of ord) (listing es)) in *.
  destruct (v_err (map (visit_name proj (Some copy) loc es sub) M)) eqn:VE; [congruence|].
  apply wf_dir in Hwf as [Hnd Hwf].
  rewrite pages_node. f_equal.
  rewrite flat_map_v_subs, flat_map_map.
  rewrite <- (flat_map_filter not_idx _ (spec_order ord (map ename es))).
  2:{ intros n Hn. unfold not_idx in Hn. apply negb_false_iff in Hn.
      rewrite str_eqb_sym in Hn. now rewrite Hn, andb_false_r. }
  rewrite <- order_documented by auto. fold M.
  apply flat_map_ext_in. intros n Hn.
  assert (Hv : visit_name proj (Some copy) loc es sub n <> VErr).
  { eapply v_err_false; eauto. now apply in_map. }
  assert (Hni : negb (str_eqb n idx) = true).
  { unfold M in Hn. rewrite order_documented in Hn by auto.
    apply filter_In in Hn as [_ Hn]. unfold not_idx in Hn. now rewrite str_eqb_sym. }
  rewrite Hni, andb_true_r.
  destruct (visible n) eqn:Hvis.
  2:{ destruct (visit_name_invis proj (Some copy) loc es sub n Hvis) as [X|X]; [congruence|now rewrite X]. }
  rewrite visit_name_vis in * by auto.
  unfold sub in *. rewrite !assoc_map_find in *.
  destruct (find_entry n es) as [x|] eqn:FE; [|congruence].
  apply find_entry_name in FE as [En Hin]. simpl option_map in *.
  destruct x as [f t o c'|dn des]; simpl in En; subst.
  - (* a file *)
    simpl. rewrite (md_name_visible _ Hvis).
    destruct (is_md n) eqn:MD; [|reflexivity].
    destruct t; [|reflexivity]. simpl.
    unfold pg, src_path, out_path. simpl. now rewrite (out_name_md n MD).
  - (* a sub-directory *)
    simpl ename in *. simpl in_opt in *. change (only_copied (loc ++ [n])) with true. rewrite andb_true_r.
    fold copy. destruct (str_in n copy); [reflexivity|].
    assert (G : gpt proj (Some copy) (loc ++ [n]) (Dir n des) <> RErr).
    { intros G. rewrite G in Hv. congruence. }
    rewrite Forall_forall in IH.
    rewrite <- (IH _ Hin n des eq_refl (Some copy) (loc ++ [n])); auto.
    destruct (gpt proj (Some copy) (loc ++ [n]) (Dir n des)); reflexivity.
Qed.

(* ------------------------------------------------------------------------------------------ *)
(* distinct pages have distinct output files *)
Lemma nodup_app {A} (a b : list A) :
  NoDup a -> NoDup b -> (forall x, In x a -> ~ In x b) -> NoDup (a ++ b).
Proof.
  induction 1 as [|x a Hx Ha IH]; simpl; intros Hb Hd; auto.
  constructor.
  - rewrite in_app_iff. intros [H|H]; [auto|]. eapply Hd; eauto.
  - apply IH; auto.
Qed.

Lemma nodup_flat_map {A B} (f : A -> list B) l :
  NoDup l -> (forall x, In x l -> NoDup (f x)) ->
  (forall x y, In x l -> In y l -> x <> y -> forall z, In z (f x) -> ~ In z (f y)) ->
  NoDup (flat_map f l).
Proof.
  induction 1 as [|x l Hx Hl IH]; simpl; intros Hf Hd; [constructor|].
  apply nodup_app; auto.
  - apply IH; auto. intros a b Ha Hb. apply Hd; auto.
  - intros z Hz Hz'. apply in_flat_map in Hz' as (y & Hy & Hzy).
    eapply (Hd x y); eauto. congruence.
Qed.

Lemma spec_order_nodup ord names : NoDup names -> NoDup (spec_order ord names).
Proof.
  intros H. unfold spec_order. apply nodup_app.
  - apply dedup_nodup.
  - apply sort_nodup. now apply filter_nodup.
  - intros x Hx Hx'. apply (proj1 (dedup_in _ _)) in Hx. apply sort_in, filter_In in Hx' as [_ Hx'].
    apply negb_true_iff, str_in_false in Hx'. contradiction.
Qed.

(* the pages that one name of a directory contributes, in the Spec *)
Definition spec_contrib (skip : list str -> bool) (proj loc cp : list str) (es : list entry)
           (n : str) : list (list str * list str) :=
  if visible n && negb (str_eqb n idx)
  then match assoc_get n
               (map (fun x => (ename x,
                  match x with
                  | File _ _ _ _ => spec_pages skip proj loc x
                  | Dir n _ =>
                    if str_in n (eff_copy proj cp) && skip (loc ++ [n]) then []
                    else spec_pages skip proj (loc ++ [n]) x
                  end)) es)
       with Some l => l | None => [] end
  else [].

Definition outs_ok (skip : list str -> bool) (proj : list str) (e : entry) : Prop :=
  forall d es, e = Dir d es -> forall loc, wf_tree e = true ->
    NoDup (map snd (spec_pages skip proj loc e)) /\
    forall p, In p (map snd (spec_pages skip proj loc e)) -> exists r, r <> [] /\ p = loc ++ r.

Lemma spec_contrib_shape skip proj loc cp es n p :
  Forall (outs_ok skip proj) es -> (forall x, In x es -> wf_tree x = true) ->
  In p (map snd (spec_contrib skip proj loc cp es n)) ->
  n <> idx /\
  ((ends_with (s ".md") n = true /\ p = loc ++ [html_name n]) \/
   (exists r, r <> [] /\ p = loc ++ n :: r)).
Proof.
  intros IH Hwf Hp. unfold spec_contrib in Hp.
  destruct (visible n && negb (str_eqb n idx)) eqn:C; [|destruct Hp].
  apply andb_true_iff in C as [Hvis Hni]. apply negb_true_iff, str_eqb_neq in Hni.
  rewrite assoc_map_find in Hp.
  destruct (find_entry n es) as [x|] eqn:FE; [|destruct Hp].
  apply find_entry_name in FE as [En Hin]. simpl option_map in Hp.
  split; auto.
  destruct x as [f t o c|dn des]; simpl in En; subst.
  - simpl in Hp. destruct (md_name n && t) eqn:M; [|destruct Hp].
    apply andb_true_iff in M as [M _]. unfold md_name in M.
    apply andb_true_iff in M as [M _]. apply andb_true_iff in M as [M _].
    apply andb_true_iff in M as [M _].
    destruct Hp as [<-|[]]. left. auto.
  - destruct (str_in n (eff_copy proj cp) && skip (loc ++ [n])); [destruct Hp|].
    rewrite Forall_forall in IH.
    destruct (IH _ Hin n des eq_refl (loc ++ [n]) (Hwf _ Hin)) as [_ Hs].
    destruct (Hs _ Hp) as (r & Hr & ->). right. exists r. split; auto.
    now rewrite <- app_assoc.
Qed.

Lemma outs_ok_all skip proj e : outs_ok skip proj e.
Proof.
  induction e as [|d0 es0 IH] using entry_ind'; intros d es E loc Hwf; [discriminate|].
  injection E as -> ->.
  rewrite spec_pages_dir.
  destruct (titled_index es) as [[ord cp]|] eqn:TI; [|split; [constructor|intros ? []]].
  apply wf_dir in Hwf as [Hnd Hwf].
  change (flat_map _ (spec_order ord (map ename es)))
    with (flat_map (spec_contrib skip proj loc cp es) (spec_order ord (map ename es))).
  split.
  - simpl. constructor.
    + (* index.html is not the page of another entry *)
      intros H. apply in_map_iff in H as ([a b] & Hb & H). simpl in Hb. subst b.
      apply in_flat_map in H as (n & _ & H).
      apply (in_map snd) in H. simpl in H.
      apply spec_contrib_shape in H as [Hni [[Hmd H]|(r & Hr & H)]]; auto.
      * apply app_inv_head in H. injection H as H.
        apply Hni. apply html_name_inj; auto.
      * apply app_inv_head in H. injection H as _ H. congruence.
    + rewrite flat_map_concat_map, concat_map, map_map, <- flat_map_concat_map.
      apply nodup_flat_map.
      * now apply spec_order_nodup.
      * intros n _. unfold spec_contrib.
        destruct (visible n && negb (str_eqb n idx)); [|constructor].
        rewrite assoc_map_find.
        destruct (find_entry n es) as [x|] eqn:FE; [|constructor].
        apply find_entry_name in FE as [En Hin]. simpl option_map.
        destruct x as [f t o c|dn des]; simpl in En; subst.
        -- simpl. destruct (md_name n && t); simpl; repeat constructor. intros [].
        -- destruct (str_in n (eff_copy proj cp) && skip (loc ++ [n])); [constructor|].
           rewrite Forall_forall in IH.
           apply (IH _ Hin n des eq_refl (loc ++ [n]) (Hwf _ Hin)).
      * intros n1 n2 _ _ Hne p H1 H2.
        apply spec_contrib_shape in H1 as [_ [[M1 E1]|(r1 & R1 & E1)]]; auto;
          apply spec_contrib_shape in H2 as [_ [[M2 E2]|(r2 & R2 & E2)]]; auto;
          subst p; apply app_inv_head in E2.
        -- injection E2 as E2. apply Hne. symmetry. now apply html_name_inj.
        -- injection E2 as _ E2. congruence.
        -- injection E2 as _ E2. congruence.
        -- injection E2 as E2 _. congruence.
  - intros p [<-|H]; simpl.
    + exists [s "index.html"]. split; [discriminate|reflexivity].
    + simpl in H. apply in_map_iff in H as ([a b] & Hb & H). simpl in Hb. subst b.
      apply in_flat_map in H as (n & _ & H).
      apply (in_map snd) in H. simpl in H.
      apply spec_contrib_shape in H as [_ [[_ H]|(r & Hr & H)]]; auto; subst p.
      * exists [html_name n]. split; [discriminate|reflexivity].
      * exists (n :: r). split; [discriminate|reflexivity].
Qed.

(* ------------------------------------------------------------------------------------------ *)
(* C17_order: the sub-pages of a node, in order *)
Local Arguments gpt : simpl never.
Lemma gpt_node_fields proj pc loc d es nd :
  gpt proj pc loc (Dir d es) = RNode nd ->
  n_name nd = d /\ n_file nd = idx /\ n_loc nd = loc.
Proof.
  rewrite gpt_dir. destruct (titled_index es) as [[ord cp]|]; [|discriminate].
  cbv zeta. destruct (v_err _); [discriminate|]. intros [= <-]. auto.
Qed.

(* [visit_name] for an arbitrary list in the place of the one consulted for skipping *)
Definition yields_gen (proj : list str) (pcopy : option (list str)) (loc : list str)
           (es : list entry) (copy : list str) (n : str) : bool :=
  visible n &&
  match find_entry n es with
  | Some (Dir _ _ as x) =>
    negb (in_opt n pcopy) &&
    match gpt proj (Some copy) (loc ++ [n]) x with RNode _ => true | _ => false end
  | Some (File _ titled _ _) => is_md n && titled
  | None => false
  end.
Lemma yields_page_gen proj loc es copy n :
  yields_page proj loc es copy n = yields_gen proj (Some copy) loc es copy n.
Proof. reflexivity. Qed.

Lemma visit_yields proj pc loc es copy n :
  match visit_name proj pc loc es
          (map (fun x => (ename x, gpt proj (Some copy) (loc ++ [ename x]) x)) es) n with
  | VSub x => n_name x = n /\ yields_gen proj pc loc es copy n = true
  | _ => yields_gen proj pc loc es copy n = false
  end.
Proof.
  unfold yields_gen.
  destruct (visible n) eqn:Hvis.
  2:{ destruct (visit_name_invis proj pc loc es
         (map (fun x => (ename x, gpt proj (Some copy) (loc ++ [ename x]) x)) es) n Hvis)
        as [-> | ->]; reflexivity. }
  rewrite visit_name_vis by auto. rewrite assoc_map_find. simpl andb.
  destruct (find_entry n es) as [x|] eqn:FE; [|reflexivity].
  apply find_entry_name in FE as [En Hin]. simpl option_map.
  destruct x as [f t o c|dn des]; simpl in En; subst.
  - destruct (is_md n); [|reflexivity]. destruct t; simpl; auto.
  - simpl ename. destruct (in_opt n pc); [reflexivity|]. simpl negb. simpl andb.
    destruct (gpt proj (Some copy) (loc ++ [n]) (Dir n des)) as [| |nd] eqn:G; simpl; try reflexivity.
    apply gpt_node_fields in G as [G _]. auto.
Qed.

Lemma subs_names proj pc loc es copy l :
  map n_name
      (v_subs (map (visit_name proj pc loc es
                      (map (fun x => (ename x, gpt proj (Some copy) (loc ++ [ename x]) x)) es)) l))
  = filter (yields_gen proj pc loc es copy) l.
Proof.
  induction l as [|n l IH]; simpl; auto.
  unfold v_subs in *. simpl. rewrite map_app, IH.
  pose proof (visit_yields proj pc loc es copy n) as H.
  destruct (visit_name _ _ _ _ _ n); try (rewrite H; reflexivity).
  destruct H as [H1 H2]. rewrite H2. simpl. now rewrite H1.
Qed.

Theorem order_model proj pc loc d es nd :
  NoDup (map ename es) ->
  gpt proj pc loc (Dir d es) = RNode nd ->
  map n_name (n_subs nd)
  = filter (yields_page proj loc es (n_copy nd)) (dedup (n_ordered nd ++ listing es)).
Proof.
  intros Hnd. rewrite gpt_dir. destruct (titled_index es) as [[ord cp]|]; [|discriminate].
  cbv zeta. destruct (v_err _); [discriminate|]. intros [= <-]. simpl.
  rewrite subs_names. rewrite merged_dedup by now apply listing_nodup.
  apply filter_ext. intros n. symmetry. apply yields_page_gen.
Qed.

(* ------------------------------------------------------------------------------------------ *)
(* C17_bad_page_isolated *)
Local Arguments str_eqb : simpl never.
Lemma gpt_file proj pc loc n t o c : gpt proj pc loc (File n t o c) = RNone.
Proof. reflexivity. Qed.

Lemma find_entry_replace_other n b X X' a :
  ename X = ename X' -> n <> ename X ->
  find_entry n (b ++ X' :: a) = find_entry n (b ++ X :: a).
Proof.
  intros E Hn. induction b as [|y b IH]; simpl.
  - rewrite <- E. assert (str_eqb n (ename X) = false) as -> by now apply str_eqb_neq.
    reflexivity.
  - now rewrite IH.
Qed.

Lemma find_entry_replace_same b X a :
  ~ In (ename X) (map ename b) -> find_entry (ename X) (b ++ X :: a) = Some X.
Proof.
  induction b as [|y b IH]; simpl; intros H.
  - now rewrite str_eqb_refl.
  - assert (str_eqb (ename X) (ename y) = false) as ->.
    { apply str_eqb_neq. intros E. apply H. now left. }
    apply IH. intros H'. apply H. now right.
Qed.

Lemma names_replace b X X' a :
  ename X = ename X' -> map ename (b ++ X' :: a) = map ename (b ++ X :: a).
Proof. intros E. rewrite !map_app. simpl. now rewrite E. Qed.

Lemma listing_replace b X X' a :
  ename X = ename X' -> listing (b ++ X' :: a) = listing (b ++ X :: a).
Proof. intros E. unfold listing. now rewrite (names_replace b X X' a E). Qed.

Lemma visit_name_invis_eq proj pc loc es sub es' sub' n :
  visible n = false ->
  visit_name proj pc loc es' sub' n = visit_name proj pc loc es sub n.
Proof.
  unfold visible, visit_name. destruct n; auto.
  destruct (hidden (a :: n)); auto. destruct (backup (a :: n)); auto. discriminate.
Qed.

(* how replacing one entry of a directory changes the visits *)
Definition vmap (dn : str) (g : node -> node) (v : visit) : visit :=
  match v with
  | VSub x => VSub (if str_eqb (n_name x) dn then g x else x)
  | _ => v
  end.

Lemma v_err_vmap dn g vs : v_err (map (vmap dn g) vs) = v_err vs.
Proof.
  unfold v_err. induction vs as [|v vs IH]; simpl; auto. rewrite IH. now destruct v.
Qed.
Lemma v_files_vmap dn g vs : v_files (map (vmap dn g) vs) = v_files vs.
Proof.
  unfold v_files. induction vs as [|v vs IH]; simpl; auto. rewrite IH. now destruct v.
Qed.
Lemma v_subs_vmap dn g vs :
  v_subs (map (vmap dn g) vs) = map (fun x => if str_eqb (n_name x) dn then g x else x) (v_subs vs).
Proof.
  unfold v_subs. induction vs as [|v vs IH]; simpl; auto.
  rewrite IH, map_app. now destruct v.
Qed.

Lemma titled_index_dir_replace b X X' a :
  ename X = ename X' ->
  (forall n t o c, X <> File n t o c) -> (forall n t o c, X' <> File n t o c) ->
  titled_index (b ++ X' :: a) = titled_index (b ++ X :: a).
Proof.
  intros E HX HX'. unfold titled_index.
  destruct (str_eqb idx (ename X)) eqn:Ei.
  - apply str_eqb_eq in Ei.
    induction b as [|y b IH]; simpl.
    + rewrite <- E, <- Ei, str_eqb_refl.
      destruct X as [n t o c|? ?]; [exfalso; eapply HX; eauto|].
      destruct X' as [n t o c|? ?]; [exfalso; eapply HX'; eauto|]. reflexivity.
    + destruct (str_eqb idx (ename y)); auto.
  - apply str_eqb_neq in Ei. now rewrite (find_entry_replace_other idx b X X' a E Ei).
Qed.

Lemma frame_congr proj g d b a D D' :
  ename D = ename D' ->
  (forall n t o c, D <> File n t o c) -> (forall n t o c, D' <> File n t o c) ->
  ~ In (ename D) (map ename b) ->
  (forall pc loc, gpt proj pc loc D' = res_map g (gpt proj pc loc D)) ->
  forall pc loc,
    gpt proj pc loc (Dir d (b ++ D' :: a))
    = res_map (map_sub (ename D) g) (gpt proj pc loc (Dir d (b ++ D :: a))).
Proof.
  intros E HD HD' Hb Hg pc loc.
  rewrite !gpt_dir, (titled_index_dir_replace b D D' a E HD HD').
  destruct (titled_index (b ++ D :: a)) as [[ord cp]|]; [|reflexivity].
  cbv zeta. rewrite (listing_replace b D D' a E).
  set (copy := eff_copy proj cp).
  set (M := merged (ordered_of ord) (listing (b ++ D :: a))).
  set (es := b ++ D :: a). set (es' := b ++ D' :: a).
  set (sub := map (fun x => (ename x, gpt proj (Some copy) (loc ++ [ename x]) x)) es).
  set (sub' := map (fun x => (ename x, gpt proj (Some copy) (loc ++ [ename x]) x)) es').
  assert (HV : forall n, visit_name proj (Some copy) loc es' sub' n
                         = vmap (ename D) g (visit_name proj (Some copy) loc es sub n)).
  { intros n. destruct (visible n) eqn:Hvis.
    2:{ rewrite (visit_name_invis_eq proj (Some copy) loc es sub es' sub' n Hvis).
        destruct (visit_name_invis proj (Some copy) loc es sub n Hvis) as [-> | ->]; reflexivity. }
    pose proof (visit_yields proj (Some copy) loc es copy n) as HY. fold sub in HY.
    rewrite !visit_name_vis in * by auto.
    unfold sub, sub' in *. rewrite !assoc_map_find in *.
    destruct (str_eqb n (ename D)) eqn:En.
    - apply str_eqb_eq in En. subst n. unfold es, es' in *.
      destruct D as [? ? ? ?|dn des]; [exfalso; eapply HD; eauto|].
      destruct D' as [? ? ? ?|dn' des']; [exfalso; eapply HD'; eauto|].
      simpl in E. subst dn'. simpl ename in *.
      pose proof (find_entry_replace_same b (Dir dn des) a Hb) as F1. simpl ename in F1.
      rewrite F1 in *.
      pose proof (find_entry_replace_same b (Dir dn des') a Hb) as F2. simpl ename in F2.
      rewrite F2.
      simpl option_map in *. simpl ename in *.
      destruct (in_opt dn (Some copy)); [reflexivity|].
      rewrite Hg.
      destruct (gpt proj (Some copy) (loc ++ [dn]) (Dir dn des)) as [| |x] eqn:G; simpl; auto.
      apply gpt_node_fields in G as [G _]. rewrite G, str_eqb_refl. reflexivity.
    - apply str_eqb_neq in En. unfold es, es' in *.
      rewrite (find_entry_replace_other n b D D' a E En).
      destruct (find_entry n (b ++ D :: a)) as [x|]; [|reflexivity].
      simpl option_map in *.
      destruct x as [f t o c|dn des].
      + destruct (is_md n); [|reflexivity]. destruct t; [|reflexivity].
        simpl. destruct HY as [HY _]. simpl in HY.
        assert (str_eqb n (ename D) = false) as -> by now apply str_eqb_neq. reflexivity.
      + destruct (in_opt n (Some copy)); [reflexivity|].
        destruct (gpt proj (Some copy) (loc ++ [ename (Dir dn des)]) (Dir dn des)) as [| |x];
          try reflexivity.
        simpl. destruct HY as [HY _]. rewrite HY.
        assert (str_eqb n (ename D) = false) as -> by now apply str_eqb_neq. reflexivity. }
  rewrite (map_ext _ _ HV), <- map_map, v_err_vmap, v_files_vmap, v_subs_vmap.
  destruct (v_err _); reflexivity.
Qed.

Definition vfilter (f : str) (v : visit) : visit :=
  match v with
  | VSub x => if str_eqb (n_name x) f then VSkip else VSub x
  | _ => v
  end.
Lemma v_err_vfilter f vs : v_err (map (vfilter f) vs) = v_err vs.
Proof.
  unfold v_err. induction vs as [|v vs IH]; simpl; auto. rewrite IH.
  destruct v; simpl; auto. now destruct (str_eqb (n_name n) f).
Qed.
Lemma v_files_vfilter f vs : v_files (map (vfilter f) vs) = v_files vs.
Proof.
  unfold v_files. induction vs as [|v vs IH]; simpl; auto. rewrite IH.
  destruct v; simpl; auto. now destruct (str_eqb (n_name n) f).
Qed.
Lemma v_subs_vfilter f vs :
  v_subs (map (vfilter f) vs) = filter (fun x => negb (str_eqb (n_name x) f)) (v_subs vs).
Proof.
  unfold v_subs. induction vs as [|v vs IH]; simpl; auto.
  rewrite IH, filter_app. destruct v; simpl; auto. now destruct (str_eqb (n_name n) f).
Qed.

Theorem bad_page_isolated_dir proj pc loc nm es1 es2 f o c o' c' :
  f <> idx -> ~ In f (map ename es1) ->
  gpt proj pc loc (Dir nm (es1 ++ File f false o c :: es2))
  = res_map (remove_sub f) (gpt proj pc loc (Dir nm (es1 ++ File f true o' c' :: es2))).
Proof.
  intros Hf Hb.
  set (X := File f true o' c'). set (X' := File f false o c).
  assert (E : ename X = ename X') by reflexivity.
  rewrite !gpt_dir.
  assert (TI : titled_index (es1 ++ X' :: es2) = titled_index (es1 ++ X :: es2)).
  { unfold titled_index. rewrite (find_entry_replace_other idx es1 X X' es2 E); auto. }
  rewrite TI. destruct (titled_index (es1 ++ X :: es2)) as [[ord cp]|]; [|reflexivity].
  cbv zeta. rewrite (listing_replace es1 X X' es2 E).
  set (copy := eff_copy proj cp).
  set (M := merged (ordered_of ord) (listing (es1 ++ X :: es2))).
  set (es := es1 ++ X :: es2). set (es' := es1 ++ X' :: es2).
  set (sub := map (fun x => (ename x, gpt proj (Some copy) (loc ++ [ename x]) x)) es).
  assert (Hsub : map (fun x => (ename x, gpt proj (Some copy) (loc ++ [ename x]) x)) es' = sub).
  { unfold sub, es, es'. rewrite !map_app. reflexivity. }
  rewrite Hsub.
  assert (HV : forall n, visit_name proj (Some copy) loc es' sub n
                         = vfilter f (visit_name proj (Some copy) loc es sub n)).
  { intros n. destruct (visible n) eqn:Hvis.
    2:{ rewrite (visit_name_invis_eq proj (Some copy) loc es sub es' sub n Hvis).
        destruct (visit_name_invis proj (Some copy) loc es sub n Hvis) as [-> | ->]; reflexivity. }
    pose proof (visit_yields proj (Some copy) loc es copy n) as HY. fold sub in HY.
    rewrite !visit_name_vis in * by auto.
    destruct (str_eqb n f) eqn:En.
    - apply str_eqb_eq in En. subst n. unfold es, es' in *.
      pose proof (find_entry_replace_same es1 X es2 Hb) as F1.
      pose proof (find_entry_replace_same es1 X' es2 Hb) as F2.
      simpl ename in F1, F2. rewrite F1, F2. unfold X, X'.
      destruct (is_md f); [|reflexivity]. simpl. now rewrite str_eqb_refl.
    - apply str_eqb_neq in En. unfold es, es' in *.
      rewrite (find_entry_replace_other n es1 X X' es2 E En).
      destruct (find_entry n (es1 ++ X :: es2)) as [x|]; [|reflexivity].
      destruct x as [f0 t o0 c0|dn des].
      + destruct (is_md n); [|reflexivity]. destruct t; [|reflexivity].
        simpl. assert (str_eqb n f = false) as -> by now apply str_eqb_neq. reflexivity.
      + destruct (in_opt n (Some copy)); [reflexivity|].
        destruct (assoc_get n sub) as [[| |x]|]; try reflexivity.
        simpl. destruct HY as [HY _]. rewrite HY.
        assert (str_eqb n f = false) as -> by now apply str_eqb_neq. reflexivity. }
  rewrite (map_ext _ _ HV), <- map_map, v_err_vfilter, v_files_vfilter, v_subs_vfilter.
  destruct (v_err _); reflexivity.
Qed.

Lemma plug_is_dir ctx nm es : exists es', plug ctx (Dir nm es) = Dir (hole_name ctx nm) es'.
Proof. destruct ctx as [|[d b a] ctx]; simpl; eauto. Qed.

Theorem bad_page_isolated_tree proj ctx nm es1 es2 f o c o' c' :
  f <> idx -> ~ In f (map ename es1) -> ctx_ok ctx nm = true ->
  forall pc loc,
    gpt proj pc loc (plug ctx (Dir nm (es1 ++ File f false o c :: es2)))
    = res_map (prune (ctx_path ctx nm) f)
              (gpt proj pc loc (plug ctx (Dir nm (es1 ++ File f true o' c' :: es2)))).
Proof.
  intros Hf Hb. induction ctx as [|[d b a] ctx IH]; intros Hok pc loc.
  - simpl. now apply bad_page_isolated_dir.
  - simpl in Hok. apply andb_true_iff in Hok as [H1 H2].
    apply negb_true_iff, str_in_false in H1.
    simpl plug. simpl ctx_path. simpl prune.
    destruct (plug_is_dir ctx nm (es1 ++ File f false o c :: es2)) as [e1 E1].
    destruct (plug_is_dir ctx nm (es1 ++ File f true o' c' :: es2)) as [e2 E2].
    specialize (IH H2). rewrite E1, E2 in *.
    change (hole_name ctx nm) with (ename (Dir (hole_name ctx nm) e2)) at 1.
    apply frame_congr; auto; try discriminate.
Qed.

(* ------------------------------------------------------------------------------------------ *)
(* writing out: files only ever get added *)
Definition has (p : list str) (st : fs) : Prop := In p (map fst (f_files st)).
Definition grows (st st' : fs) : Prop := forall p, has p st -> has p st'.

Lemma path_eqb_eq a b : path_eqb a b = true <-> a = b.
Proof. apply list_eqb_eq. apply str_eqb_eq. Qed.

Lemma file_at_has p l : (exists o, file_at p l = Some o) <-> In p (map fst l).
Proof.
  induction l as [|[q o] l IH]; simpl.
  - split; [intros [? H]; discriminate|tauto].
  - destruct (path_eqb p q) eqn:E.
    + apply path_eqb_eq in E. subst. split; eauto.
    + rewrite IH. split; auto. intros [H|H]; auto. subst.
      assert (path_eqb p p = true) by now apply path_eqb_eq. congruence.
Qed.

Lemma grows_refl st : grows st st.
Proof. intros p H. exact H. Qed.
Lemma grows_trans a b c : grows a b -> grows b c -> grows a c.
Proof. intros H1 H2 p H. auto. Qed.

Lemma grows_mkdir p st : grows st (mkdir p st).
Proof. unfold mkdir. destruct (dir_exists p st); intros q H; exact H. Qed.
Lemma grows_add_file p o st : grows st (add_file p o st).
Proof. intros q H. unfold has, add_file. simpl. now right. Qed.
Lemma has_add_file p o st : has p (add_file p o st).
Proof. unfold has, add_file. simpl. now left. Qed.
Lemma grows_copy_file loc st f : grows st (copy_file loc st f).
Proof. apply grows_add_file. Qed.
Lemma grows_copy_item root loc st item : grows st (copy_item root loc st item).
Proof.
  unfold copy_item. destruct (dir_at loc root) as [es|]; [|apply grows_refl].
  destruct (find_entry item es) as [[? ? ? ?|d sub]|]; try apply grows_refl.
  destruct (dir_exists (loc ++ [item]) st); [apply grows_refl|].
  intros q H. unfold has. simpl. rewrite map_app, in_app_iff. now right.
Qed.

Lemma grows_fold {A} (f : fs -> A -> fs) l :
  (forall st x, grows st (f st x)) -> forall st, grows st (fold_left f l st).
Proof.
  intros Hf. induction l as [|x l IH]; intros st; simpl; [apply grows_refl|].
  eapply grows_trans; [apply Hf|apply IH].
Qed.

Lemma grows_write_node root st n : grows st (write_node root st n).
Proof.
  unfold write_node.
  eapply grows_trans; [|apply grows_fold; apply grows_copy_file].
  eapply grows_trans; [|apply grows_fold; apply grows_copy_item].
  eapply grows_trans; [|apply grows_add_file].
  destruct (is_index_file (n_file n)); [apply grows_mkdir|apply grows_refl].
Qed.

Lemma grows_write_nodes root ns st : grows st (write_nodes root ns st).
Proof. apply grows_fold. intros. apply grows_write_node. Qed.

Lemma has_fold_copy_file loc fl f : In f fl -> forall st, has (loc ++ [f]) (fold_left (copy_file loc) fl st).
Proof.
  induction fl as [|g fl IH]; intros H st; [destruct H|]. destruct H as [->|H]; simpl.
  - apply (grows_fold (copy_file loc)); [intros; apply grows_copy_file|]. apply has_add_file.
  - now apply IH.
Qed.

Lemma write_node_page root st n : has (out_path n) (write_node root st n).
Proof.
  unfold write_node.
  apply (grows_fold (copy_file (n_loc n))); [intros; apply grows_copy_file|].
  apply (grows_fold (copy_item root (n_loc n))); [intros; apply grows_copy_item|].
  apply has_add_file.
Qed.

Lemma write_node_files root st n f : In f (n_files n) -> has (n_loc n ++ [f]) (write_node root st n).
Proof. intros H. unfold write_node. now apply has_fold_copy_file. Qed.

Lemma write_nodes_in root ns n :
  In n ns -> forall st,
    has (out_path n) (write_nodes root ns st) /\
    forall f, In f (n_files n) -> has (n_loc n ++ [f]) (write_nodes root ns st).
Proof.
  unfold write_nodes. induction ns as [|m ns IH]; intros H st; [destruct H|].
  destruct H as [->|H]; simpl.
  - split; [|intros f Hf]; apply (grows_write_nodes root ns).
    + apply write_node_page.
    + now apply write_node_files.
  - now apply IH.
Qed.

(* what sits at a path is a rendered page or the copy of the source file of that very path *)
Definition origin_ok (po : list str * origin) : Prop :=
  match snd po with Copy q => q = fst po | Page _ => True end.
Definition origins_ok (st : fs) : Prop := Forall origin_ok (f_files st).

Lemma origins_copy_item root loc st item : origins_ok st -> origins_ok (copy_item root loc st item).
Proof.
  unfold copy_item. intros H. destruct (dir_at loc root) as [es|]; auto.
  destruct (find_entry item es) as [[? ? ? ?|d sub]|]; auto.
  destruct (dir_exists (loc ++ [item]) st); auto.
  unfold origins_ok. simpl. apply Forall_app. split; auto.
  apply Forall_rev. apply Forall_forall. intros po Hpo.
  apply in_map_iff in Hpo as (p & <- & _). reflexivity.
Qed.

Lemma origins_fold {A} (f : fs -> A -> fs) l :
  (forall st x, origins_ok st -> origins_ok (f st x)) ->
  forall st, origins_ok st -> origins_ok (fold_left f l st).
Proof.
  intros Hf. induction l as [|x l IH]; intros st H; simpl; auto.
Qed.

Lemma origins_write_node root st n : origins_ok st -> origins_ok (write_node root st n).
Proof.
  intros H. unfold write_node.
  apply origins_fold. { intros s0 f H0. constructor; auto. reflexivity. }
  apply origins_fold. { intros. now apply origins_copy_item. }
  constructor; [exact I|].
  destruct (is_index_file (n_file n)); auto. unfold mkdir. destruct (dir_exists _ _); auto.
Qed.

Lemma origins_writeout root r : origins_ok (writeout root r).
Proof.
  unfold writeout, write_nodes. apply origins_fold.
  - intros. now apply origins_write_node.
  - constructor.
Qed.

Lemma file_at_origin p l o :
  Forall origin_ok l -> file_at p l = Some o -> o = Copy p \/ exists src, o = Page src.
Proof.
  induction 1 as [|[q o'] l Hq Hl IH]; simpl; [discriminate|].
  destruct (path_eqb p q) eqn:E; auto.
  intros [= <-]. apply path_eqb_eq in E. subst.
  unfold origin_ok in Hq. simpl in Hq. destruct o'; eauto. left. now subst.
Qed.

Theorem pages_written root r n :
  In n (res_nodes r) ->
  exists o, file_at (out_path n) (f_files (writeout root r)) = Some o.
Proof.
  intros H. apply file_at_has. unfold writeout.
  destruct (write_nodes_in root (res_nodes r) n H fs0) as [X _]. exact X.
Qed.

Theorem files_copied_beside root r n f :
  In n (res_nodes r) -> In f (n_files n) ->
  exists o, file_at (n_loc n ++ [f]) (f_files (writeout root r)) = Some o /\
            (o = Copy (n_loc n ++ [f]) \/ exists src, o = Page src).
Proof.
  intros H Hf.
  assert (X : exists o, file_at (n_loc n ++ [f]) (f_files (writeout root r)) = Some o).
  { apply file_at_has. unfold writeout.
    destruct (write_nodes_in root (res_nodes r) n H fs0) as [_ X]. exact (X f Hf). }
  destruct X as [o Ho]. exists o. split; auto.
  exact (file_at_origin _ _ _ (origins_writeout root r) Ho).
Qed.

(* ------------------------------------------------------------------------------------------ *)
(* the other files of every page directory are among the files of the nodes *)
Lemma in_merged ord es n :
  NoDup (map ename es) -> In n (map ename es) -> n <> idx ->
  In n (merged (ordered_of ord) (listing es)).
Proof.
  intros Hnd Hn Hi. rewrite order_documented by auto. apply filter_In. split.
  - unfold spec_order. apply in_app_iff. destruct (str_in n ord) eqn:E.
    + left. apply dedup_in. now apply str_in_iff.
    + right. apply sort_in, filter_In. split; auto. now rewrite E.
  - unfold not_idx. apply negb_true_iff, str_eqb_neq. congruence.
Qed.

Lemma in_v_files f vs : In (VFile f) vs -> In f (v_files vs).
Proof. intros H. unfold v_files. apply in_flat_map. exists (VFile f). split; auto. now left. Qed.
Lemma in_v_subs x vs : In (VSub x) vs -> In x (v_subs vs).
Proof. intros H. unfold v_subs. apply in_flat_map. exists (VSub x). split; auto. now left. Qed.

Lemma spec_copied_dir proj loc d es :
  spec_copied proj loc (Dir d es) =
  match titled_index es with
  | None => []
  | Some (_, cp) =>
    map (fun x => loc ++ [ename x]) (filter plain_file es)
      ++ flat_map (fun x => match x with
                            | Dir n _ =>
                              if visible n && negb (str_in n (eff_copy proj cp))
                              then spec_copied proj (loc ++ [n]) x else []
                            | File _ _ _ _ => []
                            end) es
  end.
Proof. reflexivity. Qed.

Lemma preorder_node a b c d e f subs :
  preorder (Node a b c d e f subs) = Node a b c d e f subs :: flat_map preorder subs.
Proof. reflexivity. Qed.

Definition copied_at (proj : list str) (e : entry) : Prop :=
  forall d es, e = Dir d es -> forall pc loc,
    wf_tree e = true -> gpt proj pc loc e <> RErr ->
    forall p, In p (spec_copied proj loc e) ->
    exists n f, In n (res_nodes (gpt proj pc loc e)) /\ In f (n_files n) /\ p = n_loc n ++ [f].

Lemma copied_all proj e : copied_at proj e.
Proof.
  induction e as [|d0 es0 IH] using entry_ind'; intros d es E pc loc Hwf Hne p Hp;
    [discriminate|].
  injection E as -> ->.
  rewrite spec_copied_dir in Hp. rewrite gpt_dir in *.
  destruct (titled_index es) as [[ord cp]|] eqn:TI; [|destruct Hp].
  cbv zeta in *.
  set (copy := eff_copy proj cp) in *.
  set (sub := map (fun x => (ename x, gpt proj (Some copy) (loc ++ [ename x]) x)) es) in *.
  set (M := merged (ordered_of ord) (listing es)) in *.
  destruct (v_err (map (visit_name proj (Some copy) loc es sub) M)) eqn:VE; [congruence|].
  apply wf_dir in Hwf as [Hnd Hwf].
  unfold res_nodes. rewrite preorder_node.
  apply in_app_iff in Hp as [Hp|Hp].
  - (* a plain file of this directory *)
    apply in_map_iff in Hp as (x & <- & Hx). apply filter_In in Hx as [Hin Hpl].
    destruct x as [f t o c|]; [|discriminate]. simpl in Hpl. simpl ename.
    apply andb_true_iff in Hpl as [Hvis Hmd].
    rewrite <- is_md_spec in Hmd. apply negb_true_iff in Hmd.
    assert (Hfi : f <> idx) by (intros ->; vm_compute in Hmd; discriminate).
    assert (HM : In f M).
    { apply in_merged; auto. change f with (ename (File f t o c)). now apply in_map. }
    eexists. exists f. split; [left; reflexivity|]. split; [|reflexivity]. simpl.
    apply in_v_files. apply in_map_iff. exists f. split; auto.
    rewrite visit_name_vis by auto.
    pose proof (find_entry_in es _ Hnd Hin) as FE. simpl in FE. rewrite FE. now rewrite Hmd.
  - (* inside a sub-directory *)
    apply in_flat_map in Hp as (x & Hin & Hp).
    destruct x as [|n des]; [destruct Hp|].
    destruct (visible n && negb (str_in n copy)) eqn:C; [|destruct Hp].
    apply andb_true_iff in C as [Hvis Hpc]. apply negb_true_iff in Hpc.
    pose proof (find_entry_in es _ Hnd Hin) as FE. simpl in FE.
    assert (Hni : n <> idx).
    { intros ->. unfold titled_index in TI. rewrite FE in TI. discriminate. }
    assert (HM : In n M).
    { apply in_merged; auto. change n with (ename (Dir n des)). now apply in_map. }
    assert (HV : In (visit_name proj (Some copy) loc es sub n)
                    (map (visit_name proj (Some copy) loc es sub) M))
      by now apply in_map.
    pose proof (v_err_false _ _ VE HV) as Hv.
    rewrite visit_name_vis in HV, Hv by auto. simpl in_opt in HV, Hv. rewrite FE, Hpc in HV, Hv.
    unfold sub in HV, Hv. rewrite assoc_map_find, FE in HV, Hv. simpl in HV, Hv.
    rewrite Forall_forall in IH.
    assert (G : gpt proj (Some copy) (loc ++ [n]) (Dir n des) <> RErr).
    { intros G. rewrite G in Hv. congruence. }
    destruct (IH _ Hin n des eq_refl (Some copy) (loc ++ [n]) (Hwf _ Hin) G p Hp)
      as (nd & f & Hnd' & Hf & ->).
    exists nd, f. split; [|auto].
    destruct (gpt proj (Some copy) (loc ++ [n]) (Dir n des)) as [| |ndx];
      [destruct Hnd'|destruct Hnd'|].
    right. apply in_flat_map. exists ndx. split; [apply in_v_subs; exact HV|exact Hnd'].
Qed.

(* ------------------------------------------------------------------------------------------ *)
(* C17_copy_subdir: which sub-directories are skipped *)

(* a sub-directory becomes a sub-tree exactly when the index.md of its own directory does not
   name it in copy_subdir (own metadata, else the project list) and it has a usable index.md *)
Theorem copy_subdir_skip proj pc loc d es nd n des :
  NoDup (map ename es) ->
  gpt proj pc loc (Dir d es) = RNode nd ->
  find_entry n es = Some (Dir n des) -> visible n = true -> n <> idx ->
  (In n (map n_name (n_subs nd)) <->
   str_in n (n_copy nd) = false /\
   exists x, gpt proj (Some (n_copy nd)) (loc ++ [n]) (Dir n des) = RNode x).
Proof.
  intros Hnd G FE Hvis Hni.
  rewrite (order_model proj pc loc d es nd Hnd G), filter_In.
  assert (HM : In n (dedup (n_ordered nd ++ listing es))).
  { pose proof G as G'. rewrite gpt_dir in G'.
    destruct (titled_index es) as [[ord cp]|]; [|discriminate]. cbv zeta in G'.
    destruct (v_err _); [discriminate|]. injection G' as <-. simpl.
    rewrite <- merged_dedup by now apply listing_nodup.
    apply in_merged; auto. apply find_entry_name in FE as [_ FE].
    change n with (ename (Dir n des)). now apply in_map. }
  unfold yields_page. rewrite Hvis, FE. simpl andb.
  destruct (str_in n (n_copy nd)); simpl.
  - split; [intros [_ H]; discriminate|intros [H _]; discriminate].
  - destruct (gpt proj (Some (n_copy nd)) (loc ++ [n]) (Dir n des)) as [| |x].
    + split; [intros [_ H]; discriminate|intros [_ [x H]]; discriminate].
    + split; [intros [_ H]; discriminate|intros [_ [x H]]; discriminate].
    + split; eauto.
Qed.

(* the former witnesses of the three repaired defects, kept as regression examples *)
Definition T_ (n : string) : entry := File (s n) true [] [].
Definition w_top_named : list entry :=
  [File idx true [] [s "images"]; Dir (s "images") [T_ "index.md"; T_ "p.md"]].
Definition w_gp : list entry :=
  [File idx true [] [s "images"];
   Dir (s "sub") [File idx true [] [s "other"];
                  Dir (s "images") [T_ "index.md"; T_ "p.md"];
                  Dir (s "other") [File (s "o.txt") false [] []]]].
Definition w_dotted : list entry := [T_ "index.md"; T_ "v1.2.md"; T_ "v1.md"].

Example regression_witnesses :
  map snd (pages (page_tree [] w_gp)) =
    [[s "index.html"]; [s "sub"; s "index.html"]; [s "sub"; s "images"; s "index.html"];
     [s "sub"; s "images"; s "p.html"]] /\
  map snd (pages (page_tree [] w_top_named)) = [[s "index.html"]] /\
  map snd (pages (page_tree [] w_dotted)) = [[s "index.html"]; [s "v1.2.html"]; [s "v1.html"]].
Proof. repeat split; reflexivity. Qed.

(* C17_mirror, full: for every page directory that get_page_tree accepts *)
Theorem mirror_full proj es :
  wf_tree (Dir [] es) = true -> page_tree proj es <> RErr ->
  pages (page_tree proj es) = spec_pages only_copied proj [] (Dir [] es).
Proof. intros. unfold page_tree. now apply (mirror_all proj (Dir [] es) [] es eq_refl). Qed.

Theorem pages_nodup proj es :
  wf_tree (Dir [] es) = true -> page_tree proj es <> RErr ->
  NoDup (map snd (pages (page_tree proj es))).
Proof.
  intros Hwf Hne.
  rewrite (mirror_full proj es Hwf Hne).
  now apply (outs_ok_all only_copied proj (Dir [] es) [] es eq_refl []).
Qed.

(* ------------------------------------------------------------------------------------------ *)
(* non-vacuity examples *)
Definition ex_tree : list entry :=
  [File (s "b.md") true [] []; File (s "notes.txt") false [] [];
   File idx true [s "sub"; s "b.md"; s "sub"] [s "img"];
   File (s "a.md") true [] []; File (s "bad.md") false [] []; File (s ".hidden.md") true [] [];
   Dir (s "img") [File (s "x.png") false [] []];
   Dir (s "sub") [File idx true [] []; File (s "deep.md") true [] [];
                  Dir (s "more") [File idx true [] []; File (s "z.md") true [] []]]].

Example ex_tree_hyps :
  wf_tree (Dir [] ex_tree) = true /\ page_tree [] ex_tree <> RErr /\
  map snd (pages (page_tree [] ex_tree)) =
  [[s "index.html"]; [s "sub"; s "index.html"]; [s "sub"; s "deep.html"];
   [s "sub"; s "more"; s "index.html"]; [s "sub"; s "more"; s "z.html"];
   [s "b.html"]; [s "a.html"]].
Proof.
  repeat split; try reflexivity. intros H. vm_compute in H. discriminate.
Qed.

Definition ex_ctx : list frame := [Frame [] [T_ "index.md"; T_ "a.md"] [T_ "t.md"]].
Definition ex_hole (titled : bool) : entry :=
  Dir (s "sub") ([T_ "index.md"] ++ File (s "bad.md") titled [] [] :: [T_ "ok.md"]).

Example ex_isolated :
  s "bad.md" <> idx /\ ~ In (s "bad.md") (map ename [T_ "index.md"]) /\
  ctx_ok ex_ctx (s "sub") = true /\
  map fst (pages (gpt [] None [] (plug ex_ctx (ex_hole true)))) =
    [[s "index.md"]; [s "a.md"]; [s "sub"; s "index.md"]; [s "sub"; s "bad.md"];
     [s "sub"; s "ok.md"]; [s "t.md"]] /\
  map fst (pages (gpt [] None [] (plug ex_ctx (ex_hole false)))) =
    [[s "index.md"]; [s "a.md"]; [s "sub"; s "index.md"]; [s "sub"; s "ok.md"]; [s "t.md"]].
Proof.
  repeat split; try reflexivity.
  - intros H. vm_compute in H. discriminate.
  - intros [H|[]]. vm_compute in H. discriminate.
Qed.

(* ------------------------------------------------------------------------------------------ *)
(* copy_subdir: one copytree *)
Lemma copy_item_copies root loc st item es sub :
  dir_exists (loc ++ [item]) st = false ->
  dir_at loc root = Some es -> find_entry item es = Some (Dir item sub) ->
  forall p, In p (all_files (Dir item sub)) -> has (loc ++ p) (copy_item root loc st item).
Proof.
  intros Hex Hd Hf p Hp. unfold copy_item. rewrite Hd, Hf, Hex.
  unfold has. simpl. rewrite map_app, in_app_iff. left.
  rewrite map_rev, <- in_rev, map_map. simpl.
  apply in_map_iff. exists p. auto.
Qed.

Theorem files_copied_beside_spec proj es p :
  wf_tree (Dir [] es) = true -> page_tree proj es <> RErr ->
  In p (spec_copied proj [] (Dir [] es)) ->
  exists o, file_at p (f_files (writeout es (page_tree proj es))) = Some o /\
            (o = Copy p \/ exists src, o = Page src).
Proof.
  intros Hwf Hne Hp.
  destruct (copied_all proj (Dir [] es) [] es eq_refl None [] Hwf Hne p Hp)
    as (n & f & Hn & Hf & ->).
  exact (files_copied_beside es (page_tree proj es) n f Hn Hf).
Qed.

(* ------------------------------------------------------------------------------------------ *)
(* copy_subdir over a whole run: the directories named by the copy_subdir list of an index.md
   are completely present below <output>/page at the end, whatever was written before
   (copytree refuses an existing destination) *)
Definition made (q : list str) (st : fs) : Prop := In (q, Made) (f_dirs st).
Definition copied (q : list str) (st : fs) : Prop := In (q, Copied) (f_dirs st).

Lemma dir_exists_iff p st : dir_exists p st = true <-> made p st \/ copied p st.
Proof.
  unfold dir_exists, made, copied. rewrite existsb_exists. split.
  - intros ([q k] & Hin & E). simpl in E. apply path_eqb_eq in E. subst q.
    destruct k; auto.
  - intros [H|H]; eexists; (split; [exact H|]); simpl; now apply path_eqb_eq.
Qed.

(* every source file below the source directory with path q is present *)
Definition complete (root : list entry) (q : list str) (st : fs) : Prop :=
  forall parent nm es sub, q = parent ++ [nm] -> dir_at parent root = Some es ->
    find_entry nm es = Some (Dir nm sub) ->
    forall p, In p (all_files (Dir nm sub)) -> has (parent ++ p) st.
Definition inv (root : list entry) (st : fs) : Prop :=
  forall q, copied q st -> complete root q st.

Lemma complete_grows root q st st' : complete root q st -> grows st st' -> complete root q st'.
Proof. intros H G parent nm es sub E D F p Hp. apply G. eapply H; eauto. Qed.

Lemma inv_same root st st' :
  inv root st -> grows st st' -> (forall q, copied q st' -> copied q st) -> inv root st'.
Proof. intros H G C q Hq. eapply complete_grows; eauto. Qed.

Lemma dir_at_app a b root :
  dir_at (a ++ b) root = match dir_at a root with Some es => dir_at b es | None => None end.
Proof.
  revert root; induction a as [|d a IH]; intros root; simpl; auto.
  destruct (find_entry d root) as [[? ? ? ?|? es']|]; auto.
Qed.

Lemma all_files_nested r : forall sub es3 nm sub3 p3,
  dir_at r sub = Some es3 -> find_entry nm es3 = Some (Dir nm sub3) ->
  In p3 (all_files (Dir nm sub3)) -> In (r ++ p3) (flat_map all_files sub).
Proof.
  induction r as [|d1 r IH]; intros sub es3 nm sub3 p3 Hd Hf Hp; simpl in *.
  - injection Hd as <-. apply find_entry_name in Hf as [_ Hin].
    apply in_flat_map. eauto.
  - destruct (find_entry d1 sub) as [[? ? ? ?|d1' sub1]|] eqn:F1; try discriminate.
    pose proof (find_entry_name _ _ _ F1) as [E1 Hin1]. simpl in E1. subst d1'.
    apply in_flat_map. exists (Dir d1 sub1). split; auto.
    simpl. apply in_map. eapply IH; eauto.
Qed.

Lemma all_dirs_head n sub p : In p (all_dirs (Dir n sub)) -> exists r, p = n :: r.
Proof.
  simpl. intros [<-|H]; eauto. apply in_map_iff in H as (r & <- & _). eauto.
Qed.

Lemma has_new_files loc item sub st p :
  In p (all_files (Dir item sub)) ->
  In (loc ++ p)
     (map fst (rev (map (fun p => (loc ++ p, Copy (loc ++ p))) (all_files (Dir item sub)))
               ++ f_files st)).
Proof.
  intros Hp. rewrite map_app, in_app_iff. left.
  rewrite map_rev, <- in_rev, map_map. simpl. apply in_map_iff. eauto.
Qed.

Lemma inv_copy_item root loc st item : inv root st -> inv root (copy_item root loc st item).
Proof.
  intros Hinv. unfold copy_item.
  destruct (dir_at loc root) as [es|] eqn:Hd; auto.
  destruct (find_entry item es) as [[? ? ? ?|d sub]|] eqn:Hf; auto.
  destruct (dir_exists (loc ++ [item]) st) eqn:Hex; auto.
  pose proof (find_entry_name _ _ _ Hf) as [Ed _]. simpl in Ed. subst d.
  intros q Hq. unfold copied in Hq. cbn [f_dirs] in Hq. apply in_app_iff in Hq as [Hq|Hq].
  - apply in_map_iff in Hq as (p' & Eq & Hp'). injection Eq as <-.
    apply all_dirs_head in Hp' as [r' ->].
    intros parent nm es2 sub2 E D2 F2 p3 Hp3. unfold has. cbn [f_files].
    destruct r' as [|nm' r'' _] using rev_ind.
    + (* the copied directory itself *)
      apply app_inj_tail in E as [<- <-].
      rewrite Hd in D2. injection D2 as <-. rewrite Hf in F2. injection F2 as <-.
      now apply has_new_files.
    + (* a nested directory of the copied one *)
      assert (E' : (loc ++ item :: r'') ++ [nm'] = parent ++ [nm])
        by (rewrite <- E, <- app_assoc; reflexivity).
      apply app_inj_tail in E' as [<- <-].
      rewrite dir_at_app, Hd in D2. simpl in D2. rewrite Hf in D2.
      pose proof (all_files_nested r'' sub es2 nm' sub2 p3 D2 F2 Hp3) as X.
      replace ((loc ++ item :: r'') ++ p3) with (loc ++ (item :: r'' ++ p3))
        by (rewrite <- app_assoc; reflexivity).
      apply has_new_files. simpl. now apply in_map.
  - eapply complete_grows; [apply Hinv; exact Hq|].
    intros p Hp. unfold has. cbn [f_files]. rewrite map_app, in_app_iff. now right.
Qed.

Lemma copied_mkdir q p st : copied q (mkdir p st) -> copied q st.
Proof.
  unfold mkdir, copied. destruct (dir_exists p st); auto. simpl. intros [H|H]; [discriminate|auto].
Qed.
Lemma made_mkdir q p st : made q (mkdir p st) -> made q st \/ q = p.
Proof.
  unfold mkdir, made. destruct (dir_exists p st); auto. simpl. intros [[= <-]|H]; auto.
Qed.
Lemma made_copy_item root loc st item q : made q (copy_item root loc st item) -> made q st.
Proof.
  unfold copy_item, made.
  destruct (dir_at loc root) as [es|]; auto.
  destruct (find_entry item es) as [[? ? ? ?|d sub]|]; auto.
  destruct (dir_exists (loc ++ [item]) st); auto.
  cbn [f_dirs]. rewrite in_app_iff. intros [H|H]; auto.
  apply in_map_iff in H as (? & H & _). discriminate.
Qed.

Lemma inv_mkdir root p st : inv root st -> inv root (mkdir p st).
Proof.
  intros H. eapply inv_same; eauto; [apply grows_mkdir|]. intros q. apply copied_mkdir.
Qed.
Lemma inv_add_file root p o st : inv root st -> inv root (add_file p o st).
Proof. intros H. eapply inv_same; eauto. apply grows_add_file. Qed.

Definition copied_ok (root : list entry) (st : fs) (n : node) : Prop :=
  forall item es sub, In item (n_copy n) -> dir_at (n_loc n) root = Some es ->
    find_entry item es = Some (Dir item sub) ->
    forall p, In p (all_files (Dir item sub)) -> has (n_loc n ++ p) st.

Lemma copied_ok_grows root st st' n : copied_ok root st n -> grows st st' -> copied_ok root st' n.
Proof. intros H G item es sub Hi Hd Hf p Hp. apply G. eapply H; eauto. Qed.

Lemma fold_copy_items root loc l : forall st,
  inv root st -> (forall item, In item l -> ~ made (loc ++ [item]) st) ->
  inv root (fold_left (copy_item root loc) l st) /\
  (forall q, made q (fold_left (copy_item root loc) l st) -> made q st) /\
  forall item es sub, In item l -> dir_at loc root = Some es ->
    find_entry item es = Some (Dir item sub) ->
    forall p, In p (all_files (Dir item sub)) ->
              has (loc ++ p) (fold_left (copy_item root loc) l st).
Proof.
  induction l as [|i0 l IH]; intros st Hinv Hm; cbn [fold_left].
  - split; auto. split; auto. intros ? ? ? [].
  - assert (A1 : inv root (copy_item root loc st i0)) by now apply inv_copy_item.
    assert (A2 : forall item, In item l -> ~ made (loc ++ [item]) (copy_item root loc st i0)).
    { intros item Hi Hmade. apply made_copy_item in Hmade. apply (Hm item); [now right|exact Hmade]. }
    destruct (IH (copy_item root loc st i0) A1 A2) as (I1 & I2 & I3).
    split; auto. split.
    { intros q Hq. apply I2 in Hq. now apply made_copy_item in Hq. }
    intros item es sub [<-|Hi] Hd Hf p Hp; [|eapply I3; eauto].
    apply (grows_fold (copy_item root loc)); [intros; apply grows_copy_item|].
    destruct (dir_exists (loc ++ [i0]) st) eqn:Hex.
    + apply dir_exists_iff in Hex as [Hex|Hex].
      * exfalso. apply (Hm i0); [now left|exact Hex].
      * apply grows_copy_item. eapply (Hinv _ Hex loc i0); eauto.
    + eapply copy_item_copies; eauto.
Qed.

Lemma fold_copy_files_dirs loc l : forall st,
  f_dirs (fold_left (copy_file loc) l st) = f_dirs st.
Proof. induction l as [|f l IH]; intros st; simpl; auto. now rewrite IH. Qed.

Lemma write_node_inv root st n :
  inv root st -> (forall item, ~ made (n_loc n ++ [item]) st) ->
  inv root (write_node root st n) /\
  (forall q, made q (write_node root st n) -> made q st \/ q = n_loc n) /\
  copied_ok root (write_node root st n) n.
Proof.
  intros Hinv Hfresh. unfold write_node.
  set (st1 := if is_index_file (n_file n) then mkdir (n_loc n) st else st).
  assert (I1 : inv root st1) by (unfold st1; destruct (is_index_file _); auto using inv_mkdir).
  assert (M1 : forall q, made q st1 -> made q st \/ q = n_loc n).
  { unfold st1. destruct (is_index_file _); auto. intros q. apply made_mkdir. }
  set (st2 := add_file (out_path n) (Page (src_path n)) st1).
  assert (I2 : inv root st2) by now apply inv_add_file.
  assert (M2 : forall q, made q st2 -> made q st \/ q = n_loc n) by (intros q; apply M1).
  assert (F2 : forall item, In item (n_copy n) -> ~ made (n_loc n ++ [item]) st2).
  { intros item _ Hm. apply M2 in Hm as [Hm|Hm]; [eapply Hfresh; eauto|].
    apply (f_equal (@length _)) in Hm. rewrite app_length in Hm. simpl in Hm. lia. }
  destruct (fold_copy_items root (n_loc n) (n_copy n) st2 I2 F2) as (I3 & M3 & C3).
  set (st3 := fold_left (copy_item root (n_loc n)) (n_copy n) st2) in *.
  assert (G : grows st3 (fold_left (copy_file (n_loc n)) (n_files n) st3))
    by (apply grows_fold; intros; apply grows_copy_file).
  split; [|split].
  - eapply inv_same; eauto. intros q. unfold copied. now rewrite fold_copy_files_dirs.
  - intros q. unfold made. rewrite fold_copy_files_dirs. intros Hq. apply M2. now apply M3.
  - intros item es sub Hi Hd Hf p Hp. apply G. eapply C3; eauto.
Qed.

(* writing a whole node tree, recursively = folding write_node over the pre-order *)
Fixpoint write_tree (root : list entry) (st : fs) (nd : node) {struct nd} : fs :=
  match nd with
  | Node _ _ _ _ _ _ subs =>
    fold_left (fun st x => write_tree root st x) subs (write_node root st nd)
  end.

Lemma fold_left_flat_map {A B C} (f : A -> B -> A) (g : C -> list B) l : forall a,
  fold_left f (flat_map g l) a = fold_left (fun a x => fold_left f (g x) a) l a.
Proof.
  induction l as [|x l IH]; intros a; simpl; auto. now rewrite fold_left_app, IH.
Qed.

Lemma fold_left_ext_in {A B} (f g : A -> B -> A) l :
  (forall a x, In x l -> f a x = g a x) -> forall a, fold_left f l a = fold_left g l a.
Proof.
  induction l as [|x l IH]; intros H a; simpl; auto.
  rewrite (H a x) by now left. apply IH. intros. apply H. now right.
Qed.

Lemma write_tree_preorder root nd : forall st,
  write_nodes root (preorder nd) st = write_tree root st nd.
Proof.
  induction nd as [a b c d e f subs IH] using node_ind'. intros st.
  rewrite preorder_node. unfold write_nodes. cbn [fold_left write_tree].
  rewrite fold_left_flat_map. apply fold_left_ext_in.
  intros st' x Hx. rewrite Forall_forall in IH. apply (IH x Hx).
Qed.

(* shape of the node trees that get_page_tree builds *)
Inductive nwf : node -> Prop :=
| nwf_node a b loc d e f subs :
    NoDup (map n_name subs) ->
    Forall (fun x => (n_file x <> idx /\ n_subs x = [] /\ n_loc x = loc) \/
                     (n_file x = idx /\ n_loc x = loc ++ [n_name x] /\ nwf x)) subs ->
    nwf (Node a b loc d e f subs).

Lemma in_v_subs_inv x vs : In x (v_subs vs) -> In (VSub x) vs.
Proof.
  unfold v_subs. intros H. apply in_flat_map in H as (v & Hv & H).
  destruct v as [| |n|f]; simpl in H; try contradiction. destruct H as [<-|[]]. exact Hv.
Qed.

Definition nwf_at (proj : list str) (e : entry) : Prop :=
  forall d es, e = Dir d es -> forall pc loc nd,
    wf_tree e = true -> gpt proj pc loc e = RNode nd -> nwf nd.

Lemma gpt_nwf proj e : nwf_at proj e.
Proof.
  induction e as [|d0 es0 IH] using entry_ind'; intros d es E pc loc nd Hwf G; [discriminate|].
  injection E as -> ->.
  apply wf_dir in Hwf as [Hnd Hwf].
  rewrite gpt_dir in G. destruct (titled_index es) as [[ord cp]|]; [|discriminate].
  cbv zeta in G.
  set (copy := eff_copy proj cp) in *.
  set (sub := map (fun x => (ename x, gpt proj (Some copy) (loc ++ [ename x]) x)) es) in *.
  set (M := merged (ordered_of ord) (listing es)) in *.
  destruct (v_err _); [discriminate|]. injection G as <-.
  constructor.
  - unfold sub. rewrite (subs_names proj (Some copy) loc es copy). apply filter_nodup. now apply merged_nodup.
  - apply Forall_forall. intros x Hx.
    apply in_v_subs_inv, in_map_iff in Hx as (n & Hv & Hn).
    assert (Hni : n <> idx).
    { unfold M in Hn. rewrite order_documented in Hn by auto.
      apply filter_In in Hn as [_ Hn]. unfold not_idx in Hn.
      apply negb_true_iff, str_eqb_neq in Hn. congruence. }
    destruct (visible n) eqn:Hvis.
    2:{ destruct (visit_name_invis proj (Some copy) loc es sub n Hvis) as [X|X]; congruence. }
    rewrite visit_name_vis in Hv by auto.
    unfold sub in Hv. rewrite assoc_map_find in Hv.
    destruct (find_entry n es) as [y|] eqn:FE; [|discriminate].
    apply find_entry_name in FE as [En Hin].
    destruct y as [f t o c|dn des]; simpl in En; subst.
    + destruct (is_md n); [|discriminate]. destruct t; [|discriminate].
      injection Hv as <-. left. simpl. auto.
    + simpl in Hv. destruct (str_in n copy); [discriminate|].
      destruct (gpt proj (Some copy) (loc ++ [n]) (Dir n des)) as [| |ndx] eqn:G; try discriminate.
      injection Hv as <-. right.
      pose proof (gpt_node_fields _ _ _ _ _ _ G) as (F1 & F2 & F3).
      rewrite F1, F2, F3. split; auto. split; auto.
      rewrite Forall_forall in IH. eapply (IH _ Hin n des eq_refl); eauto.
Qed.

Lemma fold_copy_items_inv root loc l : forall st,
  inv root st ->
  inv root (fold_left (copy_item root loc) l st) /\
  (forall q, made q (fold_left (copy_item root loc) l st) -> made q st).
Proof.
  induction l as [|i0 l IH]; intros st Hinv; cbn [fold_left]; auto.
  destruct (IH (copy_item root loc st i0) (inv_copy_item root loc st i0 Hinv)) as (I1 & I2).
  split; auto. intros q Hq. apply I2 in Hq. now apply made_copy_item in Hq.
Qed.

Lemma write_node_inv0 root st n :
  inv root st ->
  inv root (write_node root st n) /\
  (forall q, made q (write_node root st n) -> made q st \/ q = n_loc n).
Proof.
  intros Hinv. unfold write_node.
  set (st1 := if is_index_file (n_file n) then mkdir (n_loc n) st else st).
  assert (I1 : inv root st1) by (unfold st1; destruct (is_index_file _); auto using inv_mkdir).
  assert (M1 : forall q, made q st1 -> made q st \/ q = n_loc n).
  { unfold st1. destruct (is_index_file _); auto. intros q. apply made_mkdir. }
  set (st2 := add_file (out_path n) (Page (src_path n)) st1).
  assert (I2 : inv root st2) by now apply inv_add_file.
  destruct (fold_copy_items_inv root (n_loc n) (n_copy n) st2 I2) as (I3 & M3).
  set (st3 := fold_left (copy_item root (n_loc n)) (n_copy n) st2) in *.
  split.
  - eapply inv_same; eauto.
    + apply grows_fold. intros. apply grows_copy_file.
    + intros q. unfold copied. now rewrite fold_copy_files_dirs.
  - intros q. unfold made. rewrite fold_copy_files_dirs. intros Hq. apply M1. now apply M3.
Qed.

Definition below (L q : list str) : Prop := exists r, r <> [] /\ q = L ++ r.
Definition under (L q : list str) : Prop := exists r, q = L ++ r.
Definition fresh (L : list str) (st : fs) : Prop := forall q, made q st -> ~ below L q.

Lemma below_app L c q : below (L ++ [c]) q -> below L q.
Proof.
  intros (r & Hr & ->). exists (c :: r). split; [discriminate|]. now rewrite <- app_assoc.
Qed.
Lemma not_below_self L : ~ below L L.
Proof.
  intros (r & Hr & E). apply Hr. rewrite <- (app_nil_r L) in E at 1.
  apply app_inv_head in E. auto.
Qed.
Lemma below_sib L c s q : below (L ++ [c]) q -> under (L ++ [s]) q -> c = s.
Proof.
  intros (r & _ & ->) (r' & E). rewrite <- !app_assoc in E. apply app_inv_head in E.
  simpl in E. congruence.
Qed.
Lemma under_app L c q : under (L ++ [c]) q -> under L q.
Proof. intros (r & ->). exists (c :: r). now rewrite <- app_assoc. Qed.
Lemma under_self L : under L L.
Proof. exists []. now rewrite app_nil_r. Qed.
Lemma below_item L item : below L (L ++ [item]).
Proof. exists [item]. split; [discriminate|reflexivity]. Qed.

Definition tree_ok (root : list entry) (nd : node) : Prop :=
  nwf nd -> forall st, inv root st -> fresh (n_loc nd) st ->
    inv root (write_tree root st nd) /\
    grows st (write_tree root st nd) /\
    (forall q, made q (write_tree root st nd) -> made q st \/ under (n_loc nd) q) /\
    (forall n, In n (preorder nd) -> n = nd \/ n_file n = idx ->
               copied_ok root (write_tree root st nd) n).

Definition sub_shape (L : list str) (x : node) : Prop :=
  (n_file x <> idx /\ n_subs x = [] /\ n_loc x = L) \/
  (n_file x = idx /\ n_loc x = L ++ [n_name x] /\ nwf x).

Lemma subs_ok root L subs :
  Forall (tree_ok root) subs -> NoDup (map n_name subs) -> Forall (sub_shape L) subs ->
  forall st1, inv root st1 ->
    (forall q, made q st1 ->
               ~ below L q \/ exists s, ~ In s (map n_name subs) /\ under (L ++ [s]) q) ->
    inv root (fold_left (fun st x => write_tree root st x) subs st1) /\
    grows st1 (fold_left (fun st x => write_tree root st x) subs st1) /\
    (forall q, made q (fold_left (fun st x => write_tree root st x) subs st1) ->
               made q st1 \/ under L q) /\
    (forall x n, In x subs -> In n (preorder x) -> n_file n = idx ->
                 copied_ok root (fold_left (fun st x => write_tree root st x) subs st1) n).
Proof.
  induction subs as [|x subs IH]; intros HT Hnd Hsh st1 Hinv Hm; cbn [fold_left].
  - repeat split; auto using grows_refl. intros x n [].
  - inversion HT as [|? ? Tx HT']; subst. inversion Hsh as [|? ? Sx Hsh']; subst.
    simpl in Hnd. inversion Hnd as [|? ? Hnx Hnd']; subst.
    set (st2 := write_tree root st1 x).
    destruct Sx as [(Fx & Sx & Lx)|(Fx & Lx & Wx)].
    + (* a leaf page *)
      assert (E2 : st2 = write_node root st1 x).
      { unfold st2. destruct x; simpl in Sx; subst. reflexivity. }
      destruct (write_node_inv0 root st1 x Hinv) as (I2 & M2). rewrite <- E2 in I2, M2.
      assert (G2 : grows st1 st2) by (rewrite E2; apply grows_write_node).
      assert (Hm2 : forall q, made q st2 ->
                ~ below L q \/ exists s, ~ In s (map n_name subs) /\ under (L ++ [s]) q).
      { intros q Hq. apply M2 in Hq as [Hq|Hq].
        - apply Hm in Hq as [Hq|(s & Hs & Hq)]; auto. right. exists s. split; auto.
          intros Hin. apply Hs. now right.
        - left. rewrite Hq, Lx. apply not_below_self. }
      destruct (IH HT' Hnd' Hsh' st2 I2 Hm2) as (I3 & G3 & M3 & C3).
      split; auto. split; [eapply grows_trans; eauto|]. split.
      * intros q Hq. apply M3 in Hq as [Hq|Hq]; auto. apply M2 in Hq as [Hq|Hq]; auto.
        right. rewrite Hq, Lx. apply under_self.
      * intros x' n [<-|Hx'] Hn Hf; [|eapply C3; eauto].
        exfalso. destruct x; simpl in Sx; subst. simpl in Hn. destruct Hn as [<-|[]]. auto.
    + (* a sub-tree *)
      assert (Fr : fresh (n_loc x) st1).
      { intros q Hq Hb. rewrite Lx in Hb. apply Hm in Hq as [Hq|(s & Hs & Hq)].
        - apply Hq. eapply below_app; eauto.
        - apply Hs. left. eapply below_sib; eauto. }
      destruct (Tx Wx st1 Hinv Fr) as (I2 & G2 & M2 & C2). fold st2 in I2, G2, M2, C2.
      assert (Hm2 : forall q, made q st2 ->
                ~ below L q \/ exists s, ~ In s (map n_name subs) /\ under (L ++ [s]) q).
      { intros q Hq. apply M2 in Hq as [Hq|Hq].
        - apply Hm in Hq as [Hq|(s & Hs & Hq)]; auto. right. exists s. split; auto.
          intros Hin. apply Hs. now right.
        - right. exists (n_name x). split; auto. now rewrite <- Lx. }
      destruct (IH HT' Hnd' Hsh' st2 I2 Hm2) as (I3 & G3 & M3 & C3).
      split; auto. split; [eapply grows_trans; eauto|]. split.
      * intros q Hq. apply M3 in Hq as [Hq|Hq]; auto. apply M2 in Hq as [Hq|Hq]; auto.
        right. rewrite Lx in Hq. eapply under_app; eauto.
      * intros x' n [<-|Hx'] Hn Hf; [|eapply C3; eauto].
        eapply copied_ok_grows; [apply C2; auto|exact G3].
Qed.

Lemma tree_all root nd : tree_ok root nd.
Proof.
  induction nd as [a b L o c fl subs IH] using node_ind'.
  intros Hnwf st Hinv Hfresh. inversion Hnwf as [? ? ? ? ? ? ? Hnd Hsh]; subst.
  cbn [write_tree]. cbn [n_loc] in *.
  set (nd := Node a b L o c fl subs) in *.
  assert (F1 : forall item, ~ made (n_loc nd ++ [item]) st).
  { intros item Hm. eapply Hfresh; eauto. apply below_item. }
  destruct (write_node_inv root st nd Hinv F1) as (I1 & M1 & C1).
  set (st1 := write_node root st nd) in *.
  assert (Hm1 : forall q, made q st1 ->
              ~ below L q \/ exists s, ~ In s (map n_name subs) /\ under (L ++ [s]) q).
  { intros q Hq. left. apply M1 in Hq as [Hq|Hq]; [now apply Hfresh|].
    rewrite Hq. apply not_below_self. }
  destruct (subs_ok root L subs IH Hnd Hsh st1 I1 Hm1) as (I2 & G2 & M2 & C2).
  split; auto. split; [eapply grows_trans; [apply grows_write_node|exact G2]|]. split.
  - intros q Hq. apply M2 in Hq as [Hq|Hq]; auto. apply M1 in Hq as [Hq|Hq]; auto.
    right. rewrite Hq. apply under_self.
  - intros n Hn Hor.
    assert (Cnd : copied_ok root (fold_left (fun st x => write_tree root st x) subs st1) nd)
      by (eapply copied_ok_grows; eauto).
    change (preorder nd) with (nd :: flat_map preorder subs) in Hn.
    destruct Hn as [<-|Hn]; auto.
    destruct Hor as [->|Hf]; auto.
    apply in_flat_map in Hn as (x & Hx & Hn). eapply C2; eauto.
Qed.

Theorem copy_subdir_copied_run proj root nd n :
  wf_tree (Dir [] root) = true -> page_tree proj root = RNode nd ->
  In n (preorder nd) -> n_file n = idx ->
  copied_ok root (writeout root (RNode nd)) n.
Proof.
  intros Hwf G Hn Hf. unfold writeout, res_nodes. rewrite write_tree_preorder.
  pose proof (gpt_nwf proj (Dir [] root) [] root eq_refl None [] nd Hwf G) as Hnwf.
  assert (L0 : n_loc nd = []).
  { unfold page_tree in G. now apply gpt_node_fields in G as (_ & _ & ->). }
  assert (I0 : inv root fs0) by (intros q [H|[]]; discriminate).
  assert (F0 : fresh (n_loc nd) fs0).
  { intros q Hq. rewrite L0. destruct Hq as [[= <-]|[]]. apply not_below_self. }
  destruct (tree_all root nd Hnwf fs0 I0 F0) as (_ & _ & _ & C).
  apply C; auto.
Qed.

Example ex_copy_subdir :
  exists nd, page_tree [] ex_tree = RNode nd /\ n_file nd = idx /\ In (s "img") (n_copy nd) /\
    dir_at (n_loc nd) ex_tree = Some ex_tree /\
    find_entry (s "img") ex_tree = Some (Dir (s "img") [File (s "x.png") false [] []]) /\
    file_at [s "img"; s "x.png"] (f_files (writeout ex_tree (page_tree [] ex_tree)))
    = Some (Copy [s "img"; s "x.png"]) /\
    file_at [s "notes.txt"] (f_files (writeout ex_tree (page_tree [] ex_tree)))
    = Some (Copy [s "notes.txt"]) /\
    file_at [s "sub"; s "deep.html"] (f_files (writeout ex_tree (page_tree [] ex_tree)))
    = Some (Page [s "sub"; s "deep.md"]).
Proof.
  destruct (page_tree [] ex_tree) as [| |nd] eqn:G; [vm_compute in G; discriminate ..|].
  exists nd. split; auto. vm_compute in G. injection G as <-.
  repeat split; try reflexivity. vm_compute. now left.
Qed.

Example ex_order_and_skip :
  NoDup (map ename ex_tree) /\
  (exists nd, gpt [] None [] (Dir [] ex_tree) = RNode nd /\
     map n_name (n_subs nd) = [s "sub"; s "b.md"; s "a.md"] /\
     in_opt (s "sub") None = str_in (s "sub") (n_copy nd)) /\
  (exists des, find_entry (s "sub") ex_tree = Some (Dir (s "sub") des)) /\
  visible (s "sub") = true /\ s "sub" <> idx /\
  In [s "notes.txt"] (spec_copied [] [] (Dir [] ex_tree)).
Proof.
  split; [apply nodup_names_iff; reflexivity|].
  split.
  { destruct (gpt [] None [] (Dir [] ex_tree)) as [| |nd] eqn:G; [vm_compute in G; discriminate ..|].
    exists nd. split; auto. vm_compute in G. injection G as <-. split; reflexivity. }
  split; [eexists; reflexivity|]. split; [reflexivity|].
  split; [intros H; vm_compute in H; discriminate|].
  vm_compute. now left.
Qed.

(* ------------------------------------------------------------------------------------------ *)
(* copy_subdir of *every* written page (not only of the index pages) *)
Lemma fold_copy_items_one root loc l : forall st item es sub,
  inv root st -> In item l -> ~ made (loc ++ [item]) st ->
  dir_at loc root = Some es -> find_entry item es = Some (Dir item sub) ->
  forall p, In p (all_files (Dir item sub)) ->
            has (loc ++ p) (fold_left (copy_item root loc) l st).
Proof.
  induction l as [|i0 l IH]; intros st item es sub Hinv Hi Hm Hd Hf p Hp; [destruct Hi|].
  cbn [fold_left]. destruct Hi as [->|Hi].
  - apply (grows_fold (copy_item root loc)); [intros; apply grows_copy_item|].
    destruct (dir_exists (loc ++ [item]) st) eqn:Hex.
    + apply dir_exists_iff in Hex as [Hex|Hex]; [contradiction|].
      apply grows_copy_item. eapply (Hinv _ Hex loc item); eauto.
    + eapply copy_item_copies; eauto.
  - eapply IH; eauto.
    + now apply inv_copy_item.
    + intros Hmade. now apply made_copy_item in Hmade.
Qed.

Lemma write_node_copies_one root st n item es sub :
  inv root st -> In item (n_copy n) -> ~ made (n_loc n ++ [item]) st ->
  dir_at (n_loc n) root = Some es -> find_entry item es = Some (Dir item sub) ->
  forall p, In p (all_files (Dir item sub)) -> has (n_loc n ++ p) (write_node root st n).
Proof.
  intros Hinv Hi Hm Hd Hf p Hp. unfold write_node.
  apply (grows_fold (copy_file (n_loc n))); [intros; apply grows_copy_file|].
  set (st1 := if is_index_file (n_file n) then mkdir (n_loc n) st else st).
  assert (I1 : inv root st1) by (unfold st1; destruct (is_index_file _); auto using inv_mkdir).
  assert (M1 : forall q, made q st1 -> made q st \/ q = n_loc n).
  { unfold st1. destruct (is_index_file _); auto. intros q. apply made_mkdir. }
  eapply fold_copy_items_one; eauto.
  - now apply inv_add_file.
  - intros Hmade. apply M1 in Hmade as [Hmade|Hmade]; [contradiction|].
    apply (f_equal (@length _)) in Hmade. rewrite app_length in Hmade. simpl in Hmade. lia.
Qed.

Lemma write_nodes_copied root ns : forall st n item es sub,
  inv root st -> In n ns -> In item (n_copy n) -> ~ made (n_loc n ++ [item]) st ->
  (forall m, In m ns -> n_loc m <> n_loc n ++ [item]) ->
  dir_at (n_loc n) root = Some es -> find_entry item es = Some (Dir item sub) ->
  forall p, In p (all_files (Dir item sub)) -> has (n_loc n ++ p) (write_nodes root ns st).
Proof.
  induction ns as [|m ns IH]; intros st n item es sub Hinv Hn Hi Hm Hno Hd Hf p Hp;
    [destruct Hn|].
  unfold write_nodes. cbn [fold_left].
  destruct (write_node_inv0 root st m Hinv) as (I1 & M1).
  destruct Hn as [->|Hn].
  - apply (grows_write_nodes root ns). eapply write_node_copies_one; eauto.
  - eapply IH; eauto.
    + intros Hmade. apply M1 in Hmade as [Hmade|Hmade]; [contradiction|].
      eapply Hno; [left; reflexivity|]. auto.
    + intros m' Hm'. apply Hno. now right.
Qed.

(* every written page: if no page is written into the named directory itself, the directory
   is completely present beside the page at the end *)
Theorem copy_subdir_every_page root r n item es sub :
  In n (res_nodes r) -> In item (n_copy n) ->
  (forall m, In m (res_nodes r) -> n_loc m <> n_loc n ++ [item]) ->
  dir_at (n_loc n) root = Some es -> find_entry item es = Some (Dir item sub) ->
  forall p, In p (all_files (Dir item sub)) -> has (n_loc n ++ p) (writeout root r).
Proof.
  intros Hn Hi Hno Hd Hf p Hp. unfold writeout.
  eapply write_nodes_copied; eauto.
  - intros q [H|[]]; discriminate.
  - intros [H|[]]. injection H as H. destruct (n_loc n); discriminate.
Qed.

(* where the nodes of a tree lie: below a chain of directories with a titled index.md *)
Definition locs_at (proj : list str) (e : entry) : Prop :=
  forall d es, e = Dir d es -> forall pc loc m,
    In m (res_nodes (gpt proj pc loc e)) ->
    exists r es_r, n_loc m = loc ++ r /\ dir_at r es = Some es_r /\ titled_index es_r <> None.

Lemma locs_all proj e : locs_at proj e.
Proof.
  induction e as [|d0 es0 IH] using entry_ind'; intros d es E pc loc m Hm; [discriminate|].
  injection E as -> ->.
  rewrite gpt_dir in Hm. destruct (titled_index es) as [[ord cp]|] eqn:TI; [|destruct Hm].
  cbv zeta in Hm.
  set (copy := eff_copy proj cp) in *.
  set (sub := map (fun x => (ename x, gpt proj (Some copy) (loc ++ [ename x]) x)) es) in *.
  set (M := merged (ordered_of ord) (listing es)) in *.
  destruct (v_err _); [destruct Hm|].
  unfold res_nodes in Hm. rewrite preorder_node in Hm. destruct Hm as [<-|Hm].
  - exists [], es. simpl. rewrite app_nil_r, TI. repeat split; auto. discriminate.
  - apply in_flat_map in Hm as (x & Hx & Hm).
    apply in_v_subs_inv, in_map_iff in Hx as (n & Hv & Hn).
    destruct (visible n) eqn:Hvis.
    2:{ destruct (visit_name_invis proj (Some copy) loc es sub n Hvis) as [X|X]; congruence. }
    rewrite visit_name_vis in Hv by auto.
    unfold sub in Hv. rewrite assoc_map_find in Hv.
    destruct (find_entry n es) as [y|] eqn:FE; [|discriminate].
    pose proof (find_entry_name _ _ _ FE) as [En Hin].
    destruct y as [f t o c|dn des]; simpl in En; subst.
    + destruct (is_md n); [|discriminate]. destruct t; [|discriminate].
      injection Hv as <-. simpl in Hm. destruct Hm as [<-|[]].
      exists [], es. simpl. rewrite app_nil_r, TI. repeat split; auto. discriminate.
    + simpl in Hv. destruct (str_in n copy); [discriminate|].
      destruct (gpt proj (Some copy) (loc ++ [n]) (Dir n des)) as [| |ndx] eqn:G; try discriminate.
      injection Hv as <-.
      rewrite Forall_forall in IH.
      destruct (IH _ Hin n des eq_refl (Some copy) (loc ++ [n]) m) as (r & es_r & E1 & E2 & E3).
      { rewrite G. exact Hm. }
      exists (n :: r), es_r. rewrite E1, <- app_assoc. simpl. rewrite FE. auto.
Qed.

Lemma spec_copydirs_dir proj loc d es :
  spec_copydirs proj loc (Dir d es) =
  match titled_index es with
  | None => []
  | Some (_, cp) =>
    copy_items es loc true (eff_copy proj cp)
      ++ flat_map (fun x => match x with
                            | File n true _ cpx =>
                              if md_name n && negb (str_eqb n idx)
                              then copy_items es loc false (eff_copy proj cpx) else []
                            | _ => []
                            end) es
      ++ flat_map (fun x => match x with
                            | Dir n _ =>
                              if visible n && negb (str_in n (eff_copy proj cp))
                              then spec_copydirs proj (loc ++ [n]) x else []
                            | File _ _ _ _ => []
                            end) es
  end.
Proof. reflexivity. Qed.

Lemma copy_items_in es loc b items p :
  In p (copy_items es loc b items) ->
  exists item sub p', In item items /\ find_entry item es = Some (Dir item sub) /\
    In p' (all_files (Dir item sub)) /\ p = loc ++ p' /\
    (b = true \/ has_titled_index (Dir item sub) = false).
Proof.
  unfold copy_items. intros H. apply in_flat_map in H as (item & Hi & H).
  destruct (find_entry item es) as [[? ? ? ?|n sub]|] eqn:FE; try destruct H.
  pose proof (find_entry_name _ _ _ FE) as [En _]. simpl in En. subst n.
  destruct (b || negb (has_titled_index (Dir item sub))) eqn:C; [|destruct H].
  apply in_map_iff in H as (p' & <- & Hp').
  exists item, sub, p'. repeat split; auto.
  apply orb_true_iff in C as [C|C]; auto. right. now apply negb_true_iff.
Qed.

Definition copydirs_at (proj : list str) (root : list entry) (e : entry) : Prop :=
  forall d es, e = Dir d es -> forall pc loc,
    wf_tree e = true -> gpt proj pc loc e <> RErr ->
    dir_at loc root = Some es ->
    forall p, In p (spec_copydirs proj loc e) ->
    exists n item es' sub p',
      In n (res_nodes (gpt proj pc loc e)) /\ In item (n_copy n) /\
      dir_at (n_loc n) root = Some es' /\ find_entry item es' = Some (Dir item sub) /\
      In p' (all_files (Dir item sub)) /\ p = n_loc n ++ p' /\
      (n_file n = idx \/ has_titled_index (Dir item sub) = false).

Lemma copydirs_all proj root e : copydirs_at proj root e.
Proof.
  induction e as [|d0 es0 IH] using entry_ind';
    intros d es E pc loc Hwf Hne Hroot p Hp; [discriminate|].
  injection E as -> ->.
  rewrite spec_copydirs_dir in Hp. rewrite gpt_dir in *.
  destruct (titled_index es) as [[ord cp]|] eqn:TI; [|destruct Hp].
  cbv zeta in *.
  set (copy := eff_copy proj cp) in *.
  set (sub := map (fun x => (ename x, gpt proj (Some copy) (loc ++ [ename x]) x)) es) in *.
  set (M := merged (ordered_of ord) (listing es)) in *.
  destruct (v_err (map (visit_name proj (Some copy) loc es sub) M)) eqn:VE; [congruence|].
  apply wf_dir in Hwf as [Hnd Hwf].
  unfold res_nodes. rewrite preorder_node.
  apply in_app_iff in Hp as [Hp|Hp]; [|apply in_app_iff in Hp as [Hp|Hp]].
  - (* the index page *)
    apply copy_items_in in Hp as (item & sb & p' & Hi & Hf & Hp' & -> & _).
    eexists. exists item, es, sb, p'. split; [left; reflexivity|]. simpl. repeat split; auto.
  - (* another page of this directory *)
    apply in_flat_map in Hp as (x & Hin & Hp).
    destruct x as [f t o cpx|]; [|destruct Hp]. destruct t; [|destruct Hp].
    destruct (md_name f && negb (str_eqb f idx)) eqn:C; [|destruct Hp].
    apply andb_true_iff in C as [Hmd Hfi]. apply negb_true_iff, str_eqb_neq in Hfi.
    pose proof (md_name_is_visible _ Hmd) as Hvis.
    rewrite (md_name_visible _ Hvis) in Hmd.
    apply copy_items_in in Hp as (item & sb & p' & Hi & Hf & Hp' & -> & [X|Hti]); [discriminate|].
    assert (HM : In f M).
    { apply in_merged; auto. change f with (ename (File f true o cpx)). now apply in_map. }
    exists (leaf proj loc f o cpx), item, es, sb, p'.
    split.
    { right. apply in_flat_map. exists (leaf proj loc f o cpx). split; [|now left].
      apply in_v_subs. apply in_map_iff. exists f. split; auto.
      rewrite visit_name_vis by auto.
      pose proof (find_entry_in es _ Hnd Hin) as FE. simpl in FE. now rewrite FE, Hmd. }
    simpl. repeat split; auto.
  - (* inside a sub-directory *)
    apply in_flat_map in Hp as (x & Hin & Hp).
    destruct x as [|n des]; [destruct Hp|].
    destruct (visible n && negb (str_in n copy)) eqn:C; [|destruct Hp].
    apply andb_true_iff in C as [Hvis Hpc]. apply negb_true_iff in Hpc.
    pose proof (find_entry_in es _ Hnd Hin) as FE. simpl in FE.
    assert (Hni : n <> idx).
    { intros ->. unfold titled_index in TI. rewrite FE in TI. discriminate. }
    assert (HM : In n M).
    { apply in_merged; auto. change n with (ename (Dir n des)). now apply in_map. }
    assert (HV : In (visit_name proj (Some copy) loc es sub n)
                    (map (visit_name proj (Some copy) loc es sub) M))
      by now apply in_map.
    pose proof (v_err_false _ _ VE HV) as Hv.
    rewrite visit_name_vis in HV, Hv by auto. simpl in_opt in HV, Hv. rewrite FE, Hpc in HV, Hv.
    unfold sub in HV, Hv. rewrite assoc_map_find, FE in HV, Hv. simpl in HV, Hv.
    rewrite Forall_forall in IH.
    assert (G : gpt proj (Some copy) (loc ++ [n]) (Dir n des) <> RErr).
    { intros G. rewrite G in Hv. congruence. }
    assert (Hroot' : dir_at (loc ++ [n]) root = Some des).
    { rewrite dir_at_app, Hroot. simpl. now rewrite FE. }
    destruct (IH _ Hin n des eq_refl (Some copy) (loc ++ [n]) (Hwf _ Hin) G Hroot' p Hp)
      as (nd & item & es' & sb & p' & Hnd' & Rest).
    exists nd, item, es', sb, p'. split; [|exact Rest].
    destruct (gpt proj (Some copy) (loc ++ [n]) (Dir n des)) as [| |ndx];
      [destruct Hnd'|destruct Hnd'|].
    right. apply in_flat_map. exists ndx. split; [apply in_v_subs; exact HV|exact Hnd'].
Qed.

(* Model against Spec: everything the Spec's spec_copydirs demands is there at the end *)
Theorem files_copydirs_spec proj es p :
  wf_tree (Dir [] es) = true -> page_tree proj es <> RErr ->
  In p (spec_copydirs proj [] (Dir [] es)) ->
  exists o, file_at p (f_files (writeout es (page_tree proj es))) = Some o /\
            (o = Copy p \/ exists src, o = Page src).
Proof.
  intros Hwf Hne Hp.
  destruct (copydirs_all proj es (Dir [] es) [] es eq_refl None [] Hwf Hne eq_refl p Hp)
    as (n & item & es' & sb & p' & Hn & Hi & Hd & Hf & Hp' & -> & Hor).
  assert (X : has (n_loc n ++ p') (writeout es (page_tree proj es))).
  { destruct Hor as [Hidx|Hti].
    - unfold page_tree in *.
      destruct (gpt proj None [] (Dir [] es)) as [| |nd] eqn:G; [destruct Hn|destruct Hn|].
      eapply (copy_subdir_copied_run proj es nd n); eauto.
    - eapply copy_subdir_every_page; eauto.
      intros m Hm Hloc.
      destruct (locs_all proj (Dir [] es) [] es eq_refl None [] m Hm) as (r & es_r & E1 & E2 & E3).
      simpl in E1. rewrite E1 in Hloc. subst r.
      rewrite dir_at_app, Hd in E2. simpl in E2. rewrite Hf in E2. injection E2 as <-.
      simpl in Hti. destruct (titled_index sb); [discriminate|]. now apply E3. }
  apply file_at_has in X as [o Ho]. exists o. split; auto.
  exact (file_at_origin _ _ _ (origins_writeout es (page_tree proj es)) Ho).
Qed.

Definition ex_leafcopy : list entry :=
  [T_ "index.md"; File (s "a.md") true [] [s "assets"]; File (s "b.md") true [] [s "assets"];
   Dir (s "assets") [File (s "pic.png") false [] []; Dir (s "deep") [File (s ".keep") false [] []]]].

Example ex_leafcopy_ok :
  wf_tree (Dir [] ex_leafcopy) = true /\
  page_tree [] ex_leafcopy <> RErr /\
  spec_copydirs [] [] (Dir [] ex_leafcopy) =
    [[s "assets"; s "pic.png"]; [s "assets"; s "deep"; s ".keep"];
     [s "assets"; s "pic.png"]; [s "assets"; s "deep"; s ".keep"]] /\
  file_at [s "assets"; s "deep"; s ".keep"]
          (f_files (writeout ex_leafcopy (page_tree [] ex_leafcopy)))
  = Some (Copy [s "assets"; s "deep"; s ".keep"]).
Proof. repeat split; try reflexivity. intros H. vm_compute in H. discriminate. Qed.

(* ------------------------------------------------------------------------------------------ *)
(* nothing else is copied: every byte copy below <output>/page is accounted for by the Spec *)
Lemma in_v_files_inv f vs : In f (v_files vs) -> In (VFile f) vs.
Proof.
  unfold v_files. intros H. apply in_flat_map in H as (v & Hv & H).
  destruct v as [| |x|g]; simpl in H; try contradiction. destruct H as [<-|[]]. exact Hv.
Qed.

Lemma copy_items_intro es loc items item d sub p :
  In item items -> find_entry item es = Some (Dir d sub) -> In p (all_files (Dir d sub)) ->
  In (loc ++ p) (copy_items es loc true items).
Proof.
  intros Hi Hf Hp. unfold copy_items. apply in_flat_map. exists item. split; auto.
  rewrite Hf. cbn [orb]. now apply in_map.
Qed.

(* what a node may copy *)
Definition node_copies (root : list entry) (n : node) (p : list str) : Prop :=
  (exists f, In f (n_files n) /\ p = n_loc n ++ [f]) \/
  (exists item es' d sub p', In item (n_copy n) /\ dir_at (n_loc n) root = Some es' /\
     find_entry item es' = Some (Dir d sub) /\ In p' (all_files (Dir d sub)) /\ p = n_loc n ++ p').

Definition may_copy_at (proj : list str) (root : list entry) (e : entry) : Prop :=
  forall d es, e = Dir d es -> forall pc loc,
    wf_tree e = true -> dir_at loc root = Some es ->
    forall n p, In n (res_nodes (gpt proj pc loc e)) -> node_copies root n p ->
                In p (spec_may_copy proj loc e).

Lemma spec_may_copy_dir proj loc d es :
  spec_may_copy proj loc (Dir d es) =
  match titled_index es with
  | None => []
  | Some (_, cp) =>
    map (fun x => loc ++ [ename x]) (filter plain_file es)
      ++ copy_items es loc true (eff_copy proj cp)
      ++ flat_map (fun x => match x with
                            | File n true _ cpx =>
                              if md_name n && negb (str_eqb n idx)
                              then copy_items es loc true (eff_copy proj cpx) else []
                            | _ => []
                            end) es
      ++ flat_map (fun x => match x with
                            | Dir n _ =>
                              if visible n && negb (str_in n (eff_copy proj cp))
                              then spec_may_copy proj (loc ++ [n]) x else []
                            | File _ _ _ _ => []
                            end) es
  end.
Proof. reflexivity. Qed.

Lemma may_copy_all proj root e : may_copy_at proj root e.
Proof.
  induction e as [|d0 es0 IH] using entry_ind'; intros d es E pc loc Hwf Hroot nd0 p Hn Hc;
    [discriminate|].
  injection E as -> ->.
  rewrite spec_may_copy_dir. rewrite gpt_dir in Hn.
  destruct (titled_index es) as [[ord cp]|] eqn:TI; [|destruct Hn].
  cbv zeta in Hn.
  set (copy := eff_copy proj cp) in *.
  set (sub := map (fun x => (ename x, gpt proj (Some copy) (loc ++ [ename x]) x)) es) in *.
  set (M := merged (ordered_of ord) (listing es)) in *.
  destruct (v_err (map (visit_name proj (Some copy) loc es sub) M)) eqn:VE; [destruct Hn|].
  apply wf_dir in Hwf as [Hnd Hwf].
  unfold res_nodes in Hn. rewrite preorder_node in Hn. destruct Hn as [<-|Hn].
  - (* the index page of this directory *)
    destruct Hc as [(f & Hf & ->)|(item & es' & d' & sb & p' & Hi & Hd & Hfe & Hp' & ->)];
      cbn [n_files n_loc n_copy] in *.
    + apply in_or_app. left.
      apply in_v_files_inv, in_map_iff in Hf as (nm & Hv & Hnm).
      destruct (visible nm) eqn:Hvis.
      2:{ destruct (visit_name_invis proj (Some copy) loc es sub nm Hvis) as [X|X]; congruence. }
      rewrite visit_name_vis in Hv by auto.
      destruct (find_entry nm es) as [x|] eqn:FE; [|discriminate].
      pose proof (find_entry_name _ _ _ FE) as [En Hin].
      destruct x as [g t o c|dn des]; simpl in En; subst.
      * destruct (is_md nm) eqn:MD; [destruct t; discriminate|]. injection Hv as <-.
        apply in_map_iff. exists (File nm t o c). split; auto. apply filter_In. split; auto.
        simpl. rewrite Hvis, <- is_md_spec, MD. reflexivity.
      * exfalso. simpl in Hv. destruct (str_in nm copy); [discriminate|].
        destruct (assoc_get nm sub) as [[| |?]|]; discriminate.
    + apply in_or_app. right. apply in_or_app. left.
      rewrite Hroot in Hd. injection Hd as <-. eapply copy_items_intro; eauto.
  - apply in_flat_map in Hn as (x & Hx & Hn).
    apply in_v_subs_inv, in_map_iff in Hx as (nm & Hv & Hnm).
    assert (Hni : nm <> idx).
    { unfold M in Hnm. rewrite order_documented in Hnm by auto.
      apply filter_In in Hnm as [_ Hnm]. unfold not_idx in Hnm.
      apply negb_true_iff, str_eqb_neq in Hnm. congruence. }
    destruct (visible nm) eqn:Hvis.
    2:{ destruct (visit_name_invis proj (Some copy) loc es sub nm Hvis) as [X|X]; congruence. }
    rewrite visit_name_vis in Hv by auto.
    unfold sub in Hv. rewrite assoc_map_find in Hv.
    destruct (find_entry nm es) as [y|] eqn:FE; [|discriminate].
    pose proof (find_entry_name _ _ _ FE) as [En Hin].
    destruct y as [g t o c|dn des]; simpl in En; subst.
    + (* another page of this directory *)
      destruct (is_md nm) eqn:MD; [|discriminate]. destruct t; [|discriminate].
      injection Hv as <-. simpl in Hn. destruct Hn as [<-|[]].
      destruct Hc as [(f & Hf & _)|(item & es' & d' & sb & p' & Hi & Hd & Hfe & Hp' & ->)];
        [destruct Hf|]. cbn [leaf n_loc n_copy] in *.
      apply in_or_app. right. apply in_or_app. right. apply in_or_app. left.
      apply in_flat_map. exists (File nm true o c). split; auto.
      rewrite (md_name_visible _ Hvis), MD.
      assert (negb (str_eqb nm idx) = true) as -> by now apply negb_true_iff, str_eqb_neq.
      cbn [andb]. rewrite Hroot in Hd. injection Hd as <-. eapply copy_items_intro; eauto.
    + (* a sub-tree *)
      simpl in Hv. destruct (str_in nm copy) eqn:Hcp; [discriminate|].
      destruct (gpt proj (Some copy) (loc ++ [nm]) (Dir nm des)) as [| |ndx] eqn:G; try discriminate.
      injection Hv as <-.
      apply in_or_app. right. apply in_or_app. right. apply in_or_app. right.
      apply in_flat_map. exists (Dir nm des). split; auto.
      rewrite Hvis. fold copy. rewrite Hcp. cbn [negb andb].
      rewrite Forall_forall in IH.
      apply (IH _ Hin nm des eq_refl (Some copy) (loc ++ [nm]) (Hwf _ Hin)) with (n := nd0); auto.
      * rewrite dir_at_app, Hroot. simpl. now rewrite FE.
      * rewrite G. exact Hn.
Qed.

(* every byte copy that the write-out makes is a copy made by one of the written nodes *)
Definition copies_justified (root : list entry) (ns : list node) (st : fs) : Prop :=
  forall p q, In (p, Copy q) (f_files st) -> p = q /\ exists n, In n ns /\ node_copies root n p.

Lemma write_node_justified root ns n st :
  In n ns -> copies_justified root ns st -> copies_justified root ns (write_node root st n).
Proof.
  intros Hn J. unfold write_node.
  set (st1 := if is_index_file (n_file n) then mkdir (n_loc n) st else st).
  assert (J1 : copies_justified root ns st1).
  { unfold st1. destruct (is_index_file _); auto. unfold mkdir. destruct (dir_exists _ _); auto. }
  set (st2 := add_file (out_path n) (Page (src_path n)) st1).
  assert (J2 : copies_justified root ns st2).
  { intros p q [H|H]; [discriminate|]. now apply J1. }
  assert (J3 : forall l, (forall item, In item l -> In item (n_copy n)) ->
                 forall s0, copies_justified root ns s0 ->
                 copies_justified root ns (fold_left (copy_item root (n_loc n)) l s0)).
  { induction l as [|item l IHl]; intros Hl s0 J0; cbn [fold_left]; auto.
    apply IHl; [intros; apply Hl; now right|].
    unfold copy_item. destruct (dir_at (n_loc n) root) as [es'|] eqn:Hd; auto.
    destruct (find_entry item es') as [[? ? ? ?|d sub]|] eqn:Hf; auto.
    destruct (dir_exists (n_loc n ++ [item]) s0); auto.
    intros p q H. cbn [f_files] in H. apply in_app_or in H as [H|H]; [|now apply J0].
    apply in_rev, in_map_iff in H as (p' & E & Hp'). injection E as <- <-.
    split; auto. exists n. split; auto. right.
    exists item, es', d, sub, p'. repeat split; auto. apply Hl. now left. }
  assert (J4 : forall l, (forall f, In f l -> In f (n_files n)) ->
                 forall s0, copies_justified root ns s0 ->
                 copies_justified root ns (fold_left (copy_file (n_loc n)) l s0)).
  { induction l as [|f l IHl]; intros Hl s0 J0; cbn [fold_left]; auto.
    apply IHl; [intros; apply Hl; now right|].
    intros p q [H|H]; [|now apply J0]. injection H as <- <-.
    split; auto. exists n. split; auto. left. exists f. split; auto. apply Hl. now left. }
  apply J4; auto.
Qed.

Lemma write_nodes_justified root ns : forall l st,
  (forall n, In n l -> In n ns) -> copies_justified root ns st ->
  copies_justified root ns (write_nodes root l st).
Proof.
  induction l as [|n l IH]; intros st Hl J; unfold write_nodes; cbn [fold_left]; auto.
  apply IH; [intros; apply Hl; now right|].
  apply write_node_justified; auto. apply Hl. now left.
Qed.

Theorem nothing_else_copied proj es p q :
  wf_tree (Dir [] es) = true ->
  In (p, Copy q) (f_files (writeout es (page_tree proj es))) ->
  p = q /\ In p (spec_may_copy proj [] (Dir [] es)).
Proof.
  intros Hwf H. unfold writeout in H.
  destruct (write_nodes_justified es (res_nodes (page_tree proj es)) (res_nodes (page_tree proj es)) fs0
              (fun n Hn => Hn) (fun p' q' (X : In (p', Copy q') []) => match X with end) p q H)
    as (E & n & Hn & Hc).
  split; auto.
  exact (may_copy_all proj es (Dir [] es) [] es eq_refl None [] Hwf eq_refl n p Hn Hc).
Qed.

(* the list that governs a page: its own copy_subdir metadata when the key is present -- also with
   an empty value ("copy nothing here") --, else the project's.  pages/t1/index.md opts out with a
   bare `copy_subdir:` line under the project setting `copy_subdir: media`: t1/media stays a
   sub-tree of pages and is not copied; t3 (no key) falls back to the project list *)
Definition ex_override : list entry :=
  [T_ "index.md";
   Dir (s "t1") [File idx true [] [[]]; Dir (s "media") [T_ "index.md"; T_ "p.md"; File (s "x.png") false [] []]];
   Dir (s "t3") [T_ "index.md"; Dir (s "media") [T_ "index.md"; File (s "y.png") false [] []]]].
Example ex_override_ok :
  wf_tree (Dir [] ex_override) = true /\
  map snd (pages (page_tree [s "media"] ex_override)) =
    [[s "index.html"]; [s "t1"; s "index.html"]; [s "t1"; s "media"; s "index.html"];
     [s "t1"; s "media"; s "p.html"]; [s "t3"; s "index.html"]] /\
  spec_may_copy [s "media"] [] (Dir [] ex_override) =
    [[s "t1"; s "media"; s "x.png"]; [s "t3"; s "media"; s "index.md"]; [s "t3"; s "media"; s "y.png"]] /\
  file_at [s "t1"; s "media"; s "index.md"]
          (f_files (writeout ex_override (page_tree [s "media"] ex_override))) = None /\
  file_at [s "t3"; s "media"; s "index.md"]
          (f_files (writeout ex_override (page_tree [s "media"] ex_override)))
  = Some (Copy [s "t3"; s "media"; s "index.md"]).
Proof. repeat split; reflexivity. Qed.
