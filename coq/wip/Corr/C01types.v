(* Corr/C01types.v -- judges for the declaration layer of C01.
   bit 0: model <> implementation; bit 1: the implementation's report differs from the Spec;
   bits >= 2: region of a recorded finding.  1000 = outside the model, 2000 = malformed case. *)
From Coq Require Import ZArith.
From Ford Require Import Base.Str Base.StrX Sem.TypeSpec Sem.DeclSpec.

Definition unmodelled_code : nat := 1000.
Definition malformed_code : nat := 2000.

Definition ostr_eqb := opt_eqb seqb.
Definition proto_eqb := opt_eqb (pair_eqb seqb seqb).

Definition var_eqb (a b : var) : bool :=
  seqb (v_name a) (v_name b) && seqb (v_vartype a) (v_vartype b) && ostr_eqb (v_kind a) (v_kind b)
  && ostr_eqb (v_strlen a) (v_strlen b) && proto_eqb (v_proto a) (v_proto b)
  && list_eqb seqb (v_attribs a) (v_attribs b) && seqb (v_intent a) (v_intent b)
  && Bool.eqb (v_optional a) (v_optional b) && seqb (v_permission a) (v_permission b)
  && Bool.eqb (v_parameter a) (v_parameter b) && Bool.eqb (v_points a) (v_points b)
  && ostr_eqb (v_initial a) (v_initial b) && seqb (v_dimension a) (v_dimension b).

(* ---- parse_type called directly on a (masked) string *)
Inductive ipt : Type :=
| IPOk (vartype rest : str) (kind strlen : option str) (proto : option (str * str))
| IPErr (ety : str).

Definition judge_ptype (c : str * ipt) : nat :=
  match parse_type (fst c), snd c with
  | Unmodelled _, _ => unmodelled_code
  | Ok p, IPOk vt rest k l pr =>
    verdict (negb (seqb (pt_vartype p) vt && seqb (pt_rest p) rest && ostr_eqb (pt_kind p) k
                   && ostr_eqb (pt_strlen p) l && proto_eqb (pt_proto p) pr)) false 0
  | Err e, IPErr e' => verdict (negb (seqb e e')) false 0
  | _, _ => verdict true false 0
  end.

(* ---- one declaration statement (raw text), observed as the variables of a module *)
Inductive ivars : Type := IVOk (l : list var) | IVErr (ety : str).

Definition vars_match (m : res (list var)) (i : ivars) : bool :=
  match m, i with
  | Ok l, IVOk l' => list_eqb var_eqb l l'
  | Err e, IVErr e' => seqb e e'
  | _, _ => false
  end.
Definition is_unmodelled {A} (r : res A) : bool := match r with Unmodelled _ => true | _ => false end.

Definition judge_decl (c : str * ivars) : nat :=
  let m := declaration (fst c) (s "public") in
  if is_unmodelled m then unmodelled_code else verdict (negb (vars_match m (snd c))) false 0.

(* ---- an abstract declaration in a chosen spelling *)
Record scase := mksc { sc_decl : adecl; sc_sp : dspell; sc_text : str; sc_out : ivars }.

Definition entity_ok (e : aentity) : bool :=
  ident_ok (e_name e) && match e_dim e with Some d => expr_ok d | None => true end.
Definition decl_ok (sp : dspell) (d : adecl) : bool :=
  type_ok (ds_type sp) (d_type d) && forallb entity_ok (d_entities d)
  && match d_entities d with [] => false | _ => true end.

Definition judge_spec (c : scase) : nat :=
  let d := sc_decl c in let sp := sc_sp c in
  if negb (decl_ok sp d) || negb (seqb (render_decl sp d) (sc_text c)) then malformed_code
  else
    let m := declaration (sc_text c) (s "public") in
    if is_unmodelled m then unmodelled_code
    else
      let ok := match sc_out c with IVOk l => list_eqb var_eqb l (spec_vars d (s "public")) | IVErr _ => false end in
      verdict (negb (vars_match m (sc_out c))) (negb ok) (if ok then 0 else decl_region sp d).
