(* Sem/TypeSpecProofs.v -- proofs about the declaration layer: Sem/TypeSpec.v (model) against
   Sem/DeclSpec.v (abstract declarations and their spellings). *)
From Coq Require Import ZArith Lia.
From Ford Require Import Base.Str Base.StrFacts Base.StrX Base.StrXFacts Sem.TypeSpec Sem.DeclSpec.
Local Open Scope nat_scope.

(* ------------------------------------------------------------------ letter case of keywords *)
Lemma lower_recase m w : forallb is_lower w = true -> map lower_ch (recase m w) = w.
Proof.
  revert m. induction w as [|c w IH]; intros m H; [reflexivity|].
  simpl in H. apply andb_true_iff in H as [Hc Hw].
  destruct m as [|b m]; simpl.
  - rewrite (lower_ch_lower c Hc). f_equal. apply (IH [] Hw).
  - destruct b; [rewrite (lower_upper_ch c Hc)|rewrite (lower_ch_lower c Hc)]; f_equal; apply (IH m Hw).
Qed.

Lemma length_recase m w : length (recase m w) = length w.
Proof. revert m. induction w as [|c w IH]; intros [|b m]; simpl; auto. Qed.

Lemma is_lower_alpha c : is_lower c = true -> is_alpha c = true.
Proof. intros H. unfold is_alpha. rewrite H. apply orb_true_r. Qed.

Lemma alpha_recase m w : forallb is_lower w = true -> forallb is_alpha (recase m w) = true.
Proof.
  revert m. induction w as [|c w IH]; intros m H; [reflexivity|].
  simpl in H. apply andb_true_iff in H as [Hc Hw].
  destruct m as [|b m]; simpl.
  - rewrite (is_lower_alpha c Hc). apply (IH [] Hw).
  - rewrite (IH m Hw), andb_true_r. destruct b; [|now apply is_lower_alpha].
    unfold is_alpha. now rewrite (upper_ch_alpha c Hc).
Qed.

Lemma map_lower_blanks n : map lower_ch (blanks n) = blanks n.
Proof. unfold blanks. induction n as [|n IH]; [reflexivity|]. simpl. now rewrite IH. Qed.

Lemma skip_ws_bl n x : skip_ws (blanks n ++ x) = skip_ws x.
Proof. apply skip_ws_blanks. Qed.
Lemma strip_bl n x : strip (blanks n ++ x) = strip x.
Proof. apply strip_blanks. Qed.
Lemma remove_ws_bl n : remove_ws (blanks n) = [].
Proof. apply remove_ws_blanks. Qed.

(* a keyword matches itself in any letter case *)
Lemma match_ci_recase m w r : forallb is_lower w = true -> match_ci w (recase m w ++ r) = Some r.
Proof. intros H. apply match_ci_app. now apply lower_recase. Qed.

(* an alpha character is none of the characters the scanners react to *)
Lemma alpha_plain c : is_alpha c = true ->
  Ascii.eqb c c_lpar = false /\ Ascii.eqb c c_rpar = false /\ Ascii.eqb c c_lbr = false /\
  Ascii.eqb c c_rbr = false /\ is_space c = false /\ Ascii.eqb c c_comma = false /\ Ascii.eqb c c_eq = false
  /\ Ascii.eqb c c_star = false.
Proof.
  intros H.
  assert (G : forall d, is_alpha d = false -> Ascii.eqb c d = false).
  { intros d Hd. destruct (Ascii.eqb c d) eqn:E; [|reflexivity]. apply Ascii.eqb_eq in E. subst. congruence. }
  repeat split; try (apply G; reflexivity).
  unfold is_alpha, is_upper, is_lower, is_space in *.
  apply orb_true_iff in H. apply orb_false_iff. split; apply andb_false_iff.
  - right. apply Nat.leb_gt. destruct H as [H|H]; apply andb_true_iff in H as [H1 H2]; apply Nat.leb_le in H1; lia.
  - right. apply Nat.leb_gt. destruct H as [H|H]; apply andb_true_iff in H as [H1 H2]; apply Nat.leb_le in H1; lia.
Qed.

Lemma recase_head m c w : is_lower c = true ->
  exists d r, recase m (c :: w) = d :: r /\ is_alpha d = true /\ r = recase (tl m) w.
Proof.
  intros H. destruct m as [|b m]; simpl.
  - exists c, (recase [] w). auto using is_lower_alpha.
  - exists (if b then upper_ch c else c), (recase m w). repeat split.
    destruct b; [unfold is_alpha; now rewrite (upper_ch_alpha c H)|now apply is_lower_alpha].
Qed.

(* ------------------------------------------------------------------ the type word *)
Ltac fail_alt :=
  match goal with
  | |- context [match_ci ?w ?x] =>
    rewrite (match_ci_lower w x) by (rewrite ?map_app, ?lower_recase by reflexivity; reflexivity)
  end.

Definition simple_words : list str :=
  [s "integer"; s "real"; s "character"; s "complex"; s "logical"; s "type"; s "class"].

Lemma match_alts_word m w r : In w simple_words -> match_alts type_words (recase m w ++ r) = Some r.
Proof.
  unfold simple_words. intros H. unfold type_words. cbn [match_alts]. unfold match_two.
  repeat (destruct H as [<-|H]; [repeat fail_alt; now rewrite match_ci_recase by reflexivity|]).
  destruct H.
Qed.

Lemma firstn_app_len {A} (a b : list A) : firstn (length (a ++ b) - length b) (a ++ b) = a.
Proof.
  rewrite app_length. replace (length a + length b - length b) with (length a) by lia.
  rewrite firstn_app, firstn_all, Nat.sub_diag. simpl. apply app_nil_r.
Qed.

Lemma match_vartype_word m w r : In w simple_words ->
  match_vartype (recase m w ++ r) = Some (recase m w, r).
Proof.
  intros H. unfold match_vartype. rewrite (match_alts_word m w r H). now rewrite firstn_app_len.
Qed.

Lemma skip_ws_recase m c w r : is_lower c = true -> skip_ws (recase m (c :: w) ++ r) = recase m (c :: w) ++ r.
Proof.
  intros H. destruct (recase_head m c w H) as (d & t & -> & A & _).
  destruct (alpha_plain d A) as (_ & _ & _ & _ & Sp & _). cbn [app]. now apply skip_ws_head.
Qed.

Lemma skip_ws_recase_word m w r : w <> [] -> forallb is_lower w = true ->
  skip_ws (recase m w ++ r) = recase m w ++ r.
Proof.
  destruct w as [|c w]; [congruence|]. intros _ H. simpl in H. apply andb_true_iff in H as [H _].
  now apply skip_ws_recase.
Qed.

Lemma match_alts_double m n second r :
  (second = s "precision" \/ second = s "complex") ->
  match_alts type_words (recase m (s "double") ++ blanks n ++ recase (skipn 6 m) second ++ r) = Some r.
Proof.
  intros H. unfold type_words. cbn [match_alts]. unfold match_two.
  assert (L : forall w, match_ci w (s "double" ++ blanks n ++ second ++ map lower_ch r) = None ->
                        match_ci w (recase m (s "double") ++ blanks n ++ recase (skipn 6 m) second ++ r) = None).
  { intros w E. apply match_ci_lower. rewrite !map_app, lower_recase, map_lower_blanks by reflexivity.
    destruct H as [-> | ->]; now rewrite lower_recase by reflexivity. }
  rewrite (L (s "integer")) by reflexivity. rewrite (L (s "real")) by reflexivity.
  rewrite (match_ci_recase m (s "double")) by reflexivity.
  rewrite skip_ws_bl.
  destruct H as [-> | ->].
  - rewrite skip_ws_recase_word by (try discriminate; reflexivity). now rewrite match_ci_recase by reflexivity.
  - rewrite skip_ws_recase_word by (try discriminate; reflexivity).
    rewrite (match_ci_lower (s "precision")) by (rewrite map_app, lower_recase by reflexivity; reflexivity).
    rewrite (L (s "character")) by reflexivity. rewrite (L (s "complex")) by reflexivity.
    now rewrite match_ci_recase by reflexivity.
Qed.

(* ------------------------------------------------------------------ get_parens *)
Definition stop_next (y : str) : bool := match y with [] => true | c :: _ => stops_parens c end.

Lemma stops_not_paren c : stops_parens c = true ->
  Ascii.eqb c c_lpar = false /\ Ascii.eqb c c_rpar = false /\ Ascii.eqb c c_lbr = false /\ Ascii.eqb c c_rbr = false.
Proof.
  intros H.
  assert (G : forall d, stops_parens d = false -> Ascii.eqb c d = false).
  { intros d Hd. destruct (Ascii.eqb c d) eqn:E; [|reflexivity]. apply Ascii.eqb_eq in E. subst. congruence. }
  repeat split; apply G; reflexivity.
Qed.

Lemma get_parens_stop y acc : stop_next y = true -> get_parens_go y 0%Z 0%Z acc = Some (rev acc).
Proof.
  destruct y as [|c y]; intros H; [reflexivity|]. simpl in H.
  destruct (stops_not_paren c H) as (A & B & C & D). simpl. now rewrite A, B, C, D, H.
Qed.

Lemma znat_succ_nonzero l : (Z.of_nat (S l) =? 0)%Z = false.
Proof. apply Z.eqb_neq. lia. Qed.

(* inside a parenthesis nothing stops the scan: a body that closes what it opens is consumed *)
Lemma get_parens_body body : forall l b rest acc, bal l b body = true ->
  get_parens_go (body ++ rest) (Z.of_nat (S l)) (Z.of_nat b) acc
  = get_parens_go rest 1%Z 0%Z (rev body ++ acc).
Proof.
  induction body as [|c body IH]; intros l b rest acc H.
  - simpl in H. apply andb_true_iff in H as [H1 H2]. apply Nat.eqb_eq in H1, H2. now subst.
  - cbn [bal] in H. cbn [app get_parens_go].
    destruct (Ascii.eqb c c_lpar) eqn:E1.
    { replace (Z.of_nat (S l) + 1)%Z with (Z.of_nat (S (S l))) by lia.
      rewrite (IH (S l) b rest (c :: acc) H). simpl. now rewrite <- app_assoc. }
    destruct (Ascii.eqb c c_rpar) eqn:E2.
    { destruct l as [|l]; [discriminate|].
      replace (Z.of_nat (S (S l)) - 1)%Z with (Z.of_nat (S l)) by lia.
      rewrite (IH l b rest (c :: acc) H). simpl. now rewrite <- app_assoc. }
    destruct (Ascii.eqb c c_lbr) eqn:E3.
    { replace (Z.of_nat b + 1)%Z with (Z.of_nat (S b)) by lia.
      rewrite (IH l (S b) rest (c :: acc) H). simpl. now rewrite <- app_assoc. }
    destruct (Ascii.eqb c c_rbr) eqn:E4.
    { destruct b as [|b]; [discriminate|].
      replace (Z.of_nat (S b) - 1)%Z with (Z.of_nat b) by lia.
      rewrite (IH l b rest (c :: acc) H). simpl. now rewrite <- app_assoc. }
    rewrite znat_succ_nonzero, andb_false_r. cbn [andb].
    rewrite (IH l b rest (c :: acc) H). simpl. now rewrite <- app_assoc.
Qed.

Lemma get_parens_group body y : bal 0 0 body = true -> stop_next y = true ->
  get_parens (c_lpar :: body ++ c_rpar :: y) = Some (c_lpar :: body ++ [c_rpar]).
Proof.
  intros B S. unfold get_parens. cbn [get_parens_go]. change (Ascii.eqb c_lpar c_lpar) with true. cbv iota.
  change (0 + 1)%Z with (Z.of_nat 1). change 0%Z with (Z.of_nat 0) at 1.
  rewrite (get_parens_body body 0 0 (c_rpar :: y) [c_lpar] B).
  cbn [get_parens_go]. change (Ascii.eqb c_rpar c_lpar) with false. change (Ascii.eqb c_rpar c_rpar) with true.
  cbv iota. change (1 - 1)%Z with 0%Z. rewrite get_parens_stop by exact S.
  cbn [rev]. rewrite rev_app_distr, rev_involutive. reflexivity.
Qed.

Lemma stop_next_blanks n t : (n <> 0 \/ stop_next t = true) -> stop_next (blanks n ++ t) = true.
Proof. destruct n as [|n]; intros [H|H]; try congruence; try exact H; reflexivity. Qed.

(* no parenthesis, bracket or stopper: the scan goes through *)
Definition inert (c : ascii) : bool :=
  negb (Ascii.eqb c c_lpar) && negb (Ascii.eqb c c_rpar) && negb (Ascii.eqb c c_lbr) && negb (Ascii.eqb c c_rbr)
  && negb (stops_parens c).

Lemma get_parens_inert x : forall y acc, forallb inert x = true ->
  get_parens_go (x ++ y) 0%Z 0%Z acc = get_parens_go y 0%Z 0%Z (rev x ++ acc).
Proof.
  induction x as [|c x IH]; intros y acc H; [reflexivity|].
  simpl in H. apply andb_true_iff in H as [Hc Hx]. unfold inert in Hc.
  repeat (apply andb_true_iff in Hc as [Hc ?]).
  repeat match goal with H : negb _ = true |- _ => apply negb_true_iff in H end.
  cbn [app get_parens_go]. rewrite Hc, H, H0, H1, H2. cbn [andb].
  rewrite (IH y (c :: acc) Hx). simpl. now rewrite <- app_assoc.
Qed.

Lemma digit_inert c : is_digit c = true -> inert c = true.
Proof.
  intros H.
  assert (G : forall d, is_digit d = false -> Ascii.eqb c d = false).
  { intros d Hd. destruct (Ascii.eqb c d) eqn:E; [|reflexivity]. apply Ascii.eqb_eq in E. subst. congruence. }
  unfold inert, stops_parens. rewrite !G by reflexivity.
  assert (A : is_alpha c = false).
  { unfold is_digit, is_alpha, is_upper, is_lower in *. apply andb_true_iff in H as [H1 H2].
    apply Nat.leb_le in H1, H2. apply orb_false_iff. split; apply andb_false_iff; left; apply Nat.leb_gt; lia. }
  now rewrite A.
Qed.

(* ------------------------------------------------------------------ pieces of text *)
Lemma before_last_end c x : before_last c (x ++ [c]) = Some x.
Proof.
  induction x as [|d x IH]; simpl.
  - now rewrite Ascii.eqb_refl.
  - now rewrite IH.
Qed.

Lemma length_ge3 (body : str) : body <> [] -> (length (c_lpar :: body ++ [c_rpar]) <? 3) = false.
Proof.
  intros N. apply Nat.ltb_ge. destruct body; [congruence|]. simpl. rewrite app_length. simpl. lia.
Qed.

Lemma skipn_app_len {A} (a b : list A) : skipn (length a) (a ++ b) = b.
Proof. induction a; simpl; auto. Qed.

(* what follows the type spec: [n] blanks and a text that is empty or starts with a stopper and
   carries no white space at its ends *)
Definition tail_ok (n : nat) (t : str) : bool :=
  stripped t && stop_next t && (match t with [] => n =? 0 | _ => true end).

Lemma tail_ok_inv n t : tail_ok n t = true ->
  stripped t = true /\ stop_next t = true /\ (t = [] -> n = 0).
Proof.
  unfold tail_ok. intros H. apply andb_true_iff in H as [H H3]. apply andb_true_iff in H as [H1 H2].
  repeat split; auto. intros ->. now apply Nat.eqb_eq.
Qed.

Lemma strip_tail n t : tail_ok n t = true -> strip (blanks n ++ t) = t.
Proof. intros H. destruct (tail_ok_inv n t H) as (S & _ & _). rewrite strip_bl. now apply stripped_strip. Qed.

(* a text X that starts and ends with something that is not white space, followed by the tail *)
Lemma strip_group_tail (X : str) c r n t :
  X = c :: r -> is_space c = false -> is_space (last X c) = false -> tail_ok n t = true ->
  strip (X ++ blanks n ++ t) = X ++ blanks n ++ t.
Proof.
  intros E Hc Hl H. destruct (tail_ok_inv n t H) as (S & _ & Z).
  apply stripped_strip. destruct t as [|d t].
  - rewrite (Z eq_refl). cbn [blanks repeat app]. rewrite app_nil_r. subst X. unfold stripped.
    now rewrite Hc, Hl.
  - apply (stripped_app X (blanks n ++ d :: t) c r E Hc).
    + destruct (blanks n); discriminate.
    + rewrite last_app by discriminate. unfold stripped in S. apply andb_true_iff in S as [_ S].
      apply negb_true_iff in S. now rewrite (last_indep (d :: t) c d) by discriminate.
Qed.

(* ------------------------------------------------------------------ after the type word *)
Definition plain_type (vt : str) : bool := negb (one_of vt [s "type"; s "class"; s "character"]).

(* no kind selector *)
Lemma after_type_none vt n t : tail_ok n t = true ->
  after_type vt (blanks n ++ t) =
  if plain_type vt then Ok (mkpt vt t None None None)
  else if seqb vt (s "character") then Ok (mkpt vt t None (Some (s "1")) None) else value_error.
Proof.
  intros H. destruct (tail_ok_inv n t H) as (S & N & _).
  unfold after_type. rewrite (strip_tail n t H).
  unfold get_parens. rewrite (get_parens_stop t [] N). cbn [rev length skipn].
  rewrite (stripped_strip t S). unfold plain_type.
  change (0 <? 3) with true. change (prefix [c_star] []) with false. cbn [negb andb].
  destruct (negb (one_of vt [s "type"; s "class"; s "character"])); reflexivity.
Qed.

(* a parenthesised selector *)
Lemma after_type_paren vt b1 body n t :
  body <> [] -> bal 0 0 body = true -> tail_ok n t = true ->
  after_type vt (blanks b1 ++ c_lpar :: body ++ c_rpar :: blanks n ++ t)
  = finish_type vt t false (remove_ws body).
Proof.
  intros Nb B H. destruct (tail_ok_inv n t H) as (S & N & Z).
  unfold after_type. rewrite strip_bl.
  assert (E : strip (c_lpar :: body ++ c_rpar :: blanks n ++ t) = (c_lpar :: body ++ [c_rpar]) ++ blanks n ++ t).
  { replace (c_lpar :: body ++ c_rpar :: blanks n ++ t) with ((c_lpar :: body ++ [c_rpar]) ++ blanks n ++ t)
      by (cbn [app]; now rewrite <- app_assoc).
    apply (strip_group_tail _ c_lpar (body ++ [c_rpar])); auto.
    change (c_lpar :: body ++ [c_rpar]) with ((c_lpar :: body) ++ [c_rpar]). now rewrite last_last. }
  rewrite E.
  assert (G : get_parens ((c_lpar :: body ++ [c_rpar]) ++ blanks n ++ t) = Some (c_lpar :: body ++ [c_rpar])).
  { replace ((c_lpar :: body ++ [c_rpar]) ++ blanks n ++ t) with (c_lpar :: body ++ c_rpar :: blanks n ++ t)
      by (cbn [app]; now rewrite <- app_assoc).
    apply get_parens_group; [exact B|]. apply stop_next_blanks.
    destruct n; [right; exact N|left; discriminate]. }
  rewrite G. rewrite skipn_app_len, (strip_tail n t H).
  rewrite (length_ge3 body Nb). cbn [andb].
  cbn [varkind_search]. change (Ascii.eqb c_lpar c_lpar) with true. cbv iota.
  rewrite before_last_end. destruct body as [|c body]; [congruence|].
  unfold kind_args. now rewrite remove_ws_strip.
Qed.

(* "*" followed by digits *)
Lemma after_type_star vt ds n t :
  ds <> [] -> forallb is_digit ds = true -> tail_ok n t = true ->
  after_type vt (c_star :: ds ++ blanks n ++ t) = finish_type vt t true ds.
Proof.
  intros Nd D H. destruct (tail_ok_inv n t H) as (S & N & Z).
  unfold after_type.
  assert (Ld : forall c, is_space (last (c_star :: ds) c) = false).
  { intros c. change (c_star :: ds) with ([c_star] ++ ds). rewrite last_app by exact Nd.
    destruct (exists_last Nd) as (ds' & z & ->). rewrite last_last.
    rewrite forallb_app in D. apply andb_true_iff in D as [_ D]. simpl in D. rewrite andb_true_r in D.
    unfold inert in *. destruct (is_space z) eqn:Sz; [|reflexivity].
    exfalso. unfold is_digit, is_space in *. apply andb_true_iff in D as [D1 D2]. apply Nat.leb_le in D1, D2.
    apply orb_true_iff in Sz as [Sz|Sz]; apply andb_true_iff in Sz as [S1 S2]; apply Nat.leb_le in S1, S2; lia. }
  assert (E : strip ((c_star :: ds) ++ blanks n ++ t) = (c_star :: ds) ++ blanks n ++ t).
  { apply (strip_group_tail _ c_star ds); auto. }
  change (c_star :: ds ++ blanks n ++ t) with ((c_star :: ds) ++ blanks n ++ t). rewrite E.
  assert (I : forallb inert (c_star :: ds) = true).
  { cbn [forallb]. apply andb_true_iff. split; [reflexivity|].
    apply forallb_forall. intros c Hc. rewrite forallb_forall in D. now apply digit_inert, D. }
  unfold get_parens. rewrite (get_parens_inert _ _ [] I).
  rewrite get_parens_stop by (apply stop_next_blanks; destruct n; [right; exact N|left; discriminate]).
  rewrite app_nil_r, rev_involutive. rewrite skipn_app_len, (strip_tail n t H).
  change (prefix [c_star] (c_star :: ds)) with true. rewrite andb_false_r.
  cbn [varkind_search]. change (Ascii.eqb c_star c_lpar) with false. change (Ascii.eqb c_star c_star) with true.
  cbv iota.
  assert (Sk : skip_ws ds = ds).
  { destruct ds as [|d ds]; [congruence|]. apply skip_ws_head. simpl in D. apply andb_true_iff in D as [D _].
    destruct (is_space d) eqn:Sd; [|reflexivity]. exfalso. unfold is_digit, is_space in *.
    apply andb_true_iff in D as [D1 D2]. apply Nat.leb_le in D1, D2.
    apply orb_true_iff in Sd as [Sd|Sd]; apply andb_true_iff in Sd as [S1 S2]; apply Nat.leb_le in S1, S2; lia. }
  rewrite Sk, (take_while_end is_digit ds D). destruct ds as [|d ds]; [congruence|].
  unfold kind_args. cbv zeta.
  assert (St : strip (d :: ds) = d :: ds).
  { apply stripped_strip. unfold stripped. apply andb_true_iff. split.
    - apply negb_true_iff. destruct (is_space d) eqn:Sd; [|reflexivity].
      simpl in Sk. rewrite Sd in Sk. exfalso.
      assert (L : forall y, length (skip_ws y) <= length y).
      { clear. induction y as [|a y IH]; simpl; [lia|]. destruct (is_space a); simpl; lia. }
      specialize (L ds). rewrite Sk in L. simpl in L. lia.
    - apply negb_true_iff. specialize (Ld d).
      change (c_star :: d :: ds) with ([c_star] ++ d :: ds) in Ld. now rewrite last_app in Ld by discriminate. }
  rewrite St.
  assert (Pd : prefix [c_lpar] (d :: ds) = false).
  { cbn [prefix]. destruct (Ascii.eqb c_lpar d) eqn:Ed; [|reflexivity]. apply Ascii.eqb_eq in Ed. subst d.
    cbn [forallb] in D. apply andb_true_iff in D as [D _]. discriminate D. }
  rewrite Pd. f_equal. apply remove_ws_id.
  apply Bool.not_true_is_false. intros Ex. apply existsb_exists in Ex as (c & Hc & Sc).
  rewrite forallb_forall in D. specialize (D c Hc). unfold is_digit, is_space in *.
  apply andb_true_iff in D as [D1 D2]. apply Nat.leb_le in D1, D2.
  apply orb_true_iff in Sc as [Sc|Sc]; apply andb_true_iff in Sc as [S1 S2]; apply Nat.leb_le in S1, S2; lia.
Qed.

(* ------------------------------------------------------------------ balanced text *)
Definition noparen (c : ascii) : bool :=
  negb (Ascii.eqb c c_lpar) && negb (Ascii.eqb c c_rpar) && negb (Ascii.eqb c c_lbr) && negb (Ascii.eqb c c_rbr).

Lemma bal_noparen_head u : forall l b x, forallb noparen u = true -> bal l b (u ++ x) = bal l b x.
Proof.
  induction u as [|c u IH]; intros l b x H; [reflexivity|].
  simpl in H. apply andb_true_iff in H as [Hc Hu]. unfold noparen in Hc.
  repeat (apply andb_true_iff in Hc as [Hc ?]).
  repeat match goal with H : negb _ = true |- _ => apply negb_true_iff in H end.
  cbn [app bal]. rewrite Hc, H, H0, H1. now apply IH.
Qed.

Lemma bal_noparen_tail x : forall l b u, forallb noparen u = true -> bal l b (x ++ u) = bal l b x.
Proof.
  induction x as [|c x IH]; intros l b u H.
  - cbn [app]. rewrite <- (app_nil_r u). now rewrite bal_noparen_head.
  - cbn [app bal]. destruct (Ascii.eqb c c_lpar); [now apply IH|].
    destruct (Ascii.eqb c c_rpar); [destruct l; [reflexivity|now apply IH]|].
    destruct (Ascii.eqb c c_lbr); [now apply IH|].
    destruct (Ascii.eqb c c_rbr); [destruct b; [reflexivity|now apply IH]|]. now apply IH.
Qed.

Lemma noparen_blanks n : forallb noparen (blanks n) = true.
Proof. unfold blanks. induction n; [reflexivity|]. simpl. exact IHn. Qed.

Lemma noparen_alpha x : forallb is_alpha x = true -> forallb noparen x = true.
Proof.
  intros H. apply forallb_forall. intros c Hc. rewrite forallb_forall in H.
  destruct (alpha_plain c (H c Hc)) as (A & B & C & D & _). unfold noparen. now rewrite A, B, C, D.
Qed.

Lemma nospace_alpha x : forallb is_alpha x = true -> existsb is_space x = false.
Proof.
  intros H. apply Bool.not_true_is_false. intros E. apply existsb_exists in E as (c & Hc & Sc).
  rewrite forallb_forall in H. destruct (alpha_plain c (H c Hc)) as (_ & _ & _ & _ & S & _). congruence.
Qed.

Lemma paren_shape sp inner y :
  paren sp inner ++ y = blanks (t_b1 sp) ++ c_lpar :: (blanks (t_b2 sp) ++ inner ++ blanks (t_b2 sp)) ++ c_rpar :: y.
Proof. unfold paren. repeat rewrite <- app_assoc. reflexivity. Qed.

Lemma padded_nonempty n inner : inner <> [] -> blanks n ++ inner ++ blanks n <> [].
Proof. intros N E. apply app_eq_nil in E as [_ E]. apply app_eq_nil in E as [E _]. contradiction. Qed.

Lemma remove_ws_padded n inner : remove_ws (blanks n ++ inner ++ blanks n) = remove_ws inner.
Proof. now rewrite !remove_ws_app, remove_ws_bl, app_nil_r. Qed.

Lemma bal_padded n inner : bal 0 0 (blanks n ++ inner ++ blanks n) = bal 0 0 inner.
Proof. rewrite bal_noparen_head by apply noparen_blanks. apply bal_noparen_tail, noparen_blanks. Qed.

(* ------------------------------------------------------------------ expressions *)
Lemma expr_ok_inv k : expr_ok k = true ->
  k <> [] /\ existsb is_space k = false /\ existsb (Ascii.eqb c_eq) k = false /\ bal 0 0 k = true.
Proof.
  unfold expr_ok. destruct k as [|c k]; [discriminate|]. intros H.
  apply andb_true_iff in H as [H B]. apply andb_true_iff in H as [H E]. apply andb_true_iff in H as [S _].
  apply negb_true_iff in S, E. repeat split; auto. discriminate.
Qed.

Lemma match_ci_suffix w : forall x r, match_ci w x = Some r -> exists p, x = p ++ r.
Proof.
  induction w as [|a w IH]; intros x r H.
  - simpl in H. injection H as <-. now exists [].
  - destruct x as [|b x]; [discriminate|]. simpl in H. destruct (Ascii.eqb a (lower_ch b)); [|discriminate].
    destruct (IH x r H) as (p & ->). now exists (b :: p).
Qed.

Lemma skip_ws_suffix x : exists p, x = p ++ skip_ws x.
Proof.
  induction x as [|c x IH]; [now exists []|]. simpl. destruct (is_space c).
  - destruct IH as (p & E). exists (c :: p). simpl. now rewrite <- E.
  - now exists [].
Qed.

Lemma kind_re_none x : existsb (Ascii.eqb c_eq) x = false -> kind_re x = None.
Proof.
  intros H. unfold kind_re. destruct (match_ci (s "kind") x) as [r|] eqn:M; [|reflexivity].
  destruct (skip_ws r) as [|c r2] eqn:Sk; [reflexivity|].
  destruct (Ascii.eqb c c_eq) eqn:E; [|reflexivity]. exfalso.
  apply Ascii.eqb_eq in E. subst c.
  destruct (match_ci_suffix _ _ _ M) as (p & ->). destruct (skip_ws_suffix r) as (q & Er). rewrite Sk in Er.
  assert (In c_eq (p ++ r)) by (rewrite Er; apply in_or_app; right; apply in_or_app; right; now left).
  assert (existsb (Ascii.eqb c_eq) (p ++ r) = true) by (apply existsb_exists; exists c_eq; split; [assumption|apply Ascii.eqb_refl]).
  congruence.
Qed.

Lemma skip_ws_nospace x : existsb is_space x = false -> skip_ws x = x.
Proof. destruct x as [|c x]; [reflexivity|]. simpl. intros H. apply orb_false_iff in H as [H _]. now rewrite H. Qed.

(* "kind = k" without white space *)
Lemma kind_re_keyeq kc k : k <> [] -> existsb is_space k = false -> existsb (Ascii.eqb c_comma) k = false ->
  kind_re (recase kc (s "kind") ++ c_eq :: k) = Some k.
Proof.
  intros N S C. unfold kind_re. rewrite match_ci_recase by reflexivity.
  cbn [skip_ws]. change (is_space c_eq) with false. cbv iota. change (Ascii.eqb c_eq c_eq) with true. cbv iota.
  rewrite (skip_ws_nospace k S).
  rewrite (take_while_end _ k).
  - destruct k; [congruence|reflexivity].
  - apply forallb_forall. intros c Hc. apply andb_true_iff. split; apply negb_true_iff.
    + destruct (Ascii.eqb c c_comma) eqn:E; [|reflexivity]. apply Ascii.eqb_eq in E. subst.
      assert (existsb (Ascii.eqb c_comma) k = true) by (apply existsb_exists; exists c_comma; split; [assumption|apply Ascii.eqb_refl]).
      congruence.
    + destruct (is_space c) eqn:E; [|reflexivity].
      assert (existsb is_space k = true) by (apply existsb_exists; eauto). congruence.
Qed.

Lemma remove_ws_keyeq sp key v : forallb is_lower key = true -> existsb is_space v = false ->
  remove_ws (keyeq sp key v) = recase (t_kcase sp) key ++ c_eq :: v.
Proof.
  intros L S. unfold keyeq. rewrite !remove_ws_app, !remove_ws_bl.
  rewrite (remove_ws_id (recase (t_kcase sp) key)) by (apply nospace_alpha, alpha_recase, L).
  rewrite (remove_ws_id v S). reflexivity.
Qed.

Lemma bal_keyeq sp key v : forallb is_lower key = true -> bal 0 0 (keyeq sp key v) = bal 0 0 v.
Proof.
  intros L. unfold keyeq.
  rewrite bal_noparen_head by (apply noparen_alpha, alpha_recase, L).
  rewrite bal_noparen_head by apply noparen_blanks.
  rewrite (bal_noparen_head [c_eq]) by reflexivity.
  now rewrite bal_noparen_head by apply noparen_blanks.
Qed.

Lemma keyeq_nonempty sp key v : v <> [] -> keyeq sp key v <> [].
Proof.
  intros N E. unfold keyeq in E. apply app_eq_nil in E as [_ E]. apply app_eq_nil in E as [_ E].
  apply app_eq_nil in E as [_ E]. apply app_eq_nil in E as [_ E]. contradiction.
Qed.

Lemma digits_no_eq k : forallb is_digit k = true -> existsb (Ascii.eqb c_eq) k = false.
Proof.
  intros H. apply Bool.not_true_is_false. intros E. apply existsb_exists in E as (c & Hc & Ec).
  apply Ascii.eqb_eq in Ec. subst c. rewrite forallb_forall in H. specialize (H _ Hc). discriminate H.
Qed.

(* ------------------------------------------------------------------ numeric types *)
Lemma finish_num b t star args :
  finish_type (base_word b) t star args
  = Ok (mkpt (base_word b) t (Some (match kind_re args with Some k => k | None => args end)) None None).
Proof. destruct b; reflexivity. Qed.

Lemma base_word_simple b : In (base_word b) simple_words.
Proof. destruct b; simpl; auto 8. Qed.

Lemma lower_is_map x : lower x = map lower_ch x.
Proof. reflexivity. Qed.

Lemma parse_type_word m w y : In w simple_words -> forallb is_lower w = true ->
  parse_type (recase m w ++ y) = after_type (normalise_double w) y.
Proof.
  intros H L. unfold parse_type. rewrite (match_vartype_word m w y H).
  now rewrite lower_is_map, (lower_recase m w L).
Qed.

Lemma all_digits_inv k : all_digits k = true -> k <> [] /\ forallb is_digit k = true.
Proof. unfold all_digits. destruct k; [discriminate|]. intros H. split; [discriminate|exact H]. Qed.

Theorem type_spellings_num sp b k n t :
  type_ok sp (ANum b k) = true -> type_region sp (ANum b k) = 0 -> tail_ok n t = true ->
  parse_type (render_type sp (ANum b k) ++ blanks n ++ t) = Ok (mkpt (base_word b) t k None None).
Proof.
  intros W R T.
  assert (Lw : forallb is_lower (base_word b) = true) by (destruct b; reflexivity).
  assert (Nd : normalise_double (base_word b) = base_word b) by (destruct b; reflexivity).
  assert (Pl : plain_type (base_word b) = true) by (destruct b; reflexivity).
  destruct k as [k|].
  - cbn [type_ok] in W. apply andb_true_iff in W as [E F].
    destruct (expr_ok_inv k E) as (Nk & Sk & Ek & Bk).
    cbn [render_type]. rewrite <- app_assoc.
    rewrite (parse_type_word _ _ _ (base_word_simple b) Lw), Nd.
    destruct (t_form sp) as [|[|f]] eqn:Form.
    + (* (k) *)
      rewrite paren_shape.
      rewrite after_type_paren; [|now apply padded_nonempty|now rewrite bal_padded|exact T].
      rewrite remove_ws_padded, (remove_ws_id k Sk), finish_num. now rewrite (kind_re_none k Ek).
    + (* (kind=k) *)
      cbn [type_region] in R. rewrite Form in R.
      assert (Ck : has_comma k = false) by (destruct (has_comma k); [discriminate|reflexivity]).
      rewrite paren_shape.
      rewrite after_type_paren; [|apply padded_nonempty, keyeq_nonempty, Nk
                                 |now rewrite bal_padded, bal_keyeq by reflexivity|exact T].
      rewrite remove_ws_padded, remove_ws_keyeq by (try reflexivity; exact Sk).
      rewrite finish_num. now rewrite (kind_re_keyeq _ k Nk Sk Ck).
    + (* *k *)
      cbn [type_region] in R. rewrite Form in R.
      destruct (t_bstar sp =? 0) eqn:Bs; [|discriminate]. apply Nat.eqb_eq in Bs.
      change (2 <=? S (S f)) with true in F. cbv iota in F.
      destruct (all_digits_inv k F) as (_ & Dk).
      rewrite Bs. cbn [blanks repeat app].
      rewrite (after_type_star _ k n t Nk Dk T), finish_num.
      now rewrite (kind_re_none k (digits_no_eq k Dk)).
  - cbn [render_type].
    rewrite (parse_type_word _ _ _ (base_word_simple b) Lw), Nd.
    now rewrite (after_type_none _ n t T), Pl.
Qed.

(* ------------------------------------------------------------------ double precision / double complex *)
Lemma normalise_double_blanks d second :
  (second = s "precision" \/ second = s "complex") ->
  normalise_double (s "double" ++ blanks (S d) ++ second) = s "double" ++ [c_sp] ++ second.
Proof.
  intros H. unfold normalise_double.
  change (match_ci (s "double") (s "double" ++ blanks (S d) ++ second)) with (Some (blanks (S d) ++ second)).
  change (blanks (S d) ++ second) with (c_sp :: (blanks d ++ second)).
  change (is_space c_sp) with true. cbv iota. cbn [skip_ws]. change (is_space c_sp) with true. cbv iota.
  rewrite skip_ws_bl. destruct H as [-> | ->]; reflexivity.
Qed.

Theorem type_spellings_double sp (complex : bool) n t :
  let T := if complex then ADoubleComplex else ADouble in
  type_region sp T = 0 -> tail_ok n t = true ->
  parse_type (render_type sp T ++ blanks n ++ t)
  = Ok (mkpt (if complex then s "double complex" else s "double precision") t None None None).
Proof.
  intros T R H. set (second := if complex then s "complex" else s "precision").
  assert (Hs : second = s "precision" \/ second = s "complex") by (unfold second; destruct complex; auto).
  assert (Ls : forallb is_lower second = true) by (unfold second; destruct complex; reflexivity).
  assert (Rt : render_type sp T = recase (t_case sp) (s "double") ++ blanks (t_dbl sp) ++ recase (skipn 6 (t_case sp)) second)
    by (unfold T, second; destruct complex; reflexivity).
  assert (D : t_dbl sp <> 0).
  { unfold T in R. destruct complex; cbn [type_region] in R; destruct (t_dbl sp =? 0) eqn:E; try discriminate;
      now apply Nat.eqb_neq. }
  destruct (t_dbl sp) as [|d] eqn:Ed; [congruence|].
  rewrite Rt. unfold parse_type, match_vartype. repeat rewrite <- app_assoc.
  rewrite (match_alts_double (t_case sp) (S d) second (blanks n ++ t) Hs).
  replace (recase (t_case sp) (s "double") ++ blanks (S d) ++ recase (skipn 6 (t_case sp)) second ++ blanks n ++ t)
    with ((recase (t_case sp) (s "double") ++ blanks (S d) ++ recase (skipn 6 (t_case sp)) second) ++ blanks n ++ t)
    by (now repeat rewrite <- app_assoc).
  rewrite firstn_app_len.
  rewrite lower_is_map, !map_app, map_lower_blanks, !lower_recase by (try reflexivity; exact Ls).
  rewrite (normalise_double_blanks d second Hs), (after_type_none _ n t H).
  unfold second. destruct complex; reflexivity.
Qed.

(* ------------------------------------------------------------------ derived types *)
Lemma ident_ok_inv x : ident_ok x = true -> exists c r, x = c :: r /\ is_alpha c = true /\ forallb is_word x = true.
Proof.
  unfold ident_ok. destruct x as [|c r]; [discriminate|]. intros H. apply andb_true_iff in H as [A W]. eauto.
Qed.

Lemma word_plain c : is_word c = true ->
  is_space c = false /\ Ascii.eqb c c_lpar = false /\ Ascii.eqb c c_rpar = false /\ Ascii.eqb c c_lbr = false
  /\ Ascii.eqb c c_rbr = false /\ Ascii.eqb c c_comma = false /\ Ascii.eqb c c_eq = false /\ Ascii.eqb c c_star = false.
Proof.
  intros H.
  assert (G : forall d, is_word d = false -> Ascii.eqb c d = false).
  { intros d Hd. destruct (Ascii.eqb c d) eqn:E; [|reflexivity]. apply Ascii.eqb_eq in E. subst. congruence. }
  split; [|repeat split; apply G; reflexivity].
  destruct (is_space c) eqn:S; [|reflexivity]. exfalso.
  unfold is_word, is_alpha, is_upper, is_lower, is_digit, is_space in *.
  repeat match goal with
         | H : (_ || _) = true |- _ => apply orb_true_iff in H as [H|H]
         | H : (_ && _) = true |- _ => apply andb_true_iff in H as [? ?]
         | H : (_ <=? _) = true |- _ => apply Nat.leb_le in H
         | H : (_ =? _) = true |- _ => apply Nat.eqb_eq in H
         end; lia.
Qed.

Lemma words_nospace x : forallb is_word x = true -> existsb is_space x = false.
Proof.
  intros H. apply Bool.not_true_is_false. intros E. apply existsb_exists in E as (c & Hc & Sc).
  rewrite forallb_forall in H. destruct (word_plain c (H c Hc)) as (S & _). congruence.
Qed.

Lemma words_noparen x : forallb is_word x = true -> forallb noparen x = true.
Proof.
  intros H. apply forallb_forall. intros c Hc. rewrite forallb_forall in H.
  destruct (word_plain c (H c Hc)) as (_ & A & B & C & D & _). unfold noparen. now rewrite A, B, C, D.
Qed.

Lemma bal_words x : forallb is_word x = true -> bal 0 0 x = true.
Proof. intros H. rewrite <- (app_nil_r x). now rewrite bal_noparen_head by now apply words_noparen. Qed.

Theorem type_spellings_derived sp cls name n t :
  type_ok sp (ADerived cls name) = true -> tail_ok n t = true ->
  parse_type (render_type sp (ADerived cls name) ++ blanks n ++ t)
  = Ok (mkpt (if cls then s "class" else s "type") t None None (Some (name, []))).
Proof.
  intros W T. cbn [type_ok] in W. destruct (ident_ok_inv name W) as (c & r & E & A & Ws).
  set (w := if cls then s "class" else s "type").
  assert (Iw : In w simple_words) by (unfold w, simple_words; destruct cls; simpl; auto 8).
  assert (Lw : forallb is_lower w = true) by (unfold w; destruct cls; reflexivity).
  cbn [render_type]. fold w. rewrite <- app_assoc.
  rewrite (parse_type_word _ w _ Iw Lw).
  assert (Nd : normalise_double w = w) by (unfold w; destruct cls; reflexivity). rewrite Nd.
  rewrite paren_shape.
  rewrite after_type_paren; [|apply padded_nonempty; subst name; discriminate
                             |now rewrite bal_padded, bal_words|exact T].
  rewrite remove_ws_padded, (remove_ws_id name (words_nospace name Ws)).
  assert (F : forall args, finish_type w t false args
                           = match proto_re args with Some p => Ok (mkpt w t None None (Some p)) | None => value_error end)
    by (intros; unfold w; destruct cls; reflexivity).
  rewrite F. unfold proto_re. rewrite E.
  destruct (alpha_plain c A) as (_ & _ & _ & _ & _ & _ & _ & St). rewrite St.
  rewrite <- E, (take_while_end is_word name Ws). rewrite E. reflexivity.
Qed.
