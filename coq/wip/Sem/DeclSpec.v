(* Sem/DeclSpec.v -- the Spec side of the declaration layer of C01: abstract declarations, what
   FORD must report for them (written from the property text and the Fortran rules, not from FORD's
   code), and a renderer whose [spelling] argument chooses among equivalent surface forms:
   letter case, real*8 | real(8) | real(kind=8), the character len/kind forms in every order,
   "double precision" with any number of blanks, optional "::", blanks, DIMENSION attribute vs
   array spec, attribute on the declaration vs separate attribute statement.  Definitions only. *)
From Coq Require Import ZArith.
From Ford Require Import Base.Str Base.StrX Sem.TypeSpec.

(* ------------------------------------------------------------------ abstract types *)
Inductive nbase := BInteger | BReal | BComplex | BLogical.

Inductive atype : Type :=
| ANum (b : nbase) (kind : option str)          (* integer / real / complex / logical [kind] *)
| ADouble                                       (* double precision *)
| ADoubleComplex                                (* double complex *)
| AChar (len kind : option str)                 (* character [len] [kind] *)
| ADerived (is_class : bool) (name : str).      (* type(name) / class(name) *)

Definition base_word (b : nbase) : str :=
  match b with BInteger => s "integer" | BReal => s "real" | BComplex => s "complex" | BLogical => s "logical" end.

(* what must be reported: vartype, kind, length, prototype *)
Definition spec_ptype (t : atype) : str * option str * option str * option (str * str) :=
  match t with
  | ANum b k => (base_word b, k, None, None)
  | ADouble => (s "double precision", None, None, None)
  | ADoubleComplex => (s "double complex", None, None, None)
  | AChar l k => (s "character", k, Some (match l with Some x => x | None => s "1" end), None)
  | ADerived c n => (if c then s "class" else s "type", None, None, Some (n, []))
  end.

(* ------------------------------------------------------------------ spelling of a type spec *)
Record tspell := mkts {
  t_case : list bool;       (* letter case of the type keyword(s): true = upper *)
  t_kcase : list bool;      (* letter case of "kind" / "len" *)
  t_form : nat;             (* numeric kinds: 0 (k), 1 (kind=k), 2 *k;
                               character: 0 *len, 1 positional, 2 len= [, kind=], 3 kind= , len= , 4 len , kind= *)
  t_b1 : nat;               (* blanks between the type word and "(" *)
  t_b2 : nat;               (* blanks just inside the parentheses *)
  t_b3 : nat;               (* blanks around "=" and after "," *)
  t_bstar : nat;            (* blanks after "*" *)
  t_dbl : nat               (* blanks between "double" and "precision" / "complex" *)
}.

Fixpoint recase (m : list bool) (w : str) : str :=
  match w with
  | [] => []
  | c :: w' =>
    match m with
    | b :: m' => (if b then upper_ch c else c) :: recase m' w'
    | [] => c :: recase [] w'
    end
  end.

Definition blanks (n : nat) : str := repeat c_sp n.
Definition all_digits (x : str) : bool := match x with [] => false | _ => forallb is_digit x end.

Definition paren (sp : tspell) (inner : str) : str :=
  blanks (t_b1 sp) ++ [c_lpar] ++ blanks (t_b2 sp) ++ inner ++ blanks (t_b2 sp) ++ [c_rpar].
Definition keyeq (sp : tspell) (key value : str) : str :=
  recase (t_kcase sp) key ++ blanks (t_b3 sp) ++ [c_eq] ++ blanks (t_b3 sp) ++ value.
Definition comma (sp : tspell) : str := c_comma :: blanks (t_b3 sp).

Definition render_type (sp : tspell) (t : atype) : str :=
  match t with
  | ANum b None => recase (t_case sp) (base_word b)
  | ANum b (Some k) =>
    recase (t_case sp) (base_word b) ++
    match t_form sp with
    | 0 => paren sp k
    | 1 => paren sp (keyeq sp (s "kind") k)
    | _ => c_star :: blanks (t_bstar sp) ++ k
    end
  | ADouble => recase (t_case sp) (s "double") ++ blanks (t_dbl sp) ++ recase (skipn 6 (t_case sp)) (s "precision")
  | ADoubleComplex => recase (t_case sp) (s "double") ++ blanks (t_dbl sp) ++ recase (skipn 6 (t_case sp)) (s "complex")
  | AChar None None => recase (t_case sp) (s "character")
  | AChar None (Some k) => recase (t_case sp) (s "character") ++ paren sp (keyeq sp (s "kind") k)
  | AChar (Some l) None =>
    recase (t_case sp) (s "character") ++
    match t_form sp with
    | 0 => c_star :: blanks (t_bstar sp) ++ (if all_digits l then l else c_lpar :: l ++ [c_rpar])
    | 1 => paren sp l
    | _ => paren sp (keyeq sp (s "len") l)
    end
  | AChar (Some l) (Some k) =>
    recase (t_case sp) (s "character") ++
    match t_form sp with
    | 0 | 1 => paren sp (l ++ comma sp ++ k)
    | 2 => paren sp (keyeq sp (s "len") l ++ comma sp ++ keyeq sp (s "kind") k)
    | 3 => paren sp (keyeq sp (s "kind") k ++ comma sp ++ keyeq sp (s "len") l)
    | _ => paren sp (l ++ comma sp ++ keyeq sp (s "kind") k)
    end
  | ADerived c n => recase (t_case sp) (if c then s "class" else s "type") ++ paren sp n
  end.

(* ------------------------------------------------------------------ declarations *)
Inductive itoken := IText (x : str) | ILit (q : ascii) (body : str).   (* body: between the quotes *)

Record aentity := mkent {
  e_name : str;
  e_dim : option str;               (* array spec without blanks, e.g. "(3)", "(0:4,2)" *)
  e_points : bool;                  (* "=>" initialisation *)
  e_init : option (list itoken)
}.

Inductive aintent := IIn | IOut | IInOut.
Definition intent_word (i : aintent) : str :=
  match i with IIn => s "in" | IOut => s "out" | IInOut => s "inout" end.

Record adecl := mkdecl {
  d_type : atype;
  d_parameter : bool;
  d_intent : option aintent;
  d_optional : bool;
  d_attrs : list str;               (* further attributes, lower case: allocatable pointer target save ... *)
  d_entities : list aentity
}.

Definition token_text (t : itoken) : str :=
  match t with IText x => x | ILit q b => q :: b ++ [q] end.

(* the initial value as it must be reported: the expression without blanks, ", " after commas,
   character literals verbatim (FORD substitutes U+00A0 for blanks in runs so that HTML keeps them) *)
Definition spec_token (t : itoken) : str :=
  match t with IText x => comma_space x | ILit q b => nbsp_runs (q :: b ++ [q]) end.
Definition spec_init (ts : list itoken) : str := concat (map spec_token ts).

Definition spec_var (d : adecl) (permission : str) (e : aentity) : var :=
  let '(vt, k, l, p) := spec_ptype (d_type d) in
  mkvar (e_name e) vt k l p (d_attrs d)
        (match d_intent d with Some i => intent_word i | None => [] end)
        (d_optional d) permission (d_parameter d) (e_points e)
        (option_map spec_init (e_init e))
        (match e_dim e with Some x => x | None => [] end).
Definition spec_vars (d : adecl) (permission : str) : list var := map (spec_var d permission) (d_entities d).

Record dspell := mkds {
  ds_type : tspell;
  ds_dcolon : bool;            (* write "::" when it is optional *)
  ds_dimattr : bool;           (* array spec of a single entity written as DIMENSION attribute *)
  ds_acase : list bool;        (* letter case of attribute keywords *)
  ds_ablank : nat;             (* blanks inside attributes: "intent ( in )", "dimension (3)" *)
  ds_inout_blank : bool;       (* "in out" *)
  ds_sep : nat                 (* blanks after commas, around "::", "=" and between tokens *)
}.

Definition render_intent (sp : dspell) (i : aintent) : str :=
  recase (ds_acase sp) (s "intent") ++ blanks (ds_ablank sp) ++ [c_lpar] ++ blanks (ds_ablank sp) ++
  (match i with
   | IInOut => if ds_inout_blank sp then recase (ds_acase sp) (s "in") ++ [c_sp] ++ recase (ds_acase sp) (s "out")
               else recase (ds_acase sp) (s "inout")
   | _ => recase (ds_acase sp) (intent_word i)
   end) ++ blanks (ds_ablank sp) ++ [c_rpar].

Definition dim_attr_of (sp : dspell) (d : adecl) : option str :=
  match d_entities d with
  | [e] => if ds_dimattr sp then e_dim e else None
  | _ => None
  end.

Definition render_attrs (sp : dspell) (d : adecl) : list str :=
  (if d_parameter d then [recase (ds_acase sp) (s "parameter")] else []) ++
  (match d_intent d with Some i => [render_intent sp i] | None => [] end) ++
  (if d_optional d then [recase (ds_acase sp) (s "optional")] else []) ++
  map (recase (ds_acase sp)) (d_attrs d) ++
  (match dim_attr_of sp d with
   | Some dim => [recase (ds_acase sp) (s "dimension") ++ blanks (ds_ablank sp) ++ dim]
   | None => []
   end).

Definition render_init (sp : dspell) (ts : list itoken) : str :=
  join (blanks (ds_sep sp)) (map token_text ts).

Definition render_entity (sp : dspell) (dimattr : bool) (e : aentity) : str :=
  e_name e ++ (if dimattr then [] else match e_dim e with Some x => x | None => [] end) ++
  match e_init e with
  | Some ts => blanks (ds_sep sp) ++ (if e_points e then s "=>" else [c_eq]) ++ blanks (ds_sep sp) ++ render_init sp ts
  | None => []
  end.

Definition needs_dcolon (sp : dspell) (d : adecl) : bool :=
  match render_attrs sp d with _ :: _ => true | [] => existsb (fun e => match e_init e with Some _ => true | None => false end) (d_entities d) end.

Definition render_decl (sp : dspell) (d : adecl) : str :=
  let attrs := render_attrs sp d in
  let dimattr := match dim_attr_of sp d with Some _ => true | None => false end in
  render_type (ds_type sp) (d_type d) ++
  concat (map (fun a => c_comma :: blanks (ds_sep sp) ++ a) attrs) ++
  (if needs_dcolon sp d || ds_dcolon sp then blanks (ds_sep sp) ++ s "::" ++ blanks (ds_sep sp) else [c_sp]) ++
  join (c_comma :: blanks (ds_sep sp)) (map (render_entity sp dimattr) (d_entities d)).

(* ------------------------------------------------------------------ regions of the recorded findings *)
Definition has_comma (x : str) : bool := existsb (Ascii.eqb c_comma) x.
Definition simple_len (x : str) : bool := (match x with [] => false | _ => forallb is_word x end) || seqb x (s "*") || seqb x (s ":").
Definition starts_digit (x : str) : bool := match x with c :: _ => is_digit c | [] => false end.

Definition positional_region (l : str) : nat := if starts_digit l && negb (all_digits l) then 3 else 0.
Definition named_region (l : str) : nat := if simple_len l then 0 else 3.

(* region of a type spelling, 0 = none:
   1  "doubleprecision" / "doublecomplex" without a blank
   2  blank after "*"
   3  len= with an expression that is not a word, "*" or ":" ; positional length starting with digits
   4  kind= with a comma inside the expression *)
Definition type_region (sp : tspell) (t : atype) : nat :=
  match t with
  | ADouble | ADoubleComplex => if t_dbl sp =? 0 then 1 else 0
  | ANum _ (Some k) =>
    match t_form sp with
    | 0 => 0
    | 1 => if has_comma k then 4 else 0
    | _ => if t_bstar sp =? 0 then 0 else 2
    end
  | AChar (Some l) None =>
    match t_form sp with
    | 0 => if t_bstar sp =? 0 then 0 else 2
    | 1 => positional_region l
    | _ => named_region l
    end
  | AChar (Some l) (Some _) =>
    match t_form sp with
    | 2 | 3 => named_region l
    | _ => positional_region l
    end
  | _ => 0
  end.

Definition is_lower_mask (m : list bool) : bool := negb (existsb (fun b => b) m).

(* region of a declaration spelling:
   5  an attribute kept among the attributes is written with capitals or inner blanks
   7  array spec written as DIMENSION attribute *)
Definition decl_region (sp : dspell) (d : adecl) : nat :=
  match type_region (ds_type sp) (d_type d) with
  | 0 =>
    match dim_attr_of sp d with
    | Some _ => 7
    | None =>
      match d_attrs d with
      | _ :: _ => if is_lower_mask (ds_acase sp) then 0 else 5
      | [] => 0
      end
    end
  | r => r
  end.

(* ------------------------------------------------------------------ well-formedness *)
Definition balanced_go (x : str) : bool :=
  (fix go (x : str) (l b : nat) : bool :=
     match x with
     | [] => (l =? 0) && (b =? 0)
     | c :: r =>
       if Ascii.eqb c c_lpar then go r (S l) b
       else if Ascii.eqb c c_rpar then match l with S l' => go r l' b | O => false end
       else if Ascii.eqb c c_lbr then go r l (S b)
       else if Ascii.eqb c c_rbr then match b with S b' => go r l b' | O => false end
       else go r l b
     end) x 0 0.

(* a kind / length expression: not empty, no white space, no quote, balanced *)
Definition expr_ok (x : str) : bool :=
  match x with
  | [] => false
  | _ => negb (existsb is_space x) && negb (existsb is_quote x) && balanced_go x
  end.
Definition ident_ok (x : str) : bool :=
  match x with c :: _ => is_alpha c && forallb is_word x | [] => false end.

Definition type_ok (sp : tspell) (t : atype) : bool :=
  match t with
  | ANum _ None | ADouble | ADoubleComplex | AChar None None => true
  | ANum _ (Some k) => expr_ok k && (if 2 <=? t_form sp then all_digits k else true)
  | AChar None (Some k) => expr_ok k && negb (has_comma k)
  | AChar (Some l) None => expr_ok l && negb (has_comma l)
  | AChar (Some l) (Some k) => expr_ok l && expr_ok k && negb (has_comma l) && negb (has_comma k)
  | ADerived _ n => ident_ok n
  end.
