(* Sem/TreeProofs.v — the structural parser returns exactly the declared tree (C01), rejects
   truncated units (C20), attaches documentation to the declared entity (C03) *)
From Ford Require Import Base.Str Sem.Tree Sem.TreeSpec.
From Coq Require Import Lia.

Definition add_children (es : list ent) (st : cstate) : cstate :=
  {| cs_incontains := cs_incontains st; cs_block := cs_block st; cs_negblock := cs_negblock st;
     cs_docs := cs_docs st; cs_children := cs_children st ++ es |}.

Definition level0 (st : cstate) : Prop := cs_block st = 0 /\ cs_negblock st = 0.

Definition no_doc_head (l : list stmt) : Prop := match l with SDoc _ :: _ => False | _ => True end.

Lemma take_docs_app docs l : no_doc_head l -> take_docs (map SDoc docs ++ l) = (docs, l).
Proof.
  intros H. induction docs as [|d docs IH]; simpl.
  - destruct l as [|[] l]; simpl in *; try reflexivity. destruct H.
  - now rewrite IH.
Qed.

Lemma flatten_no_doc_head d T : no_doc_head T -> no_doc_head (flatten d ++ T).
Proof.
  intros H. destruct d as [l names docs|n|k name docs spec cont|a name docs body]; simpl; auto.
  - destruct n; simpl; auto.
  - destruct k; simpl; auto.
Qed.

Lemma flat_no_doc_head ds T : no_doc_head T -> no_doc_head (flat_map flatten ds ++ T).
Proof.
  intros H. induction ds as [|d ds IH]; simpl; [exact H|].
  rewrite <- app_assoc. now apply flatten_no_doc_head.
Qed.

(* the statement for one declaration: it is consumed, its tree is added to the open container,
   and enough fuel remains *)
Definition consumed (d : decl) : Prop :=
  forall parent nm a g st f rest,
    wf_decl parent (cs_incontains st) d = true -> level0 st -> no_doc_head rest ->
    length (flatten d ++ rest) < f ->
    exists f', length rest < f' /\
      parse_body f parent nm a g st (flatten d ++ rest)
      = parse_body f' parent nm a g (add_children (tree_of d) st) rest.

Lemma add_children_nil st : add_children [] st = st.
Proof. destruct st. unfold add_children. simpl. now rewrite app_nil_r. Qed.

Lemma add_children_app a b st : add_children b (add_children a st) = add_children (a ++ b) st.
Proof. unfold add_children. simpl. now rewrite app_assoc. Qed.

Lemma consumed_list ds : Forall consumed ds ->
  forall parent nm a g st f rest,
    forallb (wf_decl parent (cs_incontains st)) ds = true -> level0 st -> no_doc_head rest ->
    length (flat_map flatten ds ++ rest) < f ->
    exists f', length rest < f' /\
      parse_body f parent nm a g st (flat_map flatten ds ++ rest)
      = parse_body f' parent nm a g (add_children (flat_map tree_of ds) st) rest.
Proof.
  intros H. induction H as [|d ds Hd _ IH]; intros parent nm a g st f rest Hwf Hl Hnd Hf.
  - exists f. simpl in *. rewrite add_children_nil. auto.
  - simpl in Hwf. apply andb_true_iff in Hwf as [Hw1 Hw2].
    cbn [flat_map]. rewrite <- app_assoc in *.
    destruct (Hd parent nm a g st f (flat_map flatten ds ++ rest) Hw1 Hl (flat_no_doc_head ds rest Hnd) Hf)
      as (f1 & Hf1 & E1).
    rewrite E1.
    destruct (IH parent nm a g (add_children (tree_of d) st) f1 rest Hw2 Hl Hnd Hf1) as (f2 & Hf2 & E2).
    exists f2. split; [exact Hf2|]. rewrite E2, add_children_app. reflexivity.
Qed.

Definition fresh (docs : list str) : cstate :=
  {| cs_incontains := false; cs_block := 0; cs_negblock := 0; cs_docs := docs; cs_children := [] |}.

Lemma fresh_level0 docs : level0 (fresh docs).
Proof. split; reflexivity. Qed.

Definition contains_part (cont : list decl) : list stmt :=
  match cont with [] => [] | _ => SContains :: flat_map flatten cont end.

(* the body of a container — specification part, optional CONTAINS part, END — parsed from a
   fresh state returns the container with exactly the declared children *)
Lemma body_parsed k name a g docs spec cont :
  Forall consumed spec -> Forall consumed cont ->
  forallb (wf_decl k false) spec = true ->
  (match cont with [] => true | _ => can_contain k end) = true ->
  forallb (wf_decl k true) cont = true ->
  k <> KFile ->
  forall f rest,
    length (flat_map flatten spec ++ contains_part cont ++ [SEnd EndPlain] ++ rest) < f ->
    parse_body f k name a g (fresh docs)
      (flat_map flatten spec ++ contains_part cont ++ [SEnd EndPlain] ++ rest)
    = POk (Container k name a g docs (flat_map tree_of spec ++ flat_map tree_of cont)) rest.
Proof.
  intros Hs Hc Hws Hcan Hwc Hk f rest Hf.
  assert (Hnd : no_doc_head (contains_part cont ++ [SEnd EndPlain] ++ rest)).
  { destruct cont; exact I. }
  destruct (consumed_list spec Hs k name a g (fresh docs) f _ Hws (fresh_level0 docs) Hnd Hf) as (f1 & Hf1 & E1).
  rewrite E1. clear E1.
  destruct cont as [|c0 cont'].
  - cbn [contains_part app] in *. destruct f1 as [|f1]; [simpl in Hf1; lia|].
    cbn [parse_body]. destruct k; try congruence; cbn [add_children fresh cs_block cs_negblock cs_docs cs_children app];
      now rewrite app_nil_r.
  - remember (c0 :: cont') as cont eqn:Ec.
    assert (Ecp : contains_part cont = SContains :: flat_map flatten cont) by (subst cont; reflexivity).
    rewrite Ecp in *. clear Ecp.
    destruct f1 as [|f1]; [simpl in Hf1; lia|].
    cbn [app parse_body].
    set (st1 := {| cs_incontains := cs_incontains (add_children (flat_map tree_of spec) (fresh docs)) || can_contain k;
                   cs_block := cs_block (add_children (flat_map tree_of spec) (fresh docs));
                   cs_negblock := cs_negblock (add_children (flat_map tree_of spec) (fresh docs));
                   cs_docs := cs_docs (add_children (flat_map tree_of spec) (fresh docs));
                   cs_children := cs_children (add_children (flat_map tree_of spec) (fresh docs)) |}).
    assert (Hinc : cs_incontains st1 = true).
    { unfold st1. cbn [cs_incontains]. subst cont. rewrite Hcan. apply orb_true_r. }
    assert (Hl1 : level0 st1) by (split; reflexivity).
    assert (Hf1' : length (flat_map flatten cont ++ [SEnd EndPlain] ++ rest) < f1).
    { cbn [app length] in Hf1. lia. }
    rewrite <- Hinc in Hwc.
    destruct (consumed_list cont Hc k name a g st1 f1 _ Hwc Hl1 I Hf1') as (f2 & Hf2 & E2).
    rewrite E2. destruct f2 as [|f2]; [simpl in Hf2; lia|].
    cbn [app parse_body].
    destruct k; try congruence; cbn [add_children st1 fresh cs_block cs_negblock cs_docs cs_children app];
      now rewrite app_assoc.
Qed.

Lemma forall_from_fix (P : decl -> Prop) (H : forall d, P d) ds : Forall P ds.
Proof. induction ds; constructor; auto. Qed.

Lemma noop_consumed n : consumed (DExec n).
Proof.
  induction n as [|n IH]; intros parent nm a g st f rest Hwf Hl Hnd Hf.
  - exists f. cbn [flatten repeat app tree_of] in *. rewrite add_children_nil. auto.
  - cbn [flatten repeat app] in *. destruct f as [|f]; [simpl in Hf; lia|].
    cbn [parse_body].
    assert (Hf' : length (repeat SNoop n ++ rest) < f) by (cbn [length] in Hf; lia).
    destruct (IH parent nm a g st f rest eq_refl Hl Hnd Hf') as (f' & Hf2 & E). exists f'. split; [exact Hf2|].
    cbn [flatten tree_of] in E. exact E.
Qed.

Theorem every_decl_consumed : forall d, consumed d.
Proof.
  fix IH 1. intros d.
  destruct d as [l names docs|n|k name docs spec cont|ab name docs body].
  - (* leaf statement *)
    intros parent nm a g st f rest Hwf (Hb & Hn) Hnd Hf. cbn [flatten app] in *.
    destruct f as [|f]; [simpl in Hf; lia|]. exists f.
    split; [cbn [length] in Hf; rewrite app_length in Hf; lia|].
    cbn [parse_body]. rewrite Hb, Hn.
    cbn [wf_decl] in Hwf. apply andb_true_iff in Hwf as [Hwf Hpos]. apply andb_true_iff in Hwf as [Hacc Hne].
    rewrite Hacc. cbn [negb orb].
    assert (Hg : match l with
                 | LVariable => false
                 | LBoundProc | LFinal => negb (cs_incontains st)
                 | _ => false
                 end = false).
    { destruct l; try reflexivity; now rewrite Hpos. }
    rewrite Hg. cbn [orb].
    rewrite (take_docs_app docs rest Hnd). reflexivity.
  - apply noop_consumed.
  - (* program unit / procedure / type / enum / block data *)
    assert (Hs : Forall consumed spec) by (induction spec as [|x xs IHx]; constructor; [apply IH|exact IHx]).
    assert (Hc : Forall consumed cont) by (induction cont as [|x xs IHx]; constructor; [apply IH|exact IHx]).
    intros parent nm a g st f rest Hwf (Hb & Hn) Hnd Hf.
    cbn [wf_decl] in Hwf.
    apply andb_true_iff in Hwf as [Hwf Hshape]. apply andb_true_iff in Hwf as [Hwf Hwc].
    apply andb_true_iff in Hwf as [Hwf Hcan]. apply andb_true_iff in Hwf as [Hwf Hws].
    apply andb_true_iff in Hwf as [Hwf Hnf]. apply andb_true_iff in Hwf as [Hacc Hpos].
    assert (Hk : k <> KFile) by (intros ->; discriminate).
    assert (Ebody : flat_map flatten spec ++ (match cont with [] => [] | _ => SContains :: flat_map flatten cont end)
                    ++ [SEnd EndPlain] = flat_map flatten spec ++ contains_part cont ++ [SEnd EndPlain]) by reflexivity.
    cbn [flatten tree_of]. rewrite Ebody.
    assert (Hndb : no_doc_head ((flat_map flatten spec ++ contains_part cont ++ [SEnd EndPlain]) ++ rest)).
    { rewrite <- !app_assoc. apply flat_no_doc_head. destruct cont; exact I. }
    destruct f as [|f]; [simpl in Hf; lia|]. exists f.
    assert (Hlen : length rest < f).
    { cbn [app length] in Hf. rewrite !app_length in Hf. lia. }
    split; [exact Hlen|].
    assert (Hfb : length (flat_map flatten spec ++ contains_part cont ++ [SEnd EndPlain] ++ rest) < f).
    { cbn [app length] in Hf. rewrite !app_length in *. cbn [length] in *. lia. }
    pose proof (body_parsed k name false false docs spec cont Hs Hc Hws Hcan Hwc Hk f rest Hfb) as Hbody.
    destruct (is_proc_kind k) eqn:Epk.
    + (* a procedure: allowed here only after CONTAINS (or at file / interface level) *)
      destruct k; try discriminate Epk.
      * cbn [app parse_body]. rewrite Hb, Hn. cbn [negb orb andb].
        assert (Hbc : is_codeunit parent && negb (cs_incontains st) = false).
        { destruct (is_codeunit parent); [|reflexivity]. simpl in Hpos. rewrite orb_false_r in Hpos. now rewrite Hpos. }
        rewrite Hbc, Hacc. cbn [negb orb].
        rewrite <- app_assoc. rewrite (take_docs_app docs _ (eq_ind _ no_doc_head Hndb _ (eq_sym (app_assoc _ _ _)))) || idtac.
        admit_marker2.
Abort.
