(* Props/C05.v — property C05: the site documents exactly the entities selected by the display options.
   Statements only; the model and the Spec are in Sem/Display.v, the proofs in Sem/DisplayProofs.v.

   run c t        (id, kept, visible) for every entity of the source-file tree t after Project.correlate():
                  kept = still in the entity lists the pages are rendered from, visible = may be linked
   selected c t   ids the property selects (Spec: container selected, permission in the display inherited
                  from the project / enclosing metadata, documented if hide_undoc, procedure shows internals)
   pages c t      ids in the project's page lists;  spec_pages c t  selected entities of a kind with a page
   regular t      only lists that prune() filters occur (no enums, common blocks, namelists, final procedures),
                  nothing is documented at the second place only
   file_display_silent t   the file's own metadata carries no display words *)
From Ford Require Import Base.Str Sem.Access Sem.Display Sem.DisplayProofs.

(* The full statement: after pruning, exactly the selected entities are left.  FALSE of the code. *)
Definition C05_statement : Prop :=
  forall c t, cfg_ok c = true -> is_file t = true -> well_kinded t = true ->
              kept_ids c t = selected c t.

Theorem C05_statement_refuted : ~ C05_statement.
Proof. exact full_statement_refuted. Qed.
Print Assumptions C05_statement_refuted.

(* all configurations, all regular trees of any size and depth: same ids, same order *)
Theorem C05_prune_exact : forall c t,
  cfg_ok c = true -> is_file t = true -> well_kinded t = true ->
  regular t = true -> file_display_silent t = true ->
  kept_ids c t = selected c t.
Proof. exact prune_exact. Qed.
Print Assumptions C05_prune_exact.

(* `__str__` and graph nodes link an entity only when its visible flag is set: never an unselected one *)
Theorem C05_visible_sound : forall c t i,
  cfg_ok c = true -> is_file t = true -> well_kinded t = true ->
  regular t = true -> file_display_silent t = true ->
  In i (visible_ids c t) -> In i (selected c t).
Proof. exact visible_sound. Qed.
Print Assumptions C05_visible_sound.

(* the entities that get a page are the selected ones of a kind that has a page *)
Theorem C05_pages : forall c t,
  cfg_ok c = true -> is_file t = true -> regular t = true -> file_display_silent t = true ->
  pages c t = spec_pages c t.
Proof. exact pages_exact. Qed.
Print Assumptions C05_pages.

(* a `display` entry in an entity's metadata overrides what it inherited, for the entity's contents:
   `none` hides everything below, recognised words replace, anything else leaves the inherited set *)
Theorem C05_display_inherit : forall pd meta p,
  none_alone pd ->
  has_word (word_of_perm p) (disp_of false pd meta) = dset_has (spec_display false (dset_of pd) meta) p.
Proof. exact display_inherit. Qed.
Print Assumptions C05_display_inherit.

(* ... except on a source file: `display: private` in the file's documentation changes nothing below *)
Theorem C05_display_inherit_file_refuted : refutes (cfg_of [WPublic] true false) w_file 3 false 16.
Proof. exact refuted_file_display. Qed.
Print Assumptions C05_display_inherit_file_refuted.

(* lists that prune() never filters *)
Theorem C05_refuted_enum : refutes (cfg_of [WPublic] true false) w_enum 3 true 1.
Proof. exact refuted_enum. Qed.
Print Assumptions C05_refuted_enum.

Theorem C05_refuted_internals_enum : refutes (cfg_of [WPublic] false false) w_internals 5 true 1.
Proof. exact refuted_internals_enum. Qed.
Print Assumptions C05_refuted_internals_enum.

Theorem C05_refuted_common : refutes (cfg_of [WPublic; WProtected] true false) w_common 3 true 2.
Proof. exact refuted_common. Qed.
Print Assumptions C05_refuted_common.

Theorem C05_refuted_namelist : refutes (cfg_of [WPublic] true false) w_namelist_module 4 true 4.
Proof. exact refuted_namelist. Qed.
Print Assumptions C05_refuted_namelist.

(* the namelist of a private procedure keeps its page and its visible flag *)
Theorem C05_refuted_namelist_page :
  existsb (Nat.eqb 5) (pages (cfg_of [WPublic] true false) w_namelist) = true /\
  existsb (Nat.eqb 5) (visible_ids (cfg_of [WPublic] true false) w_namelist) = true /\
  existsb (Nat.eqb 5) (selected (cfg_of [WPublic] true false) w_namelist) = false.
Proof. exact namelist_page_refuted. Qed.
Print Assumptions C05_refuted_namelist_page.

Theorem C05_refuted_final : refutes (cfg_of [WPublic] true true) w_final 4 true 8.
Proof. exact refuted_final. Qed.
Print Assumptions C05_refuted_final.

(* hide_undoc looks at the comment of the interface block, not at the comment of the procedure in it *)
Theorem C05_refuted_doc_place : refutes (cfg_of [WPublic] true true) w_docplace 3 false 32.
Proof. exact refuted_doc_place. Qed.
Print Assumptions C05_refuted_doc_place.
