(* Props/C04.v — property C04: accessibility of every entity follows Fortran's PUBLIC/PRIVATE rules.
   Statements only; the model and the Spec are in Sem/Access.v, the proofs in Sem/AccessProofs.v.

   ford_perms sk body   = Some (entities with the permission FORD gives them) | None (parser raised)
   fortran_perm sk body k n = what Fortran defines for identifier n of kind k (Spec)
   valid_for            = the Fortran constraints the Spec presupposes (one list-less access statement,
                          PUBLIC and PRIVATE not both given, PROTECTED only on variables; no access
                          syntax in a submodule)
   region body n        = bit mask of the recorded findings the identifier falls in:
                          1 list-less access statement after the declaration, 2 PROTECTED given together with
                          PUBLIC/PRIVATE or under the PRIVATE default,
                          4 identifier declared more than once, 8 an identifier written with blanks *)
From Ford Require Import Base.Str Sem.Access Sem.AccessProofs.

(* The full statement: every module-level entity gets the accessibility Fortran defines.
   It is FALSE of the code (five witnesses below): partial theorem + refutations. *)
Definition C04_statement : Prop :=
  forall sk body out e,
    ford_perms sk body = Some out -> In e out -> top_level e = true ->
    valid_for sk body (e_kind e) (e_name e) = true ->
    e_perm e = fortran_perm sk body (e_kind e) (e_name e).

Theorem C04_statement_refuted : ~ C04_statement.
Proof. exact statement_refuted. Qed.
Print Assumptions C04_statement_refuted.

(* All statement lists, all entities (variables, parameters, types, procedures, generic / operator /
   abstract / nameless interfaces and their procedures), modules and submodules: outside the four
   regions FORD's permission is Fortran's. *)
Theorem C04_partial : forall sk body out e,
  ford_perms sk body = Some out -> In e out -> top_level e = true ->
  valid_for sk body (e_kind e) (e_name e) = true ->
  region body (e_name e) = 0 ->
  e_perm e = fortran_perm sk body (e_kind e) (e_name e).
Proof. exact partial. Qed.
Print Assumptions C04_partial.

(* region 1: `integer :: x` / `type t` ... `private`: x and t stay public *)
Theorem C04_refuted_late_default :
  refutes w_late (mk_ent KVar [] (s "x") Public) 1 /\ refutes w_late (mk_ent KType [] (s "t") Public) 1.
Proof. exact refuted_late_default. Qed.
Print Assumptions C04_refuted_late_default.

(* region 2: `private` + `integer, protected :: y`: y is reported (and exported) as protected *)
Theorem C04_refuted_protected_private : refutes w_prot_private (mk_ent KVar [] (s "y") Protected) 2.
Proof. exact refuted_protected_private. Qed.
Print Assumptions C04_refuted_protected_private.

(* region 2: `integer, protected :: w` + `public :: w`: PROTECTED is forgotten *)
Theorem C04_refuted_protected_lost : refutes w_prot_lost (mk_ent KVar [] (s "w") Public) 2.
Proof. exact refuted_protected_lost. Qed.
Print Assumptions C04_refuted_protected_lost.

(* region 4: `private` + `public :: gen` + two `interface gen` blocks: the second stays private *)
Theorem C04_refuted_repeated_generic : refutes w_repeated (mk_ent KGeneric [] (s "gen") Private) 4.
Proof. exact refuted_repeated_generic. Qed.
Print Assumptions C04_refuted_repeated_generic.

(* region 8: `public :: operator(+)` does not reach `interface operator (+)` *)
Theorem C04_refuted_operator_spelling :
  refutes w_spelling (mk_ent KOperator [] (s "operator (+)") Private) 8.
Proof. exact refuted_operator_spelling. Qed.
Print Assumptions C04_refuted_operator_spelling.

(* `protected` is recorded: a variable whose only keyword is PROTECTED is reported as protected, which
   is Fortran's answer when the module default is public (used by C04_partial; stated on its own
   because it needs no hypothesis on where the default statement stands) *)
Theorem C04_protected_recorded : forall body out e,
  ford_perms ScModule body = Some out -> In e out -> e_kind e = KVar ->
  declared_twice (e_name e) body = false -> names_blank_free body = true ->
  protected_given (e_name e) body = true ->
  has Public (explicit_specs (e_name e) body) = false ->
  has Private (explicit_specs (e_name e) body) = false ->
  e_perm e = Protected /\
  (default_access body = Public -> e_perm e = fortran_perm ScModule body (e_kind e) (e_name e)).
Proof. exact protected_recorded. Qed.
Print Assumptions C04_protected_recorded.

(* components and bindings: full, for every type body the Fortran grammar admits *)
Theorem C04_types : forall owner tb, twf 0 tb = true -> tchildren owner tb = fortran_tperms owner tb.
Proof. exact types. Qed.
Print Assumptions C04_types.

Theorem C04_types_in_scope : forall sk body out e,
  ford_perms sk body = Some out -> In e out -> top_level e = false ->
  exists n ats tb, In (SType n ats tb) body /\ In e (tchildren n tb) /\
                   (twf 0 tb = true -> In e (fortran_tperms n tb)).
Proof. exact types_in_scope. Qed.
Print Assumptions C04_types_in_scope.

(* everything declared in a submodule is private *)
Theorem C04_submodule_private : forall body out e,
  ford_perms ScSubmodule body = Some out -> no_access_syntax body = true ->
  In e out -> top_level e = true ->
  e_perm e = Private /\ e_perm e = fortran_perm ScSubmodule body (e_kind e) (e_name e).
Proof. exact submodule_private. Qed.
Print Assumptions C04_submodule_private.

(* the procedure of an abstract / nameless interface block reports its interface entity's permission *)
Theorem C04_interface_procs : forall sk body out,
  ford_perms sk body = Some out ->
  (forall e, In e out -> e_kind e = KIfProc ->
     exists i, In i out /\ (e_kind i = KExplicit \/ e_kind i = KAbstract) /\
               e_name i = e_name e /\ e_perm i = e_perm e) /\
  (forall i, In i out -> e_kind i = KExplicit \/ e_kind i = KAbstract ->
     In (mk_ent KIfProc [] (e_name i) (e_perm i)) out).
Proof. exact interface_procs. Qed.
Print Assumptions C04_interface_procs.

Theorem C04_raises_iff_misplaced : forall sk body,
  ford_perms sk body = None <-> struct_ok false body = false.
Proof. exact raises_iff_misplaced. Qed.
Print Assumptions C04_raises_iff_misplaced.
