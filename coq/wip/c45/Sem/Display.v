(* Sem/Display.v — C05: which entities the site documents, given `display`, `proc_internals`, `hide_undoc`.

   MODEL (run) mirrors, as it is:
     ford/sourceform.py  FortranBase._set_display (inheritance at construction, `none`, the source-file
                         special case, unknown words ignored), _should_display / filter_display,
                         FortranCodeUnit.prune, FortranType.prune, FortranBlockData.prune, the `visible`
                         flags set at construction and in prune;
     ford/fortran_project.py  Project.correlate: prune of every unit, gathering of the page lists.
   The input is the entity tree as it stands after correlate() and before prune(): every node carries its
   permission, whether its doc_list is non-empty, the `display` words and the `proc_internals` value of its
   own metadata; children are tagged with the name of the list they sit in.
   The output gives, for EVERY node of the input (also the removed ones — other objects keep references to
   them, and `__str__` / graph nodes consult their `visible` flag): (id, kept, visible).

   SPEC (sel) is written from the property text and FORD's documentation of `display`:
     an entity is selected iff its container is selected, its permission is in the container's display
     (project-wide, or overridden by the metadata of an enclosing entity — file included — and inherited),
     it is documented when hide_undoc is on, and the enclosing procedure shows its internals.
   Definitions only; proofs are in Sem/DisplayProofs.v. *)
From Ford Require Import Base.Str Sem.Access.

(* ------------------------------------------------------------------ data *)

(* a word of a `display` setting *)
Inductive word := WPublic | WPrivate | WProtected | WNone | WOther.

Definition word_of_perm (p : perm) : word :=
  match p with Public => WPublic | Private => WPrivate | Protected => WProtected end.

Definition word_eqb (a b : word) : bool :=
  match a, b with
  | WPublic, WPublic | WPrivate, WPrivate | WProtected, WProtected | WNone, WNone | WOther, WOther => true
  | _, _ => false
  end.

Definition has_word (w : word) (l : list word) : bool := existsb (word_eqb w) l.

(* the lists of FORD's entity objects *)
Inductive lname :=
  | LModules | LSubmodules | LPrograms | LProcs | LBlockData           (* of a source file *)
  | LFunctions | LSubroutines | LTypes | LInterfaces | LAbsInterfaces | LVariables
  | LEnums | LCommon | LNamelists
  | LModProcedures | LModFunctions | LModSubroutines                    (* of a submodule *)
  | LBoundProcs | LFinalProcs                                           (* of a derived type *)
  | LArgs.                                                              (* of a procedure *)

Definition lname_eqb (a b : lname) : bool :=
  match a, b with
  | LModules, LModules | LSubmodules, LSubmodules | LPrograms, LPrograms | LProcs, LProcs
  | LBlockData, LBlockData | LFunctions, LFunctions | LSubroutines, LSubroutines | LTypes, LTypes
  | LInterfaces, LInterfaces | LAbsInterfaces, LAbsInterfaces | LVariables, LVariables | LEnums, LEnums
  | LCommon, LCommon | LNamelists, LNamelists | LModProcedures, LModProcedures
  | LModFunctions, LModFunctions | LModSubroutines, LModSubroutines | LBoundProcs, LBoundProcs
  | LFinalProcs, LFinalProcs | LArgs, LArgs => true
  | _, _ => false
  end.

Definition in_lists (l : lname) (ls : list lname) : bool := existsb (lname_eqb l) ls.

(* what kind of object a node is, as far as prune() is concerned:
   NProc = function / subroutine / module-procedure implementation (obj == "proc");
   NOther = anything without a prune method that matters (variables, interfaces, enums, ...) *)
Inductive nkind := NFile | NModule | NSubmodule | NProgram | NProc | NType | NBlockData | NOther.

Record attrs := mk_attrs {
  a_id : nat;
  a_perm : perm;                 (* entity.permission *)
  a_doc : bool;                  (* doc_list non-empty (what _should_display tests) *)
  a_doc2 : bool;                 (* documented elsewhere: the comment of the procedure inside a nameless /
                                    abstract interface block, which FORD does not look at *)
  a_display : list word;         (* `display:` words of the entity's own metadata *)
  a_internals : option bool      (* `proc_internals:` of the entity's own metadata *)
}.

Inductive node := Node (k : nkind) (a : attrs) (cs : list (lname * node)).

Record cfg := mk_cfg {
  c_display : list word;         (* project setting *)
  c_internals : bool;
  c_hide_undoc : bool;
  c_incl_src : bool
}.

Definition node_kind (n : node) : nkind := match n with Node k _ _ => k end.
Definition node_attrs (n : node) : attrs := match n with Node _ a _ => a end.
Definition node_children (n : node) : list (lname * node) := match n with Node _ _ cs => cs end.

(* ------------------------------------------------------------------ MODEL *)

Definition is_known (w : word) : bool :=
  match w with WPublic | WPrivate | WProtected => true | _ => false end.

(* FortranBase._set_display: [pd] is parent.display when the entity is constructed *)
Definition disp_of (is_file : bool) (pd : list word) (meta : list word) : list word :=
  let tmp := if is_file then filter (fun w => negb (word_eqb w WNone)) meta else meta in
  match tmp with
  | [] => pd
  | _ => if has_word WNone tmp then []
         else if existsb is_known tmp then tmp else pd
  end.

(* _should_display *)
Definition should_display (c : cfg) (d : list word) (a : attrs) : bool :=
  if c_hide_undoc c && negb (a_doc a) then false else has_word (word_of_perm (a_perm a)) d.

(* meta.proc_internals: project value unless the metadata gives one *)
Definition internals (c : cfg) (a : attrs) : bool :=
  match a_internals a with Some b => b | None => c_internals c end.

(* `visible` as the constructors leave it *)
Definition init_visible (c : cfg) (l : lname) : bool :=
  match l with
  | LModules | LSubmodules | LPrograms | LProcs | LBlockData => true   (* set in _initialize / _fortran_file *)
  | LNamelists | LCommon => true
  | _ => false
  end.

(* lists replaced by filter_display in the node's prune() *)
Definition filtered (k : nkind) : list lname :=
  match k with
  | NModule | NProgram | NProc => [LFunctions; LSubroutines; LTypes; LInterfaces; LAbsInterfaces; LVariables]
  | NSubmodule => [LFunctions; LSubroutines; LTypes; LInterfaces; LAbsInterfaces; LVariables;
                   LModProcedures; LModSubroutines; LModFunctions]
  | NType => [LBoundProcs; LVariables]
  | NBlockData => [LTypes; LVariables]
  | _ => []
  end.

(* lists whose (remaining) members get visible = True *)
Definition made_visible (k : nkind) : list lname :=
  match k with
  | NModule | NSubmodule | NProgram | NProc =>
      [LAbsInterfaces; LInterfaces; LFunctions; LSubroutines; LTypes; LModProcedures; LModFunctions; LModSubroutines]
  | NType => [LBoundProcs; LVariables]
  | NBlockData => [LTypes]
  | _ => []
  end.

(* lists whose (remaining) members are pruned in turn *)
Definition recursed (k : nkind) : list lname :=
  match k with
  | NModule | NSubmodule | NProgram | NProc =>
      [LFunctions; LSubroutines; LTypes; LModProcedures; LModFunctions; LModSubroutines]
  | NBlockData => [LTypes]
  | _ => []
  end.

(* lists emptied when a procedure hides its internals *)
Definition cleared : list lname := [LFunctions; LSubroutines; LTypes; LInterfaces; LAbsInterfaces; LVariables].

Definition out := (nat * bool * bool)%type.     (* id, kept, visible *)

(* a subtree nobody calls prune() on: every flag stays as constructed *)
Fixpoint untouched (c : cfg) (kept : bool) (l : lname) (n : node) : list out :=
  match n with
  | Node k a cs =>
      (a_id a, kept, init_visible c l)
      :: (fix go (cs : list (lname * node)) : list out :=
            match cs with
            | [] => []
            | (l', ch) :: r => untouched c kept l' ch ++ go r
            end) cs
  end.

(* prune() of a kept node whose display list is [disp_of .. pd ..]; [vis] is its own flag *)
Fixpoint pruned (c : cfg) (pd : list word) (vis : bool) (n : node) : list out :=
  match n with
  | Node k a cs =>
      let d := disp_of false pd (a_display a) in
      let hide := match k with NProc => negb (internals c a) | _ => false end in
      (a_id a, true, vis)
      :: (fix go (cs : list (lname * node)) : list out :=
            match cs with
            | [] => []
            | (l, ch) :: r =>
                (if hide then
                   (* early return: six lists emptied, nothing else looked at *)
                   untouched c (negb (in_lists l cleared)) l ch
                 else if in_lists l (filtered k) && negb (should_display c d (node_attrs ch)) then
                   untouched c false l ch
                 else
                   let v := init_visible c l || in_lists l (made_visible k) in
                   if in_lists l (recursed k) then pruned c d v ch
                   else match untouched c true l ch with
                        | (i, kp, _) :: rest => (i, kp, v) :: rest
                        | [] => []
                        end)
                ++ go r
            end) cs
  end.

(* Project.correlate: every module, submodule, top-level procedure, program and block data unit is pruned;
   the file object itself is not *)
Definition run (c : cfg) (t : node) : list out :=
  match t with
  | Node k a cs =>
      (a_id a, true, c_incl_src c)
      :: flat_map (fun lc => pruned c (c_display c) (init_visible c (fst lc)) (snd lc)) cs
  end.

Definition kept_ids (c : cfg) (t : node) : list nat :=
  map (fun o => fst (fst o)) (filter (fun o => snd (fst o)) (run c t)).
Definition visible_ids (c : cfg) (t : node) : list nat :=
  map (fun o => fst (fst o)) (filter (fun o => snd o) (run c t)).

(* the entities that get a page of their own: project.modules/submodules/programs/blockdata/procedures
   (top-level ones, then functions, subroutines, interfaces of every unit), absinterfaces, types,
   submodprocedures — gathered after prune; project.namelists — gathered at parse time from the units'
   routines, never filtered *)
Definition page_lists : list lname :=
  [LFunctions; LSubroutines; LInterfaces; LAbsInterfaces; LTypes; LModFunctions; LModSubroutines; LModProcedures].

Definition is_routine_list (l : lname) : bool :=
  in_lists l [LFunctions; LSubroutines; LModProcedures; LModFunctions; LModSubroutines].

Definition unit_pages (c : cfg) (u : node) : list nat :=
  match u with
  | Node k a cs =>
      let d := disp_of false (c_display c) (a_display a) in
      let hide := match k with NProc => negb (internals c a) | _ => false end in
      a_id a
      :: flat_map (fun lc =>
           let l := fst lc in let ch := snd lc in
           (* pages of the unit's own lists (not for a top-level procedure: only code units are gathered) *)
           (match k with
            | NModule | NSubmodule | NProgram | NBlockData =>
                if in_lists l page_lists
                   && negb (in_lists l (filtered k) && negb (should_display c d (node_attrs ch)))
                then [a_id (node_attrs ch)] else []
            | _ => []
            end)
           ++
           (* namelists: of the unit itself when it is a program or a top-level procedure, and of the
              routines of a module, submodule or program — collected before anything is pruned *)
           (match k with
            | NProgram | NProc => if lname_eqb l LNamelists then [a_id (node_attrs ch)] else []
            | _ => []
            end)
           ++
           (match k with
            | NModule | NSubmodule | NProgram =>
                if is_routine_list l
                then flat_map (fun lc' => if lname_eqb (fst lc') LNamelists then [a_id (node_attrs (snd lc'))] else [])
                              (node_children ch)
                else []
            | _ => []
            end)) cs
  end.

Definition pages (c : cfg) (t : node) : list nat :=
  flat_map (fun lc => unit_pages c (snd lc)) (node_children t).

(* ------------------------------------------------------------------ SPEC *)

Record dset := mk_dset { d_pub : bool; d_priv : bool; d_prot : bool }.

Definition dset_has (d : dset) (p : perm) : bool :=
  match p with Public => d_pub d | Private => d_priv d | Protected => d_prot d end.

Definition dset_of (ws : list word) : dset :=
  if has_word WNone ws then mk_dset false false false
  else mk_dset (has_word WPublic ws) (has_word WPrivate ws) (has_word WProtected ws).

(* metadata override: `none` = nothing below is shown (ignored on a source file); otherwise the
   permissions named replace the inherited ones; no recognised word = inherited *)
Definition spec_display (is_file : bool) (inherited : dset) (meta : list word) : dset :=
  let ws := if is_file then filter (fun w => negb (word_eqb w WNone)) meta else meta in
  if has_word WNone ws then mk_dset false false false
  else if existsb is_known ws then dset_of ws else inherited.

Definition documented (a : attrs) : bool := a_doc a || a_doc2 a.

Definition is_unit_list (l : lname) : bool :=
  in_lists l [LModules; LSubmodules; LPrograms; LProcs; LBlockData].

Definition spec_internals (c : cfg) (k : nkind) (a : attrs) : bool :=
  match k with
  | NProc => match a_internals a with Some b => b | None => c_internals c end
  | _ => true
  end.

(* common blocks and final procedures have no accessibility: shown unless the display is `none` *)
Definition perm_free (l : lname) : bool := in_lists l [LCommon; LFinalProcs].
Definition dset_nonempty (d : dset) : bool := d_pub d || d_priv d || d_prot d.

(* is the child (in list l) of a selected node (kind k, attrs a, display d below it) selected? *)
Definition child_selected (c : cfg) (k : nkind) (a : attrs) (d : dset) (l : lname) (ch : attrs) : bool :=
  if is_unit_list l then true                     (* program units and top-level procedures: always *)
  else if lname_eqb l LArgs then true             (* dummy arguments are part of their procedure *)
  else (if perm_free l then dset_nonempty d else dset_has d (a_perm ch))
       && (negb (c_hide_undoc c) || documented ch)
       && spec_internals c k a.

(* ids of the selected entities below (and including) a selected node; [inh] = display inherited by it *)
Fixpoint sel (c : cfg) (inh : dset) (n : node) : list nat :=
  match n with
  | Node k a cs =>
      let d := spec_display (match k with NFile => true | _ => false end) inh (a_display a) in
      a_id a
      :: (fix go (cs : list (lname * node)) : list nat :=
            match cs with
            | [] => []
            | (l, ch) :: r =>
                (if child_selected c k a d l (node_attrs ch) then sel c d ch else []) ++ go r
            end) cs
  end.

Definition selected (c : cfg) (t : node) : list nat := sel c (dset_of (c_display c)) t.

(* kinds that have a page of their own, by position: a unit, or a procedure / interface / type directly
   inside a module, submodule, program or block data unit *)
Definition spec_pages_unit (c : cfg) (inh : dset) (u : node) : list nat :=
  match u with
  | Node k a cs =>
      let d := spec_display false inh (a_display a) in
      a_id a
      :: flat_map (fun lc =>
           match k with
           | NModule | NSubmodule | NProgram | NBlockData =>
               if in_lists (fst lc) page_lists && child_selected c k a d (fst lc) (node_attrs (snd lc))
               then [a_id (node_attrs (snd lc))] else []
           | _ => []
           end) cs
  end.
Definition spec_pages (c : cfg) (t : node) : list nat :=
  match t with
  | Node k a cs =>
      let d := spec_display true (dset_of (c_display c)) (a_display a) in
      flat_map (fun lc => spec_pages_unit c d (snd lc)) cs
  end.

(* ------------------------------------------------------------------ regularity and regions *)

(* lists FORD never filters although the Spec's rule applies to them *)
Definition region_of_list (l : lname) : nat :=
  match l with
  | LEnums => 1
  | LCommon => 2
  | LNamelists => 4
  | LFinalProcs => 8
  | _ => 0
  end.

(* a regular tree: below a file only units; below a unit / procedure / type only lists that its prune()
   filters, plus dummy arguments; below anything else only dummy arguments; no second documentation place *)
Definition allowed_child (k : nkind) (l : lname) : bool :=
  match k with
  | NFile => is_unit_list l
  | NOther => lname_eqb l LArgs
  | _ => in_lists l (filtered k) || lname_eqb l LArgs
  end.

(* kinds as the lists hold them *)
Definition kind_fits (l : lname) (k : nkind) : bool :=
  match l, k with
  | LModules, NModule | LSubmodules, NSubmodule | LPrograms, NProgram | LProcs, NProc
  | LBlockData, NBlockData | LFunctions, NProc | LSubroutines, NProc | LTypes, NType
  | LModProcedures, NProc | LModFunctions, NProc | LModSubroutines, NProc => true
  | LInterfaces, NOther | LAbsInterfaces, NOther | LVariables, NOther | LEnums, NOther | LCommon, NOther
  | LNamelists, NOther | LBoundProcs, NOther | LFinalProcs, NOther | LArgs, NOther => true
  | _, _ => false
  end.

Fixpoint well_kinded (n : node) : bool :=
  match n with
  | Node k a cs =>
      (fix go (cs : list (lname * node)) : bool :=
         match cs with
         | [] => true
         | (l, ch) :: r => kind_fits l (node_kind ch) && well_kinded ch && go r
         end) cs
  end.

Fixpoint regular (n : node) : bool :=
  match n with
  | Node k a cs =>
      negb (a_doc2 a)
      && (fix go (cs : list (lname * node)) : bool :=
            match cs with
            | [] => true
            | (l, ch) :: r => allowed_child k l && regular ch && go r
            end) cs
  end.

(* the file's own metadata gives no display words (FORD does not hand them down) *)
Definition file_display_silent (t : node) : bool :=
  negb (existsb is_known (filter (fun w => negb (word_eqb w WNone)) (a_display (node_attrs t)))).

Definition is_file (t : node) : bool := match node_kind t with NFile => true | _ => false end.

(* project-level `none` stands alone *)
Definition cfg_ok (c : cfg) : bool :=
  negb (has_word WNone (c_display c)) || forallb (word_eqb WNone) (c_display c).

(* region mask of an entity, from the path leading to it: bits 1,2,4,8 = below an enum / common block /
   namelist / final-procedure list (never filtered); 16 = the file carries display words; 32 = an entity on
   the path is documented only at the second place and hide_undoc is on *)
Fixpoint regions_below (c : cfg) (acc : nat) (n : node) : list (nat * nat) :=
  match n with
  | Node k a cs =>
      let acc' := Nat.lor acc (if c_hide_undoc c && a_doc2 a && negb (a_doc a) then 32 else 0) in
      (a_id a, acc')
      :: (fix go (cs : list (lname * node)) : list (nat * nat) :=
            match cs with
            | [] => []
            | (l, ch) :: r =>
                regions_below c (Nat.lor acc' (Nat.lor (region_of_list l)
                                   (if allowed_child k l then 0 else 64))) ch ++ go r
            end) cs
  end.

Definition regions (c : cfg) (t : node) : list (nat * nat) :=
  regions_below c (if file_display_silent t then 0 else 16) t.
