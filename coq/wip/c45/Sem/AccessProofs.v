(* Sem/AccessProofs.v — proofs about Sem/Access.v (property C04). *)
From Ford Require Import Base.Str Base.StrFacts Sem.Access.
From Coq Require Import Lia.

Local Arguments Nat.div : simpl never.

(* ------------------------------------------------------------------ small facts *)

Lemma perm_eqb_eq a b : perm_eqb a b = true <-> a = b.
Proof. destruct a, b; simpl; split; intros H; try discriminate; auto. Qed.

Lemma perm_eqb_refl a : perm_eqb a a = true.
Proof. now destruct a. Qed.

Lemma has_In p l : has p l = true <-> In p l.
Proof.
  unfold has. rewrite existsb_exists. split.
  - intros (x & Hx & E). apply perm_eqb_eq in E. now subst.
  - intros H. exists p. split; auto. apply perm_eqb_refl.
Qed.

Lemma has_false_In p l : has p l = false <-> ~ In p l.
Proof.
  split.
  - intros H I. apply has_In in I. congruence.
  - intros H. destruct (has p l) eqn:E; auto. apply has_In in E. contradiction.
Qed.

Lemma filter_all_true {A} (f : A -> bool) l : forallb f l = true -> filter f l = l.
Proof.
  induction l as [|x l IH]; simpl; auto. intros H. apply andb_true_iff in H as [H1 H2].
  rewrite H1. f_equal. auto.
Qed.

Lemma canon_blank_free n : blank_free n = true -> canon n = key n.
Proof. intros H. unfold canon, key. f_equal. apply filter_all_true. exact H. Qed.

Lemma same_id_key a b :
  blank_free a = true -> blank_free b = true -> same_id a b = str_eqb (key a) (key b).
Proof. intros Ha Hb. unfold same_id. now rewrite !canon_blank_free. Qed.

Definition cnt {A} (P : A -> bool) (l : list A) : nat := length (filter P l).

Lemma cnt_app {A} (P : A -> bool) a b : cnt P (a ++ b) = cnt P a + cnt P b.
Proof. unfold cnt. now rewrite filter_app, app_length. Qed.

Lemma cnt_cons {A} (P : A -> bool) x l : cnt P (x :: l) = (if P x then 1 else 0) + cnt P l.
Proof. unfold cnt. simpl. destruct (P x); reflexivity. Qed.

Lemma cnt_zero {A} (P : A -> bool) l : cnt P l = 0 -> forall x, In x l -> P x = false.
Proof.
  induction l as [|y l IH]; simpl; intros H x I; [contradiction|].
  rewrite cnt_cons in H. destruct (P y) eqn:E; [discriminate|].
  destruct I as [->|I]; auto.
Qed.

Lemma cnt_all_false {A} (P : A -> bool) l : (forall x, In x l -> P x = false) -> cnt P l = 0.
Proof.
  induction l as [|y l IH]; intros H; [reflexivity|]. rewrite cnt_cons, (H y) by now left.
  apply IH. intros x I. apply H. now right.
Qed.

Lemma cnt_two {A} (P : A -> bool) l a b :
  In a l -> In b l -> a <> b -> P a = true -> P b = true -> 2 <= cnt P l.
Proof.
  induction l as [|y l IH]; simpl; intros Ia Ib N Pa Pb; [contradiction|].
  rewrite cnt_cons.
  assert (one : forall c, In c l -> P c = true -> 1 <= cnt P l).
  { clear. intros c I Pc. destruct (cnt P l) eqn:E; [|lia].
    pose proof (cnt_zero P l E c I). congruence. }
  destruct Ia as [->|Ia], Ib as [->|Ib].
  - congruence.
  - rewrite Pa. specialize (one b Ib Pb). lia.
  - rewrite Pb. specialize (one a Ia Pa). lia.
  - specialize (IH Ia Ib N Pa Pb). lia.
Qed.

(* ------------------------------------------------------------------ last_perm / last_for *)

Lemma last_perm_cases ats d : (ats = [] /\ last_perm ats d = d) \/ In (last_perm ats d) ats.
Proof.
  revert d. induction ats as [|a r IH]; intros d; simpl; auto.
  right. destruct (IH a) as [[-> E]|I]; simpl; auto.
Qed.

Lemma last_for_cases k D d :
  ((forall p, ~ In (k, p) D) /\ last_for k D d = d) \/ In (k, last_for k D d) D.
Proof.
  revert d. induction D as [|[k' p'] r IH]; intros d; simpl.
  - left. split; auto.
  - destruct (str_eqb k k') eqn:E.
    + apply str_eqb_eq in E. subst k'.
      destruct (IH p') as [[H1 H2]|I]; [|right; auto].
      right. left. now rewrite H2.
    + apply str_eqb_neq in E.
      destruct (IH d) as [[H1 H2]|I]; [|right; auto].
      left. split; auto. intros p [X|X]; [injection X as -> _; congruence | exact (H1 p X)].
Qed.

Lemma last_for_remove_other k k' D d :
  k <> k' -> last_for k (remove_key k' D) d = last_for k D d.
Proof.
  intros N. revert d. induction D as [|[k2 p2] r IH]; intros d; simpl; auto.
  destruct (str_eqb k' k2) eqn:E; simpl.
  - apply str_eqb_eq in E. subst k2.
    assert (str_eqb k k' = false) as -> by now apply str_eqb_neq. apply IH.
  - apply IH.
Qed.

Definition remove_keys (l : list ent) (D : list (str * perm)) : list (str * perm) :=
  fold_left (fun d x => remove_key (key (e_name x)) d) l D.

Lemma last_for_remove_keys k l D d :
  (forall x, In x l -> key (e_name x) <> k) -> last_for k (remove_keys l D) d = last_for k D d.
Proof.
  revert D. induction l as [|x l IH]; intros D H; simpl; auto.
  unfold remove_keys in *. simpl. rewrite IH by (intros y I; apply H; now right).
  apply last_for_remove_other. intros E. apply (H x); [now left | now symmetry].
Qed.

Lemma apply_attrs_in e' items D :
  In e' (apply_attrs items D) ->
  exists l1 e l2, items = l1 ++ e :: l2 /\
    e' = set_perm e (last_for (key (e_name e)) (remove_keys l1 D) (e_perm e)).
Proof.
  revert D. induction items as [|x r IH]; intros D I; simpl in I; [contradiction|].
  destruct I as [<-|I].
  - exists [], x, r. split; auto.
  - apply IH in I as (l1 & e & l2 & -> & ->). exists (x :: l1), e, l2. split; auto.
Qed.

Lemma apply_attrs_ident items D :
  map (fun e => (e_kind e, e_owner e, e_name e)) (apply_attrs items D)
  = map (fun e => (e_kind e, e_owner e, e_name e)) items.
Proof. revert D. induction items as [|x r IH]; intros D; simpl; auto. now rewrite IH. Qed.

(* ------------------------------------------------------------------ classes and counting *)

Definition modlevel (e : ent) : bool := klass (e_kind e) <? 6.

Lemma of_class_cons c x l :
  of_class c (x :: l) = if Nat.eqb (klass (e_kind x)) c then x :: of_class c l else of_class c l.
Proof. reflexivity. Qed.

Lemma cnt_ordered (P : ent -> bool) l :
  cnt P (ordered l) = cnt (fun e => modlevel e && P e) l.
Proof.
  unfold ordered. rewrite !cnt_app.
  induction l as [|x l IH].
  - reflexivity.
  - rewrite !of_class_cons, (cnt_cons (fun e => modlevel e && P e)). unfold modlevel at 1.
    destruct (e_kind x); simpl Nat.eqb; simpl klass; simpl Nat.ltb; cbv iota;
      rewrite ?cnt_cons; simpl andb; destruct (P x); lia.
Qed.

Lemma in_ordered e l : In e (ordered l) <-> In e l /\ modlevel e = true.
Proof.
  unfold ordered, of_class, modlevel. rewrite !in_app_iff, !filter_In. split.
  - intros H. repeat (destruct H as [[H1 H2]|H]; [apply Nat.eqb_eq in H2; rewrite H2; auto|]).
    destruct H as [H1 H2]. apply Nat.eqb_eq in H2; rewrite H2; auto.
  - intros [H1 H2]. apply Nat.ltb_lt in H2.
    destruct (klass (e_kind e)) as [|[|[|[|[|[|n]]]]]] eqn:E; try lia; simpl; tauto.
Qed.

Definition has_key (k : str) (e : ent) : bool := str_eqb k (key (e_name e)).

Lemma cnt_ident_ext (P : ent -> bool) a b :
  (forall x y, e_kind x = e_kind y -> e_name x = e_name y -> P x = P y) ->
  map (fun e => (e_kind e, e_owner e, e_name e)) a = map (fun e => (e_kind e, e_owner e, e_name e)) b ->
  cnt P a = cnt P b.
Proof.
  intros HP. revert b. induction a as [|x a IH]; intros [|y b] E; simpl in E; try discriminate; auto.
  injection E as E1 E2 E3 E. rewrite !cnt_cons, (IH b E), (HP x y E1 E3). reflexivity.
Qed.

(* ------------------------------------------------------------------ the parsing loop *)

Fixpoint cur_after (cur : perm) (pre : list sstmt) : perm :=
  match pre with
  | [] => cur
  | SDefault p :: r => cur_after p r
  | _ :: r => cur_after cur r
  end.

(* attributes FORD looks at on the declaration *)
Definition ford_attrs (st : sstmt) : list perm :=
  match st with
  | SVar _ _ ats => ats
  | SType _ ats _ => filter is_acc ats
  | _ => []
  end.
Definition decl_attrs (st : sstmt) : list perm :=
  match st with
  | SVar _ _ ats | SType _ ats _ => ats
  | _ => []
  end.
Definition decl_name (st : sstmt) : option (ekind * str) :=
  match st with
  | SVar pa n _ => Some (if pa then KParam else KVar, n)
  | SType n _ _ => Some (KType, n)
  | SIface k n => Some (ekind_of_ikind k, n)
  | SProc f n => Some (if f then KFun else KSub, n)
  | _ => None
  end.

Lemma tchildren_kinds owner tb e :
  In e (tchildren owner tb) -> e_kind e = KComp \/ e_kind e = KBind.
Proof.
  unfold tchildren. rewrite in_app_iff, !filter_In. unfold is_kind.
  intros [[_ H]|[_ H]]; destruct (e_kind e); simpl in H; try discriminate; auto.
Qed.

Lemma tchildren_not_top owner tb e : In e (tchildren owner tb) -> top_level e = false.
Proof. intros H. apply tchildren_kinds in H as [H|H]; unfold top_level; now rewrite H. Qed.

Lemma tchildren_not_modlevel owner tb e : In e (tchildren owner tb) -> modlevel e = false.
Proof. intros H. apply tchildren_kinds in H as [H|H]; unfold modlevel; now rewrite H. Qed.

(* a module-level entity of the scan comes from a declaration statement, with the default then in force *)
Lemma scan_modlevel_in e cur body :
  In e (scan_ents cur body) -> modlevel e = true ->
  exists pre st post k n, body = pre ++ st :: post /\ decl_name st = Some (k, n) /\
    e = mk_ent k [] n (last_perm (ford_attrs st) (cur_after cur pre)).
Proof.
  revert cur. induction body as [|st r IH]; intros cur I M; simpl in I; [contradiction|].
  assert (rec : forall cur', In e (scan_ents cur' r) -> cur_after cur [st] = cur' ->
     exists pre st0 post k n, st :: r = pre ++ st0 :: post /\ decl_name st0 = Some (k, n) /\
       e = mk_ent k [] n (last_perm (ford_attrs st0) (cur_after cur pre))).
  { intros cur' I' E. destruct (IH cur' I' M) as (pre & st0 & post & k & n & -> & Hd & ->).
    exists (st :: pre), st0, post, k, n. repeat split; auto.
    simpl in E. simpl. destruct st; simpl in *; subst; reflexivity. }
  destruct st as [p|p ns|pa n ats|n ats tb|k n| |f n]; simpl in I.
  - apply (rec p); auto.
  - apply (rec cur); auto.
  - destruct I as [<-|I]; [|apply (rec cur); auto].
    exists [], (SVar pa n ats), r, (if pa then KParam else KVar), n. repeat split; auto.
  - destruct I as [<-|I].
    + exists [], (SType n ats tb), r, KType, n. repeat split; auto.
    + apply in_app_iff in I as [I|I]; [|apply (rec cur); auto].
      apply tchildren_not_modlevel in I. congruence.
  - destruct I as [<-|I]; [|apply (rec cur); auto].
    exists [], (SIface k n), r, (ekind_of_ikind k), n. repeat split; auto.
  - apply (rec cur); auto.
  - destruct I as [<-|I]; [|apply (rec cur); auto].
    exists [], (SProc f n), r, (if f then KFun else KSub), n. repeat split; auto.
Qed.

Lemma scan_children_in e cur body :
  In e (scan_ents cur body) -> modlevel e = false ->
  exists n ats tb, In (SType n ats tb) body /\ In e (tchildren n tb).
Proof.
  revert cur. induction body as [|st r IH]; intros cur I M; simpl in I; [contradiction|].
  assert (rec : forall cur', In e (scan_ents cur' r) ->
     exists n ats tb, In (SType n ats tb) (st :: r) /\ In e (tchildren n tb)).
  { intros cur' I'. destruct (IH cur' I' M) as (n & ats & tb & H1 & H2). exists n, ats, tb. split; simpl; auto. }
  destruct st as [p|p ns|pa n ats|n ats tb|k n| |f n]; simpl in I; eauto.
  - destruct I as [<-|I]; eauto. unfold modlevel in M. destruct pa; discriminate.
  - destruct I as [<-|I]; [discriminate|].
    apply in_app_iff in I as [I|I]; eauto. exists n, ats, tb. split; simpl; auto.
  - destruct I as [<-|I]; eauto. unfold modlevel in M. destruct k; discriminate.
  - destruct I as [<-|I]; eauto. unfold modlevel in M. destruct f; discriminate.
Qed.

Lemma decl_name_modlevel st k n : decl_name st = Some (k, n) -> klass k <? 6 = true /\ k <> KIfProc.
Proof.
  destruct st as [p|p ns|pa m ats|m ats tb|ik m| |f m]; simpl; intros H; try discriminate;
    injection H as <- <-; [destruct pa| |destruct ik|destruct f]; split; (reflexivity || discriminate).
Qed.

(* counting the declarations of a name = counting the module-level entities with that key *)
Lemma declares_decl_name n st :
  declares n st = match decl_name st with Some (_, m) => str_eqb (key n) (key m) | None => false end.
Proof. destruct st; reflexivity. Qed.

Lemma cnt_scan n cur body :
  cnt (fun e => modlevel e && has_key (key n) e) (scan_ents cur body) = count_decls n body.
Proof.
  unfold count_decls. fold (cnt (declares n) body).
  revert cur. induction body as [|st r IH]; intros cur; [reflexivity|].
  rewrite (cnt_cons (declares n)).
  destruct st as [p|p ns|pa m ats|m ats tb|k m| |f m]; simpl scan_ents; simpl declares;
    rewrite ?cnt_cons, ?cnt_app, ?IH; try reflexivity.
  - unfold modlevel, has_key. simpl e_kind. simpl e_name. destruct pa; reflexivity.
  - rewrite (cnt_all_false _ (tchildren m tb)).
    2:{ intros x Ix. now rewrite (tchildren_not_modlevel _ _ _ Ix). }
    unfold modlevel, has_key. simpl. reflexivity.
  - unfold modlevel, has_key. simpl e_kind. simpl e_name. destruct k; reflexivity.
  - unfold modlevel, has_key. simpl e_kind. simpl e_name. destruct f; reflexivity.
Qed.

(* ------------------------------------------------------------------ constructor step *)

Definition ident (e : ent) := (e_kind e, e_owner e, e_name e).

Lemma set_first_in k p es e' :
  In e' (set_first k p es) ->
  In e' es \/ exists e, In e es /\ in_all_procs e = true /\ k = key (e_name e) /\ e' = set_perm e p.
Proof.
  induction es as [|x r IH]; simpl; intros I; [contradiction|].
  destruct (in_all_procs x && str_eqb k (key (e_name x))) eqn:E.
  - destruct I as [<-|I]; auto.
    apply andb_true_iff in E as [E1 E2]. apply str_eqb_eq in E2.
    right. exists x. auto.
  - destruct I as [<-|I]; auto.
    destruct (IH I) as [H|(e & H1 & H2)]; auto. right. exists e. tauto.
Qed.

Lemma set_last_in k p es e' :
  In e' (set_last k p es) ->
  In e' es \/ exists e, In e es /\ in_all_procs e = true /\ k = key (e_name e) /\ e' = set_perm e p.
Proof.
  unfold set_last. rewrite <- in_rev. intros I. apply set_first_in in I as [I|(e & I & H)].
  - left. now apply in_rev.
  - right. exists e. split; auto. now apply in_rev.
Qed.

(* every entity after the constructor step is an entity before it, possibly with the permission of a
   type that has the same key *)
Lemma fix_constructors_in es e' :
  In e' (fix_constructors es) ->
  exists e, In e es /\ ident e' = ident e /\
    (e' = e \/ exists t, In t es /\ klass (e_kind t) = 2 /\ in_all_procs e = true /\
                         key (e_name t) = key (e_name e) /\ e_perm e' = e_perm t).
Proof.
  unfold fix_constructors.
  assert (G : forall ts acc,
    (forall t, In t ts -> In t es /\ klass (e_kind t) = 2) ->
    (forall x, In x acc -> exists e, In e es /\ ident x = ident e /\
       (x = e \/ exists t, In t es /\ klass (e_kind t) = 2 /\ in_all_procs e = true /\
                           key (e_name t) = key (e_name e) /\ e_perm x = e_perm t)) ->
    forall x, In x (fold_left (fun acc t => set_last (key (e_name t)) (e_perm t) acc) ts acc) ->
      exists e, In e es /\ ident x = ident e /\
       (x = e \/ exists t, In t es /\ klass (e_kind t) = 2 /\ in_all_procs e = true /\
                           key (e_name t) = key (e_name e) /\ e_perm x = e_perm t)).
  { induction ts as [|t ts IH]; intros acc Hts Hacc x I; simpl in I; [now apply Hacc|].
    apply IH in I; auto.
    - intros t' It'. apply Hts. now right.
    - intros y Iy. apply set_last_in in Iy as [Iy|(y0 & Iy0 & A & K & ->)]; [now apply Hacc|].
      destruct (Hacc y0 Iy0) as (e & Ie & Eid & _).
      destruct (Hts t (or_introl eq_refl)) as [It Kt].
      exists e. split; auto. split; [exact Eid|].
      right. exists t. repeat split; auto.
      + unfold ident in Eid. injection Eid as E1 E2 E3. unfold in_all_procs in *. now rewrite <- E1.
      + unfold ident in Eid. injection Eid as E1 E2 E3. now rewrite <- E3. }
  apply G.
  - intros t It. unfold of_class in It. apply filter_In in It as [H1 H2]. apply Nat.eqb_eq in H2. auto.
  - intros x Ix. exists x. auto.
Qed.

(* ------------------------------------------------------------------ explicit specifications *)

Lemma existsb_same_id n ns :
  blank_free n = true -> forallb blank_free ns = true ->
  existsb (same_id n) ns = true <-> exists m, In m ns /\ key m = key n.
Proof.
  intros Hn Hns. rewrite existsb_exists. rewrite forallb_forall in Hns. split.
  - intros (m & Im & E). exists m. split; auto. rewrite same_id_key in E; auto.
    apply str_eqb_eq in E. auto.
  - intros (m & Im & E). exists m. split; auto. rewrite same_id_key; auto.
    rewrite E. apply str_eqb_refl.
Qed.

(* the Spec's explicit keywords of n are exactly: the attr_dict entries under n's key, and the access
   attributes on declarations of n — provided no identifier is written with blanks *)
Lemma explicit_specs_in n body p :
  blank_free n = true -> names_blank_free body = true ->
  In p (explicit_specs n body) <->
  In (key n, p) (scan_attrs body) \/ exists st, In st body /\ declares n st = true /\ In p (decl_attrs st).
Proof.
  intros Hn. induction body as [|st r IH]; intros Hb.
  - simpl. split; [contradiction|]. intros [[]|(st & [] & _)].
  - simpl in Hb. apply andb_true_iff in Hb as [Hst Hr]. specialize (IH Hr).
    assert (skip : explicit_specs n (st :: r) = explicit_specs n r -> scan_attrs (st :: r) = scan_attrs r ->
                   (declares n st = true -> decl_attrs st = []) ->
      (In p (explicit_specs n (st :: r)) <->
       In (key n, p) (scan_attrs (st :: r)) \/
       exists st0, In st0 (st :: r) /\ declares n st0 = true /\ In p (decl_attrs st0))).
    { intros E1 E2 E3. rewrite E1, E2, IH. split.
      - intros [H|(st0 & H1 & H2)]; auto. right. exists st0. simpl. tauto.
      - intros [H|(st0 & [<-|H1] & H2 & H3)]; auto.
        + rewrite (E3 H2) in H3. contradiction.
        + right. exists st0. auto. }
    destruct st as [q|q ns|pa m ats|m ats tb|k m| |f m]; try (apply skip; auto; fail).
    + (* SAccess *)
      simpl explicit_specs. simpl scan_attrs. rewrite !in_app_iff, IH. simpl in Hst.
      pose proof (existsb_same_id n ns Hn Hst) as X.
      split.
      * intros [H|[H|(st0 & H1 & H2)]].
        -- destruct (existsb (same_id n) ns) eqn:E; [|contradiction].
           destruct H as [<-|[]]. destruct (proj1 X eq_refl) as (m & Im & Em).
           left. left. apply in_map_iff. exists m. split; auto. now rewrite Em.
        -- auto.
        -- right. exists st0. simpl. tauto.
      * intros [[H|H]|(st0 & [<-|H1] & H2 & H3)].
        -- apply in_map_iff in H as (m & Em & Im). injection Em as Em <-.
           left. rewrite (proj2 X); [now left|]. exists m. auto.
        -- auto.
        -- discriminate.
        -- right. right. exists st0. auto.
    + (* SVar *)
      simpl explicit_specs. simpl scan_attrs. rewrite in_app_iff, IH. simpl in Hst.
      rewrite (same_id_key n m Hn Hst).
      split.
      * intros [H|[H|(st0 & H1 & H2)]]; auto.
        -- destruct (str_eqb (key n) (key m)) eqn:E; [|contradiction].
           right. exists (SVar pa m ats). simpl. auto.
        -- right. exists st0. simpl. tauto.
      * intros [H|(st0 & [<-|H1] & H2 & H3)]; auto.
        -- simpl in H2, H3. rewrite H2. auto.
        -- right. right. exists st0. auto.
    + (* SType *)
      simpl explicit_specs. simpl scan_attrs. rewrite in_app_iff, IH. simpl in Hst.
      rewrite (same_id_key n m Hn Hst).
      split.
      * intros [H|[H|(st0 & H1 & H2)]]; auto.
        -- destruct (str_eqb (key n) (key m)) eqn:E; [|contradiction].
           right. exists (SType m ats tb). simpl. auto.
        -- right. exists st0. simpl. tauto.
      * intros [H|(st0 & [<-|H1] & H2 & H3)]; auto.
        -- simpl in H2, H3. rewrite H2. auto.
        -- right. right. exists st0. auto.
Qed.

(* ------------------------------------------------------------------ the default in force *)

Lemma cur_after_app c a b : cur_after c (a ++ b) = cur_after (cur_after c a) b.
Proof. revert c. induction a as [|st a IH]; intros c; simpl; auto. destruct st; apply IH. Qed.

Lemma existsb_default_false pre : existsb is_default pre = false -> forall c, cur_after c pre = c.
Proof.
  induction pre as [|st r IH]; simpl; intros H c; auto.
  apply orb_false_iff in H as [H1 H2]. destruct st; try discriminate; apply IH; auto.
Qed.

Lemma count_defaults_zero l : count_defaults l = 0 -> existsb is_default l = false.
Proof.
  unfold count_defaults. induction l as [|st r IH]; simpl; auto.
  destruct (is_default st); simpl; [discriminate|auto].
Qed.

Lemma no_default_no_private l : existsb is_default l = false -> existsb is_bare_private l = false.
Proof.
  induction l as [|st r IH]; simpl; auto. intros H. apply orb_false_iff in H as [H1 H2].
  rewrite (IH H2). destruct st as [[]| | | | | |]; simpl in *; auto; discriminate.
Qed.

Lemma cur_after_valid pre c :
  count_defaults pre <= 1 -> no_bare_protected pre = true ->
  cur_after c pre = if existsb is_default pre then default_access pre else c.
Proof.
  revert c. induction pre as [|st r IH]; intros c Hc Hp; simpl; auto.
  simpl in Hp. apply andb_true_iff in Hp as [Hp1 Hp2].
  destruct st as [p| | | | | |]; simpl; try (apply IH; auto; fail).
  unfold count_defaults in Hc. simpl in Hc.
  assert (Z : count_defaults r = 0) by (unfold count_defaults; lia).
  pose proof (count_defaults_zero r Z) as Z1.
  rewrite (existsb_default_false r Z1). unfold default_access. simpl.
  rewrite (no_default_no_private r Z1). destruct p; try reflexivity; discriminate.
Qed.

Lemma count_defaults_app a b : count_defaults (a ++ b) = count_defaults a + count_defaults b.
Proof. unfold count_defaults. now rewrite filter_app, app_length. Qed.

Lemma no_bare_protected_app a b :
  no_bare_protected (a ++ b) = no_bare_protected a && no_bare_protected b.
Proof. unfold no_bare_protected. apply forallb_app. Qed.

(* if no list-less access statement follows the declaration, the default then in force is the
   module's default accessibility *)
Lemma cur_is_default pre st post :
  defaults_valid (pre ++ st :: post) = true -> is_default st = false ->
  existsb is_default post = false ->
  cur_after Public pre = default_access (pre ++ st :: post).
Proof.
  intros V Hst Hpost. unfold defaults_valid in V. apply andb_true_iff in V as [V1 V2].
  apply Nat.leb_le in V1. rewrite count_defaults_app in V1. rewrite no_bare_protected_app in V2.
  apply andb_true_iff in V2 as [V2 _].
  rewrite cur_after_valid; auto; [|lia].
  unfold default_access. rewrite existsb_app. simpl.
  rewrite (no_default_no_private post Hpost), orb_false_r.
  assert (is_bare_private st = false) as -> by (destruct st as [[]| | | | | |]; auto; discriminate).
  rewrite orb_false_r.
  destruct (existsb is_default pre) eqn:E; auto.
  now rewrite (no_default_no_private pre E).
Qed.

Lemma late_default_split n pre st post :
  (forall x, In x pre -> declares n x = false) -> declares n st = true ->
  late_default n (pre ++ st :: post) = existsb is_default post.
Proof.
  induction pre as [|y pre IH]; intros H Hst; simpl.
  - now rewrite Hst.
  - rewrite (H y) by now left. apply IH; auto. intros x I. apply H. now right.
Qed.

Lemma count_decls_split n pre st post :
  declares n st = true -> count_decls n (pre ++ st :: post) <= 1 ->
  (forall x, In x pre -> declares n x = false) /\ (forall x, In x post -> declares n x = false).
Proof.
  unfold count_decls. fold (cnt (declares n) (pre ++ st :: post)).
  rewrite cnt_app, cnt_cons. intros -> H.
  split; apply cnt_zero; lia.
Qed.

(* ------------------------------------------------------------------ the value FORD computes *)

Definition top_of (sk : scope_kind) (body : list sstmt) : list ent :=
  fix_constructors (apply_attrs (ordered (scan_ents (initial_perm sk) body)) (scan_attrs body)).

Lemma cnt_has_key_ordered sk body n :
  cnt (has_key (key n)) (ordered (scan_ents (initial_perm sk) body)) = count_decls n body.
Proof. rewrite cnt_ordered. apply cnt_scan. Qed.

Lemma cnt_has_key_top sk body n :
  cnt (has_key (key n)) (apply_attrs (ordered (scan_ents (initial_perm sk) body)) (scan_attrs body))
  = count_decls n body.
Proof.
  rewrite (cnt_ident_ext (has_key (key n)) _ (ordered (scan_ents (initial_perm sk) body))).
  - rewrite cnt_ordered. apply cnt_scan.
  - intros x y _ E. unfold has_key. now rewrite E.
  - apply apply_attrs_ident.
Qed.

Lemma top_modlevel sk body e : In e (top_of sk body) -> modlevel e = true.
Proof.
  intros I. apply fix_constructors_in in I as (e1 & I1 & Eid & _).
  apply apply_attrs_in in I1 as (l1 & e0 & l2 & Hsplit & ->).
  assert (I0 : In e0 (ordered (scan_ents (initial_perm sk) body))) by (rewrite Hsplit; apply in_elt).
  apply in_ordered in I0 as [_ M]. unfold ident in Eid. injection Eid as E1 _ _.
  unfold modlevel in *. now rewrite E1.
Qed.

(* For an identifier declared once: its permission is the last access attribute stored under its key,
   else the last access keyword FORD recognises on the declaration, else the default in force at
   the declaration. *)
Lemma top_value sk body e :
  In e (top_of sk body) -> declared_twice (e_name e) body = false ->
  exists pre st post, body = pre ++ st :: post /\ decl_name st = Some (e_kind e, e_name e) /\
    (forall x, In x pre -> declares (e_name e) x = false) /\
    (forall x, In x post -> declares (e_name e) x = false) /\
    e_perm e = last_for (key (e_name e)) (scan_attrs body)
                 (last_perm (ford_attrs st) (cur_after (initial_perm sk) pre)).
Proof.
  intros I U. unfold declared_twice in U. apply Nat.leb_gt in U.
  pose proof (cnt_has_key_top sk body (e_name e)) as C.
  unfold top_of in I. apply fix_constructors_in in I as (e1 & I1 & Eid & Hcase).
  unfold ident in Eid. injection Eid as Ek Eo En.
  destruct Hcase as [->|(t & It & Kt & A & Ekey & _)].
  2:{ exfalso. assert (2 <= count_decls (e_name e) body); [|lia]. rewrite <- C.
      apply (cnt_two _ _ t e1); auto.
      - intros ->. unfold in_all_procs in A. rewrite Kt in A. discriminate.
      - unfold has_key. rewrite Ekey, En. apply str_eqb_refl.
      - unfold has_key. rewrite En. apply str_eqb_refl. }
  clear Ek Eo En C.
  apply apply_attrs_in in I1 as (l1 & e0 & l2 & Hsplit & ->). simpl e_name in *. simpl e_kind. simpl e_perm.
  pose proof (cnt_has_key_ordered sk body (e_name e0)) as C.
  rewrite Hsplit in C.
  assert (I0 : In e0 (ordered (scan_ents (initial_perm sk) body))) by (rewrite Hsplit; apply in_elt).
  apply in_ordered in I0 as [I0 M].
  destruct (scan_modlevel_in _ _ _ I0 M) as (pre & st & post & k & n & Hb & Hd & He0).
  subst e0. simpl e_name in *. simpl e_kind. simpl e_perm.
  assert (Hdecl : declares n st = true) by (rewrite declares_decl_name, Hd; apply str_eqb_refl).
  rewrite Hb in U.
  destruct (count_decls_split n pre st post Hdecl) as [Hpre Hpost]; [lia|].
  exists pre, st, post. repeat split; auto.
  rewrite last_for_remove_keys; auto.
  intros x Ix E.
  rewrite cnt_app, cnt_cons in C.
  assert (Z : cnt (has_key (key n)) l1 = 0).
  { unfold has_key at 2 in C. simpl e_name in C. rewrite str_eqb_refl in C. rewrite <- Hb in U. lia. }
  pose proof (cnt_zero _ _ Z x Ix) as F. unfold has_key in F. rewrite E, str_eqb_refl in F. discriminate.
Qed.

Lemma ford_perms_some sk body out :
  ford_perms sk body = Some out ->
  out = top_of sk body ++ ifprocs (top_of sk body) ++ of_class 6 (scan_ents (initial_perm sk) body).
Proof. unfold ford_perms. destruct (struct_ok false body); [|discriminate]. intros H. now injection H as <-. Qed.

Lemma ifprocs_in es e :
  In e (ifprocs es) ->
  exists i, In i es /\ (e_kind i = KExplicit \/ e_kind i = KAbstract) /\ e = mk_ent KIfProc [] (e_name i) (e_perm i).
Proof.
  unfold ifprocs. rewrite in_flat_map. intros (i & Ii & H). exists i. split; auto.
  destruct (e_kind i); simpl in H; try contradiction; destruct H as [<-|[]]; auto.
Qed.

Lemma scan_kinds cur body e : In e (scan_ents cur body) -> e_kind e <> KIfProc.
Proof.
  intros I. destruct (modlevel e) eqn:M.
  - destruct (scan_modlevel_in _ _ _ I M) as (pre & st & post & k & n & _ & Hd & ->).
    apply decl_name_modlevel in Hd. simpl. tauto.
  - destruct (scan_children_in _ _ _ I M) as (n & ats & tb & _ & Ic).
    apply tchildren_kinds in Ic as [-> | ->]; discriminate.
Qed.

(* every top-level entity FORD reports reduces to an entity of the main list with the same name and
   permission, and — as far as the Spec can tell — the same kind of thing *)
Lemma out_top_level sk body out e :
  ford_perms sk body = Some out -> In e out -> top_level e = true ->
  exists e1, In e1 (top_of sk body) /\ e_name e1 = e_name e /\ e_perm e1 = e_perm e /\
             is_variable (e_kind e1) = is_variable (e_kind e) /\
             (e1 = e \/ (e_kind e = KIfProc /\ (e_kind e1 = KExplicit \/ e_kind e1 = KAbstract))).
Proof.
  intros F I T. rewrite (ford_perms_some _ _ _ F) in I.
  apply in_app_iff in I as [I|I]; [exists e; auto 6|].
  apply in_app_iff in I as [I|I].
  - apply ifprocs_in in I as (i & Ii & K & ->). exists i. simpl. repeat split; auto.
    destruct K as [-> | ->]; reflexivity.
  - unfold of_class in I. apply filter_In in I as [I K]. apply Nat.eqb_eq in K.
    pose proof (scan_kinds _ _ _ I). unfold top_level in T.
    destruct (e_kind e); simpl in K; try discriminate; congruence.
Qed.

(* ------------------------------------------------------------------ C04: module-level entities *)

Definition full_statement : Prop :=
  forall sk body out e,
    ford_perms sk body = Some out -> In e out -> top_level e = true ->
    valid_for sk body (e_kind e) (e_name e) = true ->
    e_perm e = fortran_perm sk body (e_kind e) (e_name e).

Lemma attr_access_of_member ex d v :
  In v ex -> ~ In Protected ex -> negb (has Public ex && has Private ex) = true ->
  attr_access ex d = v.
Proof.
  intros I NP C. unfold attr_access.
  destruct v.
  - assert (has Public ex = true) as HP by now apply has_In.
    rewrite HP in C. simpl in C. apply negb_true_iff in C. now rewrite C, HP.
  - assert (has Private ex = true) as -> by now apply has_In. reflexivity.
  - contradiction.
Qed.

Lemma filter_is_acc_id ats : ~ In Protected ats -> filter is_acc ats = ats.
Proof.
  intros H. apply filter_all_true. apply forallb_forall. intros x Ix.
  destruct x; auto.
Qed.

Lemma decl_attrs_ford st : ~ In Protected (decl_attrs st) -> ford_attrs st = decl_attrs st.
Proof. destruct st; simpl; auto. apply filter_is_acc_id. Qed.

Lemma region_zero body n :
  region body n = 0 ->
  late_default n body = false /\ protected_conflict n body = false /\
  declared_twice n body = false /\ names_blank_free body = true.
Proof.
  unfold region.
  destruct (late_default n body), (protected_conflict n body), (declared_twice n body),
    (names_blank_free body); simpl; intros H; try discriminate; auto.
Qed.

Lemma names_blank_free_decl body st k n :
  names_blank_free body = true -> In st body -> decl_name st = Some (k, n) -> blank_free n = true.
Proof.
  unfold names_blank_free. rewrite forallb_forall. intros H I D. specialize (H st I).
  destruct st; simpl in D; try discriminate; injection D as _ <-; exact H.
Qed.

Lemma decl_not_default st k n : decl_name st = Some (k, n) -> is_default st = false.
Proof. destruct st; simpl; auto; discriminate. Qed.

(* the permission FORD ends with is one of the explicit keywords of the identifier, or — when there is
   none — the default in force at the declaration *)
Lemma top_value_member body e :
  In e (top_of ScModule body) ->
  declared_twice (e_name e) body = false -> names_blank_free body = true ->
  (e_kind e = KVar \/ ~ In Protected (explicit_specs (e_name e) body)) ->
  exists pre st post, body = pre ++ st :: post /\ decl_name st = Some (e_kind e, e_name e) /\
    (forall x, In x pre -> declares (e_name e) x = false) /\
    (forall x, In x post -> declares (e_name e) x = false) /\
    (In (e_perm e) (explicit_specs (e_name e) body) \/
     (explicit_specs (e_name e) body = [] /\ e_perm e = cur_after Public pre)).
Proof.
  intros I RD RB HK.
  destruct (top_value ScModule body e I RD) as (pre & st & post & Hb & Hd & Hpre & Hpost & Hv).
  exists pre, st, post. repeat split; auto.
  set (n := e_name e) in *.
  assert (Ist : In st body) by (rewrite Hb; apply in_elt).
  assert (Bn : blank_free n = true) by exact (names_blank_free_decl _ _ _ _ RB Ist Hd).
  assert (Hdecl : declares n st = true) by (rewrite declares_decl_name, Hd; apply str_eqb_refl).
  pose proof (explicit_specs_in n body) as EX.
  assert (FA : ford_attrs st = decl_attrs st).
  { destruct HK as [HK|HK].
    - rewrite HK in Hd. destruct st as [| |pa m ats|m ats tb|k m| |f m]; simpl in Hd; try discriminate; auto.
    - apply decl_attrs_ford. intros X. apply HK. apply (EX Protected Bn RB). right. exists st. auto. }
  rewrite FA in Hv. rewrite Hv. simpl initial_perm.
  destruct (last_for_cases (key n) (scan_attrs body) (last_perm (decl_attrs st) (cur_after Public pre)))
    as [[Hno ->]|Hin].
  - destruct (last_perm_cases (decl_attrs st) (cur_after Public pre)) as [[Hnil ->]|Hin].
    + right. split; auto.
      assert (Hempty : forall p, ~ In p (explicit_specs n body)).
      { intros p X.
        apply (EX p Bn RB) in X as [X|(st0 & I0 & D0 & A0)]; [exact (Hno p X)|].
        rewrite Hb in I0. apply in_app_iff in I0 as [I0|[<-|I0]].
        * rewrite (Hpre st0 I0) in D0. discriminate.
        * rewrite Hnil in A0. contradiction.
        * rewrite (Hpost st0 I0) in D0. discriminate. }
      clear EX. destruct (explicit_specs n body) as [|p l]; auto. exfalso. apply (Hempty p). now left.
    + left. apply (EX _ Bn RB). right. exists st. auto.
  - left. apply (EX _ Bn RB). left. exact Hin.
Qed.

(* the module case of the partial theorem, for entities of the main list *)
Lemma module_top_correct body e :
  In e (top_of ScModule body) ->
  defaults_valid body = true -> consistent (e_name e) body = true ->
  late_default (e_name e) body = false -> protected_given (e_name e) body = false ->
  declared_twice (e_name e) body = false -> names_blank_free body = true ->
  e_perm e = attr_access (explicit_specs (e_name e) body) (default_access body)
  /\ e_perm e <> Protected.
Proof.
  intros I V C RL RP RD RB.
  unfold protected_given in RP. apply has_false_In in RP.
  destruct (top_value_member body e I RD RB (or_intror RP))
    as (pre & st & post & Hb & Hd & Hpre & Hpost & [Hmem|[Hnil Hcur]]).
  - split.
    + symmetry. apply attr_access_of_member; auto.
    + intros X. apply RP. now rewrite <- X.
  - assert (Hdecl : declares (e_name e) st = true) by (rewrite declares_decl_name, Hd; apply str_eqb_refl).
    rewrite Hnil. unfold attr_access. simpl. rewrite Hcur.
    rewrite Hb, late_default_split in RL; auto. rewrite Hb in V.
    rewrite (cur_is_default pre st post V (decl_not_default _ _ _ Hd) RL), <- Hb.
    split; auto. unfold default_access. destruct (existsb is_bare_private body); discriminate.
Qed.

(* ------------------------------------------------------------------ submodules *)

Lemma no_access_scan body :
  no_access_syntax body = true ->
  scan_attrs body = [] /\
  forall e, In e (scan_ents Private body) -> modlevel e = true -> e_perm e = Private.
Proof.
  induction body as [|st r IH]; simpl; intros H; [split; auto; intros e []|].
  apply andb_true_iff in H as [H1 H2]. destruct (IH H2) as [IA IE].
  destruct st as [p|p ns|pa m ats|m ats tb|k m| |f m]; try discriminate; simpl; split; auto.
  - destruct ats; [|discriminate]. intros e [<-|I] M; auto.
  - destruct ats; [|discriminate]. intros e [<-|I] M; auto.
    apply in_app_iff in I as [I|I]; auto. apply tchildren_not_modlevel in I. congruence.
  - intros e [<-|I] M; auto.
  - intros e [<-|I] M; auto.
Qed.

Lemma submodule_top_private body e :
  no_access_syntax body = true -> In e (top_of ScSubmodule body) -> e_perm e = Private.
Proof.
  intros N I. destruct (no_access_scan body N) as [HA HE].
  unfold top_of in I. rewrite HA in I. simpl initial_perm in I.
  assert (HL : forall x, In x (apply_attrs (ordered (scan_ents Private body)) []) -> e_perm x = Private).
  { intros x Ix. apply apply_attrs_in in Ix as (l1 & e0 & l2 & Hs & ->).
    assert (remove_keys l1 [] = []) as ->.
    { clear. induction l1 as [|y l IH]; auto. }
    simpl. apply HE.
    - assert (In e0 (ordered (scan_ents Private body))) as X by (rewrite Hs; apply in_elt).
      now apply in_ordered in X.
    - assert (In e0 (ordered (scan_ents Private body))) as X by (rewrite Hs; apply in_elt).
      now apply in_ordered in X. }
  apply fix_constructors_in in I as (e1 & I1 & _ & [->|(t & It & _ & _ & _ & ->)]); auto.
Qed.

(* ------------------------------------------------------------------ the theorems on module-level entities *)

(* `protected` is recorded: a variable whose only explicit keyword is PROTECTED *)
Theorem protected_recorded : forall body out e,
  ford_perms ScModule body = Some out -> In e out -> e_kind e = KVar ->
  declared_twice (e_name e) body = false -> names_blank_free body = true ->
  protected_given (e_name e) body = true ->
  has Public (explicit_specs (e_name e) body) = false ->
  has Private (explicit_specs (e_name e) body) = false ->
  e_perm e = Protected /\
  (default_access body = Public -> e_perm e = fortran_perm ScModule body (e_kind e) (e_name e)).
Proof.
  intros body out e F I K RD RB PG NPub NPriv.
  assert (T : top_level e = true) by (unfold top_level; now rewrite K).
  destruct (out_top_level ScModule body out e F I T) as (e1 & I1 & _ & _ & _ & [->|[X _]]); [|congruence].
  assert (EP : e_perm e = Protected).
  { destruct (top_value_member body e I1 RD RB (or_introl K))
      as (pre & st & post & _ & _ & _ & _ & [Hmem|[Hnil _]]).
    - apply has_false_In in NPub, NPriv. destruct (e_perm e); tauto.
    - unfold protected_given in PG. rewrite Hnil in PG. discriminate. }
  split; auto. intros D. simpl. unfold attr_access. rewrite NPriv, NPub, D, K.
  unfold protected_given in PG. rewrite PG. exact EP.
Qed.

Theorem partial : forall sk body out e,
  ford_perms sk body = Some out -> In e out -> top_level e = true ->
  valid_for sk body (e_kind e) (e_name e) = true ->
  region body (e_name e) = 0 ->
  e_perm e = fortran_perm sk body (e_kind e) (e_name e).
Proof.
  intros sk body out e F I T V R.
  destruct sk.
  2:{ destruct (out_top_level ScSubmodule body out e F I T) as (e1 & I1 & _ & Ep & _).
      rewrite <- Ep. simpl in V |- *. now apply (submodule_top_private body). }
  apply region_zero in R as (RL & RC & RD & RB).
  simpl in V. apply andb_true_iff in V as [V V3]. apply andb_true_iff in V as [V1 V2].
  destruct (protected_given (e_name e) body) eqn:PG.
  - (* PROTECTED and nothing else, public default: the variable is recorded as protected *)
    simpl in V3. unfold protected_conflict in RC. unfold protected_given in PG. rewrite PG in RC. simpl in RC.
    apply orb_false_iff in RC as [RC RC3]. apply orb_false_iff in RC as [RC1 RC2].
    assert (K : e_kind e = KVar) by (destruct (e_kind e); try discriminate; reflexivity).
    assert (D : default_access body = Public).
    { unfold default_access in *. destruct (existsb is_bare_private body); [discriminate|reflexivity]. }
    exact (proj2 (protected_recorded body out e F I K RD RB PG RC1 RC2) D).
  - destruct (out_top_level ScModule body out e F I T) as (e1 & I1 & En & Ep & Ev & _).
    rewrite <- Ep. rewrite <- En in V2, RL, RD, PG.
    destruct (module_top_correct body e1 I1 V1 V2 RL PG RD RB) as [H1 H2].
    simpl. unfold protected_given in PG. rewrite <- En, PG, andb_false_r, <- H1.
    destruct (e_perm e1); congruence.
Qed.

Theorem submodule_private : forall body out e,
  ford_perms ScSubmodule body = Some out -> no_access_syntax body = true ->
  In e out -> top_level e = true ->
  e_perm e = Private /\ e_perm e = fortran_perm ScSubmodule body (e_kind e) (e_name e).
Proof.
  intros body out e F N I T.
  destruct (out_top_level ScSubmodule body out e F I T) as (e1 & I1 & _ & Ep & _).
  rewrite <- Ep. split; [|simpl]; now apply (submodule_top_private body).
Qed.

(* the procedure of an abstract / nameless interface block has the permission of its interface entity,
   and every such interface entity has its procedure *)
Theorem interface_procs : forall sk body out,
  ford_perms sk body = Some out ->
  (forall e, In e out -> e_kind e = KIfProc ->
     exists i, In i out /\ (e_kind i = KExplicit \/ e_kind i = KAbstract) /\
               e_name i = e_name e /\ e_perm i = e_perm e) /\
  (forall i, In i out -> e_kind i = KExplicit \/ e_kind i = KAbstract ->
     In (mk_ent KIfProc [] (e_name i) (e_perm i)) out).
Proof.
  intros sk body out F. pose proof (ford_perms_some _ _ _ F) as ->. split.
  - intros e I K. apply in_app_iff in I as [I|I].
    { apply (top_modlevel sk body) in I. unfold modlevel in I. rewrite K in I. discriminate. }
    apply in_app_iff in I as [I|I].
    + apply ifprocs_in in I as (i & Ii & Ki & ->). exists i. simpl. rewrite in_app_iff. auto.
    + unfold of_class in I. apply filter_In in I as [I _]. apply scan_kinds in I. contradiction.
  - intros i I K. rewrite !in_app_iff in *. destruct I as [I|[I|I]].
    + right. left. unfold ifprocs. apply in_flat_map. exists i. split; auto.
      destruct K as [-> | ->]; simpl; auto.
    + apply ifprocs_in in I as (j & _ & _ & ->). simpl in K. destruct K; discriminate.
    + unfold of_class in I. apply filter_In in I as [_ C]. destruct K as [K|K]; rewrite K in C; discriminate.
Qed.

(* ------------------------------------------------------------------ derived-type bodies *)

Definition compent (owner : str) (d : perm) (st : tstmt) : list ent :=
  match st with TComp n ats => [mk_ent KComp owner n (attr_access ats d)] | _ => [] end.
Definition bindent (owner : str) (d : perm) (st : tstmt) : list ent :=
  match st with TBind n ats => [mk_ent KBind owner n (attr_access ats d)] | _ => [] end.

Lemma fortran_tperms_eq owner tb :
  fortran_tperms owner tb =
  flat_map (compent owner (part_default (comp_part tb))) (comp_part tb)
  ++ flat_map (bindent owner (part_default (bind_part tb))) (bind_part tb).
Proof. reflexivity. Qed.

Lemma attr_ok ats d :
  ok_attrs ats = true -> last_perm ats d = attr_access ats d /\ filter is_acc ats = ats.
Proof.
  unfold ok_attrs. intros H. apply andb_true_iff in H as [H1 H2].
  apply negb_true_iff in H1. apply has_false_In in H1. split.
  - destruct (last_perm_cases ats d) as [[-> ->]|I]; [reflexivity|].
    symmetry. apply attr_access_of_member; auto.
  - now apply filter_is_acc_id.
Qed.

Lemma twf_bind3 owner tb :
  twf 3 tb = true ->
  existsb is_tprivate tb = false /\
  forall c, tscan owner c true tb = flat_map (bindent owner c) tb.
Proof.
  induction tb as [|st r IH]; simpl; intros H; [split; auto|].
  destruct st as [p|n ats| |n ats]; simpl in H.
  - apply andb_true_iff in H as [H _]. apply andb_true_iff in H as [_ H]. discriminate.
  - discriminate.
  - discriminate.
  - apply andb_true_iff in H as [H1 H2]. destruct (IH H2) as [E S]. split; auto.
    intros c. simpl. destruct (attr_ok ats c H1) as [E1 E2]. now rewrite E2, E1, S.
Qed.

Lemma twf_bind2 owner tb :
  twf 2 tb = true ->
  forall c, tscan owner c true tb
            = flat_map (bindent owner (if existsb is_tprivate tb then Private else c)) tb.
Proof.
  induction tb as [|st r IH]; simpl; intros H c; auto.
  destruct st as [p|n ats| |n ats]; simpl in H.
  - apply andb_true_iff in H as [H H2]. apply andb_true_iff in H as [H _]. apply perm_eqb_eq in H. subst p.
    simpl. rewrite (IH H2 Private). destruct (existsb is_tprivate r); reflexivity.
  - discriminate.
  - discriminate.
  - apply andb_true_iff in H as [H1 H2]. destruct (twf_bind3 owner r H2) as [E S].
    simpl. rewrite E. destruct (attr_ok ats c H1) as [E1 E2]. now rewrite E2, E1, S.
Qed.

Lemma twf_comp1 owner tb :
  twf 1 tb = true ->
  existsb is_tprivate (comp_part tb) = false /\
  forall c, tscan owner c false tb
            = flat_map (compent owner c) (comp_part tb)
              ++ flat_map (bindent owner (part_default (bind_part tb))) (bind_part tb).
Proof.
  induction tb as [|st r IH]; simpl; intros H; [split; auto|].
  destruct st as [p|n ats| |n ats]; simpl in H.
  - apply andb_true_iff in H as [H _]. apply andb_true_iff in H as [_ H]. discriminate.
  - apply andb_true_iff in H as [H1 H2]. destruct (IH H2) as [E S]. split; auto.
    intros c. simpl. destruct (attr_ok ats c H1) as [-> _]. now rewrite S.
  - split; auto. intros c. simpl. rewrite (twf_bind2 owner r H Public). reflexivity.
  - discriminate.
Qed.

Lemma twf_comp0 owner tb :
  twf 0 tb = true ->
  forall c, tscan owner c false tb
            = flat_map (compent owner (if existsb is_tprivate (comp_part tb) then Private else c)) (comp_part tb)
              ++ flat_map (bindent owner (part_default (bind_part tb))) (bind_part tb).
Proof.
  induction tb as [|st r IH]; simpl; intros H c; auto.
  destruct st as [p|n ats| |n ats]; simpl in H.
  - apply andb_true_iff in H as [H H2]. apply andb_true_iff in H as [H _]. apply perm_eqb_eq in H. subst p.
    simpl. rewrite (IH H2 Private). destruct (existsb is_tprivate (comp_part r)); reflexivity.
  - apply andb_true_iff in H as [H1 H2]. destruct (twf_comp1 owner r H2) as [E S].
    simpl. rewrite E. destruct (attr_ok ats c H1) as [-> _]. now rewrite S.
  - simpl. rewrite (twf_bind2 owner r H Public). reflexivity.
  - discriminate.
Qed.

Lemma filter_none {A} (f : A -> bool) l : (forall x, In x l -> f x = false) -> filter f l = [].
Proof.
  induction l as [|y l IH]; simpl; intros H; auto. rewrite (H y) by now left.
  apply IH. intros x I. apply H. now right.
Qed.

Lemma filter_all {A} (f : A -> bool) l : (forall x, In x l -> f x = true) -> filter f l = l.
Proof. intros H. apply filter_all_true. now apply forallb_forall. Qed.

Lemma compent_kind owner d l x : In x (flat_map (compent owner d) l) -> e_kind x = KComp.
Proof. rewrite in_flat_map. intros (st & _ & I). destruct st; simpl in I; try contradiction. now destruct I as [<-|[]]. Qed.

Lemma bindent_kind owner d l x : In x (flat_map (bindent owner d) l) -> e_kind x = KBind.
Proof. rewrite in_flat_map. intros (st & _ & I). destruct st; simpl in I; try contradiction. now destruct I as [<-|[]]. Qed.

Lemma filter_flat_compent owner d l :
  filter (is_kind KComp) (flat_map (compent owner d) l) = flat_map (compent owner d) l /\
  filter (is_kind KBind) (flat_map (compent owner d) l) = [].
Proof.
  split; [apply filter_all|apply filter_none]; intros x I; apply compent_kind in I;
    unfold is_kind; now rewrite I.
Qed.

Lemma filter_flat_bindent owner d l :
  filter (is_kind KBind) (flat_map (bindent owner d) l) = flat_map (bindent owner d) l /\
  filter (is_kind KComp) (flat_map (bindent owner d) l) = [].
Proof.
  split; [apply filter_all|apply filter_none]; intros x I; apply bindent_kind in I;
    unfold is_kind; now rewrite I.
Qed.

(* Components and bindings: FORD's answer is Fortran's for every well-formed type body *)
Theorem types : forall owner tb, twf 0 tb = true -> tchildren owner tb = fortran_tperms owner tb.
Proof.
  intros owner tb H. unfold tchildren. rewrite (twf_comp0 owner tb H Public), fortran_tperms_eq.
  rewrite !filter_app.
  destruct (filter_flat_compent owner (if existsb is_tprivate (comp_part tb) then Private else Public)
              (comp_part tb)) as [-> ->].
  destruct (filter_flat_bindent owner (part_default (bind_part tb)) (bind_part tb)) as [-> ->].
  rewrite app_nil_r. reflexivity.
Qed.

Theorem types_in_scope : forall sk body out e,
  ford_perms sk body = Some out -> In e out -> top_level e = false ->
  exists n ats tb, In (SType n ats tb) body /\ In e (tchildren n tb) /\
                   (twf 0 tb = true -> In e (fortran_tperms n tb)).
Proof.
  intros sk body out e F I T. rewrite (ford_perms_some _ _ _ F) in I.
  assert (M : modlevel e = false).
  { unfold top_level in T. unfold modlevel. destruct (e_kind e); try discriminate; reflexivity. }
  apply in_app_iff in I as [I|I].
  { apply (top_modlevel sk body) in I. congruence. }
  apply in_app_iff in I as [I|I].
  { apply ifprocs_in in I as (i & _ & _ & ->). discriminate. }
  unfold of_class in I. apply filter_In in I as [I _].
  destruct (scan_children_in _ _ _ I M) as (n & ats & tb & H1 & H2).
  exists n, ats, tb. repeat split; auto. intros W. now rewrite <- (types n tb W).
Qed.

(* the parser raises exactly on a procedure before CONTAINS or a second CONTAINS *)
Theorem raises_iff_misplaced : forall sk body,
  ford_perms sk body = None <-> struct_ok false body = false.
Proof. intros sk body. unfold ford_perms. destruct (struct_ok false body); split; intros; congruence. Qed.

(* ------------------------------------------------------------------ refutations (witnesses replayed on FORD) *)

Definition w_late : list sstmt := [SVar false (s "x") []; SType (s "t") [] [TComp (s "c") []]; SDefault Private].
Definition w_prot_private : list sstmt := [SDefault Private; SVar false (s "y") [Protected]].
Definition w_prot_lost : list sstmt := [SVar false (s "w") [Protected]; SAccess Public [s "w"]].
Definition w_repeated : list sstmt :=
  [SDefault Private; SAccess Public [s "gen"]; SIface IGeneric (s "gen"); SIface IGeneric (s "gen");
   SContains; SProc false (s "a"); SProc false (s "b")].
Definition w_spelling : list sstmt :=
  [SDefault Private; SAccess Public [s "operator(+)"]; SIface IOperator (s "operator (+)");
   SContains; SProc true (s "f")].

Definition refutes (body : list sstmt) (e : ent) (r : nat) : Prop :=
  exists out, ford_perms ScModule body = Some out /\ In e out /\ top_level e = true /\
    valid_for ScModule body (e_kind e) (e_name e) = true /\ region body (e_name e) = r /\
    e_perm e <> fortran_perm ScModule body (e_kind e) (e_name e).

Lemma refuted_late_default :
  refutes w_late (mk_ent KVar [] (s "x") Public) 1 /\ refutes w_late (mk_ent KType [] (s "t") Public) 1.
Proof.
  split; eexists; (split; [vm_compute; reflexivity|]); (split; [simpl; tauto|]);
    repeat split; try (vm_compute; reflexivity); vm_compute; discriminate.
Qed.

Lemma refuted_protected_private : refutes w_prot_private (mk_ent KVar [] (s "y") Protected) 2.
Proof.
  eexists; (split; [vm_compute; reflexivity|]); (split; [simpl; tauto|]);
    repeat split; try (vm_compute; reflexivity); vm_compute; discriminate.
Qed.

Lemma refuted_protected_lost : refutes w_prot_lost (mk_ent KVar [] (s "w") Public) 2.
Proof.
  eexists; (split; [vm_compute; reflexivity|]); (split; [simpl; tauto|]);
    repeat split; try (vm_compute; reflexivity); vm_compute; discriminate.
Qed.

Lemma refuted_repeated_generic : refutes w_repeated (mk_ent KGeneric [] (s "gen") Private) 4.
Proof.
  eexists; (split; [vm_compute; reflexivity|]); (split; [simpl; tauto|]);
    repeat split; try (vm_compute; reflexivity); vm_compute; discriminate.
Qed.

Lemma refuted_operator_spelling : refutes w_spelling (mk_ent KOperator [] (s "operator (+)") Private) 8.
Proof.
  eexists; (split; [vm_compute; reflexivity|]); (split; [simpl; tauto|]);
    repeat split; try (vm_compute; reflexivity); vm_compute; discriminate.
Qed.

Lemma statement_refuted : ~ full_statement.
Proof.
  intros H. destruct refuted_late_default as [(out & F & I & T & V & _ & N) _].
  exact (N (H ScModule w_late out _ F I T V)).
Qed.

(* ------------------------------------------------------------------ non-vacuity *)

Definition ex_body : list sstmt :=
  [SDefault Private; SAccess Public [s "Alpha"; s "operator(+)"]; SVar false (s "alpha") [];
   SVar true (s "n") [Public]; SType (s "t") [Private] [TDefault Private; TComp (s "c") [Public]];
   SIface IAbstract (s "ai"); SIface IOperator (s "operator(+)"); SAccess Private [s "AI"];
   SContains; SProc true (s "f")].

Example ex_partial :
  exists out, ford_perms ScModule ex_body = Some out /\
    Forall (fun e => top_level e = true -> valid_for ScModule ex_body (e_kind e) (e_name e) = true /\
                     region ex_body (e_name e) = 0) out /\
    In (mk_ent KVar [] (s "alpha") Public) out /\ In (mk_ent KIfProc [] (s "ai") Private) out /\
    In (mk_ent KFun [] (s "f") Private) out /\ In (mk_ent KOperator [] (s "operator(+)") Public) out.
Proof.
  eexists. split; [vm_compute; reflexivity|]. split.
  - repeat constructor; vm_compute; intros; try discriminate; auto.
  - simpl; tauto.
Qed.

Definition ex_prot_body : list sstmt :=
  [SVar false (s "y") [Protected]; SAccess Protected [s "Z"]; SVar false (s "z") []].
Example ex_protected_recorded :
  exists out, ford_perms ScModule ex_prot_body = Some out /\
    In (mk_ent KVar [] (s "z") Protected) out /\
    declared_twice (s "z") ex_prot_body = false /\ names_blank_free ex_prot_body = true /\
    protected_given (s "z") ex_prot_body = true /\
    has Public (explicit_specs (s "z") ex_prot_body) = false /\
    has Private (explicit_specs (s "z") ex_prot_body) = false /\ default_access ex_prot_body = Public.
Proof. eexists. split; [vm_compute; reflexivity|]. split; [simpl; tauto|]. repeat split; vm_compute; reflexivity. Qed.

Definition ex_sub_body : list sstmt :=
  [SVar false (s "sv") []; SType (s "st") [] [TComp (s "c") []]; SIface IExplicit (s "sext");
   SContains; SProc false (s "ss")].
Example ex_submodule :
  exists out, ford_perms ScSubmodule ex_sub_body = Some out /\ no_access_syntax ex_sub_body = true /\
    In (mk_ent KVar [] (s "sv") Private) out /\ In (mk_ent KIfProc [] (s "sext") Private) out /\
    In (mk_ent KComp (s "st") (s "c") Public) out.
Proof. eexists. split; [vm_compute; reflexivity|]. split; [vm_compute; reflexivity|]. simpl; tauto. Qed.

Definition ex_tbody : list tstmt :=
  [TDefault Private; TComp (s "a") []; TComp (s "b") [Public]; TContains; TDefault Private;
   TBind (s "p1") []; TBind (s "p2") [Public]].
Example ex_types :
  twf 0 ex_tbody = true /\
  tchildren (s "t") ex_tbody =
    [mk_ent KComp (s "t") (s "a") Private; mk_ent KComp (s "t") (s "b") Public;
     mk_ent KBind (s "t") (s "p1") Private; mk_ent KBind (s "t") (s "p2") Public].
Proof. split; vm_compute; reflexivity. Qed.

Example ex_types_in_scope :
  exists out, ford_perms ScModule ex_body = Some out /\ In (mk_ent KComp (s "t") (s "c") Public) out.
Proof. eexists. split; [vm_compute; reflexivity|]. simpl; tauto. Qed.

Example ex_raises : ford_perms ScModule [SProc false (s "a")] = None /\
                    ford_perms ScModule [SContains; SProc false (s "a"); SContains] = None.
Proof. split; reflexivity. Qed.
