(* Sem/DisplayProofs.v — proofs about Sem/Display.v (property C05). *)
From Ford Require Import Base.Str Base.StrFacts Sem.Access Sem.Display.
From Coq Require Import Lia.

Local Arguments Nat.div : simpl never.

(* ------------------------------------------------------------------ induction on entity trees *)

Fixpoint node_ind' (P : node -> Prop)
  (H : forall k a cs, Forall (fun lc => P (snd lc)) cs -> P (Node k a cs)) (n : node) : P n :=
  match n with
  | Node k a cs =>
      H k a cs ((fix go (cs : list (lname * node)) : Forall (fun lc => P (snd lc)) cs :=
                   match cs with
                   | [] => Forall_nil _
                   | lc :: r => Forall_cons lc (node_ind' P H (snd lc)) (go r)
                   end) cs)
  end.

(* ------------------------------------------------------------------ the nested recursions, unfolded *)

Definition ids (os : list out) : list nat := map (fun o => fst (fst o)) os.
Definition kept (os : list out) : list out := filter (fun o => snd (fst o)) os.

Lemma kept_app a b : kept (a ++ b) = kept a ++ kept b.
Proof. apply filter_app. Qed.
Lemma ids_app a b : ids (a ++ b) = ids a ++ ids b.
Proof. apply map_app. Qed.

Definition set_head_vis (v : bool) (os : list out) : list out :=
  match os with (i, kp, _) :: rest => (i, kp, v) :: rest | [] => [] end.

(* what prune() of a node of kind k (display d below it, hide = early return) does with one child *)
Definition child_out (c : cfg) (k : nkind) (d : list word) (hide : bool) (l : lname) (ch : node) : list out :=
  if hide then untouched c (negb (in_lists l cleared)) l ch
  else if in_lists l (filtered k) && negb (should_display c d (node_attrs ch)) then untouched c false l ch
  else
    let v := init_visible c l || in_lists l (made_visible k) in
    if in_lists l (recursed k) then pruned c d v ch else set_head_vis v (untouched c true l ch).

Definition hides (c : cfg) (k : nkind) (a : attrs) : bool :=
  match k with NProc => negb (internals c a) | _ => false end.

Lemma pruned_unfold c pd vis k a cs :
  pruned c pd vis (Node k a cs) =
  (a_id a, true, vis)
  :: flat_map (fun lc => child_out c k (disp_of false pd (a_display a)) (hides c k a) (fst lc) (snd lc)) cs.
Proof.
  simpl. f_equal. induction cs as [|[l ch] r IH]; [reflexivity|].
  simpl flat_map. rewrite <- IH. unfold child_out, hides, set_head_vis. simpl fst. simpl snd.
  destruct (match k with NProc => negb (internals c a) | _ => false end); [reflexivity|].
  destruct (in_lists l (filtered k) && negb (should_display c (disp_of false pd (a_display a)) (node_attrs ch)));
    [reflexivity|].
  destruct (in_lists l (recursed k)); reflexivity.
Qed.

Lemma untouched_unfold c kp l k a cs :
  untouched c kp l (Node k a cs) =
  (a_id a, kp, init_visible c l) :: flat_map (fun lc => untouched c kp (fst lc) (snd lc)) cs.
Proof.
  simpl. f_equal. induction cs as [|[l' ch] r IH]; [reflexivity|]. simpl. now rewrite <- IH.
Qed.

Definition is_file_kind (k : nkind) : bool := match k with NFile => true | _ => false end.

Lemma sel_unfold c inh k a cs :
  sel c inh (Node k a cs) =
  a_id a
  :: flat_map (fun lc =>
       if child_selected c k a (spec_display (is_file_kind k) inh (a_display a)) (fst lc) (node_attrs (snd lc))
       then sel c (spec_display (is_file_kind k) inh (a_display a)) (snd lc) else []) cs.
Proof.
  simpl. f_equal. induction cs as [|[l ch] r IH]; [reflexivity|]. simpl. now rewrite <- IH.
Qed.

Lemma regular_unfold k a cs :
  regular (Node k a cs) =
  negb (a_doc2 a) && forallb (fun lc => allowed_child k (fst lc) && regular (snd lc)) cs.
Proof.
  simpl. f_equal. induction cs as [|[l ch] r IH]; [reflexivity|]. simpl. now rewrite <- IH.
Qed.

Lemma well_kinded_unfold k a cs :
  well_kinded (Node k a cs) =
  forallb (fun lc => kind_fits (fst lc) (node_kind (snd lc)) && well_kinded (snd lc)) cs.
Proof.
  simpl. induction cs as [|[l ch] r IH]; [reflexivity|]. simpl. now rewrite <- IH.
Qed.

(* ------------------------------------------------------------------ display words vs display sets *)

(* `none` never stands beside a permission word in a display list FORD computes *)
Definition none_alone (d : list word) : Prop :=
  has_word WNone d = true -> forall p, has_word (word_of_perm p) d = false.

Lemma has_word_In w d : has_word w d = true <-> In w d.
Proof.
  unfold has_word. rewrite existsb_exists. split.
  - intros (x & I & E). destruct w, x; try discriminate; exact I.
  - intros I. exists w. split; auto. now destruct w.
Qed.

Lemma cfg_ok_none_alone c : cfg_ok c = true -> none_alone (c_display c).
Proof.
  unfold cfg_ok, none_alone. intros H N p. rewrite N in H. simpl in H.
  destruct (has_word (word_of_perm p) (c_display c)) eqn:E; auto.
  apply has_word_In in E. rewrite forallb_forall in H. specialize (H _ E). destruct p; discriminate.
Qed.

Lemma filter_no_none meta : has_word WNone (filter (fun w => negb (word_eqb w WNone)) meta) = false.
Proof.
  destruct (has_word WNone (filter (fun w => negb (word_eqb w WNone)) meta)) eqn:E; auto.
  apply has_word_In in E. apply filter_In in E as [_ E]. discriminate.
Qed.

Lemma disp_of_none_alone f pd meta : none_alone pd -> none_alone (disp_of f pd meta).
Proof.
  intros H. unfold disp_of.
  set (tmp := if f then filter (fun w => negb (word_eqb w WNone)) meta else meta).
  destruct tmp as [|w r] eqn:E; auto.
  destruct (has_word WNone (w :: r)) eqn:N.
  - intros _ p. reflexivity.
  - destruct (existsb is_known (w :: r)); auto. intros X. congruence.
Qed.

Lemma mem_dset d p : none_alone d -> has_word (word_of_perm p) d = dset_has (dset_of d) p.
Proof.
  intros H. unfold dset_of. destruct (has_word WNone d) eqn:N.
  - rewrite (H N p). now destruct p.
  - now destruct p.
Qed.

(* C05_display_inherit (non-file entities): the list FORD filters with is the documented override rule *)
Lemma disp_spec pd meta : dset_of (disp_of false pd meta) = spec_display false (dset_of pd) meta.
Proof.
  unfold disp_of, spec_display. destruct meta as [|w r]; [reflexivity|].
  destruct (has_word WNone (w :: r)) eqn:N; [reflexivity|].
  destruct (existsb is_known (w :: r)); reflexivity.
Qed.

Lemma display_inherit pd meta p :
  none_alone pd ->
  has_word (word_of_perm p) (disp_of false pd meta) = dset_has (spec_display false (dset_of pd) meta) p.
Proof. intros H. rewrite <- disp_spec. apply mem_dset. now apply disp_of_none_alone. Qed.

Lemma file_silent_display t inh :
  file_display_silent t = true -> spec_display true inh (a_display (node_attrs t)) = inh.
Proof.
  unfold file_display_silent, spec_display. intros H. apply negb_true_iff in H.
  now rewrite filter_no_none, H.
Qed.

(* ------------------------------------------------------------------ untouched subtrees *)

Lemma ids_cons o r : ids (o :: r) = fst (fst o) :: ids r.
Proof. reflexivity. Qed.
Lemma kept_cons_true i v r : kept ((i, true, v) :: r) = (i, true, v) :: kept r.
Proof. reflexivity. Qed.
Lemma kept_cons_false i v r : kept ((i, false, v) :: r) = kept r.
Proof. reflexivity. Qed.

Lemma kept_untouched_false c l n : kept (untouched c false l n) = [].
Proof.
  revert l. induction n as [k a cs IH] using node_ind'. intros l.
  rewrite untouched_unfold, kept_cons_false. induction cs as [|[l' ch] r IHr]; [reflexivity|].
  simpl flat_map. rewrite kept_app. inversion IH as [|? ? H1 H2]; subst. simpl snd in H1.
  simpl fst. simpl snd. rewrite H1. simpl. apply IHr. exact H2.
Qed.

Lemma kept_untouched_true c l n : kept (untouched c true l n) = untouched c true l n.
Proof.
  revert l. induction n as [k a cs IH] using node_ind'. intros l.
  rewrite untouched_unfold, kept_cons_true. f_equal.
  induction cs as [|[l' ch] r IHr]; [reflexivity|].
  simpl flat_map. rewrite kept_app. inversion IH as [|? ? H1 H2]; subst. simpl snd in H1.
  simpl fst. simpl snd. rewrite H1. f_equal. apply IHr. exact H2.
Qed.

Lemma ids_set_head_vis v os : ids (set_head_vis v os) = ids os.
Proof. destruct os as [|[[i kp] v'] r]; reflexivity. Qed.

Lemma kept_set_head_vis c v l n :
  kept (set_head_vis v (untouched c true l n)) = set_head_vis v (untouched c true l n).
Proof.
  pose proof (kept_untouched_true c l n) as H. destruct n as [k a cs].
  rewrite untouched_unfold in *. simpl set_head_vis. rewrite kept_cons_true in *.
  injection H as H. now rewrite H.
Qed.

Lemma args_selected c k a d ch : child_selected c k a d LArgs ch = true.
Proof. reflexivity. Qed.

(* a node without a prune method (variable, interface, bound procedure, dummy argument): everything
   below it is a dummy argument, and all of it is selected with it *)
Lemma other_ids c n :
  forall d l, node_kind n = NOther -> regular n = true -> well_kinded n = true ->
  ids (untouched c true l n) = sel c d n.
Proof.
  induction n as [k a cs IH] using node_ind'. intros d l K R W. simpl in K. subst k.
  rewrite untouched_unfold, sel_unfold, ids_cons. simpl fst.
  rewrite regular_unfold in R. rewrite well_kinded_unfold in W.
  apply andb_true_iff in R as [_ R]. f_equal.
  induction cs as [|[l' ch] r IHr]; [reflexivity|].
  simpl forallb in R, W. simpl fst in R, W. simpl snd in R, W.
  apply andb_true_iff in R as [R1 R2]. apply andb_true_iff in R1 as [RA RC].
  apply andb_true_iff in W as [W1 W2]. apply andb_true_iff in W1 as [WK WC].
  inversion IH as [|? ? H1 H2]; subst. simpl snd in H1.
  simpl flat_map. simpl fst. simpl snd. rewrite ids_app.
  assert (l' = LArgs) as -> by (destruct l'; simpl in RA; try discriminate; reflexivity).
  assert (KO : node_kind ch = NOther) by (destruct (node_kind ch); simpl in WK; try discriminate; reflexivity).
  rewrite args_selected, (H1 (spec_display (is_file_kind NOther) d (a_display a)) LArgs KO RC WC).
  f_equal. apply IHr; auto.
Qed.

(* ------------------------------------------------------------------ prune = Spec on regular trees *)

Definition prunable (k : nkind) : bool :=
  match k with NModule | NSubmodule | NProgram | NProc | NType | NBlockData => true | _ => false end.

Lemma filtered_not_special k l :
  in_lists l (filtered k) = true -> is_unit_list l = false /\ lname_eqb l LArgs = false /\ perm_free l = false.
Proof. destruct k, l; simpl; intros H; try discriminate; auto. Qed.

Lemma regular_child_cases k l :
  prunable k = true -> allowed_child k l = true ->
  (in_lists l (filtered k) = true) \/ (l = LArgs /\ in_lists l (filtered k) = false).
Proof. destruct k, l; simpl; intros P H; try discriminate; auto. Qed.

Lemma args_not_recursed k : in_lists LArgs (recursed k) = false.
Proof. now destruct k. Qed.

Lemma cleared_is_filtered_proc l : in_lists l cleared = in_lists l (filtered NProc).
Proof. reflexivity. Qed.

Lemma recursed_kind k l kc :
  prunable k = true -> in_lists l (recursed k) = true -> kind_fits l kc = true -> prunable kc = true.
Proof. destruct k, l, kc; simpl; intros; try discriminate; reflexivity. Qed.

Lemma not_recursed_kind k l kc :
  prunable k = true -> allowed_child k l = true -> in_lists l (recursed k) = false ->
  kind_fits l kc = true -> kc = NOther.
Proof. destruct k, l, kc; simpl; intros; try discriminate; reflexivity. Qed.

Lemma should_display_selected c k a pd l ch :
  none_alone pd -> prunable k = true -> in_lists l (filtered k) = true -> a_doc2 ch = false ->
  hides c k a = false ->
  should_display c (disp_of false pd (a_display a)) ch
  = child_selected c k a (spec_display false (dset_of pd) (a_display a)) l ch.
Proof.
  intros N P F D2 Hh. destruct (filtered_not_special k l F) as (U & A & PF).
  unfold child_selected, should_display. rewrite U, A, PF.
  rewrite (display_inherit pd (a_display a) (a_perm ch) N).
  unfold documented. rewrite D2, orb_false_r.
  assert (spec_internals c k a = true) as ->.
  { unfold hides, spec_internals, internals in *. destruct k; auto. now apply negb_false_iff in Hh. }
  rewrite andb_true_r.
  destruct (c_hide_undoc c), (a_doc ch); simpl; rewrite ?andb_true_r, ?andb_false_r; reflexivity.
Qed.

Lemma regular_doc2 n : regular n = true -> a_doc2 (node_attrs n) = false.
Proof. destruct n as [k a cs]. rewrite regular_unfold. intros H. apply andb_true_iff in H as [H _]. now apply negb_true_iff in H. Qed.

Lemma pruned_exact c n :
  forall pd vis, none_alone pd -> prunable (node_kind n) = true -> regular n = true -> well_kinded n = true ->
  ids (kept (pruned c pd vis n)) = sel c (dset_of pd) n.
Proof.
  induction n as [k a cs IH] using node_ind'. intros pd vis N P R W. simpl in P.
  rewrite pruned_unfold, sel_unfold, kept_cons_true, ids_cons. simpl fst.
  assert (is_file_kind k = false) as -> by (destruct k; try discriminate; reflexivity).
  rewrite regular_unfold in R. apply andb_true_iff in R as [_ R]. rewrite well_kinded_unfold in W.
  f_equal.
  set (d := disp_of false pd (a_display a)).
  assert (Nd : none_alone d) by now apply disp_of_none_alone.
  assert (Ed : spec_display false (dset_of pd) (a_display a) = dset_of d) by (symmetry; apply disp_spec).
  rewrite Ed.
  induction cs as [|[l ch] r IHr]; [reflexivity|].
  simpl forallb in R, W. simpl fst in R, W. simpl snd in R, W.
  apply andb_true_iff in R as [R1 R2]. apply andb_true_iff in R1 as [RA RC].
  apply andb_true_iff in W as [W1 W2]. apply andb_true_iff in W1 as [WK WC].
  inversion IH as [|? ? H1 H2]; subst. simpl snd in H1.
  simpl flat_map. simpl fst. simpl snd. rewrite kept_app, ids_app.
  rewrite (IHr H2 R2 W2). f_equal. clear IHr.
  unfold child_out.
  destruct (hides c k a) eqn:Hh.
  - (* the procedure hides its internals *)
    assert (k = NProc) as -> by (unfold hides in Hh; destruct k; try discriminate; reflexivity).
    destruct (regular_child_cases NProc l eq_refl RA) as [F|[-> F]].
    + rewrite cleared_is_filtered_proc, F. simpl negb. rewrite kept_untouched_false.
      destruct (filtered_not_special NProc l F) as (U & A & PF).
      unfold child_selected. rewrite U, A, PF.
      assert (spec_internals c NProc a = false) as ->.
      { unfold hides, spec_internals, internals in *. now apply negb_true_iff in Hh. }
      now rewrite andb_false_r.
    + simpl negb. rewrite kept_untouched_true, args_selected.
      assert (KO : node_kind ch = NOther) by (destruct (node_kind ch); simpl in WK; try discriminate; reflexivity).
      apply (other_ids c ch _ LArgs KO RC WC).
  - destruct (regular_child_cases k l P RA) as [F|[-> F]].
    + rewrite F. simpl andb.
      rewrite <- Ed.
      rewrite <- (should_display_selected c k a pd l (node_attrs ch) N P F (regular_doc2 ch RC) Hh).
      fold d. rewrite Ed. destruct (should_display c d (node_attrs ch)); simpl negb; cbv iota.
      * destruct (in_lists l (recursed k)) eqn:Rec.
        -- apply H1; auto. exact (recursed_kind k l _ P Rec WK).
        -- rewrite kept_set_head_vis, ids_set_head_vis.
           apply (other_ids c ch _ l (not_recursed_kind k l _ P RA Rec WK) RC WC).
      * now rewrite kept_untouched_false.
    + rewrite F, args_not_recursed. simpl andb. cbv iota.
      rewrite kept_set_head_vis, ids_set_head_vis, args_selected.
      assert (KO : node_kind ch = NOther) by (destruct (node_kind ch); simpl in WK; try discriminate; reflexivity).
      apply (other_ids c ch _ LArgs KO RC WC).
Qed.

Definition C05_full_statement : Prop :=
  forall c t, cfg_ok c = true -> is_file t = true -> well_kinded t = true ->
              kept_ids c t = selected c t.

Lemma unit_kind l kc : is_unit_list l = true -> kind_fits l kc = true -> prunable kc = true.
Proof. destruct l, kc; simpl; intros; try discriminate; reflexivity. Qed.

Theorem prune_exact : forall c t,
  cfg_ok c = true -> is_file t = true -> well_kinded t = true ->
  regular t = true -> file_display_silent t = true ->
  kept_ids c t = selected c t.
Proof.
  intros c [k a cs] C Fi W R S. unfold is_file in Fi. simpl in Fi.
  assert (k = NFile) as -> by (destruct k; try discriminate; reflexivity).
  unfold kept_ids, selected. fold (kept (run c (Node NFile a cs))). fold (ids (kept (run c (Node NFile a cs)))).
  rewrite sel_unfold. simpl is_file_kind.
  change (a_display a) with (a_display (node_attrs (Node NFile a cs))).
  rewrite (file_silent_display _ _ S).
  rewrite regular_unfold in R. apply andb_true_iff in R as [_ R]. rewrite well_kinded_unfold in W.
  unfold run. rewrite kept_cons_true, ids_cons. simpl fst. f_equal.
  pose proof (cfg_ok_none_alone c C) as N. clear S Fi.
  induction cs as [|[l ch] r IHr]; [reflexivity|].
  simpl forallb in R, W. simpl fst in R, W. simpl snd in R, W.
  apply andb_true_iff in R as [R1 R2]. apply andb_true_iff in R1 as [RA RC].
  apply andb_true_iff in W as [W1 W2]. apply andb_true_iff in W1 as [WK WC].
  simpl flat_map. simpl fst. simpl snd. rewrite kept_app, ids_app, (IHr R2 W2). f_equal.
  unfold child_selected. simpl in RA. rewrite RA.
  apply (pruned_exact c ch (c_display c) (init_visible c l) N (unit_kind l _ RA WK) RC WC).
Qed.

(* ------------------------------------------------------------------ visible flags *)

Lemma untouched_kept_flag c kp l n o : In o (untouched c kp l n) -> snd (fst o) = kp.
Proof.
  revert l. induction n as [k a cs IH] using node_ind'. intros l. rewrite untouched_unfold.
  intros [<-|I]; [reflexivity|]. apply in_flat_map in I as ([l' ch] & Ic & Io).
  rewrite Forall_forall in IH. exact (IH _ Ic _ Io).
Qed.

Lemma allowed_invisible c k l : k <> NFile -> allowed_child k l = true -> init_visible c l = false.
Proof. destruct k, l; simpl; intros N H; try discriminate; try reflexivity; congruence. Qed.

Lemma kind_fits_not_file l k : kind_fits l k = true -> k <> NFile.
Proof. destruct l, k; simpl; intros H; try discriminate; intros X; discriminate. Qed.

Lemma untouched_invisible c kp n :
  forall l o, node_kind n <> NFile -> regular n = true -> well_kinded n = true ->
  init_visible c l = false -> In o (untouched c kp l n) -> snd o = false.
Proof.
  induction n as [k a cs IH] using node_ind'. intros l o K R W V. simpl in K.
  rewrite untouched_unfold. rewrite regular_unfold in R. rewrite well_kinded_unfold in W.
  apply andb_true_iff in R as [_ R]. rewrite forallb_forall in R, W. rewrite Forall_forall in IH.
  intros [<-|I]; [exact V|]. apply in_flat_map in I as ([l' ch] & Ic & Io).
  specialize (R _ Ic). specialize (W _ Ic). simpl in R, W.
  apply andb_true_iff in R as [RA RC]. apply andb_true_iff in W as [WK WC].
  exact (IH _ Ic l' o (kind_fits_not_file _ _ WK) RC WC (allowed_invisible c k l' K RA) Io).
Qed.

Lemma set_head_vis_kept v os o : In o (set_head_vis v os) -> exists o', In o' os /\ snd (fst o') = snd (fst o).
Proof.
  destruct os as [|[[i kp] v'] r]; simpl; [contradiction|].
  intros [<-|I]; [exists (i, kp, v'); auto | exists o; auto].
Qed.

Lemma prunable_not_file k : prunable k = true -> k <> NFile.
Proof. destruct k; simpl; intros H; try discriminate; intros X; discriminate. Qed.

(* in a regular tree, whatever ends up visible has been kept *)
Lemma pruned_visible_kept c n :
  forall pd vis o, prunable (node_kind n) = true -> regular n = true -> well_kinded n = true ->
  In o (pruned c pd vis n) -> snd o = true -> snd (fst o) = true.
Proof.
  induction n as [k a cs IH] using node_ind'. intros pd vis o P R W. simpl in P.
  rewrite pruned_unfold. rewrite regular_unfold in R. rewrite well_kinded_unfold in W.
  apply andb_true_iff in R as [_ R]. rewrite forallb_forall in R, W. rewrite Forall_forall in IH.
  intros [<-|I] V; [reflexivity|]. apply in_flat_map in I as ([l ch] & Ic & Io).
  specialize (R _ Ic). specialize (W _ Ic). simpl in R, W, Io.
  apply andb_true_iff in R as [RA RC]. apply andb_true_iff in W as [WK WC].
  pose proof (allowed_invisible c k l (prunable_not_file k P) RA) as Inv.
  pose proof (kind_fits_not_file _ _ WK) as NF.
  unfold child_out in Io.
  destruct (hides c k a).
  - destruct (negb (in_lists l cleared)) eqn:E.
    + exact (untouched_kept_flag c true l ch o Io).
    + rewrite (untouched_invisible c false ch l o NF RC WC Inv Io) in V. discriminate.
  - destruct (in_lists l (filtered k) && negb (should_display c (disp_of false pd (a_display a)) (node_attrs ch))).
    + rewrite (untouched_invisible c false ch l o NF RC WC Inv Io) in V. discriminate.
    + destruct (in_lists l (recursed k)) eqn:Rec.
      * exact (IH _ Ic _ _ o (recursed_kind k l _ P Rec WK) RC WC Io V).
      * apply set_head_vis_kept in Io as (o' & Io' & <-).
        exact (untouched_kept_flag c true l ch o' Io').
Qed.

Theorem visible_sound : forall c t i,
  cfg_ok c = true -> is_file t = true -> well_kinded t = true ->
  regular t = true -> file_display_silent t = true ->
  In i (visible_ids c t) -> In i (selected c t).
Proof.
  intros c t i C Fi W R S I. rewrite <- (prune_exact c t C Fi W R S).
  unfold visible_ids, kept_ids in *. apply in_map_iff in I as (o & <- & Io).
  apply filter_In in Io as [Io V]. apply in_map_iff. exists o. split; auto.
  apply filter_In. split; auto.
  destruct t as [k a cs]. unfold is_file in Fi. simpl in Fi.
  unfold run in Io. destruct Io as [<-|Io]; [reflexivity|].
  rewrite regular_unfold in R. rewrite well_kinded_unfold in W.
  apply andb_true_iff in R as [_ R]. rewrite forallb_forall in R, W.
  apply in_flat_map in Io as ([l ch] & Ic & Io).
  specialize (R _ Ic). specialize (W _ Ic). simpl in R, W, Io.
  apply andb_true_iff in R as [RA RC]. apply andb_true_iff in W as [WK WC].
  assert (k = NFile) as -> by (destruct k; try discriminate; reflexivity).
  exact (pruned_visible_kept c ch _ _ o (unit_kind l _ RA WK) RC WC Io V).
Qed.

(* ------------------------------------------------------------------ pages *)

Lemma no_namelists_allowed k : allowed_child k LNamelists = false.
Proof. now destruct k. Qed.

Lemma regular_no_namelist_children n :
  regular n = true ->
  flat_map (fun lc' => if lname_eqb (fst lc') LNamelists then [a_id (node_attrs (snd lc'))] else [])
           (node_children n) = [].
Proof.
  destruct n as [k a cs]. rewrite regular_unfold. intros R. apply andb_true_iff in R as [_ R]. simpl.
  induction cs as [|[l ch] r IH]; [reflexivity|].
  simpl in R. apply andb_true_iff in R as [R1 R2]. apply andb_true_iff in R1 as [RA _].
  simpl. rewrite (IH R2).
  destruct l; simpl; try reflexivity. rewrite no_namelists_allowed in RA. discriminate.
Qed.

Lemma flat_map_ext_in {A B} (f g : A -> list B) l :
  (forall x, In x l -> f x = g x) -> flat_map f l = flat_map g l.
Proof.
  induction l as [|x l IH]; intros H; [reflexivity|]. simpl.
  rewrite (H x) by now left. f_equal. apply IH. intros y I. apply H. now right.
Qed.

Lemma unit_pages_exact c u :
  none_alone (c_display c) -> regular u = true ->
  unit_pages c u = spec_pages_unit c (dset_of (c_display c)) u.
Proof.
  intros N R. destruct u as [k a cs]. unfold unit_pages, spec_pages_unit. cbv zeta. f_equal.
  rewrite regular_unfold in R. apply andb_true_iff in R as [_ R]. rewrite forallb_forall in R.
  apply flat_map_ext_in. intros [l ch] Ic. specialize (R _ Ic). simpl in R.
  apply andb_true_iff in R as [RA RC]. simpl fst. simpl snd.
  assert (NL : lname_eqb l LNamelists = false).
  { destruct l; try reflexivity. rewrite no_namelists_allowed in RA. discriminate. }
  rewrite NL, (regular_no_namelist_children ch RC).
  assert (B : (match k with NProgram | NProc => @nil nat | _ => [] end) = []) by now destruct k.
  assert (Cc : (match k with NModule | NSubmodule | NProgram => if is_routine_list l then @nil nat else [] | _ => [] end) = [])
    by (destruct k; try reflexivity; destruct (is_routine_list l); reflexivity).
  rewrite B, Cc, !app_nil_r.
  assert (core : forall (Pk : prunable k = true), hides c k a = false ->
     (if in_lists l page_lists
         && negb (in_lists l (filtered k) && negb (should_display c (disp_of false (c_display c) (a_display a)) (node_attrs ch)))
      then [a_id (node_attrs ch)] else [])
     = (if in_lists l page_lists
           && child_selected c k a (spec_display false (dset_of (c_display c)) (a_display a)) l (node_attrs ch)
        then [a_id (node_attrs ch)] else [])).
  { intros Pk Hh. destruct (in_lists l page_lists) eqn:PL; [|reflexivity]. simpl andb.
    destruct (regular_child_cases k l Pk RA) as [F|[-> F]]; [|discriminate].
    rewrite F. simpl andb.
    rewrite (should_display_selected c k a (c_display c) l (node_attrs ch) N Pk F (regular_doc2 ch RC) Hh).
    now rewrite negb_involutive. }
  destruct k; try reflexivity; apply core; reflexivity.
Qed.

Theorem pages_exact : forall c t,
  cfg_ok c = true -> is_file t = true -> regular t = true -> file_display_silent t = true ->
  pages c t = spec_pages c t.
Proof.
  intros c [k a cs] C Fi R S. unfold pages, spec_pages. simpl node_children. cbv zeta.
  change (a_display a) with (a_display (node_attrs (Node k a cs))).
  rewrite (file_silent_display _ _ S).
  rewrite regular_unfold in R. apply andb_true_iff in R as [_ R]. rewrite forallb_forall in R.
  pose proof (cfg_ok_none_alone c C) as N.
  apply flat_map_ext_in. intros [l ch] Ic. specialize (R _ Ic). simpl in R.
  apply andb_true_iff in R as [_ RC]. simpl snd. apply unit_pages_exact; auto.
Qed.

(* ------------------------------------------------------------------ refutations (witnesses replayed on FORD) *)

Definition at_ (i : nat) (p : perm) (doc : bool) : attrs := mk_attrs i p doc false [] None.
Definition leaf (l : lname) (i : nat) (p : perm) (doc : bool) : lname * node := (l, Node NOther (at_ i p doc) []).
Definition file_of (meta : list word) (units : list (lname * node)) : node :=
  Node NFile (mk_attrs 1 Public false false meta None) units.
Definition cfg_of (d : list word) (internals hide : bool) : cfg := mk_cfg d internals hide true.

(* private module, `display: public`: its enum (and the enumerator) is still listed *)
Definition w_enum : node :=
  file_of [] [(LModules, Node NModule (at_ 2 Private true)
     [(LEnums, Node NOther (at_ 3 Private true) [leaf LVariables 4 Private true])])].
(* module with `display: none` metadata: its common block is still listed *)
Definition w_common : node :=
  file_of [] [(LModules, Node NModule (mk_attrs 2 Public true false [WNone] None)
     [(LCommon, Node NOther (at_ 3 Public true) [leaf LVariables 4 Public false])])].
(* private module, `display: public`: the namelist of a private procedure keeps its page *)
Definition w_namelist : node :=
  file_of [] [(LModules, Node NModule (at_ 2 Private true)
     [(LSubroutines, Node NProc (at_ 3 Private true) [leaf LVariables 4 Private true; leaf LNamelists 5 Private false])])].
(* private module, `display: public`: its namelist is still listed *)
Definition w_namelist_module : node :=
  file_of [] [(LModules, Node NModule (at_ 2 Private true)
     [leaf LVariables 3 Private true; leaf LNamelists 4 Private false])].
(* hide_undoc: an undocumented final procedure is still listed *)
Definition w_final : node :=
  file_of [] [(LModules, Node NModule (at_ 2 Public true)
     [(LTypes, Node NType (at_ 3 Public true) [leaf LFinalProcs 4 Public false])])].
(* `display: private` in the file's own documentation is not handed down *)
Definition w_file : node :=
  file_of [WPrivate] [(LModules, Node NModule (at_ 2 Public true) [leaf LVariables 3 Private true])].
(* hide_undoc: an abstract interface documented at its procedure is dropped *)
Definition w_docplace : node :=
  file_of [] [(LModules, Node NModule (at_ 2 Public true)
     [(LAbsInterfaces, Node NOther (mk_attrs 3 Public false true [] None) [])])].
(* proc_internals: false leaves the procedure's enums in place *)
Definition w_internals : node :=
  file_of [] [(LModules, Node NModule (at_ 2 Public true)
     [(LSubroutines, Node NProc (at_ 3 Public true)
        [leaf LVariables 4 Public true; (LEnums, Node NOther (at_ 5 Public true) [leaf LVariables 6 Public true])])])].

Definition region_of (c : cfg) (t : node) (i : nat) : nat :=
  match filter (fun ir => Nat.eqb (fst ir) i) (regions c t) with
  | (_, r) :: _ => if Nat.eqb (Nat.land r 15) 0 then r else Nat.land r 63
  | [] => 64
  end.

(* FORD keeps entity i although the Spec does not select it (leak = true), or the other way round *)
Definition refutes (c : cfg) (t : node) (i : nat) (leak : bool) (r : nat) : Prop :=
  cfg_ok c = true /\ is_file t = true /\ well_kinded t = true /\
  existsb (Nat.eqb i) (kept_ids c t) = leak /\ existsb (Nat.eqb i) (selected c t) = negb leak /\
  region_of c t i = r.

Lemma refuted_enum : refutes (cfg_of [WPublic] true false) w_enum 3 true 1.
Proof. repeat split; vm_compute; reflexivity. Qed.
Lemma refuted_common : refutes (cfg_of [WPublic; WProtected] true false) w_common 3 true 2.
Proof. repeat split; vm_compute; reflexivity. Qed.
Lemma refuted_namelist : refutes (cfg_of [WPublic] true false) w_namelist_module 4 true 4.
Proof. repeat split; vm_compute; reflexivity. Qed.
Lemma refuted_final : refutes (cfg_of [WPublic] true true) w_final 4 true 8.
Proof. repeat split; vm_compute; reflexivity. Qed.
Lemma refuted_file_display : refutes (cfg_of [WPublic] true false) w_file 3 false 16.
Proof. repeat split; vm_compute; reflexivity. Qed.
Lemma refuted_doc_place : refutes (cfg_of [WPublic] true true) w_docplace 3 false 32.
Proof. repeat split; vm_compute; reflexivity. Qed.
Lemma refuted_internals_enum : refutes (cfg_of [WPublic] false false) w_internals 5 true 1.
Proof. repeat split; vm_compute; reflexivity. Qed.

Lemma full_statement_refuted : ~ C05_full_statement.
Proof.
  intros H. specialize (H (cfg_of [WPublic] true false) w_enum eq_refl eq_refl eq_refl).
  vm_compute in H. discriminate.
Qed.

(* the namelist of a procedure that is not shown still has a page, and stays linkable *)
Lemma namelist_page_refuted :
  existsb (Nat.eqb 5) (pages (cfg_of [WPublic] true false) w_namelist) = true /\
  existsb (Nat.eqb 5) (visible_ids (cfg_of [WPublic] true false) w_namelist) = true /\
  existsb (Nat.eqb 5) (selected (cfg_of [WPublic] true false) w_namelist) = false.
Proof. repeat split; vm_compute; reflexivity. Qed.

(* ------------------------------------------------------------------ non-vacuity *)

Definition ex_tree : node :=
  file_of [WOther]
    [(LModules, Node NModule (mk_attrs 2 Private true false [WPublic; WPrivate] None)
       [(LTypes, Node NType (mk_attrs 3 Public true false [WPublic] None)
           [leaf LVariables 4 Public true; leaf LVariables 5 Private true; leaf LBoundProcs 6 Public false]);
        (LInterfaces, Node NOther (at_ 7 Private true) [leaf LArgs 8 Private false]);
        leaf LVariables 9 Protected true;
        (LSubroutines, Node NProc (mk_attrs 10 Public true false [] (Some false))
           [leaf LArgs 11 Private true; leaf LVariables 12 Private true]);
        (LFunctions, Node NProc (at_ 13 Private true)
           [leaf LVariables 14 Private true; (LSubroutines, Node NProc (at_ 15 Private true) [leaf LVariables 16 Private false])])]);
     (LProcs, Node NProc (mk_attrs 17 Public false false [WNone] None) [leaf LArgs 18 Public false; leaf LVariables 19 Public true]);
     (LPrograms, Node NProgram (at_ 20 Public true) [leaf LVariables 21 Public true])].

Example ex_prune_exact :
  let c := cfg_of [WPublic; WProtected] true true in
  cfg_ok c = true /\ is_file ex_tree = true /\ well_kinded ex_tree = true /\ regular ex_tree = true /\
  file_display_silent ex_tree = true /\
  kept_ids c ex_tree = [1; 2; 3; 4; 7; 8; 10; 11; 13; 14; 15; 17; 18; 20; 21] /\
  visible_ids c ex_tree = [1; 2; 3; 4; 7; 10; 13; 15; 17; 20] /\
  pages c ex_tree = [2; 3; 7; 10; 13; 17; 20].
Proof. repeat split; vm_compute; reflexivity. Qed.

Example ex_display_inherit :
  none_alone [WPublic; WProtected] /\
  disp_of false [WPublic; WProtected] [WPrivate; WOther] = [WPrivate; WOther] /\
  disp_of false [WPublic; WProtected] [WOther] = [WPublic; WProtected] /\
  disp_of false [WPublic; WProtected] [WPublic; WNone] = [] /\
  disp_of true [WPublic] [WNone] = [WPublic].
Proof. split; [intros H; discriminate | repeat split; reflexivity]. Qed.
