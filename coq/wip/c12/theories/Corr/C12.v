(* Corr/C12.v — judges for the C12 correspondence.

   judge      : one project, several traced runs of the real pipeline under forced enumeration
                orders; the model must reproduce the identifier of every entity in every run
                (bit0), the runs must agree with the first one (bit1: the property), projects
                with competing names are the known region 1.
   judge_emit : node emission of one graph hop: the implementation's order must be what the
                model computes from the same nodes in another order. *)
From Ford Require Import Base.Str Base.Order Out.Names Out.Project.

Definition mk (id : nat) (d n : str) : req := {| r_id := id; r_dir := d; r_name := n |}.

Fixpoint sparse_get {A} (k : nat) (l : list (nat * list A)) : list A :=
  match l with
  | [] => []
  | (k', v) :: l' => if Nat.eqb k k' then v else sparse_get k l'
  end.

Definition dense {A} (n : nat) (l : list (nat * list A)) : list (list A) :=
  map (fun k => sparse_get k l) (seq 0 n).

Definition n_segs : nat := 45.
Definition n_sets : nat := 8.

(* entity table: id |-> (get_dir() as text, name) *)
Definition ents := list (nat * (str * str)).

Fixpoint ent_get (id : nat) (e : ents) : str * str :=
  match e with
  | [] => ([], [])
  | (k, v) :: e' => if Nat.eqb id k then v else ent_get id e'
  end.

Definition req_of (e : ents) (id : nat) : req := let dn := ent_get id e in mk id (fst dn) (snd dn).

Definition reqs_of (e : ents) (l : list (nat * list nat)) : list (nat * list req) :=
  map (fun kv => (fst kv, map (req_of e) (snd kv))) l.

Definition build_file (e : ents) (f : list str * list (nat * list nat)) : pfile :=
  {| f_path := fst f; f_segs := dense n_segs (reqs_of e (snd f)) |}.

Definition same_ids (a b : list nat) : bool :=
  (length a =? length b) && forallb (fun x => existsb (Nat.eqb x) b) a
  && forallb (fun x => existsb (Nat.eqb x) a) b.

(* one run: (sorted?, pi, observed parse order), the observed order of every set phase, the
   identifiers FORD assigned.
   sorted? = true : the real code; pi is the order in which the patched find_all_files handed the
                    set over; Project.__init__ sorts it.
   sorted? = false: the same run with the name `sorted` neutralised inside ford.fortran_project, so
                    that the files are parsed in the order pi: exercises the pipeline model
                    (idents_enum) under arbitrary enumerations, the premise of the theorems. *)
Definition arun := ((bool * list nat * list nat) * list (nat * list nat) * list (nat * str))%type.

Definition acase := (ents * list (list str * list (nat * list nat)) * list arun)%type.

Definition run_sets (r : arun) := snd (fst r).
Definition run_impl (r : arun) := snd r.
Definition run_sorted (r : arun) := fst (fst (fst (fst r))).
Definition run_pi (r : arun) := snd (fst (fst (fst r))).
Definition run_obs (r : arun) := snd (fst (fst r)).

Fixpoint impl_get (id : nat) (l : list (nat * str)) : option str :=
  match l with
  | [] => None
  | (k, v) :: l' => if Nat.eqb id k then Some v else impl_get id l'
  end.

Definition project_of (c : acase) : project :=
  let e := fst (fst c) in
  {| p_files := map (build_file e) (snd (fst c));
     p_sets := match snd c with
               | r0 :: _ => dense n_sets (reqs_of e (run_sets r0))
               | [] => []
               end |}.

(* the enumeration the model predicts for a run *)
Definition model_enum (P : project) (r : arun) : list pfile :=
  if run_sorted r then isort file_leb (enumerate (p_files P) (run_pi r))
  else enumerate (p_files P) (run_pi r).

Definition model_ok (c : acase) (P : project) (r0 r : arun) : bool :=
  let e := fst (fst c) in
  let sets := dense n_sets (reqs_of e (run_sets r)) in
  let enum := model_enum P r in
  let st := final_state enum sets in
  is_permb (run_pi r) (length (p_files P))
  && list_eqb (list_eqb str_eqb) (map f_path enum) (map f_path (enumerate (p_files P) (run_obs r)))
  && forallb (fun k => same_ids (sparse_get k (run_sets r0)) (sparse_get k (run_sets r))) (seq 0 n_sets)
  && forallb (fun kv => opt_eqb str_eqb (ident_in st (fst kv)) (Some (snd kv))) (run_impl r)
  && forallb (fun kv => match impl_get (fst kv) (run_impl r) with Some _ => true | None => false end) e.

(* the property: every run of the REAL code agrees with the first one *)
Definition agree (r0 r : arun) : bool :=
  negb (run_sorted r) ||
  ((length (run_impl r0) =? length (run_impl r))
   && forallb (fun kv => opt_eqb str_eqb (impl_get (fst kv) (run_impl r0)) (Some (snd kv))) (run_impl r)).

(* the region predicate of C12_partial, evaluated on the entity table: some entity requested in a
   set-ordered phase shares its (directory, normalised name) with another entity *)
Definition sets_isolated_ents (e : ents) (set_ids : list nat) : bool :=
  let keyed := map (fun kv => (fst kv, (fst (snd kv), final_name (snd (snd kv))))) e in
  forallb (fun a => negb (existsb (Nat.eqb (fst a)) set_ids) ||
                    forallb (fun b => Nat.eqb (fst a) (fst b) || negb (key_eqb (snd a) (snd b))) keyed)
          keyed.

Definition judge (c : acase) : nat :=
  let P := project_of c in
  match snd c with
  | [] => 0
  | r0 :: rs =>
    verdict (negb (forallb (model_ok c P r0) (r0 :: rs)))
            (negb (forallb (agree r0) rs))
            (if sets_isolated_ents (fst (fst c)) (concat (map snd (run_sets r0))) then 0 else 1)
  end.

(* which run of a case disagrees with the model (for the replay file) *)
Definition bad_runs (c : acase) : list nat :=
  let P := project_of c in
  match snd c with
  | [] => []
  | r0 :: rs => map fst (filter (fun ir => negb (model_ok c P r0 (snd ir))) (combine (seq 0 (S (length rs))) (r0 :: rs)))
  end.

(* graph node emission: [given] = the nodes in some other order, [impl] = the order FORD emitted *)
Definition judge_emit (c : list str * list str) : nat :=
  let given := fst c in let impl := snd c in
  verdict (negb (list_eqb str_eqb (emit_nodes given (seq 0 (length given))) impl))
          (negb (list_eqb str_eqb (isort str_leb impl) impl))
          0.

(* child -> parent edges of one InheritedByGraph node: (parent, children in another order, the
   tails of the solid edges in the order FORD appended them) *)
Definition judge_edges (c : str * list str * list str) : nat :=
  let parent := fst (fst c) in let given := snd (fst c) in let impl := snd c in
  verdict (negb (list_eqb str_eqb (map fst (emit_child_edges parent given (seq 0 (length given)))) impl))
          (negb (list_eqb str_eqb (isort str_leb impl) impl))
          0.
