(* Props/C12.v — property C12: the output is a deterministic function of the inputs.
   Statements only; proofs are in Out/ProjectProofs.v (model: Out/Project.v, Out/Names.v).
   The model is the pipeline after the repairs 80d6c91 (source files parsed in sorted order),
   c3c7c8e (InheritedByGraph walks sorted(children)), the toposort repair (identifiers of modules
   and submodules requested in list order before toposort_flatten) and the "Uses" repair (the list
   is rendered through sort_by_name). *)
From Coq Require Import Permutation.
From Ford Require Import Base.Str Base.Order Out.Names Out.Project Out.ProjectProofs.

(* Full statement: the identifiers (hence page names, anchors and URLs) depend neither on the
   iteration order of the set of source files (pi) nor on the iteration orders (sigma) of the sets
   of objects hashed by id that the run sorts or walks: the toposort of modules, the toposorts of a
   scope's types, the sets of graph construction.  Well-formedness: distinct paths. *)
Definition C12_statement : Prop :=
  forall P pi1 pi2 sigma1 sigma2,
    NoDup (map f_path (p_files P)) ->
    is_perm pi1 (length (p_files P)) -> is_perm pi2 (length (p_files P)) ->
    sigma_ok P pi1 sigma1 -> sigma_ok P pi2 sigma2 ->
    idents P pi1 sigma1 = idents P pi2 sigma2.

(* MAIN THEOREM: it holds — any number of files, competing names or not *)
Theorem C12_deterministic : C12_statement.
Proof. exact deterministic. Qed.
Print Assumptions C12_deterministic.

(* its two halves *)
Theorem C12_file_order_irrelevant : forall P pi1 pi2,
  NoDup (map f_path (p_files P)) ->
  is_perm pi1 (length (p_files P)) -> is_perm pi2 (length (p_files P)) ->
  sorted_enum P pi1 = sorted_enum P pi2.
Proof. exact sorted_enum_canonical. Qed.
Print Assumptions C12_file_order_irrelevant.

Theorem C12_set_order_irrelevant : forall P pi sigma1 sigma2,
  sigma_ok P pi sigma1 -> sigma_ok P pi sigma2 -> idents P pi sigma1 = idents P pi sigma2.
Proof. exact idset_order_irrelevant. Qed.
Print Assumptions C12_set_order_irrelevant.

(* the per-key factorisation behind it: the identifier of an entity is decided by the requests for
   its own (directory, normalised name) alone *)
Theorem C12_ident_by_key : forall rs r, consistentP rs -> In r rs ->
  ident_in (fst (run init rs)) (r_id r)
  = ident_in (fst (run init (filter (has_key (name_key r)) rs))) (r_id r).
Proof. exact ident_by_key. Qed.
Print Assumptions C12_ident_by_key.

(* and the reason why the id-set phases do not matter, for any sequence of phases, any enumeration and any state of
   the selector: phases that only ask for what has been asked for leave the selector as it is *)
Theorem C12_repeated_requests_irrelevant : forall pl enum fixed t1 t2 acc st,
  (forall r, In r acc -> has_item st r) ->
  (forall k r, In r (nth k t1 []) -> In r (seen_before pl enum fixed k acc)) ->
  (forall k r, In r (nth k t2 []) -> In r (seen_before pl enum fixed k acc)) ->
  fst (run st (registration_of pl enum fixed t1)) = fst (run st (registration_of pl enum fixed t2)).
Proof. exact idset_irrelevant_of. Qed.
Print Assumptions C12_repeated_requests_irrelevant.

Theorem C12_sorted_is_canonical_any_order : forall (leb : pfile -> pfile -> bool) P pi1 pi2 fixed idt,
  total leb -> transitive leb -> antisym_on leb (p_files P) ->
  is_perm pi1 (length (p_files P)) -> is_perm pi2 (length (p_files P)) ->
  idents_enum P (isort leb (enumerate (p_files P) pi1)) fixed idt
  = idents_enum P (isort leb (enumerate (p_files P) pi2)) fixed idt.
Proof. exact sorted_is_canonical_gen. Qed.
Print Assumptions C12_sorted_is_canonical_any_order.

(* ... nor does the place where the project lives matter (all source files below one root) *)
Theorem C12_location_irrelevant : forall root P pi sigma,
  idents (relocate root P) pi sigma = idents P pi sigma.
Proof. exact location_irrelevant. Qed.
Print Assumptions C12_location_irrelevant.

(* non-vacuity, and the former refutation witnesses on the repaired pipeline: two modules named m in
   two files, a variable x in each, two types named t (one the renamed parent of child), two inherited
   copies of a generic binding show: a.f90 owns "m" and "variable-x", b.f90 gets "m~2" and "variable-x~2",
   the types are t / t~2 and the bindings show / show~2 in list order — whatever pi and sigma *)
Theorem C12_former_witnesses_repaired :
  NoDup (map f_path (p_files twins_project)) /\
  is_perm [1; 0] (length (p_files twins_project)) /\
  idsel twins_project [1; 0] =
    [[mkr 1 (s "module") (s "m"); mkr 2 (s "module") (s "m")];
     [mkr 5 (s "type") (s "t"); mkr 8 (s "None") (s "show"); mkr 9 (s "None") (s "show")];
     [mkr 5 (s "type") (s "t"); mkr 6 (s "type") (s "t"); mkr 7 (s "type") (s "child")]] /\
  sigma_ok twins_project [1; 0] [[1; 0]; [2; 0; 1]; [1; 2; 0]] /\
  sigma_ok twins_project [0; 1] [[0; 1]; [0; 1; 2]; [0; 1; 2]] /\
  idents twins_project [1; 0] [[1; 0]; [2; 0; 1]; [1; 2; 0]]
    = idents twins_project [0; 1] [[0; 1]; [0; 1; 2]; [0; 1; 2]] /\
  idents twins_project [1; 0] [[1; 0]; [2; 0; 1]; [1; 2; 0]] =
    [(3, Some (s "x")); (1, Some (s "m")); (4, Some (s "x~2")); (2, Some (s "m~2"));
     (5, Some (s "t")); (6, Some (s "t~2")); (7, Some (s "child"));
     (8, Some (s "show")); (9, Some (s "show~2"))].
Proof. exact twins_project_ok. Qed.
Print Assumptions C12_former_witnesses_repaired.

(* what 80d6c91 repaired: the pipeline that iterates the set of files as it comes *)
Definition C12_unsorted_statement : Prop :=
  forall P pi1 pi2 sigma,
    is_perm pi1 (length (p_files P)) -> is_perm pi2 (length (p_files P)) ->
    idents_unsorted P pi1 sigma = idents_unsorted P pi2 sigma.
Theorem C12_unsorted_refuted : ~ C12_unsorted_statement.
Proof. exact unsorted_statement_refuted. Qed.
Print Assumptions C12_unsorted_refuted.

(* what the toposort repairs repaired (modules: 449eb77; a scope's types; the procedures graph_all
   sorts): a set-ordered loop that is the first to ask for identifiers — equally named entities
   were numbered in the iteration order of a set of objects *)
Definition C12_free_sets_statement : Prop :=
  forall P pi sigma1 sigma2,
    is_perm pi (length (p_files P)) ->
    perms_ok (p_sets P) sigma1 -> perms_ok (p_sets P) sigma2 ->
    idents_free_sets P pi sigma1 = idents_free_sets P pi sigma2.
Theorem C12_free_sets_refuted : ~ C12_free_sets_statement.
Proof. exact free_sets_statement_refuted. Qed.
Print Assumptions C12_free_sets_refuted.

(* the NameSelector-level fact behind clash-free projects: any order of anything *)
Theorem C12_noclash_order_irrelevant : forall rs1 rs2,
  no_clash_list rs1 = true -> (forall r, In r rs1 <-> In r rs2) ->
  forall id, ident_in (fst (run init rs1)) id = ident_in (fst (run init rs2)) id.
Proof. exact noclash_order_irrelevant_b. Qed.
Print Assumptions C12_noclash_order_irrelevant.

(* "Uses" lists: self.uses is a set of module objects (and names); the page shows it sorted by
   (lower-cased name, name) *)
Theorem C12_uses_sorted : forall uses pi1 pi2,
  is_perm pi1 (length uses) -> is_perm pi2 (length uses) ->
  shown_uses uses pi1 = shown_uses uses pi2.
Proof. exact uses_sorted. Qed.
Print Assumptions C12_uses_sorted.

Definition C12_uses_unsorted_statement : Prop :=
  forall uses pi1 pi2, is_perm pi1 (length uses) -> is_perm pi2 (length uses) ->
    shown_uses_unsorted uses pi1 = shown_uses_unsorted uses pi2.
Theorem C12_uses_unsorted_refuted : ~ C12_uses_unsorted_statement.
Proof. exact uses_unsorted_refuted. Qed.
Print Assumptions C12_uses_unsorted_refuted.

(* graphs: nodes and the child edges of InheritedByGraph are emitted as a function of the set *)
Theorem C12_graph_emission_sorted : forall nodes pi1 pi2,
  is_perm pi1 (length nodes) -> is_perm pi2 (length nodes) ->
  emit_nodes nodes pi1 = emit_nodes nodes pi2.
Proof. exact graph_emission_sorted. Qed.
Print Assumptions C12_graph_emission_sorted.

Theorem C12_child_edges_sorted : forall parent children pi1 pi2,
  is_perm pi1 (length children) -> is_perm pi2 (length children) ->
  emit_child_edges parent children pi1 = emit_child_edges parent children pi2.
Proof. exact child_edges_sorted. Qed.
Print Assumptions C12_child_edges_sorted.

Definition C12_child_edges_unsorted_statement : Prop :=
  forall parent children pi1 pi2, is_perm pi1 (length children) -> is_perm pi2 (length children) ->
    emit_child_edges_unsorted parent children pi1 = emit_child_edges_unsorted parent children pi2.
Theorem C12_child_edges_unsorted_refuted : ~ C12_child_edges_unsorted_statement.
Proof. exact child_edges_unsorted_refuted. Qed.
Print Assumptions C12_child_edges_unsorted_refuted.

(* the table shown instead of an oversized graph: its rows are a function of the set of neighbours
   (stable sort by label of the identifier-ordered edge list) ... *)
Theorem C12_table_rows_sorted : forall neighbours pi1 pi2,
  NoDup (map fst neighbours) ->
  is_perm pi1 (length neighbours) -> is_perm pi2 (length neighbours) ->
  emit_table_rows neighbours pi1 = emit_table_rows neighbours pi2.
Proof. exact table_rows_sorted. Qed.
Print Assumptions C12_table_rows_sorted.

(* ... which sorting the set by label alone would not be *)
Theorem C12_table_rows_from_set_refuted :
  exists neighbours pi1 pi2,
    NoDup (map fst neighbours) /\ is_perm pi1 (length neighbours) /\ is_perm pi2 (length neighbours) /\
    emit_table_rows_from_set neighbours pi1 <> emit_table_rows_from_set neighbours pi2.
Proof. exact table_rows_from_set_refuted. Qed.
Print Assumptions C12_table_rows_from_set_refuted.

(* what an earlier run left in the output directory does not matter *)
Theorem C12_stale_output_irrelevant : forall out pages fs1 fs2,
  restrict out (writeout out pages fs1) = restrict out (writeout out pages fs2).
Proof. exact stale_output_irrelevant. Qed.
Print Assumptions C12_stale_output_irrelevant.

(* its premise — the pages written do not depend on the old content — for a whole rerun: the output
   directory is excluded from the search for source files, so the source set, hence (for any way of
   computing pages from sources) the tree written, is the same *)
Theorem C12_sources_ignore_output : forall src excl out f1 f2,
  In out excl -> remove_subtree out f1 = remove_subtree out f2 ->
  sources src excl f1 = sources src excl f2.
Proof. exact sources_ignore_output. Qed.
Print Assumptions C12_sources_ignore_output.

Theorem C12_rerun_stale_irrelevant : forall render src excl out f1 f2,
  In out excl -> remove_subtree out f1 = remove_subtree out f2 ->
  restrict out (rerun render src excl out f1) = restrict out (rerun render src excl out f2).
Proof. exact rerun_stale_irrelevant. Qed.
Print Assumptions C12_rerun_stale_irrelevant.

(* what the command-line repair repaired: an output directory that is not among the excluded ones *)
Definition C12_sources_unexcluded_statement : Prop :=
  forall src excl out f1 f2, remove_subtree out f1 = remove_subtree out f2 ->
    sources src excl f1 = sources src excl f2.
Theorem C12_sources_unexcluded_refuted : ~ C12_sources_unexcluded_statement.
Proof. exact sources_unexcluded_refuted. Qed.
Print Assumptions C12_sources_unexcluded_refuted.

(* ... because the directory is removed first: merging into it would not have the property *)
Theorem C12_merge_refuted :
  exists out pages fs1 fs2,
    restrict out (writeout_merge out pages fs1) <> restrict out (writeout_merge out pages fs2).
Proof. exact merge_refuted. Qed.
Print Assumptions C12_merge_refuted.
