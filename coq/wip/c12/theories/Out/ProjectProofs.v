(* Out/ProjectProofs.v — proofs about the order-dependent part of a FORD run (property C12) *)
From Coq Require Import Lia Permutation Sorted.
From Ford Require Import Base.Str Base.StrFacts Base.Order Out.Names Out.NamesProofs Out.Project.

(* ================================================================== enumerate *)

Lemma enumerate_seq_aux {A} : forall (l pre : list A),
  flat_map (fun i => match nth_error (pre ++ l) i with Some x => [x] | None => [] end)
           (seq (length pre) (length l)) = l.
Proof.
  induction l as [|x l IH]; intros pre; simpl; [reflexivity|].
  rewrite nth_error_app2, Nat.sub_diag by lia. simpl. f_equal.
  specialize (IH (pre ++ [x])). rewrite <- app_assoc in IH. simpl in IH.
  rewrite app_length in IH. simpl in IH. rewrite Nat.add_1_r in IH. exact IH.
Qed.

Lemma enumerate_id {A} (l : list A) : enumerate l (seq 0 (length l)) = l.
Proof. exact (enumerate_seq_aux l []). Qed.

Lemma enumerate_perm {A} (l : list A) pi : is_perm pi (length l) -> Permutation (enumerate l pi) l.
Proof.
  intros H.
  pose proof (Permutation_flat_map
                (fun i => match nth_error l i with Some x => [x] | None => [] end) H) as K.
  change (Permutation (enumerate l pi) (enumerate l (seq 0 (length l)))) in K.
  now rewrite enumerate_id in K.
Qed.

Lemma is_perm_id n : is_perm (seq 0 n) n.
Proof. apply Permutation_refl. Qed.

Lemma is_perm_rev n : is_perm (rev (seq 0 n)) n.
Proof. apply Permutation_sym, Permutation_rev. Qed.

(* ================================================================== clash freedom *)

Definition noclashP (rs : list req) : Prop :=
  forall a b, In a rs -> In b rs ->
    (r_id a = r_id b -> a = b) /\ (r_id a <> r_id b -> name_key a <> name_key b).

Lemma req_eqb_eq a b : req_eqb a b = true -> a = b.
Proof.
  destruct a as [i d n], b as [i' d' n']. unfold req_eqb. simpl.
  rewrite !andb_true_iff. intros [[H1 H2] H3].
  apply Nat.eqb_eq in H1. apply str_eqb_eq in H2, H3. now subst.
Qed.

Lemma no_clash_list_sound rs : no_clash_list rs = true -> noclashP rs.
Proof.
  unfold no_clash_list. rewrite forallb_forall. intros H a b Ha Hb.
  specialize (H a Ha). rewrite forallb_forall in H. specialize (H b Hb).
  unfold pair_ok in H. destruct (Nat.eqb (r_id a) (r_id b)) eqn:E.
  - apply Nat.eqb_eq in E. split; [intros _; now apply req_eqb_eq|intros N; contradiction].
  - apply Nat.eqb_neq in E. split; [intros; contradiction|intros _ K].
    apply negb_true_iff in H. assert (T : key_eqb (name_key a) (name_key b) = true) by now apply key_eqb_eq.
    congruence.
Qed.

Lemma noclashP_incl rs rs' : noclashP rs -> incl rs' rs -> noclashP rs'.
Proof. intros H I a b Ha Hb. apply H; now apply I. Qed.

(* the selector state of a clash-free run: every item is the first of its name *)
Record NC (rs : list req) (st : nstate) : Prop := {
  nc_items : forall it, In it (items st) -> exists r, In r rs /\ from_req r it /\ i_k it = 1;
  nc_counts : forall K, count_get K (counts st) <> 0 ->
                exists it, In it (items st) /\ (i_dir it, i_base it) = K }.

Lemma nc_init rs : NC rs init.
Proof. split; simpl; [intros it []|intros K H; now elim H]. Qed.

Lemma get_name_nc rs st r :
  noclashP rs -> In r rs -> NC rs st ->
  NC rs (fst (get_name st r)) /\
  (forall it, In it (items st) -> In it (items (fst (get_name st r)))) /\
  (exists it, In it (items (fst (get_name st r))) /\ i_id it = r_id r).
Proof.
  intros HN Hr [HI HC]. unfold get_name.
  destruct (find_item (r_id r) (items st)) as [it0|] eqn:F; simpl.
  - split; [split; assumption|]. split; [auto|].
    apply find_item_some in F as [F1 F2]. eauto.
  - set (base := final_name (r_name r)).
    assert (Z : count_get (r_dir r, base) (counts st) = 0).
    { destruct (count_get (r_dir r, base) (counts st)) eqn:E; [reflexivity|exfalso].
      destruct (HC (r_dir r, base)) as (it & Hin & Hk); [rewrite E; discriminate|].
      destruct (HI it Hin) as (r' & Hr' & (Fi & Fd & Fb) & _).
      destruct (HN r' r Hr' Hr) as [_ Hne].
      destruct (Nat.eq_dec (r_id r') (r_id r)) as [Eid|Nid].
      - apply find_item_none in F. apply F. rewrite <- Eid, <- Fi. now apply in_map.
      - apply (Hne Nid). unfold name_key. injection Hk as Hd Hb. fold base. congruence. }
    rewrite Z. split; [split; simpl|split; simpl; [auto|eauto]].
    + intros it [<-|Hin].
      * exists r. split; [assumption|]. split; [repeat split; reflexivity|reflexivity].
      * now apply HI.
    + intros K HK. destruct (key_eqb (r_dir r, base) K) eqn:E.
      * apply key_eqb_eq in E. eexists. split; [left; reflexivity|]. exact E.
      * assert (N : (r_dir r, base) <> K) by (intros X; apply key_eqb_eq in X; congruence).
        rewrite count_get_set_other in HK by exact N.
        destruct (HC K HK) as (it & Hin & Hk). exists it. split; [now right|assumption].
Qed.

Lemma run_nc rs0 : noclashP rs0 -> forall rs st, incl rs rs0 -> NC rs0 st ->
  NC rs0 (fst (run st rs)) /\
  (forall it, In it (items st) -> In it (items (fst (run st rs)))) /\
  (forall r, In r rs -> exists it, In it (items (fst (run st rs))) /\ i_id it = r_id r).
Proof.
  intros HN. induction rs as [|r rs IH]; intros st Hin HS; simpl.
  - split; [assumption|]. split; [auto|intros r []].
  - destruct (get_name st r) as [st1 n] eqn:G.
    destruct (run st1 rs) as [st2 ns] eqn:R. simpl.
    destruct (get_name_nc rs0 st r HN (Hin r (or_introl eq_refl)) HS) as (N1 & M1 & C1).
    rewrite G in N1, M1, C1. simpl in N1, M1, C1.
    destruct (IH st1 (fun x Hx => Hin x (or_intror Hx)) N1) as (N2 & M2 & C2).
    rewrite R in N2, M2, C2. simpl in N2, M2, C2.
    split; [assumption|]. split; [auto|].
    intros r' [<-|Hr'].
    + destruct C1 as (it & H1 & H2). exists it. auto.
    + now apply C2.
Qed.

(* what every entity is called at the end of a clash-free run *)
Lemma noclash_ident rs : noclashP rs ->
  forall r, In r rs -> ident_in (fst (run init rs)) (r_id r) = Some (final_name (r_name r)).
Proof.
  intros HN r Hr.
  destruct (run_nc rs HN rs init (incl_refl _) (nc_init rs)) as ([HI _] & _ & C).
  destruct (C r Hr) as (it & Hit & Hid). unfold ident_in.
  destruct (find_item_in (r_id r) (items (fst (run init rs)))) as (it0 & F0).
  { rewrite <- Hid. now apply in_map. }
  rewrite F0. simpl. apply find_item_some in F0 as [F1 F2].
  destruct (HI it0 F1) as (r' & Hr' & (Fi & Fd & Fb) & Fk).
  assert (r' = r) by (apply (HN r' r Hr' Hr); congruence). subst r'.
  unfold ident_of, render. rewrite Fk, Fb. reflexivity.
Qed.

Lemma noclash_absent rs : noclashP rs ->
  forall id, ~ In id (map r_id rs) -> ident_in (fst (run init rs)) id = None.
Proof.
  intros HN id Hid.
  destruct (run_nc rs HN rs init (incl_refl _) (nc_init rs)) as ([HI _] & _ & _).
  unfold ident_in. destruct (find_item id (items (fst (run init rs)))) as [it|] eqn:F; [exfalso|reflexivity].
  apply find_item_some in F as [F1 F2].
  destruct (HI it F1) as (r' & Hr' & (Fi & _) & _). apply Hid. rewrite <- F2, Fi. now apply in_map.
Qed.

(* the identifiers of a clash-free run depend only on the SET of requests *)
Theorem noclash_order_irrelevant rs1 rs2 :
  noclashP rs1 -> (forall r, In r rs1 <-> In r rs2) ->
  forall id, ident_in (fst (run init rs1)) id = ident_in (fst (run init rs2)) id.
Proof.
  intros HN HE id.
  assert (HN2 : noclashP rs2) by (apply (noclashP_incl rs1); [assumption|intros r; apply HE]).
  destruct (in_dec Nat.eq_dec id (map r_id rs1)) as [Hin|Hout].
  - apply in_map_iff in Hin as (r & <- & Hr).
    rewrite (noclash_ident rs1 HN r Hr). symmetry. apply (noclash_ident rs2 HN2 r). now apply HE.
  - rewrite (noclash_absent rs1 HN id Hout). symmetry. apply (noclash_absent rs2 HN2).
    intros Hin. apply Hout. apply in_map_iff in Hin as (r & <- & Hr). apply in_map. now apply HE.
Qed.

(* ================================================================== lists *)

Lemma nth_perm {A} (t1 t2 : list (list A)) :
  Forall2 (@Permutation A) t1 t2 -> forall k, Permutation (nth k t1 []) (nth k t2 []).
Proof.
  induction 1 as [|a b t1 t2 Hab _ IH]; intros [|k]; simpl; auto.
Qed.

Lemma Forall2_perm_sym {A} (t1 t2 : list (list A)) :
  Forall2 (@Permutation A) t1 t2 -> Forall2 (@Permutation A) t2 t1.
Proof. induction 1; constructor; auto using Permutation_sym. Qed.

Lemma Forall2_perm_trans {A} (t1 t2 t3 : list (list A)) :
  Forall2 (@Permutation A) t1 t2 -> Forall2 (@Permutation A) t2 t3 -> Forall2 (@Permutation A) t1 t3.
Proof.
  intros H. revert t3. induction H; intros t3 H3; inversion H3; subst; constructor; eauto using perm_trans.
Qed.

Lemma enum_sets_perm sets sigma : perms_ok sets sigma -> Forall2 (@Permutation req) (enum_sets sets sigma) sets.
Proof.
  unfold perms_ok, enum_sets. induction 1 as [|l pi sets sigma H _ IH]; simpl; constructor; auto.
  now apply enumerate_perm.
Qed.


Lemma nth_in_concat {A} (l : list (list A)) k x : In x (nth k l []) -> In x (concat l).
Proof.
  revert k. induction l as [|a l IH]; intros [|k]; simpl; try tauto; intros H; apply in_or_app; eauto.
Qed.

Lemma nth_map_seq {A} (f : nat -> list A) n k : nth k (map f (seq 0 n)) [] = if k <? n then f k else [].
Proof.
  destruct (k <? n) eqn:E.
  - apply Nat.ltb_lt in E. rewrite (nth_indep _ [] (f 0)) by (now rewrite map_length, seq_length).
    rewrite map_nth, seq_nth by assumption. reflexivity.
  - apply Nat.ltb_ge in E. apply nth_overflow. now rewrite map_length, seq_length.
Qed.

(* ================================================================== sorted enumeration *)

Lemma file_leb_total : total file_leb.
Proof. intros a b. apply path_leb_total. Qed.
Lemma file_leb_trans : transitive file_leb.
Proof. intros a b c. apply path_leb_trans. Qed.

Lemma NoDup_map_inj_in {A B} (f : A -> B) (l : list A) a b :
  NoDup (map f l) -> In a l -> In b l -> f a = f b -> a = b.
Proof.
  induction l as [|x l IH]; simpl; intros H Ha Hb E; [contradiction|].
  inversion H as [|? ? Hn Hd]; subst.
  destruct Ha as [<-|Ha]; destruct Hb as [<-|Hb]; auto.
  - exfalso. apply Hn. rewrite E. now apply in_map.
  - exfalso. apply Hn. rewrite <- E. now apply in_map.
Qed.

Lemma sorted_enumeration_canonical files pi1 pi2 :
  NoDup (map f_path files) -> is_perm pi1 (length files) -> is_perm pi2 (length files) ->
  isort file_leb (enumerate files pi1) = isort file_leb (enumerate files pi2).
Proof.
  intros ND H1 H2. apply isort_perm_invariant; [apply file_leb_total|apply file_leb_trans| |].
  - eapply perm_trans; [now apply enumerate_perm|now apply Permutation_sym, enumerate_perm].
  - intros a b Ha Hb L1 L2.
    apply (Permutation_in _ (enumerate_perm files pi1 H1)) in Ha, Hb.
    apply (NoDup_map_inj_in f_path files); auto. now apply path_leb_antisym.
Qed.


(* ================================================================== requests that change nothing *)

Definition has_item (st : nstate) (r : req) : Prop := In (r_id r) (map i_id (items st)).

Lemma get_name_mono st r it : In it (items st) -> In it (items (fst (get_name st r))).
Proof.
  intros H. unfold get_name. destruct (find_item (r_id r) (items st)); simpl; auto.
Qed.

Lemma get_name_has st r : has_item (fst (get_name st r)) r.
Proof.
  unfold has_item, get_name. destruct (find_item (r_id r) (items st)) as [it|] eqn:F; simpl.
  - apply find_item_some in F as [F1 F2]. rewrite <- F2. now apply in_map.
  - now left.
Qed.

Lemma get_name_noop st r : has_item st r -> fst (get_name st r) = st.
Proof.
  intros H. unfold get_name. destruct (find_item_in _ _ H) as (it & F). now rewrite F.
Qed.

Lemma run_cons st r rs : fst (run st (r :: rs)) = fst (run (fst (get_name st r)) rs).
Proof. simpl. destruct (get_name st r) as [st1 n]. simpl. destruct (run st1 rs) as [st2 ns]. reflexivity. Qed.

Lemma run_app st a b : fst (run st (a ++ b)) = fst (run (fst (run st a)) b).
Proof.
  revert st. induction a as [|r a IH]; intros st; [reflexivity|].
  rewrite <- app_comm_cons, !run_cons. apply IH.
Qed.

Lemma run_mono st rs it : In it (items st) -> In it (items (fst (run st rs))).
Proof.
  revert st. induction rs as [|r rs IH]; intros st H; [exact H|].
  rewrite run_cons. apply IH. now apply get_name_mono.
Qed.

Lemma has_item_mono st rs r : has_item st r -> has_item (fst (run st rs)) r.
Proof.
  unfold has_item. intros H. apply in_map_iff in H as (it & E & Hit).
  rewrite <- E. apply in_map. now apply run_mono.
Qed.

Lemma run_has st rs r : In r rs -> has_item (fst (run st rs)) r.
Proof.
  revert st. induction rs as [|x rs IH]; intros st H; [destruct H|].
  destruct H as [<-|H]; rewrite run_cons.
  - apply has_item_mono. apply get_name_has.
  - now apply IH.
Qed.

(* asking again for entities that have their identifier leaves the selector as it is *)
Lemma run_noop st T : (forall r, In r T -> has_item st r) -> fst (run st T) = st.
Proof.
  induction T as [|r T IH]; intros H; [reflexivity|].
  rewrite run_cons, get_name_noop by (apply H; now left). apply IH. intros x Hx. apply H. now right.
Qed.

(* ================================================================== the id-set phases *)

Lemma seen_before_incl pl enum fixed k : forall acc r, In r acc -> In r (seen_before pl enum fixed k acc).
Proof.
  induction pl as [|[j|j|j] pl IH]; intros acc r H; simpl; auto.
  - apply IH. apply in_or_app. now left.
  - destruct (Nat.eqb j k); auto.
  - apply IH. apply in_or_app. now left.
Qed.

(* whatever the order (and multiplicity) in which the id-set phases ask — as long as they ask for
   what earlier by-file phases have asked for — the selector ends in the same state;
   for any sequence of phases, any enumeration, any fixed sequences *)
Lemma idset_irrelevant_of : forall pl enum fixed t1 t2 acc st,
  (forall r, In r acc -> has_item st r) ->
  (forall k r, In r (nth k t1 []) -> In r (seen_before pl enum fixed k acc)) ->
  (forall k r, In r (nth k t2 []) -> In r (seen_before pl enum fixed k acc)) ->
  fst (run st (registration_of pl enum fixed t1)) = fst (run st (registration_of pl enum fixed t2)).
Proof.
  induction pl as [|ph pl IH]; intros enum fixed t1 t2 acc st HA H1 H2; [reflexivity|].
  unfold registration_of in *. simpl. rewrite !run_app.
  destruct ph as [j|j|j]; simpl.
  - set (S := flat_map (seg j) enum).
    apply (IH enum fixed t1 t2 (acc ++ S)).
    + intros r Hr. apply in_app_or in Hr as [Hr|Hr]; [apply has_item_mono; auto|now apply run_has].
    + intros k r Hr. exact (H1 k r Hr).
    + intros k r Hr. exact (H2 k r Hr).
  - assert (N1 : fst (run st (nth j t1 [])) = st).
    { apply run_noop. intros r Hr. apply HA. specialize (H1 j r Hr). simpl in H1.
      now rewrite Nat.eqb_refl in H1. }
    assert (N2 : fst (run st (nth j t2 [])) = st).
    { apply run_noop. intros r Hr. apply HA. specialize (H2 j r Hr). simpl in H2.
      now rewrite Nat.eqb_refl in H2. }
    rewrite N1, N2. apply (IH enum fixed t1 t2 acc); auto.
    + intros k r Hr. specialize (H1 k r Hr). simpl in H1.
      destruct (Nat.eqb j k); [now apply seen_before_incl|assumption].
    + intros k r Hr. specialize (H2 k r Hr). simpl in H2.
      destruct (Nat.eqb j k); [now apply seen_before_incl|assumption].
  - set (S := nth j fixed []).
    apply (IH enum fixed t1 t2 (acc ++ S)).
    + intros r Hr. apply in_app_or in Hr as [Hr|Hr]; [apply has_item_mono; auto|now apply run_has].
    + intros k r Hr. exact (H1 k r Hr).
    + intros k r Hr. exact (H2 k r Hr).
Qed.

Lemma idsel_members pl enum fixed sel t :
  Forall2 (@Permutation req) t (idsel_of pl enum fixed sel) ->
  forall k r, In r (nth k t []) -> In r (seen_before pl enum fixed k []).
Proof.
  intros HT k r Hr. apply (Permutation_in _ (nth_perm _ _ HT k)) in Hr.
  unfold idsel_of in Hr. rewrite nth_map_seq in Hr.
  destruct (k <? length sel); [|contradiction]. now apply filter_In in Hr as [Hr _].
Qed.

(* ================================================================== the NameSelector, one key at a time *)

Definition item_key (it : item) : str * str := (i_dir it, i_base it).
Definition item_has (K : str * str) (it : item) : bool := key_eqb (item_key it) K.

Definition consistentP (rs : list req) : Prop :=
  forall a b, In a rs -> In b rs -> r_id a = r_id b -> a = b.

Lemma key_eqb_refl K : key_eqb K K = true.
Proof. now apply key_eqb_eq. Qed.

Lemma from_req_key r it : from_req r it -> item_key it = name_key r.
Proof. intros (_ & Hd & Hb). unfold item_key, name_key. now rewrite Hd, Hb. Qed.

Lemma find_item_filter K id l :
  (forall it, In it l -> i_id it = id -> item_has K it = true) ->
  find_item id l = find_item id (filter (item_has K) l).
Proof.
  induction l as [|x l IH]; intros H; simpl; [reflexivity|].
  destruct (Nat.eqb id (i_id x)) eqn:E.
  - apply Nat.eqb_eq in E. rewrite (H x (or_introl eq_refl) (eq_sym E)). simpl.
    apply Nat.eqb_eq in E. now rewrite E.
  - destruct (item_has K x); simpl; [rewrite E|]; apply IH; intros it Hit; apply H; now right.
Qed.

Record FK (rs0 : list req) (K : str * str) (st sk : nstate) : Prop := {
  fk_items : filter (item_has K) (items st) = items sk;
  fk_count : count_get K (counts st) = count_get K (counts sk);
  fk_prov : forall it, In it (items st) -> exists r, In r rs0 /\ from_req r it }.

Lemma fk_same_id rs0 K st sk r :
  consistentP rs0 -> In r rs0 -> FK rs0 K st sk ->
  forall it, In it (items st) -> i_id it = r_id r -> item_key it = name_key r.
Proof.
  intros HC Hr F it Hit Hid. destruct (fk_prov _ _ _ _ F it Hit) as (r' & Hr' & Hf).
  assert (r' = r) by (apply HC; auto; destruct Hf as (Hi & _); congruence).
  subst. now apply from_req_key.
Qed.

Lemma get_name_fk_in rs0 K st sk r :
  consistentP rs0 -> In r rs0 -> has_key K r = true -> FK rs0 K st sk ->
  FK rs0 K (fst (get_name st r)) (fst (get_name sk r)).
Proof.
  intros HC Hr HK F. pose proof HK as HK'. apply key_eqb_eq in HK'.
  assert (Efind : find_item (r_id r) (items st) = find_item (r_id r) (items sk)).
  { rewrite <- (fk_items _ _ _ _ F). apply find_item_filter. intros it Hit Hid.
    unfold item_has. rewrite (fk_same_id rs0 K st sk r HC Hr F it Hit Hid). exact HK. }
  unfold get_name. rewrite <- Efind.
  destruct (find_item (r_id r) (items st)) eqn:E; simpl; [exact F|].
  unfold name_key in HK'. rewrite HK'. rewrite (fk_count _ _ _ _ F).
  split; simpl.
  - unfold item_has at 1, item_key. simpl. rewrite HK', key_eqb_refl. f_equal. exact (fk_items _ _ _ _ F).
  - now rewrite !count_get_set_same.
  - intros it [<-|Hit]; [|exact (fk_prov _ _ _ _ F it Hit)].
    exists r. split; [assumption|]. repeat split; simpl; auto.
Qed.

Lemma get_name_fk_out rs0 K st sk r :
  In r rs0 -> has_key K r = false -> FK rs0 K st sk -> FK rs0 K (fst (get_name st r)) sk.
Proof.
  intros Hr HK F. unfold get_name.
  destruct (find_item (r_id r) (items st)) eqn:E; simpl; [exact F|].
  assert (N : (r_dir r, final_name (r_name r)) <> K).
  { intros X. unfold has_key, name_key in HK. rewrite X, key_eqb_refl in HK. discriminate. }
  split; simpl.
  - unfold item_has at 1, item_key. simpl.
    destruct (key_eqb (r_dir r, final_name (r_name r)) K) eqn:E2;
      [apply key_eqb_eq in E2; contradiction|]. exact (fk_items _ _ _ _ F).
  - rewrite count_get_set_other by exact N. exact (fk_count _ _ _ _ F).
  - intros it [<-|Hit]; [|exact (fk_prov _ _ _ _ F it Hit)].
    exists r. split; [assumption|]. repeat split; reflexivity.
Qed.

Lemma run_fk rs0 K : consistentP rs0 -> forall rs st sk, incl rs rs0 -> FK rs0 K st sk ->
  FK rs0 K (fst (run st rs)) (fst (run sk (filter (has_key K) rs))).
Proof.
  intros HC. induction rs as [|r rs IH]; intros st sk Hin F; simpl; [exact F|].
  assert (Hr : In r rs0) by (apply Hin; now left).
  assert (Hin' : incl rs rs0) by (intros x Hx; apply Hin; now right).
  destruct (get_name st r) as [st1 n] eqn:G. destruct (run st1 rs) as [st2 ns] eqn:R. simpl.
  destruct (has_key K r) eqn:HK; simpl.
  - destruct (get_name sk r) as [sk1 n'] eqn:G'.
    destruct (run sk1 (filter (has_key K) rs)) as [sk2 ns'] eqn:R'. simpl.
    pose proof (get_name_fk_in rs0 K st sk r HC Hr HK F) as F1. rewrite G, G' in F1. simpl in F1.
    specialize (IH st1 sk1 Hin' F1). now rewrite R, R' in IH.
  - pose proof (get_name_fk_out rs0 K st sk r Hr HK F) as F1. rewrite G in F1. simpl in F1.
    specialize (IH st1 sk Hin' F1). now rewrite R in IH.
Qed.

Lemma fk_init rs0 K : FK rs0 K init init.
Proof. split; simpl; [reflexivity|reflexivity|intros it []]. Qed.

(* the identifier of an entity is decided by the requests for its own (directory, name) alone *)
Lemma ident_by_key rs r : consistentP rs -> In r rs ->
  ident_in (fst (run init rs)) (r_id r)
  = ident_in (fst (run init (filter (has_key (name_key r)) rs))) (r_id r).
Proof.
  intros HC Hr. set (K := name_key r).
  pose proof (run_fk rs K HC rs init init (incl_refl _) (fk_init rs K)) as F.
  unfold ident_in. f_equal. rewrite <- (fk_items _ _ _ _ F). apply find_item_filter.
  intros it Hit Hid. unfold item_has. rewrite (fk_same_id rs K _ _ r HC Hr F it Hit Hid).
  apply key_eqb_refl.
Qed.

Lemma absent_none rs id : ~ In id (map r_id rs) -> ident_in (fst (run init rs)) id = None.
Proof.
  intros Hid. destruct (run_spec rs init [] inv_init) as (_ & P & _); [intros it []|].
  simpl in P. unfold ident_in.
  destruct (find_item id (items (fst (run init rs)))) as [it|] eqn:F; [exfalso|reflexivity].
  apply find_item_some in F as [F1 F2]. destruct (P it F1) as (r' & Hr' & (Fi & _)).
  apply Hid. rewrite <- F2, Fi. now apply in_map.
Qed.

Lemma consistentP_incl rs rs' : consistentP rs -> incl rs' rs -> consistentP rs'.
Proof. intros H I a b Ha Hb. apply H; now apply I. Qed.



(* ================================================================== the theorems about a whole run *)

(* set-ordered phases: whatever order they ask in *)
Theorem idset_order_irrelevant : forall P pi sigma1 sigma2,
  sigma_ok P pi sigma1 -> sigma_ok P pi sigma2 -> idents P pi sigma1 = idents P pi sigma2.
Proof.
  intros P pi s1 s2 S1 S2. unfold idents, idents_enum. apply map_ext. intros id. f_equal.
  unfold final_state, registration. f_equal.
  apply (idset_irrelevant_of pipeline (sorted_enum P pi) (p_sets P) _ _ [] init).
  - intros r [].
  - apply (idsel_members pipeline (sorted_enum P pi) (p_sets P) (p_idsel P)). now apply enum_sets_perm.
  - apply (idsel_members pipeline (sorted_enum P pi) (p_sets P) (p_idsel P)). now apply enum_sets_perm.
Qed.

(* by-file phases: the order in which the set of source files is iterated does not matter *)
Lemma sorted_enum_canonical P pi1 pi2 :
  NoDup (map f_path (p_files P)) ->
  is_perm pi1 (length (p_files P)) -> is_perm pi2 (length (p_files P)) ->
  sorted_enum P pi1 = sorted_enum P pi2.
Proof. intros. now apply sorted_enumeration_canonical. Qed.

(* MAIN THEOREM: the full statement *)
Theorem deterministic : forall P pi1 pi2 sigma1 sigma2,
  NoDup (map f_path (p_files P)) ->
  is_perm pi1 (length (p_files P)) -> is_perm pi2 (length (p_files P)) ->
  sigma_ok P pi1 sigma1 -> sigma_ok P pi2 sigma2 ->
  idents P pi1 sigma1 = idents P pi2 sigma2.
Proof.
  intros P pi1 pi2 s1 s2 ND H1 H2 S1 S2.
  assert (E : sorted_enum P pi1 = sorted_enum P pi2) by now apply sorted_enum_canonical.
  assert (S2' : sigma_ok P pi1 s2) by (unfold sigma_ok, idsel in *; now rewrite E).
  rewrite (idset_order_irrelevant P pi1 s1 s2 S1 S2').
  unfold idents, idsel. now rewrite E.
Qed.

(* the same for any total, transitive order that separates the files *)
Theorem sorted_is_canonical_gen : forall (leb : pfile -> pfile -> bool) P pi1 pi2 fixed idt,
  total leb -> transitive leb -> antisym_on leb (p_files P) ->
  is_perm pi1 (length (p_files P)) -> is_perm pi2 (length (p_files P)) ->
  idents_enum P (isort leb (enumerate (p_files P) pi1)) fixed idt
  = idents_enum P (isort leb (enumerate (p_files P) pi2)) fixed idt.
Proof.
  intros leb P pi1 pi2 fixed idt T R AS H1 H2. f_equal.
  apply isort_perm_invariant; auto.
  - eapply perm_trans; [now apply enumerate_perm|now apply Permutation_sym, enumerate_perm].
  - intros a b Ha Hb.
    apply AS; [exact (Permutation_in _ (enumerate_perm (p_files P) pi1 H1) Ha)
              |exact (Permutation_in _ (enumerate_perm (p_files P) pi1 H1) Hb)].
Qed.

(* ------------------------------------------------------------------ the project's location *)

Lemma lex_leb_prefix {A} (lt : A -> A -> bool) (irr : forall a, lt a a = false) p a b :
  lex_leb lt (p ++ a) (p ++ b) = lex_leb lt a b.
Proof. induction p as [|x p IH]; simpl; [reflexivity|]. now rewrite irr. Qed.

Lemma file_leb_relocate root a b :
  file_leb (relocate_file root a) (relocate_file root b) = file_leb a b.
Proof.
  unfold file_leb, relocate_file, path_leb. simpl.
  apply lex_leb_prefix. exact (st_irrefl _ str_ltb_strict).
Qed.

Lemma insert_map {A B} (f : A -> B) (leb : A -> A -> bool) (leb' : B -> B -> bool) :
  (forall a b, leb' (f a) (f b) = leb a b) ->
  forall x l, insert leb' (f x) (map f l) = map f (insert leb x l).
Proof.
  intros H x l. induction l as [|y l IH]; simpl; [reflexivity|].
  rewrite H. destruct (leb x y); simpl; [reflexivity|]. now rewrite IH.
Qed.

Lemma isort_map {A B} (f : A -> B) (leb : A -> A -> bool) (leb' : B -> B -> bool) :
  (forall a b, leb' (f a) (f b) = leb a b) ->
  forall l, isort leb' (map f l) = map f (isort leb l).
Proof.
  intros H l. induction l as [|x l IH]; simpl; [reflexivity|].
  rewrite IH. now apply insert_map.
Qed.

Lemma enumerate_map {A B} (f : A -> B) (l : list A) pi : enumerate (map f l) pi = map f (enumerate l pi).
Proof.
  unfold enumerate. induction pi as [|i pi IH]; simpl; [reflexivity|].
  rewrite map_app, IH. f_equal. rewrite nth_error_map. now destruct (nth_error l i).
Qed.

Lemma flat_map_map {A B C} (f : A -> B) (g : B -> list C) l : flat_map g (map f l) = flat_map (fun x => g (f x)) l.
Proof. induction l as [|x l IH]; simpl; [reflexivity|]. now rewrite IH. Qed.

Lemma seg_relocate root k f : seg k (relocate_file root f) = seg k f.
Proof. reflexivity. Qed.

Lemma registration_relocate pl root enum fixed idt :
  registration_of pl (map (relocate_file root) enum) fixed idt = registration_of pl enum fixed idt.
Proof.
  unfold registration_of. apply flat_map_ext. intros [k|k|k]; simpl; try reflexivity.
  rewrite flat_map_map. reflexivity.
Qed.

Lemma seen_before_relocate root pl enum fixed k : forall acc,
  seen_before pl (map (relocate_file root) enum) fixed k acc = seen_before pl enum fixed k acc.
Proof.
  induction pl as [|[j|j|j] pl IH]; intros acc; simpl; auto.
  - rewrite flat_map_map. apply IH.
  - destruct (Nat.eqb j k); auto.
Qed.

Lemma all_reqs_relocate root P : all_reqs (relocate root P) = all_reqs P.
Proof. unfold all_reqs, relocate. simpl. now rewrite flat_map_map. Qed.

Lemma sorted_enum_relocate root P pi :
  sorted_enum (relocate root P) pi = map (relocate_file root) (sorted_enum P pi).
Proof.
  unfold sorted_enum, relocate. simpl p_files. rewrite enumerate_map.
  apply isort_map. apply file_leb_relocate.
Qed.

(* moving the whole project (all source files below one root) changes nothing *)
Theorem location_irrelevant : forall root P pi sigma,
  idents (relocate root P) pi sigma = idents P pi sigma.
Proof.
  intros root P pi sigma. unfold idents, idsel. rewrite sorted_enum_relocate.
  change (p_sets (relocate root P)) with (p_sets P).
  assert (E : idsel_of pipeline (map (relocate_file root) (sorted_enum P pi)) (p_sets P)
                       (p_idsel (relocate root P))
              = idsel_of pipeline (sorted_enum P pi) (p_sets P) (p_idsel P)).
  { unfold idsel_of. change (p_idsel (relocate root P)) with (p_idsel P).
    apply map_ext. intros k. now rewrite seen_before_relocate. }
  rewrite E. unfold idents_enum, ent_ids. rewrite all_reqs_relocate.
  apply map_ext. intros id. f_equal. unfold final_state, registration.
  now rewrite registration_relocate.
Qed.

(* ================================================================== witnesses *)

Definition segs_at (k : nat) (sg : list req) : list (list req) := repeat [] k ++ [sg].
Definition segs_at2 (k1 : nat) (s1 : list req) (k2 : nat) (s2 : list req) : list (list req) :=
  repeat [] k1 ++ [s1] ++ repeat [] (k2 - k1 - 1) ++ [s2].
Definition mkr (id : nat) (d n : str) : req := {| r_id := id; r_dir := d; r_name := n |}.

(* two files, each with one module that declares a variable x; everything is first requested
   while the file's entities are converted from markdown (phase 7) *)
Definition clash_project : project :=
  {| p_files :=
       [ {| f_path := [s "src"; s "a.f90"];
            f_segs := segs_at 7 [mkr 1 (s "sourcefile") (s "a.f90"); mkr 2 (s "module") (s "ma");
                                 mkr 3 (s "None") (s "x")] |};
         {| f_path := [s "src"; s "b.f90"];
            f_segs := segs_at 7 [mkr 4 (s "sourcefile") (s "b.f90"); mkr 5 (s "module") (s "mb");
                                 mkr 6 (s "None") (s "x")] |} ];
     p_sets := []; p_idsel := [] |}.

(* before 80d6c91 the two variables swapped "x" and "x~2" with the iteration order of the set ... *)
Lemma clash_project_unsorted :
  idents_unsorted clash_project [0; 1] [] =
    [(1, Some (s "a.f90")); (2, Some (s "ma")); (3, Some (s "x"));
     (4, Some (s "b.f90")); (5, Some (s "mb")); (6, Some (s "x~2"))] /\
  idents_unsorted clash_project [1; 0] [] =
    [(1, Some (s "a.f90")); (2, Some (s "ma")); (3, Some (s "x~2"));
     (4, Some (s "b.f90")); (5, Some (s "mb")); (6, Some (s "x"))].
Proof. split; vm_compute; reflexivity. Qed.

(* ... now a.f90 always comes first *)
Lemma clash_project_sorted :
  idents clash_project [0; 1] [] = idents clash_project [1; 0] [] /\
  idents clash_project [1; 0] [] =
    [(1, Some (s "a.f90")); (2, Some (s "ma")); (3, Some (s "x"));
     (4, Some (s "b.f90")); (5, Some (s "mb")); (6, Some (s "x~2"))].
Proof. split; vm_compute; reflexivity. Qed.

Lemma clash_project_perms :
  is_perm [0; 1] (length (p_files clash_project)) /\ is_perm [1; 0] (length (p_files clash_project)) /\
  NoDup (map f_path (p_files clash_project)).
Proof.
  split; [apply Permutation_refl|]. split; [apply perm_swap|].
  simpl. repeat constructor; simpl; intuition discriminate.
Qed.

(* two modules named m in two files, in one level of the toposort.
   Before the toposort repair: the toposort (a free set) is the first to ask for their identifiers *)
Definition twins_before : project :=
  {| p_files :=
       [ {| f_path := [s "src"; s "a.f90"]; f_segs := segs_at 7 [mkr 1 (s "module") (s "m")] |};
         {| f_path := [s "src"; s "b.f90"]; f_segs := segs_at 7 [mkr 2 (s "module") (s "m")] |} ];
     p_sets := [[mkr 1 (s "module") (s "m"); mkr 2 (s "module") (s "m")]]; p_idsel := [] |}.

Lemma twins_before_differ :
  is_perm [0; 1] (length (p_files twins_before)) /\
  perms_ok (p_sets twins_before) [[0; 1]] /\ perms_ok (p_sets twins_before) [[1; 0]] /\
  idents_free_sets twins_before [0; 1] [[0; 1]] = [(1, Some (s "m")); (2, Some (s "m~2"))] /\
  idents_free_sets twins_before [0; 1] [[1; 0]] = [(1, Some (s "m~2")); (2, Some (s "m"))].
Proof.
  split; [apply Permutation_refl|].
  split; [repeat constructor; apply Permutation_refl|]. split; [repeat constructor; apply perm_swap|].
  split; vm_compute; reflexivity.
Qed.

(* After the repairs: the loop over project.modules (phase 45) asks first, in file order; the toposort
   (id-set phase 0, entities 1 and 2) and everything later find the identifiers assigned.  Also: a
   variable x in each file; two types named t (one of them the renamed parent of child) whose
   identifiers container.correlate requests in list order (fixed phase 1) before its toposort of
   types (id-set phase 2); two inherited copies of a generic binding show, collected by graph_all
   in the order of its loop (fixed phase 4) before it sorts the set of them (id-set phase 1). *)
Definition twins_project : project :=
  {| p_files :=
       [ {| f_path := [s "src"; s "a.f90"];
            f_segs := segs_at2 7 [mkr 1 (s "module") (s "m"); mkr 3 (s "None") (s "x")]
                               45 [mkr 1 (s "module") (s "m")] |};
         {| f_path := [s "src"; s "b.f90"];
            f_segs := segs_at2 7 [mkr 2 (s "module") (s "m"); mkr 4 (s "None") (s "x")]
                               45 [mkr 2 (s "module") (s "m")] |} ];
     p_sets := [[]; [mkr 5 (s "type") (s "t"); mkr 6 (s "type") (s "t"); mkr 7 (s "type") (s "child")];
                []; []; [mkr 8 (s "None") (s "show"); mkr 9 (s "None") (s "show")]];
     p_idsel := [[1; 2]; [8; 9; 5]; [5; 6; 7]] |}.

Example twins_project_ok :
  NoDup (map f_path (p_files twins_project)) /\
  is_perm [1; 0] (length (p_files twins_project)) /\
  idsel twins_project [1; 0] =
    [[mkr 1 (s "module") (s "m"); mkr 2 (s "module") (s "m")];
     [mkr 5 (s "type") (s "t"); mkr 8 (s "None") (s "show"); mkr 9 (s "None") (s "show")];
     [mkr 5 (s "type") (s "t"); mkr 6 (s "type") (s "t"); mkr 7 (s "type") (s "child")]] /\
  sigma_ok twins_project [1; 0] [[1; 0]; [2; 0; 1]; [1; 2; 0]] /\
  sigma_ok twins_project [0; 1] [[0; 1]; [0; 1; 2]; [0; 1; 2]] /\
  idents twins_project [1; 0] [[1; 0]; [2; 0; 1]; [1; 2; 0]]
    = idents twins_project [0; 1] [[0; 1]; [0; 1; 2]; [0; 1; 2]] /\
  idents twins_project [1; 0] [[1; 0]; [2; 0; 1]; [1; 2; 0]] =
    [(3, Some (s "x")); (1, Some (s "m")); (4, Some (s "x~2")); (2, Some (s "m~2"));
     (5, Some (s "t")); (6, Some (s "t~2")); (7, Some (s "child"));
     (8, Some (s "show")); (9, Some (s "show~2"))].
Proof.
  assert (E1 : idsel twins_project [1; 0] =
    [[mkr 1 (s "module") (s "m"); mkr 2 (s "module") (s "m")];
     [mkr 5 (s "type") (s "t"); mkr 8 (s "None") (s "show"); mkr 9 (s "None") (s "show")];
     [mkr 5 (s "type") (s "t"); mkr 6 (s "type") (s "t"); mkr 7 (s "type") (s "child")]])
    by (vm_compute; reflexivity).
  assert (E0 : idsel twins_project [0; 1] = idsel twins_project [1; 0]) by (vm_compute; reflexivity).
  assert (P201 : Permutation [2; 0; 1] [0; 1; 2]).
  { apply (perm_trans (l' := [0; 2; 1])); [apply perm_swap|apply perm_skip, perm_swap]. }
  assert (P120 : Permutation [1; 2; 0] [0; 1; 2]).
  { apply (perm_trans (l' := [1; 0; 2])); [apply perm_skip, perm_swap|apply perm_swap]. }
  split; [simpl; repeat constructor; simpl; intuition discriminate|].
  split; [apply perm_swap|]. split; [exact E1|].
  split; [unfold sigma_ok; rewrite E1; repeat constructor; (apply perm_swap || assumption)|].
  split; [unfold sigma_ok; rewrite E0, E1; repeat constructor; apply Permutation_refl|].
  split; vm_compute; reflexivity.
Qed.

(* ================================================================== other sets *)

Lemma perm_short {A} (l l' : list A) : length l <= 1 -> Permutation l' l -> l' = l.
Proof.
  destruct l as [|x [|y l]]; simpl; intros L P; try lia.
  - now apply Permutation_nil, Permutation_sym.
  - now apply Permutation_length_1_inv, Permutation_sym.
Qed.


Lemma use_leb_total : total use_leb.
Proof. intros a b. apply path_leb_total. Qed.
Lemma use_leb_trans : transitive use_leb.
Proof. intros a b c. apply path_leb_trans. Qed.
Lemma use_leb_antisym a b : use_leb a b = true -> use_leb b a = true -> a = b.
Proof. intros H1 H2. pose proof (path_leb_antisym _ _ H1 H2) as E. now injection E. Qed.

(* the "Uses" list is rendered in an order that is a function of the set *)
Theorem uses_sorted : forall uses pi1 pi2,
  is_perm pi1 (length uses) -> is_perm pi2 (length uses) ->
  shown_uses uses pi1 = shown_uses uses pi2.
Proof.
  intros uses pi1 pi2 H1 H2. unfold shown_uses.
  apply isort_perm_invariant; [apply use_leb_total|apply use_leb_trans| |].
  - eapply perm_trans; [now apply enumerate_perm|now apply Permutation_sym, enumerate_perm].
  - intros a b _ _. apply use_leb_antisym.
Qed.

Example uses_example :
  shown_uses [s "mb"; s "iso_c_binding"; s "Ma"; s "ma"; s "MB"] [4; 2; 0; 3; 1]
  = [s "iso_c_binding"; s "Ma"; s "ma"; s "MB"; s "mb"].
Proof. vm_compute. reflexivity. Qed.

(* what the repair repaired: in set order the list depends on the permutation *)
Lemma uses_unsorted_witness :
  is_perm [0; 1] 2 /\ is_perm [1; 0] 2 /\
  shown_uses_unsorted [s "ma"; s "mb"] [0; 1] <> shown_uses_unsorted [s "ma"; s "mb"] [1; 0] /\
  shown_uses [s "ma"; s "mb"] [0; 1] = shown_uses [s "ma"; s "mb"] [1; 0].
Proof.
  split; [apply Permutation_refl|]. split; [apply perm_swap|]. split; [vm_compute; discriminate|reflexivity].
Qed.

Theorem graph_emission_sorted : forall nodes pi1 pi2,
  is_perm pi1 (length nodes) -> is_perm pi2 (length nodes) ->
  emit_nodes nodes pi1 = emit_nodes nodes pi2.
Proof.
  intros nodes pi1 pi2 H1 H2. unfold emit_nodes.
  apply isort_perm_invariant; [apply str_leb_total|apply str_leb_trans| |].
  - eapply perm_trans; [now apply enumerate_perm|now apply Permutation_sym, enumerate_perm].
  - intros a b _ _. apply str_leb_antisym.
Qed.

(* since c3c7c8e the child -> parent edges of InheritedByGraph are emitted in sorted order too *)
Theorem child_edges_sorted : forall parent children pi1 pi2,
  is_perm pi1 (length children) -> is_perm pi2 (length children) ->
  emit_child_edges parent children pi1 = emit_child_edges parent children pi2.
Proof.
  intros parent children pi1 pi2 H1 H2. unfold emit_child_edges. f_equal.
  exact (graph_emission_sorted children pi1 pi2 H1 H2).
Qed.

(* what the fix repaired: in set order the edges depend on the permutation *)
Lemma child_edges_unsorted_witness :
  is_perm [0; 1] 2 /\ is_perm [1; 0] 2 /\
  emit_child_edges_unsorted (s "base") [s "c1"; s "c2"] [0; 1]
    <> emit_child_edges_unsorted (s "base") [s "c1"; s "c2"] [1; 0] /\
  emit_child_edges (s "base") [s "c1"; s "c2"] [0; 1] = emit_child_edges (s "base") [s "c1"; s "c2"] [1; 0].
Proof.
  split; [apply Permutation_refl|]. split; [apply perm_swap|]. split; [vm_compute; discriminate|reflexivity].
Qed.

Example graph_emission_example :
  emit_nodes [s "mb"; s "ma~2"; s "ma"; s "Mc"] [2; 0; 3; 1] = [s "Mc"; s "ma"; s "ma~2"; s "mb"]
  /\ is_perm [2; 0; 3; 1] 4.
Proof.
  split; [vm_compute; reflexivity|].
  unfold is_perm. simpl.
  apply Permutation_sym.
  apply (perm_trans (l' := [2; 0; 1; 3])).
  - apply (perm_trans (l' := [0; 2; 1; 3])); [apply perm_skip, perm_swap|apply perm_swap].
  - do 2 apply perm_skip. apply perm_swap.
Qed.

(* the rows of the table that replaces an oversized graph are a function of the set of neighbours *)
Theorem table_rows_sorted : forall neighbours pi1 pi2,
  NoDup (map fst neighbours) ->
  is_perm pi1 (length neighbours) -> is_perm pi2 (length neighbours) ->
  emit_table_rows neighbours pi1 = emit_table_rows neighbours pi2.
Proof.
  intros nb pi1 pi2 ND H1 H2. unfold emit_table_rows. f_equal.
  apply isort_perm_invariant.
  - intros a b. apply str_leb_total.
  - intros a b c. apply str_leb_trans.
  - eapply perm_trans; [now apply enumerate_perm|now apply Permutation_sym, enumerate_perm].
  - intros a b Ha Hb L1 L2.
    apply (Permutation_in _ (enumerate_perm nb pi1 H1)) in Ha, Hb.
    apply (NoDup_map_inj_in fst nb); auto. now apply str_leb_antisym.
Qed.

Example table_rows_example :
  emit_table_rows [(s "proc~init~2", s "init"); (s "proc~alpha", s "Alpha"); (s "proc~init", s "init");
                   (s "proc~init~3", s "Init")] [3; 0; 2; 1]
  = [(s "proc~alpha", s "Alpha"); (s "proc~init", s "init"); (s "proc~init~2", s "init");
     (s "proc~init~3", s "Init")].
Proof. vm_compute. reflexivity. Qed.

(* sorting the set by label alone would leave equally labelled neighbours in set order *)
Lemma table_rows_from_set_refuted :
  exists neighbours pi1 pi2,
    NoDup (map fst neighbours) /\ is_perm pi1 (length neighbours) /\ is_perm pi2 (length neighbours) /\
    emit_table_rows_from_set neighbours pi1 <> emit_table_rows_from_set neighbours pi2.
Proof.
  exists [(s "proc~init", s "init"); (s "proc~init~2", s "init")], [0; 1], [1; 0].
  split; [simpl; repeat constructor; simpl; intuition discriminate|].
  split; [apply Permutation_refl|]. split; [apply perm_swap|]. vm_compute. intros H. discriminate H.
Qed.

(* ================================================================== writeout *)

Lemma prefixb_app out x : prefixb out (out ++ x) = true.
Proof. induction out as [|c out IH]; simpl; [reflexivity|]. now rewrite str_eqb_refl. Qed.

Lemma write_all_eq out pages f :
  write_all out pages f = rev (map (fun kv => (out ++ fst kv, snd kv)) pages) ++ f.
Proof.
  unfold write_all. revert f. induction pages as [|kv pages IH]; intros f; simpl; [reflexivity|].
  rewrite IH. now rewrite <- app_assoc.
Qed.

Lemma filter_all {A} (p : A -> bool) l : (forall x, In x l -> p x = true) -> filter p l = l.
Proof.
  induction l as [|x l IH]; simpl; intros H; [reflexivity|].
  rewrite (H x (or_introl eq_refl)). f_equal. apply IH. auto.
Qed.

Lemma filter_none {A} (p : A -> bool) l : (forall x, In x l -> p x = false) -> filter p l = [].
Proof.
  induction l as [|x l IH]; simpl; intros H; [reflexivity|].
  rewrite (H x (or_introl eq_refl)). apply IH. auto.
Qed.

Lemma restrict_writeout out pages f :
  restrict out (writeout out pages f) = rev (map (fun kv => (out ++ fst kv, snd kv)) pages).
Proof.
  unfold restrict, writeout. rewrite write_all_eq, filter_app.
  rewrite filter_all, filter_none; [apply app_nil_r| |].
  - intros kv H. unfold remove_subtree in H. apply filter_In in H as [_ H].
    now apply negb_true_iff in H.
  - intros kv H. apply in_rev in H. apply in_map_iff in H as (kv' & <- & _). simpl. apply prefixb_app.
Qed.

Theorem stale_output_irrelevant : forall out pages fs1 fs2,
  restrict out (writeout out pages fs1) = restrict out (writeout out pages fs2).
Proof. intros. now rewrite !restrict_writeout. Qed.

(* observationally: every path below the output directory reads the same after the run *)
Corollary stale_output_irrelevant_get : forall out pages fs1 fs2 p,
  fs_get p (restrict out (writeout out pages fs1)) = fs_get p (restrict out (writeout out pages fs2)).
Proof. intros. now rewrite (stale_output_irrelevant out pages fs1 fs2). Qed.

(* without the removal the result would depend on what was there before *)
Lemma merge_refuted_witness :
  let out := [s "doc"] in
  let pages := [([s "index.html"], s "new")] in
  let stale := [([s "doc"; s "proc"; s "old.html"], s "left over")] in
  restrict out (writeout_merge out pages []) <> restrict out (writeout_merge out pages stale)
  /\ restrict out (writeout out pages []) = restrict out (writeout out pages stale)
  /\ restrict out (writeout out pages stale) = [([s "doc"; s "index.html"], s "new")].
Proof. cbv zeta. split; [vm_compute; discriminate|]. split; vm_compute; reflexivity. Qed.

(* ------------------------------------------------------------------ the source set of a run *)

Lemma filter_filter_impl {A} (p q : A -> bool) l :
  (forall x, p x = true -> q x = true) -> filter p (filter q l) = filter p l.
Proof.
  intros H. induction l as [|x l IH]; simpl; [reflexivity|].
  destruct (q x) eqn:Q; simpl.
  - destruct (p x); now rewrite IH.
  - destruct (p x) eqn:Px; [rewrite (H x Px) in Q; discriminate|exact IH].
Qed.

Lemma sources_remove_subtree src excl out f :
  In out excl -> sources src excl (remove_subtree out f) = sources src excl f.
Proof.
  intros Hin. unfold sources, remove_subtree. apply filter_filter_impl.
  intros kv H. apply andb_true_iff in H as [_ H]. apply negb_true_iff in H.
  destruct (prefixb out (fst kv)) eqn:E; [|reflexivity].
  assert (X : existsb (fun e => prefixb e (fst kv)) excl = true) by (apply existsb_exists; eauto).
  congruence.
Qed.

(* the premise of stale_output_irrelevant: with the output directory excluded, the set of source
   files does not depend on what the output directory holds *)
Theorem sources_ignore_output : forall src excl out f1 f2,
  In out excl -> remove_subtree out f1 = remove_subtree out f2 ->
  sources src excl f1 = sources src excl f2.
Proof.
  intros src excl out f1 f2 Hin E.
  rewrite <- (sources_remove_subtree src excl out f1 Hin), <- (sources_remove_subtree src excl out f2 Hin).
  now rewrite E.
Qed.

(* hence a whole rerun writes the same tree, whatever an earlier run left — for any way of computing
   the pages from the sources *)
Theorem rerun_stale_irrelevant : forall render src excl out f1 f2,
  In out excl -> remove_subtree out f1 = remove_subtree out f2 ->
  restrict out (rerun render src excl out f1) = restrict out (rerun render src excl out f2).
Proof.
  intros render src excl out f1 f2 Hin E. unfold rerun.
  rewrite (sources_ignore_output src excl out f1 f2 Hin E). apply stale_output_irrelevant.
Qed.

(* an output directory below the source directory that is NOT excluded (output_dir replaced on the
   command line after the settings excluded the old one): the left-over files are sources *)
Lemma sources_unexcluded_witness :
  let src := [s "p"] in let out := [s "p"; s "out2"] in
  let f1 := [([s "p"; s "main.f90"], s "module mine")] in
  let f2 := ([s "p"; s "out2"; s "src"; s "old.f90"], s "module zz_left_over") :: f1 in
  remove_subtree out f1 = remove_subtree out f2 /\
  sources src [[s "p"; s "doc"]] f1 <> sources src [[s "p"; s "doc"]] f2 /\
  sources src [[s "p"; s "doc"]; out] f1 = sources src [[s "p"; s "doc"]; out] f2.
Proof. cbv zeta. split; [vm_compute; reflexivity|]. split; [vm_compute; intros H; discriminate H|vm_compute; reflexivity]. Qed.

Lemma sources_unexcluded_refuted :
  ~ (forall src excl out f1 f2, remove_subtree out f1 = remove_subtree out f2 ->
       sources src excl f1 = sources src excl f2).
Proof.
  intros H. destruct sources_unexcluded_witness as (E & N & _). exact (N (H _ _ _ _ _ E)).
Qed.

(* ================================================================== refutations (pre-repair pipelines, merging) *)

Lemma merge_refuted :
  exists out pages fs1 fs2,
    restrict out (writeout_merge out pages fs1) <> restrict out (writeout_merge out pages fs2).
Proof.
  exists [s "doc"], [([s "index.html"], s "new")], [], [([s "doc"; s "proc"; s "old.html"], s "left over")].
  vm_compute. discriminate.
Qed.

(* what 80d6c91 repaired: without the sort the file order alone decides identifiers *)
Lemma unsorted_statement_refuted :
  ~ (forall P pi1 pi2 sigma,
       is_perm pi1 (length (p_files P)) -> is_perm pi2 (length (p_files P)) ->
       idents_unsorted P pi1 sigma = idents_unsorted P pi2 sigma).
Proof.
  intros H. destruct clash_project_perms as (P1 & P2 & _).
  specialize (H clash_project [0; 1] [1; 0] [] P1 P2).
  destruct clash_project_unsorted as [E1 E2]. rewrite E1, E2 in H.
  apply (f_equal (fun l => nth 2 l (0, None))) in H. vm_compute in H. discriminate H.
Qed.

(* what the toposort repair repaired: a set-ordered loop that is the first to ask *)
Lemma free_sets_statement_refuted :
  ~ (forall P pi sigma1 sigma2,
       is_perm pi (length (p_files P)) ->
       perms_ok (p_sets P) sigma1 -> perms_ok (p_sets P) sigma2 ->
       idents_free_sets P pi sigma1 = idents_free_sets P pi sigma2).
Proof.
  intros H. destruct twins_before_differ as (P1 & S1 & S2 & E1 & E2).
  specialize (H twins_before [0; 1] [[0; 1]] [[1; 0]] P1 S1 S2).
  rewrite E1, E2 in H.
  apply (f_equal (fun l => nth 0 l (0, None))) in H. vm_compute in H. discriminate H.
Qed.

Lemma uses_unsorted_refuted :
  ~ (forall uses pi1 pi2, is_perm pi1 (length uses) -> is_perm pi2 (length uses) ->
       shown_uses_unsorted uses pi1 = shown_uses_unsorted uses pi2).
Proof.
  intros H. destruct uses_unsorted_witness as (P1 & P2 & N & _).
  exact (N (H [s "ma"; s "mb"] [0; 1] [1; 0] P1 P2)).
Qed.

Lemma child_edges_unsorted_refuted :
  ~ (forall parent children pi1 pi2, is_perm pi1 (length children) -> is_perm pi2 (length children) ->
       emit_child_edges_unsorted parent children pi1 = emit_child_edges_unsorted parent children pi2).
Proof.
  intros H. destruct child_edges_unsorted_witness as (P1 & P2 & N & _).
  exact (N (H (s "base") [s "c1"; s "c2"] [0; 1] [1; 0] P1 P2)).
Qed.

Lemma noclash_order_irrelevant_b rs1 rs2 :
  no_clash_list rs1 = true -> (forall r, In r rs1 <-> In r rs2) ->
  forall id, ident_in (fst (run init rs1)) id = ident_in (fst (run init rs2)) id.
Proof. intros H. apply noclash_order_irrelevant. now apply no_clash_list_sound. Qed.
