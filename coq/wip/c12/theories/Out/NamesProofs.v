(* Out/NamesProofs.v — uniqueness of identifiers produced by the NameSelector model *)
From Ford Require Import Base.Str Base.StrFacts Out.Names.
From Coq Require Import Lia DecimalString DecimalNat Decimal.

Definition no_tilde (x : str) : Prop := ~ In tilde x.

(* ---------- decimal rendering ---------- *)

Lemma dec_inj a b : dec a = dec b -> a = b.
Proof.
  unfold dec. intros H. apply s_inj in H.
  assert (E : Some (Nat.to_uint a) = Some (Nat.to_uint b)).
  { rewrite <- (NilEmpty.usu (Nat.to_uint a)), <- (NilEmpty.usu (Nat.to_uint b)). now rewrite H. }
  injection E as E. now apply Unsigned.to_uint_inj.
Qed.

Lemma uint_no_tilde d : ~ In tilde (s (NilEmpty.string_of_uint d)).
Proof.
  induction d; simpl; [tauto | intros [H|H]; [discriminate | auto] ..].
Qed.

Lemma dec_no_tilde n : no_tilde (dec n).
Proof. apply uint_no_tilde. Qed.

Lemma render_inj b1 k1 b2 k2 :
  no_tilde b1 -> no_tilde b2 -> 1 <= k1 -> 1 <= k2 ->
  render b1 k1 = render b2 k2 -> b1 = b2 /\ k1 = k2.
Proof.
  unfold render. intros N1 N2 L1 L2 E.
  destruct (k1 <=? 1) eqn:E1; destruct (k2 <=? 1) eqn:E2.
  - apply Nat.leb_le in E1, E2. split; [assumption|lia].
  - exfalso. apply N1. rewrite E. apply in_or_app. right. now left.
  - exfalso. apply N2. rewrite <- E. apply in_or_app. right. now left.
  - apply split_at_first_unique in E as [-> E]; auto. split; [reflexivity|now apply dec_inj].
Qed.

(* ---------- the counter table ---------- *)

Lemma key_eqb_eq a b : key_eqb a b = true <-> a = b.
Proof.
  destruct a as [a1 a2], b as [b1 b2]. unfold key_eqb. simpl. rewrite andb_true_iff, !str_eqb_eq.
  split; [intros [-> ->]; reflexivity | intros [= -> ->]; auto].
Qed.

Lemma count_get_set_same k v m : count_get k (count_set k v m) = v.
Proof.
  induction m as [|[k' v'] m IH]; simpl.
  - assert (H : key_eqb k k = true) by now apply key_eqb_eq. now rewrite H.
  - destruct (key_eqb k k') eqn:E; simpl.
    + assert (H : key_eqb k k = true) by now apply key_eqb_eq. now rewrite H.
    + now rewrite E.
Qed.

Lemma count_get_set_other k k' v m : k <> k' -> count_get k' (count_set k v m) = count_get k' m.
Proof.
  intros N. induction m as [|[k2 v2] m IH]; simpl.
  - destruct (key_eqb k' k) eqn:E; [|reflexivity]. apply key_eqb_eq in E. congruence.
  - destruct (key_eqb k k2) eqn:E; simpl.
    + apply key_eqb_eq in E. subst k2.
      destruct (key_eqb k' k) eqn:E2; [|reflexivity]. apply key_eqb_eq in E2. congruence.
    + destruct (key_eqb k' k2); [reflexivity|exact IH].
Qed.

Lemma find_item_none id l : find_item id l = None -> ~ In id (map i_id l).
Proof.
  induction l as [|it l IH]; simpl; intros H; [tauto|].
  destruct (Nat.eqb id (i_id it)) eqn:E; [discriminate|].
  apply Nat.eqb_neq in E. intros [H1|H1]; [congruence|]. now apply IH.
Qed.

Lemma find_item_some id l it : find_item id l = Some it -> In it l /\ i_id it = id.
Proof.
  induction l as [|x l IH]; simpl; intros H; [discriminate|].
  destruct (Nat.eqb id (i_id x)) eqn:E.
  - injection H as ->. apply Nat.eqb_eq in E. auto.
  - destruct (IH H). auto.
Qed.

Lemma find_item_in id l : In id (map i_id l) -> exists it, find_item id l = Some it.
Proof.
  induction l as [|x l IH]; simpl; intros H; [tauto|].
  destruct (Nat.eqb id (i_id x)) eqn:E; [eauto|].
  apply Nat.eqb_neq in E. destruct H as [H|H]; [congruence|auto].
Qed.

(* ---------- the invariant ---------- *)

Definition triple (it : item) := (i_dir it, i_base it, i_k it).

Record Inv (st : nstate) : Prop := {
  inv_ids : NoDup (map i_id (items st));
  inv_rng : forall it, In it (items st) ->
              1 <= i_k it <= count_get (i_dir it, i_base it) (counts st);
  inv_tri : NoDup (map triple (items st))
}.

Lemma inv_init : Inv init.
Proof. split; simpl; [constructor | intros it [] | constructor]. Qed.

Lemma get_name_inv st r : Inv st -> Inv (fst (get_name st r)).
Proof.
  intros [Hids Hrng Htri]. unfold get_name.
  destruct (find_item (r_id r) (items st)) eqn:F; simpl; [split; assumption|].
  set (base := final_name (r_name r)).
  set (c := count_get (r_dir r, base) (counts st)).
  split; simpl.
  - constructor; [now apply find_item_none|assumption].
  - intros it [<-|Hin]; simpl.
    + rewrite count_get_set_same. lia.
    + destruct (Hrng it Hin) as [L U].
      destruct (key_eqb (r_dir r, base) (i_dir it, i_base it)) eqn:E.
      * apply key_eqb_eq in E. rewrite <- E, count_get_set_same. fold c in U. rewrite <- E in U. fold c in U. lia.
      * rewrite count_get_set_other; [lia|]. intros K. apply key_eqb_eq in K. congruence.
  - constructor; [|assumption].
    intros Hin. apply in_map_iff in Hin as [it [Et Hin]].
    unfold triple in Et. simpl in Et. injection Et as Ed Eb Ek.
    destruct (Hrng it Hin) as [_ U]. rewrite Ed, Eb in U. fold c in U. lia.
Qed.

(* every stored item stems from a processed request *)
Definition from_req (r : req) (it : item) : Prop :=
  i_id it = r_id r /\ i_dir it = r_dir r /\ i_base it = final_name (r_name r).

Definition Prov (rs : list req) (st : nstate) : Prop :=
  forall it, In it (items st) -> exists r, In r rs /\ from_req r it.

Lemma run_spec : forall rs st pre,
  Inv st -> Prov pre st ->
  let st' := fst (run st rs) in
  Inv st' /\ Prov (pre ++ rs) st' /\
  (forall it, In it (items st) -> In it (items st')) /\
  length (snd (run st rs)) = length rs /\
  (forall i r, nth_error rs i = Some r ->
     exists it, In it (items st') /\ i_id it = r_id r /\
                nth_error (snd (run st rs)) i = Some (ident_of it)).
Proof.
  induction rs as [|r rs IH]; intros st pre HI HP; cbv zeta; simpl.
  - split; [assumption|]. split; [now rewrite app_nil_r|]. split; [auto|]. split; [reflexivity|].
    intros [|i] r0 H; discriminate.
  - destruct (get_name st r) as [st1 n] eqn:G.
    destruct (run st1 rs) as [st2 ns] eqn:R. simpl.
    assert (HI1 : Inv st1) by (pose proof (get_name_inv st r HI) as H; now rewrite G in H).
    assert (Hmono1 : forall it, In it (items st) -> In it (items st1)).
    { intros it Hin. unfold get_name in G. destruct (find_item (r_id r) (items st)).
      - injection G as <- _. exact Hin.
      - injection G as <- _. simpl. now right. }
    assert (Hcur : exists it, In it (items st1) /\ i_id it = r_id r /\ n = ident_of it /\
                    (In it (items st) \/ from_req r it)).
    { unfold get_name in G. destruct (find_item (r_id r) (items st)) as [it|] eqn:F.
      - injection G as <- <-. apply find_item_some in F as [F1 F2]. exists it. auto.
      - injection G as <- <-. eexists. split; [simpl; left; reflexivity|].
        simpl. repeat split; auto. right. repeat split; reflexivity. }
    assert (HP1 : Prov (pre ++ [r]) st1).
    { intros it Hin. unfold get_name in G. destruct (find_item (r_id r) (items st)) eqn:F.
      - injection G as <- _. destruct (HP it Hin) as [r0 [H1 H2]]. exists r0. split; auto.
        apply in_or_app. now left.
      - injection G as <- _. simpl in Hin. destruct Hin as [<-|Hin].
        + exists r. split; [apply in_or_app; right; now left|]. repeat split; reflexivity.
        + destruct (HP it Hin) as [r0 [H1 H2]]. exists r0. split; auto. apply in_or_app. now left. }
    specialize (IH st1 (pre ++ [r]) HI1 HP1). cbv zeta in IH. rewrite R in IH. simpl in IH.
    destruct IH as (I2 & P2 & M2 & L2 & O2).
    split; [assumption|]. split; [now rewrite <- app_assoc in P2|]. split; [auto|].
    split; [now rewrite L2|].
    intros [|i] r0 H; simpl in H.
    + injection H as <-. destruct Hcur as (it & H1 & H2 & H3 & _).
      exists it. simpl. subst n. auto.
    + destruct (O2 i r0 H) as (it & H1 & H2 & H3). exists it. simpl. auto.
Qed.

(* ---------- the property-level statements ---------- *)

(* Items of one (reachable) selector state with equal directory and equal identifier are the
   same item — as long as base names contain no '~'. *)
Lemma items_injective st it1 it2 :
  Inv st -> In it1 (items st) -> In it2 (items st) ->
  no_tilde (i_base it1) -> no_tilde (i_base it2) ->
  i_dir it1 = i_dir it2 -> ident_of it1 = ident_of it2 -> it1 = it2.
Proof.
  intros [Hids Hrng Htri] H1 H2 N1 N2 Ed Ei. unfold ident_of in Ei.
  apply render_inj in Ei as [Eb Ek]; auto; try (apply Hrng; assumption).
  assert (Et : triple it1 = triple it2) by (unfold triple; congruence).
  clear - Htri H1 H2 Et. induction (items st) as [|x l IH]; [contradiction|].
  simpl in Htri. inversion Htri as [|? ? Hn Hd]; subst.
  destruct H1 as [<-|H1]; destruct H2 as [<-|H2]; auto.
  - exfalso. apply Hn. rewrite Et. now apply in_map.
  - exfalso. apply Hn. rewrite <- Et. now apply in_map.
Qed.

Definition consistent (rs : list req) : Prop :=
  forall r1 r2, In r1 rs -> In r2 rs -> r_id r1 = r_id r2 -> r1 = r2.

Lemma id_unique st it1 it2 :
  Inv st -> In it1 (items st) -> In it2 (items st) -> i_id it1 = i_id it2 -> it1 = it2.
Proof.
  intros [Hids _ _] H1 H2 E. induction (items st) as [|x l IH]; [contradiction|].
  simpl in Hids. inversion Hids as [|? ? Hn Hd]; subst.
  destruct H1 as [<-|H1]; destruct H2 as [<-|H2]; auto.
  - exfalso. apply Hn. rewrite E. now apply in_map.
  - exfalso. apply Hn. rewrite <- E. now apply in_map.
Qed.

(* Full statement over request sequences: two requests for different entities living in the
   same output directory never receive the same identifier. *)
Theorem idents_distinct : forall rs i j ri rj ni nj,
  consistent rs ->
  Forall (fun r => no_tilde (final_name (r_name r))) rs ->
  nth_error rs i = Some ri -> nth_error rs j = Some rj ->
  nth_error (run_idents rs) i = Some ni -> nth_error (run_idents rs) j = Some nj ->
  r_id ri <> r_id rj -> r_dir ri = r_dir rj -> ni <> nj.
Proof.
  intros rs i j ri rj ni nj Hc Hn Hi Hj Oi Oj Hid Hdir E.
  destruct (run_spec rs init [] inv_init) as (I & P & _ & _ & O).
  { intros it []. }
  unfold run_idents in *. simpl in P.
  destruct (O i ri Hi) as (it1 & A1 & B1 & C1).
  destruct (O j rj Hj) as (it2 & A2 & B2 & C2).
  rewrite Oi in C1. rewrite Oj in C2. injection C1 as ->. injection C2 as ->.
  destruct (P it1 A1) as (r1 & R1 & F1 & F1d & F1b).
  destruct (P it2 A2) as (r2 & R2 & F2 & F2d & F2b).
  assert (r1 = ri) by (apply Hc; auto; [eapply nth_error_In; eauto | congruence]).
  assert (r2 = rj) by (apply Hc; auto; [eapply nth_error_In; eauto | congruence]).
  subst r1 r2. rewrite Forall_forall in Hn.
  assert (it1 = it2).
  { apply (items_injective _ it1 it2 I); auto.
    - rewrite F1b. now apply Hn. - rewrite F2b. now apply Hn. - congruence. }
  subst it2. congruence.
Qed.

(* asking again returns the same identifier *)
Theorem idents_idempotent : forall rs i j ri rj,
  nth_error rs i = Some ri -> nth_error rs j = Some rj -> r_id ri = r_id rj ->
  nth_error (run_idents rs) i = nth_error (run_idents rs) j.
Proof.
  intros rs i j ri rj Hi Hj E.
  destruct (run_spec rs init [] inv_init) as (I & _ & _ & _ & O).
  { intros it []. }
  unfold run_idents.
  destruct (O i ri Hi) as (it1 & A1 & B1 & C1).
  destruct (O j rj Hj) as (it2 & A2 & B2 & C2).
  assert (it1 = it2) by (apply (id_unique _ it1 it2 I); auto; congruence).
  subst. congruence.
Qed.

(* pages: distinct page-owning entities get distinct output files *)
Lemma app_inv_suffix (a b c : str) : a ++ c = b ++ c -> a = b.
Proof. apply app_inv_tail. Qed.

Theorem outfiles_distinct st it1 it2 :
  Inv st -> In it1 (items st) -> In it2 (items st) ->
  no_tilde (i_base it1) -> no_tilde (i_base it2) ->
  i_dir it1 = i_dir it2 -> outfile it1 = outfile it2 -> it1 = it2.
Proof.
  intros I H1 H2 N1 N2 Ed E. unfold outfile in E. rewrite Ed in E.
  apply app_inv_head in E. apply app_inv_head in E. apply app_inv_tail in E.
  eapply items_injective; eauto.
Qed.

(* quote is injective on 7-bit text, so anchors are as distinct as identifiers *)
Lemma hexdig_lt16_inj a b : a < 16 -> b < 16 -> hexdig a = hexdig b -> a = b.
Proof.
  intros Ha Hb.
  do 16 (destruct a as [|a]; [do 16 (destruct b as [|b]; [vm_compute; intros H; try reflexivity; discriminate|]); lia|]).
  lia.
Qed.

Lemma code_lt_256 c : code c < 256.
Proof. apply nat_ascii_bounded. Qed.

Lemma code_inj a b : code a = code b -> a = b.
Proof. unfold code. intros H. rewrite <- (ascii_nat_embedding a), <- (ascii_nat_embedding b). now rewrite H. Qed.

Lemma quote_ch_nonempty c : quote_ch c <> [].
Proof. unfold quote_ch. destruct (quote_safe c); discriminate. Qed.

Local Arguments Nat.div : simpl never.
Local Arguments Nat.modulo : simpl never.

Lemma quote_inj x y : quote x = quote y -> x = y.
Proof.
  revert y. induction x as [|a x IH]; intros [|b y] E; simpl in E; auto.
  - symmetry in E. apply app_eq_nil in E as [E _]. now apply quote_ch_nonempty in E.
  - apply app_eq_nil in E as [E _]. now apply quote_ch_nonempty in E.
  - unfold quote_ch in E.
    destruct (quote_safe a) eqn:Sa; destruct (quote_safe b) eqn:Sb; simpl in E.
    + injection E as -> E. f_equal. auto.
    + injection E as -> E. vm_compute in Sa. discriminate.
    + injection E as <- E. vm_compute in Sb. discriminate.
    + injection E as E1 E2 E. f_equal; [|auto].
      pose proof (code_lt_256 a). pose proof (code_lt_256 b).
      apply hexdig_lt16_inj in E1; [|apply Nat.div_lt_upper_bound; lia ..].
      apply hexdig_lt16_inj in E2; [|apply Nat.mod_upper_bound; lia ..].
      apply code_inj.
      rewrite (Nat.div_mod (code a) 16), (Nat.div_mod (code b) 16); lia.
Qed.

Definition no_dash (x : str) : Prop := ~ In "-"%char x.

Theorem anchors_distinct st obj1 obj2 it1 it2 :
  Inv st -> In it1 (items st) -> In it2 (items st) ->
  no_tilde (i_base it1) -> no_tilde (i_base it2) -> no_dash obj1 -> no_dash obj2 ->
  i_dir it1 = i_dir it2 -> anchor obj1 it1 = anchor obj2 it2 -> obj1 = obj2 /\ it1 = it2.
Proof.
  intros I H1 H2 N1 N2 D1 D2 Ed E. unfold anchor in E. simpl in E.
  apply split_at_first_unique in E as [-> E]; auto. split; [reflexivity|].
  apply quote_inj in E. eapply items_injective; eauto.
Qed.

(* the copied source file: out/src/<file name>; the file name is the last path component *)
Definition src_target (path : list str) : str := last path [].

Lemma src_targets_distinct p1 p2 :
  last p1 [] <> last p2 [] -> src_target p1 <> src_target p2.
Proof. auto. Qed.

Lemma src_target_refuted : exists p1 p2 : list str, p1 <> p2 /\ src_target p1 = src_target p2.
Proof. exists [s "a"; s "x.f90"], [s "b"; s "x.f90"]. split; [discriminate|reflexivity]. Qed.

(* non-vacuity: a concrete run that meets every hypothesis and exercises the counter *)
Example names_example :
  let rs := [ {| r_id := 1; r_dir := s "proc"; r_name := s "Init" |};
              {| r_id := 2; r_dir := s "proc"; r_name := s "init" |};
              {| r_id := 3; r_dir := s "module"; r_name := s "init" |};
              {| r_id := 1; r_dir := s "proc"; r_name := s "Init" |};
              {| r_id := 4; r_dir := s "interface"; r_name := s "operator(<)" |};
              {| r_id := 5; r_dir := s "program"; r_name := s "" |} ] in
  run_idents rs = [s "init"; s "init~2"; s "init"; s "init"; s "operator(lt)"; s "__unnamed__"]
  /\ consistent rs /\ Forall (fun r => no_tilde (final_name (r_name r))) rs.
Proof.
  cbv zeta. split; [vm_compute; reflexivity|]. split.
  - intros r1 r2 H1 H2 E. simpl in H1, H2.
    repeat (destruct H1 as [<-|H1]); try contradiction;
    repeat (destruct H2 as [<-|H2]); try contradiction; simpl in E; try discriminate; reflexivity.
  - repeat constructor; vm_compute; intros H; repeat (destruct H as [H|H]; [discriminate|]); exact H.
Qed.
