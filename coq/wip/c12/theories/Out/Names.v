(* Out/Names.v — model of ford.sourceform.NameSelector.get_name, FortranBase.get_dir /
   ident / anchor / get_url for page-owning entities, and the "src/" copy targets.
   Executable definitions only. *)
From Ford Require Import Base.Str.
From Coq Require Import DecimalString DecimalNat.

(* Python str(int) for a non-negative int *)
Definition dec (n : nat) : str := s (NilEmpty.string_of_uint (Nat.to_uint n)).

Definition tilde : ascii := "~"%char.

(* the name after .lower(), the four symbol replacements (dict order < > / * ) and the
   "__unnamed__" substitution *)
Definition final_name (name : str) : str :=
  let n0 := lower name in
  let n1 := replace (s "<") (s "lt") n0 in
  let n2 := replace (s ">") (s "gt") n1 in
  let n3 := replace (s "/") (s "SLASH") n2 in
  let n4 := replace (s "*") (s "ASTERISK") n3 in
  match n4 with [] => s "__unnamed__" | _ => n4 end.

(* ident = base            when it is the first entity with that (dir, base)
         = base ~ k        for the k-th one, k >= 2 *)
Definition render (base : str) (k : nat) : str :=
  if k <=? 1 then base else base ++ tilde :: dec k.

(* One registration request: Python object identity [r_id], item.get_dir() [r_dir]
   ("None" is modelled as the string "None"; no real directory has that name), item.name *)
Record req := { r_id : nat; r_dir : str; r_name : str }.

Record item := { i_id : nat; i_dir : str; i_base : str; i_k : nat }.

Record nstate := { items : list item; counts : list ((str * str) * nat) }.

Definition init : nstate := {| items := []; counts := [] |}.

Definition key_eqb (a b : str * str) : bool :=
  str_eqb (fst a) (fst b) && str_eqb (snd a) (snd b).

Fixpoint count_get (k : str * str) (m : list ((str * str) * nat)) : nat :=
  match m with
  | [] => 0
  | (k', v) :: m' => if key_eqb k k' then v else count_get k m'
  end.
Fixpoint count_set (k : str * str) (v : nat) (m : list ((str * str) * nat)) :=
  match m with
  | [] => [(k, v)]
  | (k', v') :: m' => if key_eqb k k' then (k, v) :: m' else (k', v') :: count_set k v m'
  end.

Fixpoint find_item (id : nat) (l : list item) : option item :=
  match l with
  | [] => None
  | it :: l' => if Nat.eqb id (i_id it) then Some it else find_item id l'
  end.

Definition ident_of (it : item) : str := render (i_base it) (i_k it).

Definition get_name (st : nstate) (r : req) : nstate * str :=
  match find_item (r_id r) (items st) with
  | Some it => (st, ident_of it)
  | None =>
    let base := final_name (r_name r) in
    let k := S (count_get (r_dir r, base) (counts st)) in
    let it := {| i_id := r_id r; i_dir := r_dir r; i_base := base; i_k := k |} in
    ({| items := it :: items st; counts := count_set (r_dir r, base) k (counts st) |},
     ident_of it)
  end.

Fixpoint run (st : nstate) (rs : list req) : nstate * list str :=
  match rs with
  | [] => (st, [])
  | r :: rs' =>
    let (st1, n) := get_name st r in
    let (st2, ns) := run st1 rs' in
    (st2, n :: ns)
  end.

Definition run_idents (rs : list req) : list str := snd (run init rs).

(* the output file of a page-owning entity: <dir>/<ident>.html *)
Definition outfile (it : item) : str := i_dir it ++ s "/" ++ ident_of it ++ s ".html".

(* urllib.parse.quote(x) restricted to ASCII: safe = letters digits _ . - ~ / *)
Definition hexdig (n : nat) : ascii :=
  if n <? 10 then ascii_of_nat (48 + n) else ascii_of_nat (55 + n).
Definition quote_safe (c : ascii) : bool :=
  is_alpha c || is_digit c ||
  (code c =? 95) || (code c =? 46) || (code c =? 45) || (code c =? 126) || (code c =? 47).
Definition quote_ch (c : ascii) : str :=
  if quote_safe c then [c] else ["%"%char; hexdig (code c / 16); hexdig (code c mod 16)].
Definition quote (x : str) : str := flat_map quote_ch x.

(* anchor = "<obj>-<quote(ident)>" *)
Definition anchor (obj : str) (it : item) : str := obj ++ s "-" ++ quote (ident_of it).
