(* Base/StrFacts.v — lemmas about Base/Str.v *)
From Ford Require Import Base.Str.
From Coq Require Import Lia.

Lemma str_eqb_refl a : str_eqb a a = true.
Proof. induction a as [|c a IH]; simpl; [reflexivity|]. now rewrite Ascii.eqb_refl, IH. Qed.

Lemma str_eqb_eq a b : str_eqb a b = true <-> a = b.
Proof.
  split.
  - revert b; induction a as [|c a IH]; intros [|d b] H; simpl in H; try discriminate; auto.
    apply andb_true_iff in H as [H1 H2]. apply Ascii.eqb_eq in H1. subst. f_equal. auto.
  - intros ->. apply str_eqb_refl.
Qed.

Lemma str_eqb_neq a b : str_eqb a b = false <-> a <> b.
Proof.
  split.
  - intros H E. apply str_eqb_eq in E. congruence.
  - intros H. destruct (str_eqb a b) eqn:E; auto. apply str_eqb_eq in E. contradiction.
Qed.

Lemma list_eqb_eq {A} (eqb : A -> A -> bool) :
  (forall x y, eqb x y = true <-> x = y) ->
  forall a b, list_eqb eqb a b = true <-> a = b.
Proof.
  intros Heq a. induction a as [|x a IH]; intros [|y b]; simpl; split; intros H;
    try discriminate; auto.
  - apply andb_true_iff in H as [H1 H2]. apply Heq in H1. apply IH in H2. subst. reflexivity.
  - injection H as -> ->. apply andb_true_iff. split; [now apply Heq | now apply IH].
Qed.

Lemma s_inj x y : s x = s y -> x = y.
Proof.
  unfold s. intros H.
  rewrite <- (string_of_list_ascii_of_string x), <- (string_of_list_ascii_of_string y).
  now rewrite H.
Qed.

(* a list is split in a unique way at the first occurrence of a character *)
Lemma split_at_first_unique (c : ascii) (a1 a2 b1 b2 : str) :
  ~ In c a1 -> ~ In c a2 -> a1 ++ c :: b1 = a2 ++ c :: b2 -> a1 = a2 /\ b1 = b2.
Proof.
  revert a2. induction a1 as [|x a1 IH]; intros [|y a2] H1 H2 E; simpl in *.
  - injection E as ->. auto.
  - injection E as -> _. exfalso. apply H2. now left.
  - injection E as -> _. exfalso. apply H1. now left.
  - injection E as -> E. destruct (IH a2) as [-> ->]; auto.
Qed.
