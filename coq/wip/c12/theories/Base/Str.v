(* Base/Str.v — strings as lists of 7-bit characters, with the handful of
   Python str operations the FORD models need.  Executable definitions only;
   lemmas about them live in Base/StrFacts.v. *)
From Coq Require Export Ascii String Bool Arith List.
Export ListNotations.

Definition str := list ascii.
Definition s (x : string) : str := list_ascii_of_string x.

Definition ch_eqb (a b : ascii) : bool := Ascii.eqb a b.

Fixpoint str_eqb (a b : str) : bool :=
  match a, b with
  | [], [] => true
  | x :: a', y :: b' => Ascii.eqb x y && str_eqb a' b'
  | _, _ => false
  end.

Fixpoint list_eqb {A} (eqb : A -> A -> bool) (a b : list A) : bool :=
  match a, b with
  | [], [] => true
  | x :: a', y :: b' => eqb x y && list_eqb eqb a' b'
  | _, _ => false
  end.

Definition opt_eqb {A} (eqb : A -> A -> bool) (a b : option A) : bool :=
  match a, b with
  | None, None => true
  | Some x, Some y => eqb x y
  | _, _ => false
  end.

Definition pair_eqb {A B} (ea : A -> A -> bool) (eb : B -> B -> bool)
  (a b : A * B) : bool := ea (fst a) (fst b) && eb (snd a) (snd b).

Definition code (c : ascii) : nat := nat_of_ascii c.

Definition is_upper (c : ascii) : bool := (65 <=? code c) && (code c <=? 90).
Definition is_lower (c : ascii) : bool := (97 <=? code c) && (code c <=? 122).
Definition is_alpha (c : ascii) : bool := is_upper c || is_lower c.
Definition is_digit (c : ascii) : bool := (48 <=? code c) && (code c <=? 57).
Definition is_word (c : ascii) : bool :=
  is_alpha c || is_digit c || (code c =? 95).
(* Python str.isspace on ASCII: \t \n \v \f \r, FS GS RS US, space *)
Definition is_space (c : ascii) : bool :=
  ((9 <=? code c) && (code c <=? 13)) || ((28 <=? code c) && (code c <=? 32)).

Definition lower_ch (c : ascii) : ascii :=
  if is_upper c then ascii_of_nat (code c + 32) else c.
Definition upper_ch (c : ascii) : ascii :=
  if is_lower c then ascii_of_nat (code c - 32) else c.
Definition lower (x : str) : str := map lower_ch x.
Definition upper (x : str) : str := map upper_ch x.

Fixpoint starts_with (p x : str) : bool :=
  match p, x with
  | [], _ => true
  | a :: p', b :: x' => Ascii.eqb a b && starts_with p' x'
  | _ :: _, [] => false
  end.

(* Python str.replace(old, new) for non-empty old: leftmost, non-overlapping *)
Fixpoint replace_fuel (fuel : nat) (old new x : str) : str :=
  match fuel with
  | 0 => x
  | S f =>
    match x with
    | [] => []
    | c :: x' =>
      if starts_with old x
      then new ++ replace_fuel f old new (skipn (length old) x)
      else c :: replace_fuel f old new x'
    end
  end.
Definition replace (old new x : str) : str :=
  match old with [] => x | _ => replace_fuel (S (length x)) old new x end.

Fixpoint lstrip (x : str) : str :=
  match x with
  | c :: x' => if is_space c then lstrip x' else x
  | [] => []
  end.
Definition rstrip (x : str) : str := rev (lstrip (rev x)).
Definition strip (x : str) : str := rstrip (lstrip x).

Fixpoint str_in (x : str) (l : list str) : bool :=
  match l with
  | [] => false
  | y :: l' => str_eqb x y || str_in x l'
  end.

Fixpoint join (sep : str) (l : list str) : str :=
  match l with
  | [] => []
  | [x] => x
  | x :: l' => x ++ sep ++ join sep l'
  end.

(* decimal rendering of a nat (Python str(int)) *)
Fixpoint digits_fuel (fuel n : nat) (acc : str) : str :=
  match fuel with
  | 0 => acc
  | S f =>
    let d := ascii_of_nat (48 + n mod 10) in
    if n <? 10 then d :: acc else digits_fuel f (n / 10) (d :: acc)
  end.
Definition str_of_nat (n : nat) : str := digits_fuel (S n) n [].

(* association lists keyed by strings; later entries do not shadow: lookup
   returns the first match, [assoc_set] replaces in place or appends. *)
Fixpoint assoc_get {V} (k : str) (m : list (str * V)) : option V :=
  match m with
  | [] => None
  | (k', v) :: m' => if str_eqb k k' then Some v else assoc_get k m'
  end.
Fixpoint assoc_set {V} (k : str) (v : V) (m : list (str * V)) : list (str * V) :=
  match m with
  | [] => [(k, v)]
  | (k', v') :: m' =>
    if str_eqb k k' then (k, v) :: m' else (k', v') :: assoc_set k v m'
  end.

(* generic reporting for the correspondence files: indices with non-zero code *)
Fixpoint nonzero_from (i : nat) (l : list nat) : list (nat * nat) :=
  match l with
  | [] => []
  | 0 :: l' => nonzero_from (S i) l'
  | c :: l' => (i, c) :: nonzero_from (S i) l'
  end.
Definition report (l : list nat) : list (nat * nat) := nonzero_from 0 l.

(* verdict codes used by every Corr/<id>.v judge:
   bit 0: the model disagrees with the implementation (correspondence broken)
   bit 1: the implementation's output violates the property (spec predicate false)
   bits 2..: number of the known region the input lies in (0 = none) *)
Definition verdict (model_mismatch spec_violation : bool) (region : nat) : nat :=
  (if model_mismatch then 1 else 0) + (if spec_violation then 2 else 0) + 4 * region.
