(* Base/Order.v — lexicographic orders on lists, insertion sort, and the fact that sorting
   erases the order of the input: two permutations of one list sort to the same list when the
   order is total, transitive and antisymmetric on the elements present.
   (Python: sorted() over str / over pathlib.PurePath, whose comparison is the list comparison
   of the path components.)   Definitions and their basic facts; no axioms. *)
From Coq Require Import List Bool Arith Lia Permutation Sorted.
From Ford Require Import Base.Str.
Import ListNotations.

(* lexicographic "less or equal" from a strict element order; elements that are not related
   either way are treated as equal (the instances below are trichotomous) *)
Fixpoint lex_leb {A} (lt : A -> A -> bool) (a b : list A) : bool :=
  match a, b with
  | [], _ => true
  | _ :: _, [] => false
  | x :: a', y :: b' => if lt x y then true else if lt y x then false else lex_leb lt a' b'
  end.

Definition ch_ltb (x y : ascii) : bool := code x <? code y.

(* Python str comparison on 7-bit text: by code point, shorter prefix first *)
Definition str_leb (a b : str) : bool := lex_leb ch_ltb a b.
Definition str_ltb (a b : str) : bool := negb (str_leb b a).

(* pathlib.PurePosixPath comparison: the lists of components *)
Definition path_leb (a b : list str) : bool := lex_leb str_ltb a b.

Fixpoint insert {A} (leb : A -> A -> bool) (x : A) (l : list A) : list A :=
  match l with
  | [] => [x]
  | y :: l' => if leb x y then x :: l else y :: insert leb x l'
  end.

Fixpoint isort {A} (leb : A -> A -> bool) (l : list A) : list A :=
  match l with
  | [] => []
  | x :: l' => insert leb x (isort leb l')
  end.

(* ------------------------------------------------------------------ order properties *)

Definition total {A} (leb : A -> A -> bool) : Prop := forall a b, leb a b = true \/ leb b a = true.
Definition transitive {A} (leb : A -> A -> bool) : Prop :=
  forall a b c, leb a b = true -> leb b c = true -> leb a c = true.
Definition antisym_on {A} (leb : A -> A -> bool) (l : list A) : Prop :=
  forall a b, In a l -> In b l -> leb a b = true -> leb b a = true -> a = b.

(* a strict order usable as the element order of lex_leb *)
Record strict {A} (lt : A -> A -> bool) : Prop := {
  st_irrefl : forall a, lt a a = false;
  st_trans : forall a b c, lt a b = true -> lt b c = true -> lt a c = true;
  st_tri : forall a b, lt a b = false -> lt b a = false -> a = b }.

Lemma strict_asym {A} (lt : A -> A -> bool) : strict lt -> forall a b, lt a b = true -> lt b a = false.
Proof.
  intros S a b H. destruct (lt b a) eqn:E; [|reflexivity].
  pose proof (st_trans lt S a b a H E) as K. now rewrite (st_irrefl lt S) in K.
Qed.

Lemma lex_leb_refl {A} (lt : A -> A -> bool) : strict lt -> forall a, lex_leb lt a a = true.
Proof. intros S a. induction a as [|x a IH]; simpl; [reflexivity|]. now rewrite (st_irrefl lt S). Qed.

Lemma lex_leb_total {A} (lt : A -> A -> bool) : strict lt -> total (lex_leb lt).
Proof.
  intros S a. induction a as [|x a IH]; intros [|y b]; simpl; auto.
  destruct (lt x y) eqn:E1; [auto|]. destruct (lt y x) eqn:E2; [auto|]. apply IH.
Qed.

Lemma lex_leb_antisym {A} (lt : A -> A -> bool) : strict lt ->
  forall a b, lex_leb lt a b = true -> lex_leb lt b a = true -> a = b.
Proof.
  intros S a. induction a as [|x a IH]; intros [|y b] H1 H2; simpl in *; try discriminate; auto.
  destruct (lt x y) eqn:E1.
  - rewrite (strict_asym lt S _ _ E1) in H2. discriminate.
  - destruct (lt y x) eqn:E2; [discriminate|].
    rewrite (st_tri lt S x y E1 E2). f_equal. apply IH; assumption.
Qed.

Lemma lex_leb_trans {A} (lt : A -> A -> bool) : strict lt -> transitive (lex_leb lt).
Proof.
  intros S a. induction a as [|x a IH]; intros [|y b] [|z c] H1 H2; simpl in *; try discriminate; auto.
  destruct (lt x y) eqn:Exy.
  - destruct (lt y z) eqn:Eyz.
    + now rewrite (st_trans lt S _ _ _ Exy Eyz).
    + destruct (lt z y) eqn:Ezy; [discriminate|].
      rewrite (st_tri lt S y z Eyz Ezy) in Exy. now rewrite Exy.
  - destruct (lt y x) eqn:Eyx; [discriminate|].
    pose proof (st_tri lt S x y Exy Eyx) as ->.
    destruct (lt y z) eqn:Eyz; [reflexivity|].
    destruct (lt z y) eqn:Ezy; [discriminate|]. eapply IH; eassumption.
Qed.

(* the strict order derived from a total, transitive, antisymmetric lex order *)
Lemma lex_strict {A} (lt : A -> A -> bool) : strict lt ->
  strict (fun a b => negb (lex_leb lt b a)).
Proof.
  intros S. split.
  - intros a. now rewrite lex_leb_refl.
  - intros a b c H1 H2. apply negb_true_iff in H1, H2. apply negb_true_iff.
    destruct (lex_leb lt c a) eqn:E; [|reflexivity].
    (* c <= a, and a <= b by totality, so c <= b: contradiction with H2 *)
    destruct (lex_leb_total lt S a b) as [T|T]; [|congruence].
    pose proof (lex_leb_trans lt S _ _ _ E T). congruence.
  - intros a b H1 H2. apply negb_false_iff in H1, H2. now apply (lex_leb_antisym lt S).
Qed.

Lemma ch_ltb_strict : strict ch_ltb.
Proof.
  unfold ch_ltb. split.
  - intros a. apply Nat.ltb_irrefl.
  - intros a b c H1 H2. apply Nat.ltb_lt in H1, H2. apply Nat.ltb_lt. lia.
  - intros a b H1 H2. apply Nat.ltb_ge in H1, H2.
    assert (E : code a = code b) by lia. unfold code in E.
    rewrite <- (ascii_nat_embedding a), <- (ascii_nat_embedding b). now rewrite E.
Qed.

Lemma str_ltb_strict : strict str_ltb.
Proof. exact (lex_strict ch_ltb ch_ltb_strict). Qed.

Lemma str_leb_total : total str_leb.
Proof. exact (lex_leb_total _ ch_ltb_strict). Qed.
Lemma str_leb_trans : transitive str_leb.
Proof. exact (lex_leb_trans _ ch_ltb_strict). Qed.
Lemma str_leb_antisym a b : str_leb a b = true -> str_leb b a = true -> a = b.
Proof. exact (lex_leb_antisym _ ch_ltb_strict a b). Qed.

Lemma path_leb_total : total path_leb.
Proof. exact (lex_leb_total _ str_ltb_strict). Qed.
Lemma path_leb_trans : transitive path_leb.
Proof. exact (lex_leb_trans _ str_ltb_strict). Qed.
Lemma path_leb_antisym a b : path_leb a b = true -> path_leb b a = true -> a = b.
Proof. exact (lex_leb_antisym _ str_ltb_strict a b). Qed.

(* ------------------------------------------------------------------ insertion sort *)

Lemma insert_perm {A} (leb : A -> A -> bool) x l : Permutation (x :: l) (insert leb x l).
Proof.
  induction l as [|y l IH]; simpl; [apply Permutation_refl|].
  destruct (leb x y); [apply Permutation_refl|].
  eapply perm_trans; [apply perm_swap|]. now apply perm_skip.
Qed.

Lemma isort_perm {A} (leb : A -> A -> bool) l : Permutation l (isort leb l).
Proof.
  induction l as [|x l IH]; simpl; [constructor|].
  eapply perm_trans; [apply perm_skip, IH|]. apply insert_perm.
Qed.

Definition lebP {A} (leb : A -> A -> bool) (a b : A) : Prop := leb a b = true.

Lemma insert_sorted {A} (leb : A -> A -> bool) : total leb -> transitive leb ->
  forall x l, StronglySorted (lebP leb) l -> StronglySorted (lebP leb) (insert leb x l).
Proof.
  intros T R x l. induction l as [|y l IH]; intros H; simpl.
  - constructor; [constructor|constructor].
  - inversion H as [|? ? Hs Hf]; subst. destruct (leb x y) eqn:E.
    + constructor; [assumption|]. constructor; [exact E|].
      rewrite Forall_forall in *. intros z Hz. eapply R; [exact E|]. now apply Hf.
    + constructor; [now apply IH|].
      assert (Eyx : leb y x = true) by (destruct (T x y); congruence).
      rewrite Forall_forall in *. intros z Hz.
      apply (Permutation_in _ (Permutation_sym (insert_perm leb x l))) in Hz.
      destruct Hz as [<-|Hz]; [exact Eyx|now apply Hf].
Qed.

Lemma isort_sorted {A} (leb : A -> A -> bool) : total leb -> transitive leb ->
  forall l, StronglySorted (lebP leb) (isort leb l).
Proof.
  intros T R l. induction l as [|x l IH]; simpl; [constructor|]. now apply insert_sorted.
Qed.

Lemma sorted_perm_unique {A} (leb : A -> A -> bool) :
  forall l1 l2, StronglySorted (lebP leb) l1 -> StronglySorted (lebP leb) l2 ->
    Permutation l1 l2 -> antisym_on leb l1 -> l1 = l2.
Proof.
  induction l1 as [|x l1 IH]; intros l2 S1 S2 P AS.
  - apply Permutation_nil in P. now subst.
  - destruct l2 as [|y l2]; [apply Permutation_sym, Permutation_nil in P; discriminate|].
    inversion S1 as [|? ? S1' F1]; subst. inversion S2 as [|? ? S2' F2]; subst.
    rewrite Forall_forall in F1, F2.
    assert (Exy : x = y).
    { assert (Hy : In y (x :: l1)) by (eapply Permutation_in; [apply Permutation_sym, P|now left]).
      assert (Hx : In x (y :: l2)) by (eapply Permutation_in; [exact P|now left]).
      destruct Hy as [Hy|Hy]; [assumption|]. destruct Hx as [Hx|Hx]; [now symmetry|].
      apply AS; [now left|now right|now apply F1|now apply F2]. }
    subst y. f_equal. apply IH; auto.
    + eapply Permutation_cons_inv; exact P.
    + intros a b Ha Hb. apply AS; now right.
Qed.

(* sorting erases the enumeration order *)
Theorem isort_perm_invariant {A} (leb : A -> A -> bool) :
  total leb -> transitive leb ->
  forall l1 l2, Permutation l1 l2 -> antisym_on leb l1 -> isort leb l1 = isort leb l2.
Proof.
  intros T R l1 l2 P AS. apply (sorted_perm_unique leb); try now apply isort_sorted.
  - eapply perm_trans; [apply Permutation_sym, (isort_perm leb)|].
    eapply perm_trans; [exact P|apply isort_perm].
  - intros a b Ha Hb.
    apply AS; (eapply Permutation_in; [apply Permutation_sym, (isort_perm leb)|assumption]).
Qed.

Lemma isort_sorted_id {A} (leb : A -> A -> bool) :
  total leb -> transitive leb ->
  forall l, StronglySorted (lebP leb) l -> antisym_on leb l -> isort leb l = l.
Proof.
  intros T R l S AS. symmetry. apply (sorted_perm_unique leb); auto.
  - now apply isort_sorted. - apply isort_perm.
Qed.
