#!/bin/bash
# build the C13 drafts against the real Base: ./build.sh [first-file-index]
cd /verif/coq/wip/c13
files=(Out/Graph Out/GraphSpec Out/GraphProofs Out/GraphExamples Corr/C13 Props/C13)
start=${1:-0}
for ((i=start;i<${#files[@]};i++)); do
  f=${files[$i]}
  echo "COQC $f"
  timeout 900 coqc -Q theories Ford theories/$f.v 2>&1 | grep -v "^Closed under" | tail -40
  [ ${PIPESTATUS[0]} -eq 0 ] || { echo "FAILED $f"; exit 1; }
done
