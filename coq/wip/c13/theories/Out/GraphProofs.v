(* Out/GraphProofs.v — proofs about the graph model (Out/Graph.v) against its Spec (Out/GraphSpec.v). *)
From Coq Require Import NArith Lia.
From Ford Require Import Base.Str Out.Graph Out.GraphSpec.

Local Arguments Nat.div : simpl never.

(* ================================================================== lists as sets *)
Lemma memn_In a l : memn a l = true <-> In a l.
Proof.
  unfold memn. rewrite existsb_exists. split.
  - intros (x & Hx & E). apply Nat.eqb_eq in E. subst. exact Hx.
  - intros H. exists a. split; [exact H | apply Nat.eqb_refl].
Qed.
Lemma memn_false a l : memn a l = false <-> ~ In a l.
Proof. rewrite <- memn_In. destruct (memn a l); split; congruence. Qed.

Lemma nd_In l x : In x (nd l) <-> In x l.
Proof. apply nodup_In. Qed.
Lemma nd_NoDup l : NoDup (nd l).
Proof. apply NoDup_nodup. Qed.

Lemma union_In a b x : In x (union a b) <-> In x a \/ In x b.
Proof.
  unfold union. rewrite in_app_iff, filter_In. split.
  - intros [H | [H _]]; auto.
  - intros [H | H]; auto. destruct (memn x a) eqn:E.
    + left. apply memn_In. exact E.
    + right. split; [exact H | cbv beta; try rewrite E; reflexivity].
Qed.

Lemma NoDup_app_intro {A} (a b : list A) :
  NoDup a -> NoDup b -> (forall x, In x a -> ~ In x b) -> NoDup (a ++ b).
Proof.
  induction a as [| x a IH]; simpl; intros Ha Hb Hd; [exact Hb |].
  inversion Ha; subst. constructor.
  - rewrite in_app_iff. intros [H | H]; [contradiction | exact (Hd x (or_introl eq_refl) H)].
  - apply IH; auto.
Qed.
Lemma NoDup_filter {A} (f : A -> bool) l : NoDup l -> NoDup (filter f l).
Proof.
  induction 1; simpl; [constructor |]. destruct (f x); auto. constructor; auto.
  rewrite filter_In. tauto.
Qed.
Lemma union_NoDup a b : NoDup a -> NoDup b -> NoDup (union a b).
Proof.
  intros Ha Hb. unfold union. apply NoDup_app_intro; auto using NoDup_filter.
  intros x Hx. rewrite filter_In. intros [_ H]. apply memn_In in Hx. cbv beta in H. rewrite Hx in H. discriminate.
Qed.
Lemma union_disjoint a b : (forall y, In y b -> ~ In y a) -> union a b = a ++ b.
Proof.
  intros H. unfold union. f_equal. induction b as [| y b IH]; simpl; [reflexivity |].
  assert (E : memn y a = false) by (apply memn_false; apply H; left; reflexivity).
  rewrite E. simpl. f_equal. apply IH. intros z Hz. apply H. right. exact Hz.
Qed.

Lemma fold_left_inv {A B} (P : A -> Prop) (f : A -> B -> A) l :
  (forall a b, In b l -> P a -> P (f a b)) -> forall a, P a -> P (fold_left f l a).
Proof.
  induction l as [| b l IH]; simpl; intros Hf a Ha; [exact Ha |].
  apply IH; [intros; apply Hf; auto | apply Hf; auto].
Qed.

(* ================================================================== reachability *)
Lemma reach_le_S R roots k x : reach_le R roots k x -> reach_le R roots (S k) x.
Proof. induction 1; [apply rl_root; assumption | eapply rl_step; eassumption]. Qed.
Lemma reach_le_mono R roots k k' x : k <= k' -> reach_le R roots k x -> reach_le R roots k' x.
Proof. induction 1; auto using reach_le_S. Qed.
Lemma reach_le_0 R roots x : reach_le R roots 0 x <-> In x roots.
Proof. split; [inversion 1; assumption | apply rl_root]. Qed.
Lemma reach_lt_le R roots m x : reach_lt R roots m x -> reach_le R roots m x.
Proof. intros (k & Hk & H). eapply reach_le_mono; [| exact H]. lia. Qed.
Lemma reach_lt_S R roots m x : reach_lt R roots (S m) x <-> reach_le R roots m x.
Proof.
  split.
  - intros (k & Hk & H). eapply reach_le_mono; [| exact H]. lia.
  - intros H. exists m. split; [lia | exact H].
Qed.
Lemma reach_lt_0 R roots x : ~ reach_lt R roots 0 x.
Proof. intros (k & Hk & _). lia. Qed.

(* once a hop adds nothing, no later hop does *)
Lemma reach_closed R roots h :
  (forall x, reach_le R roots (S h) x -> reach_le R roots h x) ->
  forall k x, reach_le R roots k x -> reach_le R roots h x.
Proof.
  intros C k x H. induction H as [k x Hr | k x y H IH Hxy]; [apply rl_root; exact Hr |].
  apply C. eapply rl_step; eassumption.
Qed.

Lemma reach_le_ext (P : nat -> Prop) (R R' : nat -> nat -> Prop) roots :
  (forall x, In x roots -> P x) ->
  (forall x y, P x -> R x y -> P y) ->
  (forall x y, P x -> (R x y <-> R' x y)) ->
  forall k x, reach_le R roots k x <-> reach_le R' roots k x.
Proof.
  intros Hr Hc He k x.
  assert (A : forall k x, reach_le R roots k x -> P x /\ reach_le R' roots k x).
  { clear k x. intros k x H. induction H as [k x Hx | k x y H [IP IH] Hxy].
    - split; [auto | apply rl_root; exact Hx].
    - split; [eapply Hc; eauto | eapply rl_step; [exact IH | apply He; assumption]]. }
  assert (B : forall k x, reach_le R' roots k x -> P x /\ reach_le R roots k x).
  { clear k x. intros k x H. induction H as [k x Hx | k x y H [IP IH] Hxy].
    - split; [auto | apply rl_root; exact Hx].
    - assert (Rxy : R x y) by (apply He; assumption).
      split; [eapply Hc; eauto | eapply rl_step; eassumption]. }
  split; intros H; [apply A | apply B]; exact H.
Qed.

(* the executable neighbourhood is the inductive one *)
Lemma reach_b_correct succs roots k x :
  In x (reach_b succs roots k) <-> reach_le (fun a b => In b (succs a)) roots k x.
Proof.
  revert x. induction k as [| k IH]; intros x; simpl.
  - symmetry. apply reach_le_0.
  - rewrite nodup_In, in_app_iff, in_flat_map. split.
    + intros [H | (a & Ha & Hx)].
      * apply reach_le_S. apply IH. exact H.
      * eapply rl_step; [apply IH; exact Ha | exact Hx].
    + intros H. inversion H; subst.
      * left. apply IH. apply rl_root. assumption.
      * right. eexists. split; [apply IH; eassumption | assumption].
Qed.

Lemma no_dangling_b_ok nodes edges : no_dangling_b nodes edges = true <-> no_dangling nodes edges.
Proof.
  unfold no_dangling_b, no_dangling. rewrite forallb_forall. split; intros H e He.
  - specialize (H e He). apply andb_true_iff in H. rewrite !memn_In in H. exact H.
  - apply andb_true_iff. rewrite !memn_In. apply H. exact He.
Qed.

(* ================================================================== one hop *)
Lemma In_hop_nodes succ added fr y :
  In y (hop_nodes succ added fr) <->
  (exists x, In x fr /\ rel_of succ x y) /\ ~ In y added.
Proof.
  unfold hop_nodes, rel_of. rewrite nd_In, filter_In, in_flat_map. split.
  - intros [H E]. split; [exact H |]. apply negb_true_iff in E. apply memn_false. exact E.
  - intros [H E]. split; [exact H |]. apply negb_true_iff. apply memn_false. exact E.
Qed.
Lemma In_hop_edges succ fr e :
  In e (hop_edges succ fr) <-> exists x, In x fr /\ edges_from succ x e.
Proof. unfold hop_edges, edges_from. apply in_flat_map. Qed.

Lemma add_nodes_eq rem nested succ maxn nesting fr g :
  add_nodes rem nested succ maxn nesting fr g =
  let hn := hop_nodes succ (g_nodes g) fr in
  let he := hop_edges succ fr in
  if (maxn <? N.of_nat (length hn + length (g_nodes g)))%N then
    mkG (g_nodes g) (g_edges g) (Some nesting)
        (if nesting <? 2 then hn else g_hopn g) (if nesting <? 2 then he else g_hope g)
  else
    let g' := mkG (union (g_nodes g) hn) (g_edges g ++ he) (g_trunc g) (g_hopn g) (g_hope g) in
    if nested then
      match hn with
      | [] => g'
      | _ =>
        match rem with
        | 0 => mkG (g_nodes g') (g_edges g') (Some nesting) (g_hopn g') (g_hope g')
        | S r => add_nodes r nested succ maxn (S nesting) hn g'
        end
      end
    else g'.
Proof. destruct rem; reflexivity. Qed.

(* ================================================================== no dangling edge *)
Lemma hop_no_dangling succ g fr :
  succ_wf succ -> incl fr (g_nodes g) -> no_dangling (g_nodes g) (g_edges g) ->
  no_dangling (union (g_nodes g) (hop_nodes succ (g_nodes g) fr)) (g_edges g ++ hop_edges succ fr).
Proof.
  intros WF Hfr Hnd e He. apply in_app_iff in He. destruct He as [He | He].
  - destruct (Hnd e He) as [A B]. rewrite !union_In. auto.
  - apply In_hop_edges in He. destruct He as (x & Hx & He).
    unfold edges_from in He. apply in_map_iff in He. destruct He as ([n e'] & E & Hin).
    simpl in E. subst e'.
    assert (Hn : In n (union (g_nodes g) (hop_nodes succ (g_nodes g) fr))).
    { apply union_In. destruct (in_dec Nat.eq_dec n (g_nodes g)) as [I | NI]; [left; exact I |].
      right. apply In_hop_nodes. split.
      - exists x. split; [exact Hx |]. unfold rel_of. apply in_map_iff. exists (n, e). auto.
      - exact NI. }
    assert (Hx' : In x (union (g_nodes g) (hop_nodes succ (g_nodes g) fr))).
    { apply union_In. left. apply Hfr. exact Hx. }
    destruct (WF x n e Hin) as [[-> ->] | [-> ->]]; auto.
Qed.

Lemma add_nodes_no_dangling succ : succ_wf succ ->
  forall rem nested maxn nesting fr g,
  incl fr (g_nodes g) -> no_dangling (g_nodes g) (g_edges g) ->
  no_dangling (g_nodes (add_nodes rem nested succ maxn nesting fr g))
              (g_edges (add_nodes rem nested succ maxn nesting fr g)).
Proof.
  intros WF rem. induction rem as [| r IH]; intros nested maxn nesting fr g Hfr Hnd;
    rewrite add_nodes_eq; cbv zeta;
    pose proof (hop_no_dangling succ g fr WF Hfr Hnd) as ND1;
    destruct (N.ltb maxn _); try exact Hnd;
    destruct nested; try exact ND1;
    destruct (hop_nodes succ (g_nodes g) fr) as [| y hn'] eqn:Ehn; try exact ND1.
  apply IH; [| exact ND1]. simpl. intros z Hz. apply union_In. right. exact Hz.
Qed.

Theorem bfs_no_dangling succ nested depth maxn roots :
  succ_wf succ ->
  no_dangling (g_nodes (bfs nested succ depth maxn roots)) (g_edges (bfs nested succ depth maxn roots)).
Proof.
  intros WF. unfold bfs. apply add_nodes_no_dangling; [exact WF | |].
  - simpl. intros x Hx. apply nd_In. exact Hx.
  - simpl. intros e [].
Qed.

(* ================================================================== exactness *)
Definition pre (succ : nat -> list (nat * edge)) (roots : list nat) (m : nat) (fr : list nat) (g : gstate) : Prop :=
  NoDup (g_nodes g) /\
  (forall x, In x (g_nodes g) <-> reach_le (rel_of succ) roots m x) /\
  incl fr (g_nodes g) /\
  (forall x, In x (g_nodes g) -> In x fr \/ reach_lt (rel_of succ) roots m x) /\
  (forall e, In e (g_edges g) <-> exists x, reach_lt (rel_of succ) roots m x /\ edges_from succ x e).

(* what a finished graph is: the h-hop neighbourhood with the edges of everything closer than h,
   where h is the configured depth D unless nothing more was reachable or one more hop would
   not fit into max_nodes *)
Definition post (succ : nat -> list (nat * edge)) (roots : list nat) (maxn : N) (D : nat) (g : gstate) : Prop :=
  exists h, h <= D /\ NoDup (g_nodes g) /\
    (forall x, In x (g_nodes g) <-> reach_le (rel_of succ) roots h x) /\
    (forall e, In e (g_edges g) <-> exists x, reach_lt (rel_of succ) roots h x /\ edges_from succ x e) /\
    (h < D ->
       (forall x, reach_le (rel_of succ) roots h x -> reach_lt (rel_of succ) roots h x)
       \/ (forall U, covers (rel_of succ) roots (S h) U -> (maxn < N.of_nat (length U))%N)).

Lemma hop_pre succ roots m fr g tr hn he :
  pre succ roots m fr g ->
  let new := hop_nodes succ (g_nodes g) fr in
  pre succ roots (S m) new (mkG (union (g_nodes g) new) (g_edges g ++ hop_edges succ fr) tr hn he) /\
  length (union (g_nodes g) new) = length (g_nodes g) + length new.
Proof.
  intros (ND & HN & Hfr & Hexp & HE) new. set (R := rel_of succ) in *.
  assert (Fnew : forall y, In y new <-> (exists x, In x fr /\ R x y) /\ ~ In y (g_nodes g)).
  { intros y. unfold new. rewrite In_hop_nodes. reflexivity. }
  assert (NDnew : NoDup new) by apply nd_NoDup.
  assert (Disj : forall y, In y new -> ~ In y (g_nodes g)) by (intros y Hy; apply Fnew in Hy; tauto).
  assert (B : forall x y, In x (g_nodes g) -> R x y -> In y (union (g_nodes g) new)).
  { intros x y Hx Hxy. apply union_In.
    destruct (in_dec Nat.eq_dec y (g_nodes g)) as [I | NI]; [left; exact I |].
    destruct (Hexp x Hx) as [Hf | Hlt].
    - right. apply Fnew. split; [exists x; auto | exact NI].
    - left. apply HN. destruct Hlt as (k & Hk & Hr).
      apply reach_le_mono with (k := S k); [lia | eapply rl_step; eassumption]. }
  assert (A : forall x, In x (union (g_nodes g) new) <-> reach_le R roots (S m) x).
  { intros x. split.
    - rewrite union_In. intros [Hx | Hx].
      + apply reach_le_S. apply HN. exact Hx.
      + apply Fnew in Hx. destruct Hx as [(z & Hz & Hzx) _].
        eapply rl_step; [apply HN; apply Hfr; exact Hz | exact Hzx].
    - intros Hx. inversion Hx; subst.
      + apply union_In. left. apply HN. apply rl_root. assumption.
      + eapply B; [apply HN; eassumption | assumption]. }
  split.
  - split; [simpl; apply union_NoDup; assumption |]. split; [exact A |]. split; [| split]; simpl.
    + intros z Hz. apply union_In. right. exact Hz.
    + intros x Hx. apply union_In in Hx. destruct Hx as [Hx | Hx].
      * right. apply reach_lt_S. apply HN. exact Hx.
      * left. exact Hx.
    + intros e. rewrite in_app_iff. split.
      * intros [He | He].
        -- apply HE in He. destruct He as (x & Hx & He). exists x. split; [| exact He].
           apply reach_lt_S. apply reach_lt_le. exact Hx.
        -- apply In_hop_edges in He. destruct He as (x & Hx & He). exists x. split; [| exact He].
           apply reach_lt_S. apply HN. apply Hfr. exact Hx.
      * intros (x & Hx & He). apply reach_lt_S in Hx. apply HN in Hx.
        destruct (Hexp x Hx) as [Hf | Hlt].
        -- right. apply In_hop_edges. exists x. auto.
        -- left. apply HE. exists x. auto.
  - rewrite (union_disjoint _ _ Disj). apply app_length.
Qed.

Lemma post_of_pre_full succ roots maxn D m fr g :
  S m <= D -> (S m < D -> fr = []) ->
  pre succ roots (S m) fr g -> post succ roots maxn D g.
Proof.
  intros HD Hfr (ND & HN & _ & Hexp & HE). exists (S m). split; [exact HD |]. split; [exact ND |].
  split; [exact HN |]. split; [exact HE |]. intros Hlt. left. intros x Hx.
  apply HN in Hx. destruct (Hexp x Hx) as [Hf | H]; [| exact H]. rewrite (Hfr Hlt) in Hf. destruct Hf.
Qed.

Lemma add_nodes_post succ maxn roots : forall rem (nested : bool) m fr g,
  pre succ roots m fr g ->
  post succ roots maxn (S m + (if nested then rem else 0))
       (add_nodes rem nested succ maxn (S m) fr g).
Proof.
  induction rem as [| r IH]; intros nested m fr g Hpre; rewrite add_nodes_eq; cbv zeta;
    destruct (hop_pre succ roots m fr g (g_trunc g) (g_hopn g) (g_hope g) Hpre) as [Hpre1 Hlen];
    cbv zeta in Hpre1, Hlen;
    destruct (N.ltb maxn (N.of_nat (length (hop_nodes succ (g_nodes g) fr) + length (g_nodes g)))) eqn:Elim.
  1, 3: (* the hop does not fit *)
    destruct Hpre as (ND & HN & _ & _ & HE); destruct Hpre1 as (ND1 & A & _);
    exists m; (split; [lia |]); (split; [exact ND |]); (split; [exact HN |]); (split; [exact HE |]);
    intros _; right; intros U HU;
    assert (Hincl : incl (union (g_nodes g) (hop_nodes succ (g_nodes g) fr)) U)
      by (intros x Hx; apply HU; apply A; exact Hx);
    pose proof (NoDup_incl_length ND1 Hincl) as Hl; simpl in Hl;
    apply N.ltb_lt in Elim; lia.
  - (* rem = 0 *)
    destruct nested.
    + destruct (hop_nodes succ (g_nodes g) fr) as [| y new'] eqn:Enew.
      * eapply post_of_pre_full; [| | exact Hpre1]; [lia | reflexivity].
      * apply post_of_pre_full with (m := m) (fr := y :: new'); [lia | lia |].
        destruct Hpre1 as (P1 & P2 & P3 & P4 & P5). repeat split; assumption || apply P2 || apply P5.
    + eapply post_of_pre_full; [| | exact Hpre1]; lia.
  - destruct nested.
    + destruct (hop_nodes succ (g_nodes g) fr) as [| y new'] eqn:Enew.
      * eapply post_of_pre_full; [| | exact Hpre1]; [lia | reflexivity].
      * replace (S m + S r) with (S (S m) + r) by lia. apply (IH true (S m)). exact Hpre1.
    + eapply post_of_pre_full; [| | exact Hpre1]; lia.
Qed.

Theorem bfs_post succ nested depth maxn roots :
  post succ roots maxn (shown_depth nested depth) (bfs nested succ depth maxn roots).
Proof.
  unfold bfs. replace (shown_depth nested depth) with (1 + (if nested then depth - 1 else 0))
    by (unfold shown_depth; destruct nested; lia).
  apply add_nodes_post. split; [apply nd_NoDup |]. split; [| split; [| split]]; simpl.
  - intros x. rewrite nd_In. symmetry. apply reach_le_0.
  - intros x Hx. apply nd_In. exact Hx.
  - intros x Hx. left. apply nd_In. exact Hx.
  - intros e. split; [intros [] | intros (x & Hx & _); exact (reach_lt_0 _ _ _ Hx)].
Qed.

(* everything expanded => nothing further is reachable *)
Lemma expanded_closed R roots h :
  (forall x, reach_le R roots h x -> reach_lt R roots h x) ->
  forall k x, reach_le R roots k x -> reach_le R roots h x.
Proof.
  intros C. apply reach_closed. intros x Hx. inversion Hx; subst; [apply rl_root; assumption |].
  match goal with H : reach_le R roots h ?z |- _ => apply C in H; destruct H as (k & Hk & H) end.
  apply reach_le_mono with (k := S k); [lia | eapply rl_step; eassumption].
Qed.
Lemma reach_lt_mono R roots m m' x : m <= m' -> reach_lt R roots m x -> reach_lt R roots m' x.
Proof. intros L (k & Hk & H). exists k. split; [lia | exact H]. Qed.

(* exact when the neighbourhood fits into max_nodes *)
Theorem bfs_exact succ nested depth maxn roots U :
  let D := shown_depth nested depth in
  covers (rel_of succ) roots D U -> (N.of_nat (length U) <= maxn)%N ->
  let g := bfs nested succ depth maxn roots in
  (forall x, In x (g_nodes g) <-> reach_le (rel_of succ) roots D x) /\
  (forall e, In e (g_edges g) <-> exists x, reach_lt (rel_of succ) roots D x /\ edges_from succ x e) /\
  NoDup (g_nodes g).
Proof.
  intros D HU Hlen g.
  destruct (bfs_post succ nested depth maxn roots) as (h & Hh & ND & HN & HE & Hlim).
  fold D in Hh, Hlim. fold g in ND, HN, HE.
  destruct (Nat.eq_dec h D) as [EhD | Hne]; [subst h; auto |].
  destruct (Hlim ltac:(lia)) as [C | L].
  - split; [| split; [| exact ND]].
    + intros x. rewrite HN. split; [apply reach_le_mono; exact Hh | apply expanded_closed; exact C].
    + intros e. rewrite HE. split; intros (x & Hx & He); exists x; (split; [| exact He]).
      * eapply reach_lt_mono; [exact Hh | exact Hx].
      * apply C. eapply expanded_closed; [exact C |]. apply reach_lt_le. exact Hx.
  - exfalso. specialize (L U). assert (H : covers (rel_of succ) roots (S h) U).
    { intros y Hy. apply HU. eapply reach_le_mono; [| exact Hy]. lia. }
    specialize (L H). lia.
Qed.

(* ================================================================== registry *)
Lemma rel_eqb_eq a b : rel_eqb a b = true <-> a = b.
Proof. destruct a, b; simpl; split; congruence. Qed.

Lemma key_in_spec a l b ls : key_in a l b ls = true <-> exists lab, In (a, l, b, lab) ls.
Proof.
  unfold key_in. rewrite existsb_exists. split.
  - intros ([[[a' l'] b'] lab] & Hin & E). unfold key_eqb in E. simpl in E.
    apply andb_true_iff in E. destruct E as [E E3]. apply andb_true_iff in E. destruct E as [E1 E2].
    apply Nat.eqb_eq in E1, E3. apply rel_eqb_eq in E2. subst. exists lab. exact Hin.
  - intros (lab & Hin). exists (a, l, b, lab). split; [exact Hin |]. unfold key_eqb. simpl.
    rewrite !Nat.eqb_refl. replace (rel_eqb l l) with true by (symmetry; apply rel_eqb_eq; reflexivity).
    reflexivity.
Qed.

Lemma own_In a l ls b lab : In (b, lab) (own a l ls) <-> In (a, l, b, lab) ls.
Proof.
  unfold own. rewrite in_flat_map. split.
  - intros ([[[a' l'] b'] lab'] & Hin & H). simpl in H.
    destruct (Nat.eqb a a') eqn:E1; simpl in H; [| destruct H].
    destruct (rel_eqb l l') eqn:E2; simpl in H; [| destruct H].
    destruct H as [H | []]. inversion H; subst. apply Nat.eqb_eq in E1. apply rel_eqb_eq in E2. subst. exact Hin.
  - intros Hin. exists (a, l, b, lab). split; [exact Hin |]. simpl. rewrite Nat.eqb_refl.
    replace (rel_eqb l l) with true by (symmetry; apply rel_eqb_eq; reflexivity). simpl. left. reflexivity.
Qed.

Definition inv_consistent (st : rstate) : Prop :=
  forall a l b lab, In (a, l, b, lab) (r_fwd st) <-> In (b, l, a, lab) (r_inv st).

Lemma link_consistent a d st : inv_consistent st -> inv_consistent (link a d st).
Proof.
  intros H. destruct d as [[l b] lab]. unfold link. simpl.
  assert (K : key_in a l b (r_fwd st) = key_in b l a (r_inv st)).
  { apply eq_true_iff_eq. rewrite !key_in_spec. split; intros (lab' & Hin); exists lab'; apply H; exact Hin. }
  rewrite <- K. intros a' l' b' lab'. simpl. destruct (key_in a l b (r_fwd st)); [apply H |].
  rewrite !in_app_iff. simpl. rewrite (H a' l' b' lab'). split; intros [Hin | [E | []]]; auto;
    inversion E; subst; right; left; reflexivity.
Qed.

Lemma create_consistent w : forall f st a, inv_consistent st -> inv_consistent (create f w st a).
Proof.
  induction f as [| f IH]; intros st a H; simpl; destruct (memn a (r_nodes st)); auto.
  apply fold_left_inv; [| exact H]. intros st1 d _ H1. apply link_consistent. apply IH. exact H1.
Qed.

Lemma states_consistent w xs : inv_consistent (fold_left (get_node w) xs r_empty).
Proof.
  apply fold_left_inv; [| intros a l b lab; simpl; tauto].
  intros st a _ H. apply create_consistent. exact H.
Qed.

(* --- monotonicity --- *)
Lemma link_nodes a d st : r_nodes (link a d st) = r_nodes st.
Proof. reflexivity. Qed.
Lemma link_fwd_mono a d st : incl (r_fwd st) (r_fwd (link a d st)).
Proof. unfold link. simpl. destruct (key_in _ _ _ (r_fwd st)); [apply incl_refl | apply incl_appl, incl_refl]. Qed.
Lemma link_err a d st : r_err (link a d st) = r_err st.
Proof. reflexivity. Qed.

Lemma create_mono w : forall f st a,
  incl (r_nodes st) (r_nodes (create f w st a)) /\ incl (r_fwd st) (r_fwd (create f w st a)) /\
  (r_err st = true -> r_err (create f w st a) = true).
Proof.
  induction f as [| f IH]; intros st a; simpl; destruct (memn a (r_nodes st));
    try (split; [apply incl_refl | split; [apply incl_refl | auto]]).
  apply (fold_left_inv (fun s => incl (r_nodes st) (r_nodes s) /\ incl (r_fwd st) (r_fwd s) /\
                                 (r_err st = true -> r_err s = true))).
  - intros s d _ (H1 & H2 & H3). destruct (IH s (d_target d)) as (I1 & I2 & I3).
    split; [| split].
    + rewrite link_nodes. eapply incl_tran; eassumption.
    + eapply incl_tran; [exact H2 |]. eapply incl_tran; [exact I2 | apply link_fwd_mono].
    + intros E. rewrite link_err. auto.
  - simpl. split; [apply incl_appl, incl_refl | split; [apply incl_refl |]]. intros ->. reflexivity.
Qed.

Lemma create_In w : forall f st a, r_err (create f w st a) = false -> In a (r_nodes (create f w st a)).
Proof.
  destruct f as [| f]; intros st a; simpl; destruct (memn a (r_nodes st)) eqn:E;
    try (intros _; apply memn_In; exact E); [simpl; discriminate |].
  intros _. apply (fold_left_inv (fun s => In a (r_nodes s))).
  - intros s d _ H. rewrite link_nodes. apply (create_mono w f s (d_target d)). exact H.
  - simpl. apply in_app_iff. right. left. reflexivity.
Qed.

(* --- soundness: every stored link is a relation declared by an existing node, and (unless a
       recursion ran dry) leads to an existing node --- *)
Definition sound (w : world) (st : rstate) : Prop :=
  forall a l b lab, In (a, l, b, lab) (r_fwd st) ->
    In a (r_nodes st) /\ In (l, b, lab) (decls w a) /\ (r_err st = false -> In b (r_nodes st)).

Lemma create_sound w : forall f st a, sound w st -> sound w (create f w st a).
Proof.
  induction f as [| f IH]; intros st a H; simpl; destruct (memn a (r_nodes st)); auto.
  { intros a' l b lab Hin. destruct (H a' l b lab Hin) as (A & B & _). split; [exact A |]. split; [exact B |].
    simpl. discriminate. }
  apply (fold_left_inv (fun s => sound w s /\ In a (r_nodes s))).
  - intros s d Hd [Hs Ha]. pose proof (IH s (d_target d) Hs) as Hs'.
    destruct (create_mono w f s (d_target d)) as (M1 & M2 & M3).
    split; [| rewrite link_nodes; apply M1; exact Ha].
    intros a' l b lab Hin. rewrite link_nodes, link_err. destruct d as [[l0 b0] lab0]. unfold link in Hin. simpl in Hin.
    assert (Hcase : In (a', l, b, lab) (r_fwd (create f w s b0)) \/ (a', l, b, lab) = (a, l0, b0, lab0)).
    { unfold d_target in *. simpl in *. destruct (key_in a l0 b0 (r_fwd (create f w s b0))); [left; exact Hin |].
      apply in_app_iff in Hin. destruct Hin as [Hin | [E | []]]; [left; exact Hin | right; symmetry; exact E]. }
    destruct Hcase as [Hin' | E].
    + apply Hs'. exact Hin'.
    + inversion E; subst. split; [apply M1; exact Ha |]. split; [exact Hd |].
      intros Herr. apply create_In. exact Herr.
  - split; [| simpl; apply in_app_iff; right; left; reflexivity].
    intros a' l b lab Hin. simpl in Hin. destruct (H a' l b lab Hin) as (A & B & C).
    split; [simpl; apply in_app_iff; left; exact A |]. split; [exact B |].
    simpl. intros E. apply orb_false_iff in E. destruct E as [E _]. apply in_app_iff. left. auto.
Qed.

Lemma states_sound w xs : sound w (fold_left (get_node w) xs r_empty).
Proof.
  apply fold_left_inv; [| intros a l b lab []].
  intros st a _ H. apply create_sound. exact H.
Qed.

(* --- completeness: once its constructor has returned, a node holds every declared relation --- *)
Definition complete (w : world) (st : rstate) (a : nat) : Prop :=
  forall l b lab, In (l, b, lab) (decls w a) -> key_in a l b (r_fwd st) = true.

Lemma key_in_mono a l b ls ls' : incl ls ls' -> key_in a l b ls = true -> key_in a l b ls' = true.
Proof. rewrite !key_in_spec. intros H (lab & Hin). exists lab. apply H. exact Hin. Qed.
Lemma complete_mono w st st' a : incl (r_fwd st) (r_fwd st') -> complete w st a -> complete w st' a.
Proof. intros H C l b lab Hd. eapply key_in_mono; [exact H | eapply C; exact Hd]. Qed.

Lemma link_key a l b lab st : key_in a l b (r_fwd (link a (l, b, lab) st)) = true.
Proof.
  unfold link. simpl. destruct (key_in a l b (r_fwd st)) eqn:E; [exact E |].
  apply key_in_spec. exists lab. apply in_app_iff. right. left. reflexivity.
Qed.

Lemma fold_left_ind2 {A B} (f : A -> B -> A) : forall (l : list B) (P : list B -> A -> Prop) (a : A),
  P [] a -> (forall pre b a, In b l -> P pre a -> P (pre ++ [b]) (f a b)) -> P l (fold_left f l a).
Proof.
  induction l as [| b l IH]; intros P a H0 Hs; simpl; [exact H0 |].
  apply (IH (fun pre => P (b :: pre))).
  - apply (Hs [] b a); [left; reflexivity | exact H0].
  - intros pre b' a' Hb' H. apply (Hs (b :: pre) b' a'); [right; exact Hb' | exact H].
Qed.

Lemma create_complete w : forall f st a stk,
  r_err (create f w st a) = false ->
  (forall x, In x (r_nodes st) -> ~ In x stk -> complete w st x) ->
  forall x, In x (r_nodes (create f w st a)) -> ~ In x stk -> complete w (create f w st a) x.
Proof.
  induction f as [| f IH]; intros st a stk; simpl; destruct (memn a (r_nodes st)) eqn:Em;
    try (intros _ HH; exact HH).
  intros Herr Hst.
  set (step := fun st1 d => link a d (create f w st1 (d_target d))) in *.
  set (st0 := mark a (snd (decls_err w a)) st) in *.
  assert (Q : r_err (fold_left step (decls w a) st0) = false ->
              (forall x, In x (r_nodes (fold_left step (decls w a) st0)) -> ~ In x (a :: stk) ->
                         complete w (fold_left step (decls w a) st0) x) /\
              (forall d, In d (decls w a) ->
                         key_in a (fst (fst d)) (snd (fst d)) (r_fwd (fold_left step (decls w a) st0)) = true)).
  { apply (fold_left_ind2 step (decls w a)
             (fun pre s => r_err s = false ->
                (forall x, In x (r_nodes s) -> ~ In x (a :: stk) -> complete w s x) /\
                (forall d, In d pre -> key_in a (fst (fst d)) (snd (fst d)) (r_fwd s) = true))).
    - intros _. split; [| intros d []]. intros x Hx Hn. unfold st0 in Hx. simpl in Hx.
      apply in_app_iff in Hx. destruct Hx as [Hx | [E | []]].
      + apply (complete_mono w st); [apply incl_refl |]. apply Hst; [exact Hx |]. intros K. apply Hn. right. exact K.
      + exfalso. apply Hn. left. exact E.
    - intros pre d s _ Hs Herr'. unfold step in Herr' |- *. rewrite link_err in Herr'.
      destruct (create_mono w f s (d_target d)) as (M1 & M2 & M3).
      assert (Es : r_err s = false) by (destruct (r_err s); [rewrite M3 in Herr'; auto | reflexivity]).
      destruct (Hs Es) as [H1 H2]. split.
      + intros x Hx Hn. rewrite link_nodes in Hx.
        eapply complete_mono; [apply link_fwd_mono |]. apply (IH s (d_target d) (a :: stk)); auto.
      + intros d' Hd'. apply in_app_iff in Hd'. destruct Hd' as [Hd' | [E | []]].
        * eapply key_in_mono; [| apply H2; exact Hd']. eapply incl_tran; [exact M2 | apply link_fwd_mono].
        * subst d'. destruct d as [[l b] lab]. simpl. apply link_key. }
  destruct (Q Herr) as [Q1 Q2]. intros x Hx Hn.
  destruct (Nat.eq_dec x a) as [-> | Hne].
  - intros l b lab Hd. exact (Q2 (l, b, lab) Hd).
  - apply Q1; [exact Hx |]. intros [E | K]; [apply Hne; symmetry; exact E | exact (Hn K)].
Qed.

Lemma states_complete w : forall xs,
  r_err (fold_left (get_node w) xs r_empty) = false ->
  forall x, In x (r_nodes (fold_left (get_node w) xs r_empty)) -> complete w (fold_left (get_node w) xs r_empty) x.
Proof.
  induction xs as [| a xs IH] using rev_ind; [intros _ x [] |].
  rewrite fold_left_app. simpl. intros Herr x Hx. unfold get_node in *.
  destruct (create_mono w (reg_fuel w) (fold_left (fun s b => create (reg_fuel w) w s b) xs r_empty) a) as (_ & _ & M3).
  apply (create_complete w _ _ a []); auto.
  intros y Hy _. apply IH; [| exact Hy].
  destruct (r_err (fold_left (fun s b => create (reg_fuel w) w s b) xs r_empty)); [rewrite M3 in Herr; auto | reflexivity].
Qed.

(* ================================================================== the twelve graph classes *)
Lemma out_edges_fst x d ns y : In y (map fst (out_edges x d ns)) <-> exists lab, In (y, lab) ns.
Proof.
  unfold out_edges. rewrite map_map. simpl. rewrite in_map_iff. split.
  - intros ([n lab] & E & H). simpl in E. subst. exists lab. exact H.
  - intros (lab & H). exists (y, lab). auto.
Qed.
Lemma in_edges_fst x d ns y : In y (map fst (in_edges x d ns)) <-> exists lab, In (y, lab) ns.
Proof.
  unfold in_edges. rewrite map_map. simpl. rewrite in_map_iff. split.
  - intros ([n lab] & E & H). simpl in E. subst. exists lab. exact H.
  - intros (lab & H). exists (y, lab). auto.
Qed.
Lemma out_edges_wf x d ns n e : In (n, e) (out_edges x d ns) -> e_tail e = x /\ e_head e = n.
Proof. unfold out_edges. rewrite in_map_iff. intros (p & E & _). inversion E; subst. auto. Qed.
Lemma in_edges_wf x d ns n e : In (n, e) (in_edges x d ns) -> e_tail e = n /\ e_head e = x.
Proof. unfold in_edges. rewrite in_map_iff. intros (p & E & _). inversion E; subst. auto. Qed.

Theorem class_succ_wf w st c : succ_wf (class_succ w st c).
Proof.
  intros x n e H. destruct c; simpl in H; try apply in_app_iff in H;
    repeat match goal with
    | H : _ \/ _ |- _ => destruct H as [H | H]
    | H : In _ (out_edges _ _ _) |- _ => left; exact (out_edges_wf _ _ _ _ _ H)
    | H : In _ (in_edges _ _ _) |- _ => right; exact (in_edges_wf _ _ _ _ _ H)
    end.
Qed.

(* the relation a class draws, in terms of the stored adjacency *)
Definition stored (st : rstate) (inv : bool) (l : rel) (x y : nat) : Prop :=
  exists lab, In (y, lab) (if inv then inv_of st l x else fwd_of st l x).

Lemma class_rel w st c x y :
  rel_of (class_succ w st c) x y <->
  exists l d, In (l, d) (rels_of_class c) /\ stored st (class_inverse c) l x y.
Proof.
  unfold rel_of, stored.
  destruct c; simpl; rewrite ?map_app, ?in_app_iff, ?out_edges_fst, ?in_edges_fst; split;
    try (intros [H | H]; [eexists; eexists; split; [left; reflexivity | exact H]
                         | eexists; eexists; split; [right; left; reflexivity | exact H]]);
    try (intros H; eexists; eexists; split; [left; reflexivity | exact H]);
    try (intros (l & d & [E | [E | []]] & H); inversion E; subst; auto);
    try (intros (l & d & [E | []] & H); inversion E; subst; auto).
Qed.

Lemma stored_inverse st l x y : inv_consistent st -> (stored st true l x y <-> stored st false l y x).
Proof.
  intros C. unfold stored, inv_of, fwd_of. split; intros (lab & H); exists lab;
    apply own_In; apply own_In in H; apply C; exact H.
Qed.

Definition inverse_of (c : gclass) : gclass :=
  match c with GUses => GUsedBy | GInherits => GInheritedBy | GCalls => GCalledBy | GEff => GAff | _ => c end.
Definition has_inverse (c : gclass) : bool :=
  match c with GUses | GInherits | GCalls | GEff => true | _ => false end.

(* the "used by" / "inherited by" / "called by" / afferent graph draws the transposed relation *)
Theorem inverse_class_rel w st c x y :
  inv_consistent st -> has_inverse c = true ->
  (rel_of (class_succ w st (inverse_of c)) x y <-> rel_of (class_succ w st c) y x).
Proof.
  intros C Hc. rewrite !class_rel.
  assert (E1 : rels_of_class (inverse_of c) = rels_of_class c) by (destruct c; try discriminate; reflexivity).
  assert (E2 : class_inverse (inverse_of c) = true) by (destruct c; try discriminate; reflexivity).
  assert (E3 : class_inverse c = false) by (destruct c; try discriminate; reflexivity).
  rewrite E1, E2, E3. split; intros (l & d & Hin & H); exists l, d; (split; [exact Hin |]);
    apply (stored_inverse st l) in H || apply (stored_inverse st l); assumption.
Qed.

(* and its edges are the same arrows (tail -> head), drawn from the other end *)
Theorem inverse_class_edges w st c x y :
  inv_consistent st -> has_inverse c = true ->
  ((exists e, In (y, e) (class_succ w st (inverse_of c) x) /\ e_tail e = y /\ e_head e = x) <->
   (exists e, In (x, e) (class_succ w st c y) /\ e_tail e = y /\ e_head e = x)).
Proof.
  intros C Hc.
  assert (L : forall cc a b, (exists e, In (b, e) (class_succ w st cc a)) <-> rel_of (class_succ w st cc) a b).
  { intros cc a b. unfold rel_of. rewrite in_map_iff. split.
    - intros (e & H). exists (b, e). auto.
    - intros ([b' e] & E & H). simpl in E. subst. exists e. exact H. }
  split; intros (e & H & _).
  - assert (R : rel_of (class_succ w st c) y x).
    { apply inverse_class_rel; auto. apply L. exists e. exact H. }
    apply L in R. destruct R as (e' & H'). exists e'. split; [exact H' |].
    destruct c; try discriminate; simpl in H'; try apply in_app_iff in H';
      repeat match goal with
      | H : _ \/ _ |- _ => destruct H as [H | H]
      | H : In _ (out_edges _ _ _) |- _ => exact (out_edges_wf _ _ _ _ _ H)
      end.
  - assert (R : rel_of (class_succ w st (inverse_of c)) x y).
    { apply inverse_class_rel; auto. apply L. exists e. exact H. }
    apply L in R. destruct R as (e' & H'). exists e'. split; [exact H' |].
    destruct c; try discriminate; simpl in H'; try apply in_app_iff in H';
      repeat match goal with
      | H : _ \/ _ |- _ => destruct H as [H | H]
      | H : In _ (in_edges _ _ _) |- _ => exact (in_edges_wf _ _ _ _ _ H)
      end.
Qed.

(* ---- against the declared relation ---- *)
Definition quiescent (w : world) (st : rstate) : Prop :=
  inv_consistent st /\ sound w st /\ r_err st = false /\ (forall x, In x (r_nodes st) -> complete w st x).

Theorem states_quiescent w xs :
  r_err (fold_left (get_node w) xs r_empty) = false -> quiescent w (fold_left (get_node w) xs r_empty).
Proof.
  intros E. split; [apply states_consistent |]. split; [apply states_sound |]. split; [exact E |].
  apply states_complete. exact E.
Qed.

Lemma stored_fwd_declared w st l x y :
  quiescent w st -> In x (r_nodes st) -> (stored st false l x y <-> declared w l x y).
Proof.
  intros (_ & S & _ & Cm) Hx. unfold stored, declared, fwd_of. split; intros (lab & H).
  - apply own_In in H. exists lab. apply (S x l y lab H).
  - apply (Cm x Hx) in H. apply key_in_spec in H. destruct H as (lab' & H). exists lab'. apply own_In. exact H.
Qed.
Lemma stored_fwd_target w st l x y : quiescent w st -> stored st false l x y -> In y (r_nodes st).
Proof.
  intros (_ & S & E & _) (lab & H). apply own_In in H. destruct (S x l y lab H) as (_ & _ & T). auto.
Qed.
Lemma stored_inv_declared w st l x y :
  quiescent w st -> (stored st true l x y <-> In y (r_nodes st) /\ declared w l y x).
Proof.
  intros Q. destruct Q as (C & S & E & Cm). rewrite (stored_inverse st l x y C).
  unfold stored, declared, fwd_of. split.
  - intros (lab & H). apply own_In in H. destruct (S y l x lab H) as (A & B & _). split; [exact A | exists lab; exact B].
  - intros (Hy & lab & H). apply (Cm y Hy) in H. apply key_in_spec in H. destruct H as (lab' & H).
    exists lab'. apply own_In. exact H.
Qed.

Lemma class_fwd_declared w st c x y :
  quiescent w st -> class_inverse c = false -> In x (r_nodes st) ->
  (rel_of (class_succ w st c) x y <-> declared_c w c x y).
Proof.
  intros Q Hc Hx. rewrite class_rel, Hc. unfold declared_c.
  split; intros (l & d & Hin & H); exists l, d; (split; [exact Hin |]);
    apply (stored_fwd_declared w st l x y Q Hx); exact H.
Qed.
Lemma class_fwd_target w st c x y :
  quiescent w st -> class_inverse c = false -> rel_of (class_succ w st c) x y -> In y (r_nodes st).
Proof.
  intros Q Hc H. apply class_rel in H. rewrite Hc in H. destruct H as (l & d & _ & H).
  eapply stored_fwd_target; eassumption.
Qed.
Lemma class_inv_declared w st c x y :
  quiescent w st -> class_inverse c = true ->
  (rel_of (class_succ w st c) x y <-> In y (r_nodes st) /\ declared_c w c y x).
Proof.
  intros Q Hc. rewrite class_rel, Hc. unfold declared_c. split.
  - intros (l & d & Hin & H). apply (stored_inv_declared w st l x y Q) in H. destruct H as [A B].
    split; [exact A |]. exists l, d. auto.
  - intros (A & l & d & Hin & B). exists l, d. split; [exact Hin |].
    apply (stored_inv_declared w st l x y Q). auto.
Qed.

(* ---- project-wide graphs leave hidden entities out ---- *)
Lemma graph_succ_nested w st c : class_nested c = true -> graph_succ w st c = class_succ w st c.
Proof. intros H. unfold graph_succ. rewrite H. reflexivity. Qed.
Lemma graph_roots_nested w c roots : class_nested c = true -> graph_roots w c roots = roots.
Proof. intros H. unfold graph_roots. rewrite H. reflexivity. Qed.

Theorem graph_succ_wf w st c : succ_wf (graph_succ w st c).
Proof.
  intros x n e H. unfold graph_succ in H. destruct (class_nested c).
  - exact (class_succ_wf w st c x n e H).
  - apply filter_In in H. exact (class_succ_wf w st c x n e (proj1 H)).
Qed.

(* what a project-wide graph may draw: both ends shown *)
Definition both_shown (w : world) (c : gclass) (x y : nat) : Prop :=
  class_nested c = false -> shown w x = true /\ shown w y = true.

Lemma graph_rel w st c x y :
  rel_of (graph_succ w st c) x y <-> rel_of (class_succ w st c) x y /\ both_shown w c x y.
Proof.
  unfold rel_of, graph_succ, both_shown. destruct (class_nested c) eqn:En.
  - split; [intros H; split; [exact H | discriminate] | tauto].
  - rewrite !in_map_iff. split.
    + intros ([n e] & E & H). simpl in E. subst n. apply filter_In in H. destruct H as [Hin Hs]. simpl in Hs.
      apply andb_true_iff in Hs. destruct Hs as [Hs Hh]. apply andb_true_iff in Hs. destruct Hs as [Hy Ht].
      split; [exists (y, e); auto |]. intros _. split; [| exact Hy].
      destruct (class_succ_wf w st c x y e Hin) as [[E1 E2] | [E1 E2]]; congruence.
    + intros [([n e] & E & Hin) Hb]. simpl in E. subst n. destruct (Hb eq_refl) as [Hx Hy].
      exists (y, e). split; [reflexivity |]. apply filter_In. split; [exact Hin |]. simpl.
      destruct (class_succ_wf w st c x y e Hin) as [[E1 E2] | [E1 E2]]; rewrite E1, E2, Hx, Hy; reflexivity.
Qed.

Lemma graph_roots_In w c roots x :
  In x (graph_roots w c roots) <-> In x roots /\ (class_nested c = false -> shown w x = true).
Proof.
  unfold graph_roots. destruct (class_nested c).
  - split; [intros H; split; [exact H | discriminate] | tauto].
  - rewrite filter_In. split; intros [A B]; split; auto.
Qed.

(* `graph: false`: an entity that opted out is in no project-wide graph, whatever refers to it *)
Theorem graph_false_hidden w st q x :
  class_nested (q_class q) = false -> shown w x = false -> ~ In x (g_nodes (graph_of w st q)).
Proof.
  intros Hn Hx Hin. unfold graph_of in Hin. rewrite Hn in Hin.
  destruct (bfs_post (graph_succ w st (q_class q)) false (max_depth (q_limits q)) (max_nodes (q_limits q))
                     (graph_roots w (q_class q) (q_roots q))) as (h & _ & _ & HN & _).
  apply HN in Hin. clear HN. induction Hin as [k y Hy | k y z Hy IH Hyz].
  - apply graph_roots_In in Hy. destruct Hy as [_ Hs]. rewrite (Hs Hn) in Hx. discriminate.
  - apply graph_rel in Hyz. destruct Hyz as [_ Hb]. destruct (Hb Hn) as [_ Hz]. rewrite Hz in Hx. discriminate.
Qed.

(* a forward graph shows the declared relation (between shown entities, for project-wide graphs): with
   enough room, exactly the D-hop neighbourhood *)
Theorem forward_graph_declared w st c depth maxn roots U :
  quiescent w st -> class_inverse c = false -> incl roots (r_nodes st) ->
  let R := fun x y => declared_c w c x y /\ both_shown w c x y in
  let roots' := graph_roots w c roots in
  let D := shown_depth (class_nested c) depth in
  covers R roots' D U -> (N.of_nat (length U) <= maxn)%N ->
  let g := bfs (class_nested c) (graph_succ w st c) depth maxn roots' in
  (forall x, In x (g_nodes g) <-> reach_le R roots' D x) /\
  (forall e, In e (g_edges g) <->
     exists x, reach_lt R roots' D x /\ edges_from (graph_succ w st c) x e) /\
  no_dangling (g_nodes g) (g_edges g).
Proof.
  intros Q Hc Hroots R roots' D HU Hlen g.
  assert (Ext : forall k x, reach_le (rel_of (graph_succ w st c)) roots' k x <-> reach_le R roots' k x).
  { apply (reach_le_ext (fun x => In x (r_nodes st))).
    - intros x Hx. apply graph_roots_In in Hx. apply Hroots. tauto.
    - intros x y _ H. apply graph_rel in H. eapply class_fwd_target; [exact Q | exact Hc | exact (proj1 H)].
    - intros x y Hx. rewrite graph_rel. unfold R. rewrite (class_fwd_declared w st c x y Q Hc Hx). reflexivity. }
  assert (HU' : covers (rel_of (graph_succ w st c)) roots' D U) by (intros x Hx; apply HU; apply Ext; exact Hx).
  destruct (bfs_exact (graph_succ w st c) (class_nested c) depth maxn roots' U HU' Hlen) as (A & B & _).
  fold g in A, B. split; [| split].
  - intros x. rewrite A. apply Ext.
  - intros e. rewrite B. split; intros (x & (k & Hk & Hx) & He); exists x; (split; [| exact He]);
      exists k; (split; [exact Hk |]); apply Ext; exact Hx.
  - apply bfs_no_dangling. apply graph_succ_wf.
Qed.

(* an inverse graph shows the transposed declared relation among the nodes that exist when it is built *)
Theorem inverse_graph_declared w st c depth maxn roots U :
  quiescent w st -> class_inverse c = true ->
  let Rinv := fun x y => In y (r_nodes st) /\ declared_c w c y x in
  let D := shown_depth (class_nested c) depth in
  covers Rinv roots D U -> (N.of_nat (length U) <= maxn)%N ->
  let g := bfs (class_nested c) (class_succ w st c) depth maxn roots in
  (forall x, In x (g_nodes g) <-> reach_le Rinv roots D x) /\
  no_dangling (g_nodes g) (g_edges g).
Proof.
  intros Q Hc Rinv D HU Hlen g.
  assert (Ext : forall k x, reach_le (rel_of (class_succ w st c)) roots k x <-> reach_le Rinv roots k x).
  { apply (reach_le_ext (fun _ => True)); auto.
    intros x y _. apply class_inv_declared; assumption. }
  assert (HU' : covers (rel_of (class_succ w st c)) roots D U) by (intros x Hx; apply HU; apply Ext; exact Hx).
  destruct (bfs_exact (class_succ w st c) (class_nested c) depth maxn roots U HU' Hlen) as (A & _ & _).
  fold g in A. split.
  - intros x. rewrite A. apply Ext.
  - apply bfs_no_dangling. apply class_succ_wf.
Qed.

(* every arrow of a forward graph is a declared relation tail -> head (also the file graph) *)
Theorem forward_edges_declared w xs q e :
  class_inverse (q_class q) = false ->
  In e (g_edges (graph_of w (fold_left (get_node w) xs r_empty) q)) ->
  declared_c w (q_class q) (e_tail e) (e_head e).
Proof.
  intros Hc He. unfold graph_of in He.
  destruct (bfs_post (graph_succ w (fold_left (get_node w) xs r_empty) (q_class q)) (class_nested (q_class q))
                     (max_depth (q_limits q)) (max_nodes (q_limits q))
                     (graph_roots w (q_class q) (q_roots q))) as (h & _ & _ & _ & HE & _).
  apply HE in He. destruct He as (x & _ & He). unfold edges_from in He. apply in_map_iff in He.
  destruct He as ([n e'] & E & Hin). simpl in E. subst e'.
  assert (Hin' : In (n, e) (class_succ w (fold_left (get_node w) xs r_empty) (q_class q) x)).
  { unfold graph_succ in Hin. destruct (class_nested (q_class q)); [exact Hin | apply filter_In in Hin; tauto]. }
  assert (Hrel : rel_of (class_succ w (fold_left (get_node w) xs r_empty) (q_class q)) x n).
  { unfold rel_of. apply in_map_iff. exists (n, e). auto. }
  assert (Hdir : e_tail e = x /\ e_head e = n).
  { destruct (q_class q); try discriminate; simpl in Hin'; try apply in_app_iff in Hin';
      repeat match goal with
      | H : _ \/ _ |- _ => destruct H as [H | H]
      | H : In _ (out_edges _ _ _) |- _ => exact (out_edges_wf _ _ _ _ _ H)
      end. }
  destruct Hdir as [-> ->].
  apply class_rel in Hrel. rewrite Hc in Hrel. destruct Hrel as (l & d & Hl & (lab & Hs)).
  unfold fwd_of in Hs. apply own_In in Hs. destruct (states_sound w xs x l n lab Hs) as (_ & Hd & _).
  exists l, d. split; [exact Hl |]. exists lab. exact Hd.
Qed.

(* ================================================================== the fuelled recursions never run dry *)
Definition keys (w : world) : list nat := map fst w.
Definition unseen (w : world) (vis : list nat) : nat :=
  length (filter (fun k => negb (memn k vis)) (nd (keys w))).

Lemma filter_len_le {A} (f g : A -> bool) l :
  (forall x, In x l -> f x = true -> g x = true) -> length (filter f l) <= length (filter g l).
Proof.
  induction l as [| x l IH]; simpl; intros H; [lia |].
  assert (IH' : length (filter f l) <= length (filter g l)) by (apply IH; intros; apply H; auto).
  destruct (f x) eqn:Ef.
  - rewrite (H x (or_introl eq_refl) Ef). simpl. lia.
  - destruct (g x); simpl; lia.
Qed.
Lemma filter_len_lt {A} (f g : A -> bool) l x :
  (forall y, In y l -> f y = true -> g y = true) -> In x l -> f x = false -> g x = true ->
  length (filter f l) < length (filter g l).
Proof.
  induction l as [| y l IH]; simpl; intros H Hin Ef Eg; [destruct Hin |].
  destruct Hin as [-> | Hin].
  - rewrite Ef, Eg. simpl. assert (length (filter f l) <= length (filter g l)); [| lia].
    apply filter_len_le. intros; apply H; auto.
  - assert (IH' : length (filter f l) < length (filter g l)) by (apply IH; auto).
    destruct (f y) eqn:Efy.
    + rewrite (H y (or_introl eq_refl) Efy). simpl. lia.
    + destruct (g y); simpl; lia.
Qed.
Lemma filter_len_all {A} (f : A -> bool) l : length (filter f l) <= length l.
Proof. induction l as [| x l IH]; simpl; [lia |]. destruct (f x); simpl; lia. Qed.

Lemma unseen_mono w vis vis' : incl vis vis' -> unseen w vis' <= unseen w vis.
Proof.
  intros H. unfold unseen. apply filter_len_le. intros x _ E. apply negb_true_iff in E. apply negb_true_iff.
  apply memn_false. apply memn_false in E. intros K. apply E. apply H. exact K.
Qed.
Lemma unseen_lt w vis c : In c (keys w) -> ~ In c vis -> unseen w (c :: vis) < unseen w vis.
Proof.
  intros Hk Hn. unfold unseen. apply filter_len_lt with (x := c).
  - intros y _ E. apply negb_true_iff in E. apply negb_true_iff. apply memn_false. apply memn_false in E.
    intros K. apply E. right. exact K.
  - apply nd_In. exact Hk.
  - apply negb_false_iff. apply memn_In. left. reflexivity.
  - apply negb_true_iff. apply memn_false. exact Hn.
Qed.
Lemma unseen_bound w vis : unseen w vis <= length w.
Proof.
  unfold unseen. eapply Nat.le_trans; [apply filter_len_all |].
  unfold keys. rewrite <- (map_length fst w). apply NoDup_incl_length; [apply nd_NoDup |].
  intros x Hx. apply (proj1 (nd_In _ _)) in Hx. exact Hx.
Qed.

Lemma find_ent_key w a e : find_ent w a = Some e -> In a (keys w).
Proof.
  induction w as [| [k e'] w IH]; simpl; [discriminate |]. destruct (Nat.eqb a k) eqn:E.
  - intros _. left. apply Nat.eqb_eq in E. auto.
  - intros H. right. apply IH. exact H.
Qed.
Lemma not_call_node_key w c : is_call_node w c = false -> In c (keys w).
Proof.
  unfold is_call_node, vis_dflt, simple_binding. destruct (find_ent w c) eqn:E; [intros _; eapply find_ent_key; eassumption |].
  simpl. discriminate.
Qed.

Lemma call_nodes_ok w : forall f calls (st : cstate),
  snd st = false -> unseen w (fst (fst st)) < f ->
  snd (call_nodes f w calls st) = false /\ incl (fst (fst st)) (fst (fst (call_nodes f w calls st))).
Proof.
  induction f as [| f IH]; intros calls st E Hf; [lia |]. simpl.
  apply (fold_left_inv (fun s : cstate => snd s = false /\ incl (fst (fst st)) (fst (fst s))));
    [| split; [exact E | apply incl_refl]].
  intros s c _ [Es Hi]. destruct (memn c (fst (fst s))) eqn:Em; [split; assumption |].
  destruct (is_call_node w c) eqn:Ec.
  - simpl. split; [exact Es |]. intros x Hx. right. apply Hi. exact Hx.
  - assert (Hlt : unseen w (c :: fst (fst s)) < f).
    { pose proof (unseen_lt w (fst (fst s)) c (not_call_node_key w c Ec) (proj1 (memn_false _ _) Em)).
      pose proof (unseen_mono w _ _ Hi). lia. }
    destruct (IH (sub_calls w c) (c :: fst (fst s), snd (fst s), snd s) Es Hlt) as [A B]. split; [exact A |].
    intros x Hx. apply B. simpl. right. apply Hi. exact Hx.
Qed.

Theorem get_call_nodes_no_error w calls : snd (get_call_nodes w calls) = false.
Proof.
  change (snd (call_nodes (call_fuel w) w calls ([], [], false)) = false).
  apply call_nodes_ok; [reflexivity |]. cbn [fst snd].
  pose proof (unseen_bound w []). unfold call_fuel. lia.
Qed.

(* every node get_call_nodes returns is one that is drawn: visible and not a simple binding *)
Lemma call_nodes_sound w : forall f calls (st : cstate) c,
  In c (snd (fst (call_nodes f w calls st))) -> In c (snd (fst st)) \/ is_call_node w c = true.
Proof.
  induction f as [| f IH]; intros calls st c; simpl.
  - destruct calls; simpl; auto.
  - apply (fold_left_inv (fun s : cstate => In c (snd (fst s)) -> In c (snd (fst st)) \/ is_call_node w c = true));
      [| auto].
    intros s x _ Hs. destruct (memn x (fst (fst s))); [exact Hs |].
    destruct (is_call_node w x) eqn:Ex.
    + simpl. intros H. apply in_app_iff in H. destruct H as [H | [-> | []]]; auto.
    + intros H. apply IH in H. simpl in H. destruct H as [H | H]; auto.
Qed.
Theorem get_call_nodes_sound w calls c : In c (fst (get_call_nodes w calls)) -> is_call_node w c = true.
Proof.
  change (In c (snd (fst (call_nodes (call_fuel w) w calls ([], [], false)))) -> is_call_node w c = true).
  intros H. apply call_nodes_sound in H. destruct H as [[] | H]. exact H.
Qed.

Lemma decls_err_false w a : snd (decls_err w a) = false.
Proof.
  unfold decls_err. destruct (find_ent w a); [| reflexivity]. destruct (e_str e); [reflexivity |].
  destruct (e_kind e); cbn [snd]; try reflexivity; apply get_call_nodes_no_error.
Qed.
Lemma decls_key w a d : In d (decls w a) -> In a (keys w).
Proof.
  unfold decls, decls_err. destruct (find_ent w a) eqn:E; [intros _; eapply find_ent_key; eassumption | intros []].
Qed.

Lemma create_no_err w : forall f st a,
  r_err st = false -> unseen w (r_nodes st) < f -> r_err (create f w st a) = false.
Proof.
  induction f as [| f IH]; intros st a E Hf; [lia |]. simpl.
  destruct (memn a (r_nodes st)) eqn:Em; [exact E |].
  apply (fold_left_inv (fun s => r_err s = false /\ incl (r_nodes st ++ [a]) (r_nodes s))
                       (fun st1 d => link a d (create f w st1 (d_target d))) (decls w a)).
  - intros s d Hd [Es Hi]. rewrite link_err, link_nodes.
    assert (Hlt : unseen w (r_nodes s) < f).
    { pose proof (unseen_mono w _ _ Hi) as M1.
      assert (M2 : unseen w (r_nodes st ++ [a]) <= unseen w (a :: r_nodes st)).
      { apply unseen_mono. intros x [-> | Hx]; apply in_app_iff; [right; left; reflexivity | left; exact Hx]. }
      pose proof (unseen_lt w (r_nodes st) a (decls_key w a d Hd) (proj1 (memn_false _ _) Em)). lia. }
    split; [apply IH; assumption |].
    eapply incl_tran; [exact Hi | apply (create_mono w f s (d_target d))].
  - simpl. rewrite E, decls_err_false. split; [reflexivity | apply incl_refl].
Qed.

Theorem states_no_error w xs : r_err (fold_left (get_node w) xs r_empty) = false.
Proof.
  apply fold_left_inv; [| reflexivity]. intros st a _ E. unfold get_node. apply create_no_err; [exact E |].
  pose proof (unseen_bound w (r_nodes st)). unfold reg_fuel. lia.
Qed.

Theorem states_quiescent' w xs : quiescent w (fold_left (get_node w) xs r_empty).
Proof. apply states_quiescent. apply states_no_error. Qed.

(* ================================================================== statements as used by Props/C13.v *)
Theorem registry_inverse w xs a l b lab :
  In (b, lab) (fwd_of (fold_left (get_node w) xs r_empty) l a) <->
  In (a, lab) (inv_of (fold_left (get_node w) xs r_empty) l b).
Proof. unfold fwd_of, inv_of. rewrite !own_In. apply states_consistent. Qed.

Theorem inverse_graph_rel w xs c x y :
  has_inverse c = true ->
  (rel_of (class_succ w (fold_left (get_node w) xs r_empty) (inverse_of c)) x y <->
   rel_of (class_succ w (fold_left (get_node w) xs r_empty) c) y x) /\
  ((exists e, In (y, e) (class_succ w (fold_left (get_node w) xs r_empty) (inverse_of c) x) /\ e_tail e = y /\ e_head e = x) <->
   (exists e, In (x, e) (class_succ w (fold_left (get_node w) xs r_empty) c y) /\ e_tail e = y /\ e_head e = x)).
Proof.
  intros Hc. split; [apply inverse_class_rel | apply inverse_class_edges]; auto using states_consistent.
Qed.

Theorem inverse_graph_is_bfs_of_inverse w xs c depth maxn roots U :
  has_inverse c = true ->
  let st := fold_left (get_node w) xs r_empty in
  let R := rel_of (class_succ w st c) in
  let D := shown_depth true depth in
  covers (inverse R) roots D U -> (N.of_nat (length U) <= maxn)%N ->
  let g := bfs true (class_succ w st (inverse_of c)) depth maxn roots in
  (forall x, In x (g_nodes g) <-> reach_le (inverse R) roots D x) /\
  (forall e, In e (g_edges g) -> R (e_tail e) (e_head e)) /\
  no_dangling (g_nodes g) (g_edges g).
Proof.
  intros Hc st R D HU Hlen g.
  assert (Ext : forall k x, reach_le (rel_of (class_succ w st (inverse_of c))) roots k x <-> reach_le (inverse R) roots k x).
  { apply (reach_le_ext (fun _ => True)); auto. intros x y _. apply inverse_class_rel; [apply states_consistent | exact Hc]. }
  assert (HU' : covers (rel_of (class_succ w st (inverse_of c))) roots D U) by (intros x Hx; apply HU; apply Ext; exact Hx).
  destruct (bfs_exact (class_succ w st (inverse_of c)) true depth maxn roots U HU' Hlen) as (A & B & _).
  split; [| split].
  - intros x. unfold g. rewrite A. apply Ext.
  - intros e He. apply B in He. destruct He as (x & _ & He). unfold edges_from in He.
    apply in_map_iff in He. destruct He as ([n e'] & E & Hin). simpl in E. subst e'.
    assert (Hrel : rel_of (class_succ w st (inverse_of c)) x n).
    { unfold rel_of. apply in_map_iff. exists (n, e). auto. }
    apply (inverse_class_rel w st c x n (states_consistent w xs) Hc) in Hrel.
    assert (Hdir : e_tail e = n /\ e_head e = x).
    { destruct c; try discriminate; simpl in Hin; try apply in_app_iff in Hin;
        repeat match goal with
        | H : _ \/ _ |- _ => destruct H as [H | H]
        | H : In _ (in_edges _ _ _) |- _ => exact (in_edges_wf _ _ _ _ _ H)
        end. }
    destruct Hdir as [-> ->]. exact Hrel.
  - apply bfs_no_dangling. apply class_succ_wf.
Qed.

Theorem graph_no_dangling w st q : no_dangling (g_nodes (graph_of w st q)) (g_edges (graph_of w st q)).
Proof. unfold graph_of. apply bfs_no_dangling. apply graph_succ_wf. Qed.

(* ---- no node is created late: asking for a node that exists changes nothing ---- *)
Lemma get_node_existing w st a : In a (r_nodes st) -> get_node w st a = st.
Proof.
  intros H. unfold get_node, reg_fuel. simpl. apply memn_In in H. rewrite H. reflexivity.
Qed.
Theorem no_late_nodes w st later : incl later (r_nodes st) -> fold_left (get_node w) later st = st.
Proof.
  induction later as [| a later IH]; simpl; intros H; [reflexivity |].
  rewrite get_node_existing by (apply H; left; reflexivity). apply IH. intros x Hx. apply H. right. exact Hx.
Qed.
Lemma registry_has_regs w regs b : In b regs -> In b (r_nodes (registry w regs)).
Proof.
  unfold registry. intros Hb. apply in_split in Hb. destruct Hb as (l1 & l2 & ->).
  rewrite fold_left_app. simpl.
  assert (M : forall l st, incl (r_nodes st) (r_nodes (fold_left (get_node w) l st))).
  { induction l as [| a l IH]; simpl; intros st; [apply incl_refl |].
    eapply incl_tran; [apply (create_mono w (reg_fuel w) st a) | apply IH]. }
  apply M. apply create_In.
  change (r_err (fold_left (get_node w) [b] (fold_left (get_node w) l1 r_empty)) = false).
  rewrite <- fold_left_app. apply states_no_error.
Qed.

(* with every later root created beforehand (as graph_all now does), the "called by" graph of a
   registered b contains every entity that has a node anywhere in the run and declares a call of b *)
Theorem inverse_complete w regs later b lims a :
  incl later (r_nodes (registry w regs)) ->
  In b regs -> In a (r_nodes (fold_left (get_node w) later (registry w regs))) ->
  declared_c w GCalledBy a b ->
  (N.of_nat (length (r_nodes (registry w regs))) <= max_nodes lims)%N ->
  In a (g_nodes (graph_of w (registry w regs) (mkQ GCalledBy [b] lims))).
Proof.
  intros Hl Hb Ha Hd Hfit. rewrite (no_late_nodes w _ later Hl) in Ha.
  unfold graph_of. simpl.
  destruct (inverse_graph_declared w (registry w regs) GCalledBy (max_depth lims) (max_nodes lims) [b]
              (r_nodes (registry w regs))) as [A _].
  - apply states_quiescent'.
  - reflexivity.
  - intros x Hx. inversion Hx; subst.
    + match goal with K : In x [b] |- _ => destruct K as [<- | []] end. apply registry_has_regs. exact Hb.
    + match goal with K : _ /\ _ |- _ => exact (proj1 K) end.
  - exact Hfit.
  - apply A. apply reach_le_mono with (k := 1); [apply Nat.le_max_l |].
    eapply rl_step; [apply rl_root; left; reflexivity |]. split; assumption.
Qed.
