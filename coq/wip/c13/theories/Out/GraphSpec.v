(* Out/GraphSpec.v — what property C13 demands of a graph, written from the property text
   (reachability within k hops, induced edges, inverse relation), not from ford/graphs.py.
   Definitions only. *)
From Coq Require Import NArith.
From Ford Require Import Base.Str Out.Graph.

(* nodes within k hops of the roots along R *)
Inductive reach_le (R : nat -> nat -> Prop) (roots : list nat) : nat -> nat -> Prop :=
| rl_root : forall k x, In x roots -> reach_le R roots k x
| rl_step : forall k x y, reach_le R roots k x -> R x y -> reach_le R roots (S k) y.

(* nodes strictly closer than m hops: the ones whose own edges a graph of m hops draws *)
Definition reach_lt (R : nat -> nat -> Prop) (roots : list nat) (m x : nat) : Prop :=
  exists k, k < m /\ reach_le R roots k x.

Definition inverse (R : nat -> nat -> Prop) : nat -> nat -> Prop := fun x y => R y x.

(* every edge joins two nodes of the graph *)
Definition no_dangling (nodes : list nat) (edges : list edge) : Prop :=
  forall e, In e edges -> In (e_tail e) nodes /\ In (e_head e) nodes.

(* a list covers the (k)-hop neighbourhood *)
Definition covers (R : nat -> nat -> Prop) (roots : list nat) (k : nat) (U : list nat) : Prop :=
  forall x, reach_le R roots k x -> In x U.

(* the relation a successor function draws, and the edges it draws from x *)
Definition rel_of (succ : nat -> list (nat * edge)) : nat -> nat -> Prop :=
  fun x y => In y (map fst (succ x)).
Definition edges_from (succ : nat -> list (nat * edge)) (x : nat) (e : edge) : Prop :=
  In e (map snd (succ x)).
(* each drawn edge joins the expanded node and the neighbour it was drawn for *)
Definition succ_wf (succ : nat -> list (nat * edge)) : Prop :=
  forall x n e, In (n, e) (succ x) ->
    (e_tail e = x /\ e_head e = n) \/ (e_tail e = n /\ e_head e = x).

(* depth shown for graph_maxdepth = d: at least the direct neighbours *)
Definition shown_depth (nested : bool) (d : nat) : nat := if nested then Nat.max 1 d else 1.

(* ---- the relations of the property text, read off the entity records ---- *)
Definition rels_of_class (c : gclass) : list (rel * bool) :=      (* relation, dashed *)
  match c with
  | GModule | GUses | GUsedBy => [(RUses, true); (RAnc, false)]
  | GFile | GEff | GAff => [(REff, true)]
  | GType | GInherits | GInheritedBy => [(RComp, true); (RAnc, false)]
  | GCall | GCalls | GCalledBy => [(RCalls, false); (RIface, true)]
  end.
Definition class_inverse (c : gclass) : bool :=
  match c with GUsedBy | GAff | GInheritedBy | GCalledBy => true | _ => false end.

(* x --l--> y is a relation derived from the source *)
Definition declared (w : world) (l : rel) (x y : nat) : Prop := exists lab, In (l, y, lab) (decls w x).
Definition declared_c (w : world) (c : gclass) (x y : nat) : Prop :=
  exists l d, In (l, d) (rels_of_class c) /\ declared w l x y.

(* ---- executable counterparts used by the correspondence judge ---- *)
Fixpoint reach_b (succs : nat -> list nat) (roots : list nat) (k : nat) : list nat :=
  match k with
  | 0 => roots
  | S k' => let r := reach_b succs roots k' in nodup Nat.eq_dec (r ++ flat_map succs r)
  end.
Definition no_dangling_b (nodes : list nat) (edges : list edge) : bool :=
  forallb (fun e => memn (e_tail e) nodes && memn (e_head e) nodes) edges.
Definition subset_b (a b : list nat) : bool := forallb (fun x => memn x b) a.
Definition set_eqb (a b : list nat) : bool := subset_b a b && subset_b b a.

(* successors along the relations of class c, given the declaration table [dl] *)
Definition declared_succ_f (dl : nat -> list decl) (c : gclass) (x : nat) : list nat :=
  flat_map (fun d => if existsb (fun r => rel_eqb (fst r) (fst (fst d))) (rels_of_class c)
                     then [d_target d] else []) (dl x).
(* predecessors among a given universe of entities *)
Definition declared_pred_f (dl : nat -> list decl) (c : gclass) (univ : list nat) (x : nat) : list nat :=
  filter (fun y => memn x (declared_succ_f dl c y)) univ.
Definition declared_succ (w : world) : gclass -> nat -> list nat := declared_succ_f (decls w).
Definition declared_pred (w : world) : gclass -> list nat -> nat -> list nat := declared_pred_f (decls w).
