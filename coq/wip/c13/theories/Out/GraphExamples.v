(* Out/GraphExamples.v — concrete worlds: non-vacuity examples for the C13 theorems and the
   witnesses that refute the full statements (each replayed on the real code by the harness). *)
From Coq Require Import NArith Lia.
From Ford Require Import Base.Str Out.Graph Out.GraphSpec Out.GraphProofs.

(* ------------------------------------------------------------------ helpers *)
Ltac in_list := vm_compute; solve [repeat (first [left; reflexivity | right])].
Ltac not_in H := vm_compute in H; intuition discriminate.
Ltac in_list_hyp := vm_compute; intuition (subst; auto 10).

Lemma covers_by_reach_b (R : nat -> nat -> Prop) succs roots D U :
  (forall x y, R x y <-> In y (succs x)) ->
  forallb (fun x => memn x U) (reach_b succs roots D) = true ->
  covers R roots D U.
Proof.
  intros HR H x Hx. rewrite forallb_forall in H. apply memn_In. apply H. apply reach_b_correct.
  revert Hx. apply (reach_le_ext (fun _ => True)); auto. intros a b _. symmetry. apply HR.
Qed.

Lemma declared_succ_spec w c x y : In y (declared_succ w c x) <-> declared_c w c x y.
Proof.
  unfold declared_succ, declared_succ_f, declared_c, declared. rewrite in_flat_map. split.
  - intros ([[l b] lab] & Hd & H). simpl in H.
    destruct (existsb (fun r => rel_eqb (fst r) l) (rels_of_class c)) eqn:E; [| destruct H].
    destruct H as [H | []]. unfold d_target in H. simpl in H. subst b.
    apply existsb_exists in E. destruct E as ([l' d] & Hin & El). simpl in El. apply rel_eqb_eq in El. subst l'.
    exists l, d. split; [exact Hin |]. exists lab. exact Hd.
  - intros (l & d & Hin & lab & Hd). exists (l, y, lab). split; [exact Hd |]. simpl.
    replace (existsb (fun r => rel_eqb (fst r) l) (rels_of_class c)) with true; [left; reflexivity |].
    symmetry. apply existsb_exists. exists (l, d). split; [exact Hin |]. simpl. apply rel_eqb_eq. reflexivity.
Qed.

Definition ent0 (k : kind) (name : str) : ent :=
  mkEnt k false name None None [] None [] [] [] (Some true) false false [] [] None [] true.
Definition mod_ (name : str) (uses : list nat) : ent :=
  mkEnt KMod false name None None uses None [] [] [] (Some true) false false [] [] None [] true.
Definition proc_ (name : str) (calls : list nat) : ent :=
  mkEnt KProc false name None None [] None [] calls [] (Some true) false false (s "Subroutine") [] None [] true.
Definition file_ (name : str) (deps : list nat) : ent :=
  mkEnt KFile false name None None [] None [] [] [] (Some true) false false [] [] None deps true.

(* ------------------------------------------------------------------ a diamond with a cycle of calls *)
(* modules 1 -> 2, 1 -> 3, 2 -> 4, 3 -> 4 (diamond), 5 alone; procedures 6 -> 7 -> 8 -> 6 (cycle), 8 -> 8 *)
Definition w_ex : world :=
  [(1, mod_ (s "m1") [2; 3]); (2, mod_ (s "m2") [4]); (3, mod_ (s "m3") [4]); (4, mod_ (s "m4") []);
   (5, mod_ (s "m5") []); (6, proc_ (s "p6") [7]); (7, proc_ (s "p7") [8]); (8, proc_ (s "p8") [6; 8])].
Definition regs_ex : list nat := [6; 7; 8; 1; 2; 3; 4; 5].
Definition st_ex : rstate := registry w_ex regs_ex.

Example ex_registry_nontrivial :
  r_nodes st_ex = [6; 7; 8; 1; 2; 4; 3; 5] /\ length (r_fwd st_ex) = 8 /\ length (r_inv st_ex) = 8 /\
  r_err st_ex = false.
Proof. vm_compute. auto. Qed.

Example ex_inverse_stored :
  In (4, []) (fwd_of st_ex RUses 2) /\ In (2, []) (inv_of st_ex RUses 4) /\
  In (6, []) (fwd_of st_ex RCalls 8) /\ In (8, []) (inv_of st_ex RCalls 6).
Proof. repeat split; in_list. Qed.

(* the uses graph of m1: two hops reach the whole diamond; it fits into 10 nodes *)
Example ex_bfs_exact_hyps :
  covers (rel_of (class_succ w_ex st_ex GUses)) [1] (shown_depth true 2) [1; 2; 3; 4] /\
  (N.of_nat (length [1; 2; 3; 4]) <= 10)%N /\
  g_nodes (bfs true (class_succ w_ex st_ex GUses) 2 10 [1]) = [1; 2; 3; 4] /\
  length (g_edges (bfs true (class_succ w_ex st_ex GUses) 2 10 [1])) = 4.
Proof.
  split; [| vm_compute; split; [discriminate | auto]].
  apply (covers_by_reach_b _ (fun x => map fst (class_succ w_ex st_ex GUses x))); [intros; reflexivity |].
  vm_compute. reflexivity.
Qed.

(* depth 1 cuts after one hop, a limit of 3 nodes refuses the second hop *)
Example ex_node_limit :
  g_nodes (bfs true (class_succ w_ex st_ex GUses) 5 3 [1]) = [1; 2; 3] /\
  g_trunc (bfs true (class_succ w_ex st_ex GUses) 5 3 [1]) = Some 2 /\
  g_nodes (bfs true (class_succ w_ex st_ex GUses) 0 10 [1]) = [1; 2; 3] /\
  g_trunc (bfs true (class_succ w_ex st_ex GUses) 0 10 [1]) = Some 1 /\
  g_nodes (bfs true (class_succ w_ex st_ex GUses) 5 2 [1]) = [1] /\
  g_hopn (bfs true (class_succ w_ex st_ex GUses) 5 2 [1]) = [2; 3].
Proof. vm_compute. repeat split. Qed.

(* the cycle terminates: called-by graph of p6 *)
Example ex_cycle :
  g_nodes (bfs true (class_succ w_ex st_ex GCalledBy) 10 100 [6]) = [6; 8; 7] /\
  length (g_edges (bfs true (class_succ w_ex st_ex GCalledBy) 10 100 [6])) = 4.
Proof. vm_compute. auto. Qed.

Example ex_forward_declared_hyps :
  quiescent w_ex st_ex /\ class_inverse GCalls = false /\ incl [6] (r_nodes st_ex) /\
  covers (fun x y => declared_c w_ex GCalls x y /\ both_shown w_ex GCalls x y)
         (graph_roots w_ex GCalls [6]) (shown_depth (class_nested GCalls) 4) [6; 7; 8] /\
  (N.of_nat (length [6; 7; 8]) <= 5)%N.
Proof.
  split; [apply states_quiescent' |]. split; [reflexivity |].
  split; [intros x [<- | []]; in_list |]. split; [| vm_compute; discriminate].
  apply (covers_by_reach_b _ (declared_succ w_ex GCalls)).
  - intros x y. rewrite declared_succ_spec. unfold both_shown. simpl. split; [tauto | intros H; split; [exact H | discriminate]].
  - vm_compute. reflexivity.
Qed.

Example ex_inverse_declared_hyps :
  quiescent w_ex st_ex /\ class_inverse GUsedBy = true /\
  covers (fun x y => In y (r_nodes st_ex) /\ declared_c w_ex GUsedBy y x) [4]
         (shown_depth (class_nested GUsedBy) 3) [4; 2; 3; 1] /\
  (N.of_nat (length [4; 2; 3; 1]) <= 4)%N.
Proof.
  split; [apply states_quiescent' |]. split; [reflexivity |]. split; [| vm_compute; discriminate].
  apply (covers_by_reach_b _ (declared_pred w_ex GUsedBy (r_nodes st_ex))).
  - intros x y. unfold declared_pred, declared_pred_f. rewrite filter_In, memn_In.
    fold (declared_succ w_ex GUsedBy y). rewrite declared_succ_spec. reflexivity.
  - vm_compute. reflexivity.
Qed.

Example ex_call_nodes :
  (* an invisible procedure 2 between 1 and 3 is skipped: 1 is drawn calling 3 *)
  let w := [(1, proc_ (s "a") [2]);
            (2, mkEnt KProc false (s "hidden") None None [] None [] [3] [] (Some false) false false
                      (s "Subroutine") [] None [] true);
            (3, proc_ (s "c") [])] in
  get_call_nodes w [2] = ([3], false) /\ is_call_node w 3 = true /\ is_call_node w 2 = false.
Proof. vm_compute. auto. Qed.

(* ------------------------------------------------------------------ graph: false *)
(* b = 2 opted out (graph: false), c = 3 uses it: b is in no project-wide graph, but still in c's own *)
Definition mod_hidden (name : str) (uses : list nat) : ent :=
  mkEnt KMod false name None None uses None [] [] [] (Some true) false false [] [] None [] false.
Definition w_gf : world := [(1, mod_ (s "a") []); (2, mod_hidden (s "b") [1]); (3, mod_ (s "c") [2])].

Example ex_graph_false :
  shown w_gf 2 = false /\
  g_nodes (graph_of w_gf (registry w_gf [1; 3]) (mkQ GModule [1; 3] [(3, 100%N)])) = [1; 3] /\
  g_edges (graph_of w_gf (registry w_gf [1; 3]) (mkQ GModule [1; 3] [(3, 100%N)])) = [] /\
  g_nodes (graph_of w_gf (registry w_gf [1; 3]) (mkQ GUses [3] [(3, 100%N)])) = [3; 2; 1].
Proof. vm_compute. repeat split. Qed.

(* ------------------------------------------------------------------ callers are created beforehand *)
(* q = 1, host = 2 (registered); the visible internal procedure inner = 3 calls q; graph_all now creates
   the node of inner before any per-entity graph, so q's "called by" graph has it *)
Definition r123 : list nat := [1; 2; 3].
Definition w_lazy : world := [(1, proc_ (s "q") []); (2, proc_ (s "host") []); (3, proc_ (s "inner") [1])].
Example ex_inverse_complete_hyps :
  incl [1; 2; 3] (r_nodes (registry w_lazy [1; 2; 3])) /\ In 1 [1; 2; 3] /\
  In 3 (r_nodes (fold_left (get_node w_lazy) [1; 2; 3] (registry w_lazy [1; 2; 3]))) /\
  declared_c w_lazy GCalledBy 3 1 /\
  N.le (N.of_nat (length (r_nodes (registry w_lazy r123)))) (max_nodes [(3, 100%N)]) /\
  g_nodes (graph_of w_lazy (registry w_lazy [1; 2; 3]) (mkQ GCalledBy [1] [(3, 100%N)])) = [1; 3].
Proof.
  split; [intros x Hx; revert Hx; in_list_hyp |]. split; [in_list |]. split; [in_list |].
  split; [apply declared_succ_spec; in_list |]. split; [vm_compute; discriminate | vm_compute; reflexivity].
Qed.

(* ------------------------------------------------------------------ file graph direction *)
Definition w_file : world := [(1, file_ (s "a.f90") []); (2, file_ (s "b.f90") [1])].
(* b.f90 depends on a.f90: the arrow points from b.f90 to a.f90, as the legend says *)
Example ex_filegraph : g_edges (graph_of w_file (registry w_file [1; 2]) (mkQ GFile [1; 2] [(3, 100%N)])) = [mkE 2 1 false []].
Proof. vm_compute. reflexivity. Qed.
Example ex_forward_edges_declared_hyp :
  class_inverse (q_class (mkQ GFile [1; 2] [(3, 100%N)])) = false /\
  In (mkE 2 1 false []) (g_edges (graph_of w_file (fold_left (get_node w_file) [1; 2] r_empty) (mkQ GFile [1; 2] [(3, 100%N)]))).
Proof. split; [reflexivity | in_list]. Qed.

(* ------------------------------------------------------------------ call graph and the node limit *)
(* three procedures calling each other, limit 4: the three nodes fit and all three arrows are drawn *)
Definition w_cg : world := [(1, proc_ (s "p0") [2]); (2, proc_ (s "p1") [3]); (3, proc_ (s "p2") [1])].
Example ex_callgraph_limit :
  g_nodes (graph_of w_cg (registry w_cg r123) (mkQ GCall r123 [(3, 4%N)])) = [1; 2; 3] /\
  length (g_edges (graph_of w_cg (registry w_cg r123) (mkQ GCall r123 [(3, 4%N)]))) = 3 /\
  g_trunc (graph_of w_cg (registry w_cg r123) (mkQ GCall r123 [(3, 4%N)])) = None.
Proof. vm_compute. repeat split. Qed.
