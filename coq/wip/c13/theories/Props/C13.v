(* Props/C13.v — property C13: every graph shows exactly the relation it is documented to show.
   Statements only; proofs are in Out/GraphProofs.v and Out/GraphExamples.v (non-vacuity examples
   named ex_..., among them the former refutation witnesses, now showing the repaired behaviour).
   Model: Out/Graph.v (ford/graphs.py), Spec: Out/GraphSpec.v.
   All theorems are unbounded: any world (relation), any sequence of node requests, any depth /
   node limit.  "States" are the registries reachable from the empty one by GraphData.get_node /
   register calls: fold_left (get_node w) xs r_empty. *)
From Coq Require Import NArith.
From Ford Require Import Base.Str Out.Graph Out.GraphSpec Out.GraphProofs Out.GraphExamples.

(* --- the registry ------------------------------------------------------------------------- *)

(* uses/used_by, ancestor/children, comp_types/comp_of, calls/called_by, interfaces/interfaced_by,
   efferent/afferent are inverse to each other (with equal labels) after any sequence of lazy
   node creations, for every relation l and all nodes a, b. *)
Theorem C13_inverse : forall w xs a l b lab,
  In (b, lab) (fwd_of (fold_left (get_node w) xs r_empty) l a) <->
  In (a, lab) (inv_of (fold_left (get_node w) xs r_empty) l b).
Proof. exact registry_inverse. Qed.
Print Assumptions C13_inverse.

(* the fuelled recursions of the model (get_call_nodes, node creation) never run dry *)
Theorem C13_registry_fuel : forall w xs calls,
  r_err (fold_left (get_node w) xs r_empty) = false /\ snd (get_call_nodes w calls) = false.
Proof. intros. split; [apply states_no_error | apply get_call_nodes_no_error]. Qed.
Print Assumptions C13_registry_fuel.

(* get_call_nodes only returns procedures that are drawn (visible, not a simple binding) *)
Theorem C13_call_nodes_sound : forall w calls c,
  In c (fst (get_call_nodes w calls)) -> is_call_node w c = true.
Proof. exact get_call_nodes_sound. Qed.
Print Assumptions C13_call_nodes_sound.

(* --- every graph, every limit --------------------------------------------------------------- *)

(* no dangling edge: all twelve graph classes, any registry state, any roots / depth / node limit *)
Theorem C13_no_dangling : forall w st q,
  no_dangling (g_nodes (graph_of w st q)) (g_edges (graph_of w st q)).
Proof. exact graph_no_dangling. Qed.
Print Assumptions C13_no_dangling.

(* hop-by-hop expansion = reachability, for every graph class (the project-wide call graph included):
   if the D-hop neighbourhood fits into max_nodes, the graph has exactly the nodes within
   D = max 1 graph_maxdepth hops (1 hop for project-wide graphs) and exactly the edges of the nodes
   closer than D hops *)
Theorem C13_bfs_exact : forall succ nested depth maxn roots U,
  covers (rel_of succ) roots (shown_depth nested depth) U -> (N.of_nat (length U) <= maxn)%N ->
  (forall x, In x (g_nodes (bfs nested succ depth maxn roots)) <->
             reach_le (rel_of succ) roots (shown_depth nested depth) x) /\
  (forall e, In e (g_edges (bfs nested succ depth maxn roots)) <->
             exists x, reach_lt (rel_of succ) roots (shown_depth nested depth) x /\ edges_from succ x e) /\
  NoDup (g_nodes (bfs nested succ depth maxn roots)).
Proof. exact bfs_exact. Qed.
Print Assumptions C13_bfs_exact.

(* node limit, in general: the graph is the h-hop neighbourhood for some h <= D, and if h < D then
   either everything reachable is already drawn and expanded, or no list covering the (h+1)-hop
   neighbourhood fits into max_nodes (all-or-nothing per hop) *)
Theorem C13_node_limit : forall succ nested depth maxn roots,
  exists h, h <= shown_depth nested depth /\
    NoDup (g_nodes (bfs nested succ depth maxn roots)) /\
    (forall x, In x (g_nodes (bfs nested succ depth maxn roots)) <-> reach_le (rel_of succ) roots h x) /\
    (forall e, In e (g_edges (bfs nested succ depth maxn roots)) <->
               exists x, reach_lt (rel_of succ) roots h x /\ edges_from succ x e) /\
    (h < shown_depth nested depth ->
       (forall x, reach_le (rel_of succ) roots h x -> reach_lt (rel_of succ) roots h x) \/
       (forall U, covers (rel_of succ) roots (S h) U -> (maxn < N.of_nat (length U))%N)).
Proof. exact bfs_post. Qed.
Print Assumptions C13_node_limit.

(* --- inverse graphs ------------------------------------------------------------------------- *)

(* a is a direct neighbour in the "used by / inherited by / called by / afferent" graph of b iff b is
   a direct neighbour in the "uses / inherits / calls / efferent" graph of a, and the arrow a -> b is
   the same in both *)
Theorem C13_inverse_graph : forall w xs c x y,
  has_inverse c = true ->
  (rel_of (class_succ w (fold_left (get_node w) xs r_empty) (inverse_of c)) x y <->
   rel_of (class_succ w (fold_left (get_node w) xs r_empty) c) y x) /\
  ((exists e, In (y, e) (class_succ w (fold_left (get_node w) xs r_empty) (inverse_of c) x) /\
              e_tail e = y /\ e_head e = x) <->
   (exists e, In (x, e) (class_succ w (fold_left (get_node w) xs r_empty) c y) /\
              e_tail e = y /\ e_head e = x)).
Proof. exact inverse_graph_rel. Qed.
Print Assumptions C13_inverse_graph.

(* the inverse graph is the breadth-first neighbourhood in the transposed relation of its counterpart,
   every arrow it draws is an arrow of the counterpart's relation, and nothing dangles *)
Theorem C13_calledby_is_inverse : forall w xs c depth maxn roots U,
  has_inverse c = true ->
  let st := fold_left (get_node w) xs r_empty in
  let R := rel_of (class_succ w st c) in
  let D := shown_depth true depth in
  covers (inverse R) roots D U -> (N.of_nat (length U) <= maxn)%N ->
  let g := bfs true (class_succ w st (inverse_of c)) depth maxn roots in
  (forall x, In x (g_nodes g) <-> reach_le (inverse R) roots D x) /\
  (forall e, In e (g_edges g) -> R (e_tail e) (e_head e)) /\
  no_dangling (g_nodes g) (g_edges g).
Proof. exact inverse_graph_is_bfs_of_inverse. Qed.
Print Assumptions C13_calledby_is_inverse.

(* --- against the relation declared in the source --------------------------------------------- *)

(* forward graphs (uses, inherits, calls, efferent; module / type / call / file graph): with room for
   the D-hop neighbourhood, exactly the entities within D hops along the declared relation — for the
   project-wide graphs along the declared relation between entities that did not opt out *)
Theorem C13_forward_declared : forall w xs c depth maxn roots U,
  class_inverse c = false ->
  let st := fold_left (get_node w) xs r_empty in
  incl roots (r_nodes st) ->
  let R := fun x y => declared_c w c x y /\ both_shown w c x y in
  let roots' := graph_roots w c roots in
  let D := shown_depth (class_nested c) depth in
  covers R roots' D U -> (N.of_nat (length U) <= maxn)%N ->
  let g := bfs (class_nested c) (graph_succ w st c) depth maxn roots' in
  (forall x, In x (g_nodes g) <-> reach_le R roots' D x) /\
  (forall e, In e (g_edges g) <->
     exists x, reach_lt R roots' D x /\ edges_from (graph_succ w st c) x e) /\
  no_dangling (g_nodes g) (g_edges g).
Proof.
  intros w xs c depth maxn roots U Hc st Hr R roots' D HU Hl.
  exact (forward_graph_declared w st c depth maxn roots U (states_quiescent' w xs) Hc Hr HU Hl).
Qed.
Print Assumptions C13_forward_declared.

(* every arrow of a forward graph — the project-wide file graph too — points from an entity to one it
   uses / extends / contains / calls / implements / depends on *)
Theorem C13_edges_declared : forall w xs q e,
  class_inverse (q_class q) = false ->
  In e (g_edges (graph_of w (fold_left (get_node w) xs r_empty) q)) ->
  declared_c w (q_class q) (e_tail e) (e_head e).
Proof. exact forward_edges_declared. Qed.
Print Assumptions C13_edges_declared.

(* inverse graphs: exactly the entities within D hops along the transposed declared relation,
   among the entities whose node exists when the graph is built *)
Theorem C13_inverse_declared : forall w xs c depth maxn roots U,
  class_inverse c = true ->
  let st := fold_left (get_node w) xs r_empty in
  let Rinv := fun x y => In y (r_nodes st) /\ declared_c w c y x in
  let D := shown_depth (class_nested c) depth in
  covers Rinv roots D U -> (N.of_nat (length U) <= maxn)%N ->
  let g := bfs (class_nested c) (class_succ w st c) depth maxn roots in
  (forall x, In x (g_nodes g) <-> reach_le Rinv roots D x) /\
  no_dangling (g_nodes g) (g_edges g).
Proof.
  intros w xs c depth maxn roots U Hc st Rinv D HU Hl.
  exact (inverse_graph_declared w st c depth maxn roots U (states_quiescent' w xs) Hc HU Hl).
Qed.
Print Assumptions C13_inverse_declared.

(* and no node is created after the per-entity graphs: when the roots of the later (project-wide)
   graphs have their nodes already — graph_all creates them first — the registry does not change any
   more, so the "called by" graph of a registered b contains every entity that has a node anywhere in
   the run and declares a call of b *)
Theorem C13_no_late_nodes : forall w st later,
  incl later (r_nodes st) -> fold_left (get_node w) later st = st.
Proof. exact no_late_nodes. Qed.
Print Assumptions C13_no_late_nodes.
Theorem C13_inverse_complete : forall w regs later b lims a,
  incl later (r_nodes (registry w regs)) ->
  In b regs -> In a (r_nodes (fold_left (get_node w) later (registry w regs))) ->
  declared_c w GCalledBy a b ->
  (N.of_nat (length (r_nodes (registry w regs))) <= max_nodes lims)%N ->
  In a (g_nodes (graph_of w (registry w regs) (mkQ GCalledBy [b] lims))).
Proof. exact inverse_complete. Qed.
Print Assumptions C13_inverse_complete.

(* --- graph: false ---------------------------------------------------------------------------- *)
(* an entity that opted out (meta.graph false) is in no project-wide graph, whatever refers to it,
   in any registry state and under any limits *)
Theorem C13_graph_false : forall w st q x,
  class_nested (q_class q) = false -> shown w x = false -> ~ In x (g_nodes (graph_of w st q)).
Proof. exact graph_false_hidden. Qed.
Print Assumptions C13_graph_false.
