(* Lex/FixedSpec.v — fixed source form as the Fortran standard lays it out, and the free-form
   file that means the same (C14).  Executable definitions only. *)
From Ford Require Import Base.Str Lex.Quote Lex.ReaderSpec Lex.Fixed.

(* a statement line: label field (columns 1-5), column 6, statement text of columns 7-72 written as
   blanks ++ text ++ blanks *)
Record fxline := { fx_label : str; fx_c6 : ascii; fx_ind : nat; fx_text : str; fx_pad : nat }.

Definition fx_code (l : fxline) : str := spaces (fx_ind l) ++ fx_text l ++ spaces (fx_pad l).
Definition render_fxline (l : fxline) : str := fx_label l ++ fx_c6 l :: fx_code l ++ [nl].

(* lines that are not statement lines: comment lines (C, c, * or ! in column 1) and blank lines
   of at most five columns *)
Inductive fxirr := FxComment (c0 : ascii) (rest : str) | FxBlank (n : nat).
Definition render_fxirr (i : fxirr) : str :=
  match i with FxComment c0 rest => c0 :: rest ++ [nl] | FxBlank n => spaces n ++ [nl] end.

(* a statement: initial line, then continuation lines, each possibly preceded by comment lines *)
Record fxstmt := { fs_first : fxline; fs_conts : list (list fxirr * fxline) }.
Inductive fxitem := FxIrr (i : fxirr) | FxStmt (st : fxstmt).

Definition render_fxstmt (st : fxstmt) : list str :=
  render_fxline (fs_first st)
  :: flat_map (fun p => map render_fxirr (fst p) ++ [render_fxline (snd p)]) (fs_conts st).
Definition render_fxitem (it : fxitem) : list str :=
  match it with FxIrr i => [render_fxirr i] | FxStmt st => render_fxstmt st end.
Definition render_fixed (f : list fxitem) : list str := flat_map render_fxitem f.

(* ---- the free-form equivalent ---- *)

(* the label as free form writes it: the digits followed by one blank; nothing for a blank field *)
Definition label_part (l : fxline) : str :=
  match strip (fx_label l) with [] => [] | d => lower d ++ [" "%char] end.

Definition bline_of (i : fxirr) : bline :=
  match i with FxComment _ rest => BComment 0 rest | FxBlank _ => BBlank 0 end.

(* a line that is continued: text, one blank, '&' *)
Definition seg_cont (l : fxline) (between : list fxirr) : seg :=
  match label_part l with
  | [] => {| sg_amp := false; sg_ind := fx_ind l; sg_text := fx_text l ++ [" "%char]; sg_trail := 0;
             sg_comment := None; sg_between := map bline_of between |}
  | lp => {| sg_amp := false; sg_ind := 0; sg_text := lp ++ spaces (fx_ind l) ++ fx_text l ++ [" "%char];
             sg_trail := 0; sg_comment := None; sg_between := map bline_of between |}
  end.
(* the last line of a statement *)
Definition seg_last (l : fxline) : seg :=
  match label_part l with
  | [] => {| sg_amp := false; sg_ind := fx_ind l; sg_text := fx_text l; sg_trail := fx_pad l;
             sg_comment := None; sg_between := [] |}
  | lp => {| sg_amp := false; sg_ind := 0; sg_text := lp ++ spaces (fx_ind l) ++ fx_text l;
             sg_trail := fx_pad l; sg_comment := None; sg_between := [] |}
  end.

Fixpoint segs_of (l : fxline) (conts : list (list fxirr * fxline)) : list seg :=
  match conts with
  | [] => [seg_last l]
  | (irr, k) :: conts' => seg_cont l irr :: segs_of k conts'
  end.

Definition free_item (it : fxitem) : fitem :=
  match it with
  | FxIrr (FxComment _ rest) => FComment 0 rest
  | FxIrr (FxBlank _) => FBlank 0
  | FxStmt st => FLine (segs_of (fs_first st) (fs_conts st))
  end.
Definition free_of (f : list fxitem) : list fitem := map free_item f.

(* ---- the general fixed-form layout (for the full statement of C14) ----
   As above, plus what the standard also allows: an inline '!' comment after the statement text of
   any line, and blank lines of any width between the lines of a statement. *)
Record fxlineG := { g_line : fxline; g_comment : option str }.
Inductive fxirrG := GIrr (i : fxirr) | GBlank (n : nat).
Record fxstmtG := { gs_first : fxlineG; gs_conts : list (list fxirrG * fxlineG) }.
Inductive fxitemG := GItemIrr (i : fxirrG) | GItemStmt (st : fxstmtG).

Definition render_fxlineG (l : fxlineG) : str :=
  fx_label (g_line l) ++ fx_c6 (g_line l) :: fx_code (g_line l) ++ render_comment (g_comment l) ++ [nl].
Definition render_fxirrG (i : fxirrG) : str :=
  match i with GIrr i => render_fxirr i | GBlank n => spaces n ++ [nl] end.
Definition render_fxstmtG (st : fxstmtG) : list str :=
  render_fxlineG (gs_first st)
  :: flat_map (fun p => map render_fxirrG (fst p) ++ [render_fxlineG (snd p)]) (gs_conts st).
Definition render_fixedG (f : list fxitemG) : list str :=
  flat_map (fun it => match it with GItemIrr i => [render_fxirrG i] | GItemStmt st => render_fxstmtG st end) f.

Definition bline_ofG (i : fxirrG) : bline :=
  match i with GIrr i => bline_of i | GBlank _ => BBlank 0 end.
Definition with_comment (sg : seg) (c : option str) (between : list bline) : seg :=
  {| sg_amp := sg_amp sg; sg_ind := sg_ind sg; sg_text := sg_text sg; sg_trail := sg_trail sg;
     sg_comment := c; sg_between := between |}.
Fixpoint segs_ofG (l : fxlineG) (conts : list (list fxirrG * fxlineG)) : list seg :=
  match conts with
  | [] => [with_comment (seg_last (g_line l)) (g_comment l) []]
  | (irr, k) :: conts' =>
    with_comment (seg_cont (g_line l) []) (g_comment l) (map bline_ofG irr) :: segs_ofG k conts'
  end.
Definition free_ofG (f : list fxitemG) : list fitem :=
  map (fun it => match it with
                 | GItemIrr (GIrr (FxComment _ rest)) => FComment 0 rest
                 | GItemIrr _ => FBlank 0
                 | GItemStmt st => FLine (segs_ofG (gs_first st) (gs_conts st))
                 end) f.

(* embedding of the restricted layouts *)
Definition to_lineG (l : fxline) : fxlineG := {| g_line := l; g_comment := None |}.
Definition to_G (f : list fxitem) : list fxitemG :=
  map (fun it => match it with
                 | FxIrr i => GItemIrr (GIrr i)
                 | FxStmt st => GItemStmt {| gs_first := to_lineG (fs_first st);
                                             gs_conts := map (fun p => (map GIrr (fst p), to_lineG (snd p))) (fs_conts st) |}
                 end) f.
