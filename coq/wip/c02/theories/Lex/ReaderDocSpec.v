(* Lex/ReaderDocSpec.v — documented statement sequences (default markers "!!" after / inline,
   "!>" before) and what the reader must deliver for them.  Definitions only. *)
From Ford Require Import Base.Str Lex.Quote Lex.ReaderSpec.

Inductive tail := TNone | TComment (t : str) | TDoc (t : str).

(* a one-line statement with the documentation lines written before it *)
Record dstmt := { ds_pre : list (nat * str); ds_ind : nat; ds_text : str; ds_trail : nat; ds_tail : tail }.

Inductive ditem :=
| DBlank (n : nat)                (* blank line *)
| DComment (i : nat) (t : str)    (* ordinary comment line *)
| DDoc (i : nat) (t : str)        (* documentation line "!!t" on its own line *)
| DStmt (d : dstmt).

Definition render_tail (t : tail) : str :=
  match t with TNone => [] | TComment t => bang :: t | TDoc t => bang :: bang :: t end.

Definition render_ditem (it : ditem) : list str :=
  match it with
  | DBlank n => [spaces n]
  | DComment i t => [spaces i ++ bang :: t]
  | DDoc i t => [spaces i ++ bang :: bang :: t]
  | DStmt d =>
    map (fun p => spaces (fst p) ++ bang :: ">"%char :: snd p) (ds_pre d)
    ++ [spaces (ds_ind d) ++ ds_text d ++ spaces (ds_trail d) ++ render_tail (ds_tail d)]
  end.
Definition render_doc_file (f : list ditem) : list str := flat_map render_ditem f.

Definition docl (t : str) : str := bang :: bang :: t.

Definition tail_docs (t : tail) : list str := match t with TDoc t => [docl t] | _ => [] end.

(* What the reader yields.  [pd] = "the last line yielded was documentation": in that state a
   blank or comment line yields an empty documentation line (FORD's paragraph-break rule).
   A statement is followed by exactly the documentation written before it, in order, then its
   inline documentation; documentation lines on their own follow in order; ordinary comments
   never appear. *)
Fixpoint doc_out (pd : bool) (l : list ditem) : list str :=
  match l with
  | [] => []
  | DBlank _ :: r => (if pd then [docl []] else []) ++ doc_out pd r
  | DComment _ _ :: r => (if pd then [docl []] else []) ++ doc_out pd r
  | DDoc _ t :: r => docl t :: doc_out (match t with [] => pd | _ => true end) r
  | DStmt d :: r =>
    let docs := map (fun p => docl (snd p)) (ds_pre d) ++ tail_docs (ds_tail d) in
    stmts_of (" "%char :: ds_text d) ++ docs ++ doc_out (match docs with [] => false | _ => true end) r
  end.
