(* Lex/FixedProofs.v — the fixed-form converter produces a free-form layout of the same program *)
From Ford Require Import Base.Str Base.StrFacts Lex.Quote Lex.Reader Lex.ReaderSpec Lex.QuoteProofs
  Lex.ReaderProofs Lex.Fixed Lex.FixedSpec.
From Coq Require Import Lia.

(* ---------- well-formed fixed-form lines ---------- *)

Definition lab_char (c : ascii) : bool := is_digit c || Ascii.eqb c " "%char.

Definition wf_fxline (l : fxline) : Prop :=
  length (fx_label l) = 5 /\ Forall (fun c => lab_char c = true) (fx_label l) /\
  nsfirst (fx_text l) /\ nslast (fx_text l) /\
  fx_ind l + length (fx_text l) + fx_pad l <= 66 /\
  ~ In nl (fx_text l).

Definition is_initial (l : fxline) : Prop := fx_c6 l = " "%char \/ fx_c6 l = "0"%char.
Definition is_continuation (l : fxline) : Prop :=
  is_space (fx_c6 l) = false /\ fx_c6 l <> "0"%char /\ fx_label l = spaces 5.

Definition wf_fxirr (i : fxirr) : Prop :=
  match i with
  | FxComment c0 rest =>
    contains_ch c0 (s "cC*!") = true /\ head_is "$"%char rest = false /\ ~ In nl rest
  | FxBlank n => n <= 5
  end.

(* ---------- analyse ---------- *)

Lemma lstrip_head_ns x d z : lstrip x = d :: z -> is_space d = false.
Proof.
  induction x as [|c x IH]; simpl; [discriminate|].
  destruct (is_space c) eqn:E; [exact IH|]. intros [= <- _]. exact E.
Qed.

Lemma strip_head_ns x c y : strip x = c :: y -> is_space c = false.
Proof.
  unfold strip. destruct (lstrip x) as [|d z] eqn:E; [discriminate|].
  pose proof (lstrip_head_ns x d z E) as Hd.
  destruct (rstrip_head d z Hd) as [y' Ey]. rewrite Ey. intros [= <- _]. exact Hd.
Qed.

Lemma lab_not_comment c : lab_char c = true -> contains_ch c (s "cC*!") = false.
Proof.
  intros H. destruct (contains_ch c (s "cC*!")) eqn:E; [|reflexivity]. exfalso.
  simpl in E. rewrite orb_false_r in E.
  repeat (apply orb_true_iff in E as [E|E]); apply Ascii.eqb_eq in E; subst; discriminate.
Qed.

Lemma lab_not_bang c : lab_char c = true -> Ascii.eqb bang c = false.
Proof.
  intros H. destruct (Ascii.eqb bang c) eqn:E; [|reflexivity]. apply Ascii.eqb_eq in E. subst. discriminate.
Qed.

Lemma lab_not_hash c : lab_char c = true -> Ascii.eqb c "#"%char = false.
Proof.
  intros H. destruct (Ascii.eqb c "#"%char) eqn:E; [|reflexivity]. apply Ascii.eqb_eq in E. subst. discriminate.
Qed.

Lemma lab_not_dollar c : lab_char c = true -> Ascii.eqb (lower_ch c) "$"%char = false.
Proof.
  intros H. destruct (Ascii.eqb (lower_ch c) "$"%char) eqn:E; [|reflexivity]. exfalso.
  unfold lab_char in H. apply orb_true_iff in H as [H|H].
  - unfold lower_ch in E. assert (U : is_upper c = false).
    { unfold is_digit, is_upper in *. apply andb_true_iff in H as [H1 H2].
      apply Nat.leb_le in H1, H2. apply andb_false_iff. left. apply Nat.leb_gt. lia. }
    rewrite U in E. apply Ascii.eqb_eq in E. subst. discriminate.
  - apply Ascii.eqb_eq in H. subst. discriminate.
Qed.

Lemma length5 (x : str) : length x = 5 -> exists a b c d e, x = [a; b; c; d; e].
Proof.
  intros H. do 5 (destruct x as [|? x]; [discriminate|]). destruct x; [|discriminate]. eauto 6.
Qed.

Lemma spaces_app_length n x : length (spaces n ++ x) = n + length x.
Proof. rewrite app_length. unfold spaces. now rewrite repeat_length. Qed.

Lemma fx_code_length l : length (fx_code l) = fx_ind l + length (fx_text l) + fx_pad l.
Proof. unfold fx_code. rewrite !app_length. unfold spaces. rewrite !repeat_length. lia. Qed.

(* the analysis of a statement line that fits in 72 columns *)
Lemma analyse_fxline ll l :
  wf_fxline l ->
  analyse ll (render_fxline l) =
  {| f_conv := label_part l ++ fx_code l ++ [nl];
     f_regular := true;
     f_cont := negb (is_space (fx_c6 l) || Ascii.eqb (fx_c6 l) "0"%char);
     f_long := false; f_excess := [] |}.
Proof.
  intros (Hlen & Hlab & _ & _ & Hw & _).
  destruct (length5 _ Hlen) as (a & b & c & d & e & El).
  unfold render_fxline, label_part. rewrite El in *. clear El.
  inversion Hlab as [|? ? Ha Hl1]; subst. inversion Hl1 as [|? ? Hb Hl2]; subst.
  inversion Hl2 as [|? ? Hc Hl3]; subst. inversion Hl3 as [|? ? Hd Hl4]; subst.
  inversion Hl4 as [|? ? He _]; subst.
  set (code := fx_code l) in *.
  assert (Hcl : length code <= 66) by (unfold code; rewrite fx_code_length; lia).
  unfold analyse.
  assert (Hn : length ([a; b; c; d; e] ++ fx_c6 l :: code ++ [nl]) = 7 + length code).
  { simpl. rewrite app_length. simpl. lia. }
  rewrite Hn.
  assert (H1 : (1 <? 7 + length code) = true) by (apply Nat.ltb_lt; lia).
  assert (H2 : (6 <=? 7 + length code) = true) by (apply Nat.leb_le; lia).
  assert (H3 : (7 + length code <=? 6) = false) by (apply Nat.leb_gt; lia).
  assert (H4 : (73 <? 7 + length code) = false) by (apply Nat.ltb_ge; lia).
  rewrite H1, H2, H3, H4.
  cbn [app firstn slice skipn Nat.sub from andb].
  rewrite (lab_not_comment a Ha). cbn [andb negb orb].
  change (contains_ch bang [b; c; d; e])
    with (Ascii.eqb bang b || (Ascii.eqb bang c || (Ascii.eqb bang d || (Ascii.eqb bang e || false)))).
  rewrite (lab_not_bang b Hb), (lab_not_bang c Hc), (lab_not_bang d Hd), (lab_not_bang e He).
  cbn [orb andb negb].
  change (str_eqb [a] (s "#")) with (Ascii.eqb a "#"%char && true).
  rewrite (lab_not_hash a Ha). cbn [andb orb negb].
  change (str_isspace [fx_c6 l]) with (is_space (fx_c6 l) && true). rewrite andb_true_r.
  change (str_eqb [fx_c6 l] (s "0")) with (Ascii.eqb (fx_c6 l) "0"%char && true). rewrite andb_true_r.
  rewrite andb_true_r.
  assert (H5 : (6 <? length (a :: b :: c :: d :: e :: fx_c6 l :: code ++ [nl])) = true).
  { apply Nat.ltb_lt. simpl. rewrite app_length. simpl. lia. }
  rewrite H5.
  f_equal.
  (* line_conv: label + code, or code when the label field is blank *)
  destruct (strip [a; b; c; d; e]) as [|x xs] eqn:Es.
  - reflexivity.
  - assert (Hsp : str_isspace (lower (x :: xs) ++ s " ") = false).
    { assert (Hx : is_space x = false).
      { exact (strip_head_ns _ _ _ Es). }
      cbn [lower map app str_isspace forallb].
      assert (Hlx : is_space (lower_ch x) = false).
      { unfold lower_ch. destruct (is_upper x) eqn:U; [|exact Hx].
        unfold is_upper in U. apply andb_true_iff in U as [U1 U2]. apply Nat.leb_le in U1, U2.
        unfold is_space, code in *. rewrite nat_ascii_embedding by lia.
        apply orb_false_iff. split; apply andb_false_iff; [right|right]; apply Nat.leb_gt; lia. }
      now rewrite Hlx. }
    rewrite Hsp. cbn [negb]. change (s " ") with [" "%char]. now rewrite <- app_assoc.
Qed.

(* comment lines and short blank lines are not statement lines *)
Lemma analyse_comment ll c0 rest :
  wf_fxirr (FxComment c0 rest) ->
  exists lg ex, analyse ll (c0 :: rest ++ [nl]) =
  {| f_conv := bang :: rest ++ [nl]; f_regular := false; f_cont := false; f_long := lg; f_excess := ex |}.
Proof.
  intros (Hc & Homp & _). unfold analyse.
  cbn [firstn length]. rewrite Hc.
  set (n := S (length (rest ++ [nl]))).
  assert (Hfive : (if 1 <? n then slice 1 5 (c0 :: rest ++ [nl]) else []) = firstn 4 (rest ++ [nl])).
  { assert (H1 : (1 <? n) = true) by (apply Nat.ltb_lt; unfold n; rewrite app_length; simpl; lia).
    rewrite H1. reflexivity. }
  rewrite Hfive.
  assert (Hnot : str_eqb (lower (firstn 4 (rest ++ [nl]))) (s "$omp") = false).
  { destruct rest as [|r1 rest']; [reflexivity|].
    cbn [app firstn lower map str_eqb s list_ascii_of_string].
    assert (Hr : Ascii.eqb (lower_ch r1) "$"%char = false).
    { unfold head_is in Homp. unfold lower_ch. destruct (is_upper r1) eqn:U.
      - unfold is_upper in U. apply andb_true_iff in U as [U1 U2]. apply Nat.leb_le in U1, U2.
        apply Ascii.eqb_neq. intros E. apply (f_equal code) in E. unfold code in *.
        rewrite nat_ascii_embedding in E by lia.
        replace (nat_of_ascii "$"%char) with 36 in E by reflexivity. lia.
      - now rewrite Ascii.eqb_sym. }
    now rewrite Hr. }
  rewrite Hnot. cbn [andb negb orb]. rewrite !andb_false_r. cbv beta iota zeta.
  rewrite ?andb_false_r. cbn [from skipn].
  eexists _, _. reflexivity.
Qed.

Lemma analyse_blank ll n : n <= 5 ->
  analyse ll (spaces n ++ [nl]) =
  {| f_conv := [nl]; f_regular := false; f_cont := false; f_long := false; f_excess := [] |}.
Proof.
  intros H. destruct n as [|[|[|[|[|[|n]]]]]]; try lia; reflexivity.
Qed.

(* ---------- the line stack ---------- *)

Definition irr_conv (i : fxirr) : str :=
  match i with FxComment _ rest => bang :: rest ++ [nl] | FxBlank _ => [nl] end.

Lemma analyse_irr ll i : wf_fxirr i ->
  f_conv (analyse ll (render_fxirr i)) = irr_conv i /\ f_regular (analyse ll (render_fxirr i)) = false.
Proof.
  destruct i as [c0 rest|n]; intros H; cbn [render_fxirr irr_conv].
  - destruct (analyse_comment ll c0 rest H) as (lg & ex & E). rewrite E. split; reflexivity.
  - rewrite (analyse_blank ll n H). split; reflexivity.
Qed.

(* irregular lines pile up on the stack *)
Lemma convert_go_irr ll irrs : forall stack rest,
  Forall wf_fxirr irrs ->
  convert_go ll stack (map render_fxirr irrs ++ rest)
  = convert_go ll (stack ++ map (fun i => analyse ll (render_fxirr i)) irrs) rest.
Proof.
  induction irrs as [|i irrs IH]; intros stack rest H; [simpl; now rewrite app_nil_r|].
  inversion H as [|? ? Hi Hr]; subst. cbn [map app convert_go].
  destruct (analyse_irr ll i Hi) as (_ & Hreg). rewrite Hreg.
  rewrite IH by assumption. now rewrite <- app_assoc.
Qed.

Definition fx_conv (l : fxline) : str := label_part l ++ fx_code l ++ [nl].
Definition fx_fline (l : fxline) : fline :=
  {| f_conv := fx_conv l; f_regular := true;
     f_cont := negb (is_space (fx_c6 l) || Ascii.eqb (fx_c6 l) "0"%char);
     f_long := false; f_excess := [] |}.

Lemma analyse_fx ll l : wf_fxline l -> analyse ll (render_fxline l) = fx_fline l.
Proof. intros H. rewrite (analyse_fxline ll l H). reflexivity. Qed.

Lemma cont_flag_initial l : is_initial l -> f_cont (fx_fline l) = false.
Proof. intros [H|H]; cbn [fx_fline f_cont]; rewrite H; reflexivity. Qed.

Lemma cont_flag_continuation l : is_continuation l -> f_cont (fx_fline l) = true.
Proof.
  intros (H1 & H2 & _). cbn [fx_fline f_cont]. rewrite H1.
  assert (E : Ascii.eqb (fx_c6 l) "0"%char = false) by now apply Ascii.eqb_neq.
  now rewrite E.
Qed.

(* the converted text of a statement line when it is followed by a continuation line *)
Definition fx_conv_continued (l : fxline) : str := rstrip (fx_conv l) ++ s " &" ++ [nl].

Lemma map_conv_irr ll irrs : Forall wf_fxirr irrs ->
  map f_conv (map (fun i => analyse ll (render_fxirr i)) irrs) = map irr_conv irrs.
Proof.
  intros H. induction H as [|i irrs Hi _ IH]; [reflexivity|].
  cbn [map]. rewrite IH. f_equal. apply (analyse_irr ll i Hi).
Qed.

Lemma last_cons_default {A} (x : A) xs d1 d2 : List.last (x :: xs) d1 = List.last (x :: xs) d2.
Proof. revert x. induction xs as [|y xs IH]; intros x; [reflexivity|]. simpl in *. apply IH. Qed.

Definition last_line (prev : fxline) (conts : list (list fxirr * fxline)) : fxline :=
  List.last (map snd conts) prev.

(* continuation lines of one statement, with the previous statement line on the stack *)
Lemma convert_go_conts ll conts : forall prev rest,
  wf_fxline prev ->
  Forall (fun p => Forall wf_fxirr (fst p) /\ wf_fxline (snd p) /\ is_continuation (snd p)) conts ->
  exists last,
    convert_go ll [fx_fline prev]
      (flat_map (fun p => map render_fxirr (fst p) ++ [render_fxline (snd p)]) conts ++ rest)
    = flat_map (fun q => fx_conv_continued (fst q) :: map irr_conv (snd q))
               (combine (prev :: map snd conts) (map fst conts))
      ++ convert_go ll [fx_fline last] rest
    /\ last = last_line prev conts.
Proof.
  induction conts as [|[irrs k] conts IH]; intros prev rest Hp Hc.
  - exists prev. split; reflexivity.
  - inversion Hc as [|? ? (Hi & Hk & Hkc) Hr]; subst. cbn [fst snd] in *.
    cbn [flat_map]. rewrite <- !app_assoc. rewrite convert_go_irr by assumption.
    cbn [app convert_go fst snd]. rewrite (analyse_fx ll k Hk).
    change (f_regular (fx_fline k)) with true. cbv iota. rewrite (cont_flag_continuation k Hkc).
    cbn [app map]. cbn [continue_line fx_fline f_long f_regular f_conv andb negb].
    rewrite (map_conv_irr ll irrs Hi).
    destruct (IH k rest Hk Hr) as (last & E & El). exists last. split.
    + cbn [map combine flat_map fst snd]. rewrite E. fold (fx_conv_continued prev).
      cbn [app]. rewrite <- app_assoc. reflexivity.
    + rewrite El. unfold last_line. cbn [map snd]. destruct conts as [|p conts]; [reflexivity|].
      cbn [map]. change (List.last (k :: snd p :: map snd conts) prev) with (List.last (snd p :: map snd conts) prev).
      apply last_cons_default.
Qed.

(* ---------- the whole file through the converter ---------- *)

Definition wf_stmt (st : fxstmt) : Prop :=
  wf_fxline (fs_first st) /\ is_initial (fs_first st) /\
  Forall (fun p => Forall wf_fxirr (fst p) /\ wf_fxline (snd p) /\ is_continuation (snd p)) (fs_conts st).
Definition wf_item (it : fxitem) : Prop :=
  match it with FxIrr i => wf_fxirr i | FxStmt st => wf_stmt st end.

Definition stmt_lines (st : fxstmt) : list str :=
  flat_map (fun q => fx_conv_continued (fst q) :: map irr_conv (snd q))
           (combine (fs_first st :: map snd (fs_conts st)) (map fst (fs_conts st)))
  ++ [fx_conv (last_line (fs_first st) (fs_conts st))].
Definition out_item (it : fxitem) : list str :=
  match it with FxIrr i => [irr_conv i] | FxStmt st => stmt_lines st end.

Lemma convert_go_file ll f : forall stack,
  Forall wf_item f ->
  convert_go ll stack (render_fixed f) = map f_conv stack ++ flat_map out_item f.
Proof.
  induction f as [|it f IH]; intros stack H; [simpl; now rewrite app_nil_r|].
  inversion H as [|? ? Hit Hf]; subst.
  unfold render_fixed. cbn [flat_map]. fold (render_fixed f).
  destruct it as [i|st].
  - cbn [render_fxitem app convert_go out_item].
    destruct (analyse_irr ll i Hit) as (Hc & Hreg). rewrite Hreg.
    rewrite (IH _ Hf). rewrite map_app. cbn [map]. rewrite Hc. now rewrite <- app_assoc.
  - destruct Hit as (Hfirst & Hinit & Hconts).
    cbn [render_fxitem render_fxstmt app convert_go out_item].
    rewrite (analyse_fx ll _ Hfirst). change (f_regular (fx_fline (fs_first st))) with true. cbv iota.
    rewrite (cont_flag_initial _ Hinit).
    destruct (convert_go_conts ll (fs_conts st) (fs_first st) (render_fixed f) Hfirst Hconts) as (last & E & El).
    rewrite E, El. rewrite (IH _ Hf). unfold stmt_lines. cbn [map f_conv fx_fline app].
    rewrite <- !app_assoc. reflexivity.
Qed.

Theorem convert_file ll f :
  Forall wf_item f -> convert_to_free ll (render_fixed f) = flat_map out_item f.
Proof. intros H. unfold convert_to_free. rewrite (convert_go_file ll f [] H). reflexivity. Qed.

(* ---------- each converted line is the free-form line of the equivalent layout ---------- *)

Lemma chomp_snoc x : chomp (x ++ [nl]) = x.
Proof. unfold chomp. rewrite rev_app_distr. cbn [rev app]. rewrite Ascii.eqb_refl. apply rev_involutive. Qed.

Lemma rstrip_ws y ws : nslast y -> Forall (fun c => is_space c = true) ws -> rstrip (y ++ ws) = y.
Proof.
  intros Hy Hw. unfold rstrip. rewrite rev_app_distr.
  assert (E : forall zs rest, Forall (fun c => is_space c = true) zs -> lstrip (zs ++ rest) = lstrip rest).
  { induction zs as [|z zs IHz]; intros rest Hz; [reflexivity|].
    inversion Hz as [|? ? Hz1 Hz2]; subst. simpl. rewrite Hz1. now apply IHz. }
  rewrite E.
  - unfold nslast in Hy. destruct (rev y) as [|c r] eqn:Er; [destruct Hy|].
    rewrite lstrip_ns by assumption. rewrite <- Er. apply rev_involutive.
  - rewrite Forall_forall in *. intros c Hc. apply Hw. now apply in_rev.
Qed.

Lemma nslast_app x t : nslast t -> nslast (x ++ t).
Proof.
  unfold nslast. rewrite rev_app_distr. destruct (rev t) as [|c r]; [tauto|]. simpl. auto.
Qed.

Lemma spaces_ws n : Forall (fun c => is_space c = true) (spaces n).
Proof. induction n; simpl; constructor; auto. Qed.

Lemma rstrip_conv l : wf_fxline l ->
  rstrip (fx_conv l) = label_part l ++ spaces (fx_ind l) ++ fx_text l.
Proof.
  intros (_ & _ & _ & Hl & _). unfold fx_conv, fx_code.
  replace (label_part l ++ (spaces (fx_ind l) ++ fx_text l ++ spaces (fx_pad l)) ++ [nl])
    with ((label_part l ++ spaces (fx_ind l) ++ fx_text l) ++ (spaces (fx_pad l) ++ [nl]))
    by (now rewrite <- !app_assoc).
  apply rstrip_ws.
  - rewrite app_assoc. now apply nslast_app.
  - apply Forall_app. split; [apply spaces_ws|constructor; [reflexivity|constructor]].
Qed.

Lemma line_continued l irr first : wf_fxline l ->
  chomp (fx_conv_continued l) = render_seg_line first false (seg_cont l irr).
Proof.
  intros H. unfold fx_conv_continued. rewrite (rstrip_conv l H).
  change (s " &") with [" "%char; amp]. rewrite !app_assoc. rewrite chomp_snoc.
  unfold render_seg_line, seg_cont. destruct (label_part l) as [|c lp] eqn:E.
  - cbn [sg_amp sg_ind sg_text sg_trail sg_comment render_comment spaces repeat app].
    destruct first; cbn [app]; rewrite ?app_nil_r, <- ?app_assoc; reflexivity.
  - cbn [sg_amp sg_ind sg_text sg_trail sg_comment render_comment spaces repeat app].
    destruct first; cbn [app]; rewrite ?app_nil_r, <- ?app_assoc; reflexivity.
Qed.

Lemma line_last l first : wf_fxline l ->
  chomp (fx_conv l) = render_seg_line first true (seg_last l).
Proof.
  intros H. unfold fx_conv, fx_code. rewrite !app_assoc. rewrite chomp_snoc.
  unfold render_seg_line, seg_last. destruct (label_part l) as [|c lp] eqn:E.
  - cbn [sg_amp sg_ind sg_text sg_trail sg_comment render_comment spaces repeat app].
    destruct first; cbn [app]; rewrite ?app_nil_r, <- ?app_assoc; reflexivity.
  - cbn [sg_amp sg_ind sg_text sg_trail sg_comment render_comment spaces repeat app].
    destruct first; cbn [app]; rewrite ?app_nil_r, <- ?app_assoc; reflexivity.
Qed.

Lemma line_irr i : wf_fxirr i -> chomp (irr_conv i) = render_bline (bline_of i).
Proof.
  destruct i as [c0 rest|n]; intros _; cbn [irr_conv bline_of render_bline spaces repeat app].
  - change (bang :: rest ++ [nl]) with ((bang :: rest) ++ [nl]). apply chomp_snoc.
  - reflexivity.
Qed.

Lemma stmt_lines_free conts : forall l first,
  wf_fxline l ->
  Forall (fun p => Forall wf_fxirr (fst p) /\ wf_fxline (snd p) /\ is_continuation (snd p)) conts ->
  map chomp (flat_map (fun q => fx_conv_continued (fst q) :: map irr_conv (snd q))
                      (combine (l :: map snd conts) (map fst conts))
             ++ [fx_conv (last_line l conts)])
  = render_segs first (segs_of l conts).
Proof.
  induction conts as [|[irr k] conts IH]; intros l first Hl Hc.
  - cbn [map combine flat_map app segs_of render_segs]. unfold last_line. cbn [map List.last].
    now rewrite (line_last l first Hl).
  - inversion Hc as [|? ? (Hi & Hk & Hkc) Hr]; subst. cbn [fst snd] in *.
    change (combine (l :: map snd ((irr, k) :: conts)) (map fst ((irr, k) :: conts)))
      with ((l, irr) :: combine (k :: map snd conts) (map fst conts)).
    cbn [flat_map fst snd segs_of].
    assert (Hlast : last_line l ((irr, k) :: conts) = last_line k conts).
    { unfold last_line. cbn [map snd]. destruct conts as [|p conts]; [reflexivity|].
      cbn [map]. change (List.last (k :: snd p :: map snd conts) l) with (List.last (snd p :: map snd conts) l).
      apply last_cons_default. }
    rewrite Hlast. rewrite <- app_assoc. rewrite map_app. cbn [app map]. rewrite map_app.
    specialize (IH k false Hk Hr). rewrite map_app in IH. rewrite IH.
    rewrite (line_continued l irr first Hl).
    assert (Hirr : map chomp (map irr_conv irr) = map render_bline (map bline_of irr)).
    { clear - Hi. induction Hi as [|i irr Hi1 _ IHi]; [reflexivity|]. cbn [map]. rewrite IHi. f_equal.
      now apply line_irr. }
    rewrite Hirr.
    change (render_segs first (seg_cont l irr :: segs_of k conts))
      with (match segs_of k conts with
            | [] => [render_seg_line first true (seg_cont l irr)]
            | _ => render_seg_line first false (seg_cont l irr)
                   :: map render_bline (sg_between (seg_cont l irr)) ++ render_segs false (segs_of k conts)
            end).
    assert (Hne : segs_of k conts <> []) by (destruct conts as [|[? ?] ?]; discriminate).
    destruct (segs_of k conts) as [|sg2 segs2] eqn:Es; [congruence|].
    f_equal. f_equal. unfold seg_cont. destruct (label_part l); reflexivity.
Qed.

(* C14: the converter's output is, line for line, the free-form file [free_of f] *)
Theorem fixed_as_free ll f :
  Forall wf_item f ->
  map chomp (convert_to_free ll (render_fixed f)) = render_file (free_of f).
Proof.
  intros H. rewrite (convert_file ll f H). clear ll.
  induction H as [|it f Hit _ IH]; [reflexivity|].
  cbn [flat_map free_of map]. rewrite map_app. unfold render_file in *. cbn [flat_map].
  fold (free_of f). rewrite IH. f_equal.
  destruct it as [i|st]; cbn [out_item free_item render_item map].
  - destruct i as [c0 rest|n]; cbn [irr_conv].
    + change (bang :: rest ++ [nl]) with ((bang :: rest) ++ [nl]). now rewrite chomp_snoc.
    + reflexivity.
  - destruct Hit as (Hfirst & _ & Hconts). unfold stmt_lines.
    apply (stmt_lines_free (fs_conts st) (fs_first st) true Hfirst Hconts).
Qed.

(* ---------- statement, partial theorem, witnesses ---------- *)

Definition wf_lineG (l : fxlineG) : Prop :=
  length (fx_label (g_line l)) = 5 /\ Forall (fun c => lab_char c = true) (fx_label (g_line l)) /\
  nsfirst (fx_text (g_line l)) /\ nslast (fx_text (g_line l)) /\
  fx_ind (g_line l) + length (fx_text (g_line l)) + fx_pad (g_line l) + length (render_comment (g_comment l)) <= 66 /\
  match g_comment l with Some t => plain_comment t /\ ~ In nl t | None => True end.
Definition wf_irrG (i : fxirrG) : Prop :=
  match i with GIrr i => wf_fxirr i | GBlank n => n <= 72 end.
Definition wf_stmtG (st : fxstmtG) : Prop :=
  wf_lineG (gs_first st) /\ is_initial (g_line (gs_first st)) /\
  Forall (fun p => Forall wf_irrG (fst p) /\ wf_lineG (snd p) /\ is_continuation (g_line (snd p))) (gs_conts st).
Definition wf_itemG (it : fxitemG) : Prop :=
  match it with GItemIrr i => wf_irrG i | GItemStmt st => wf_stmtG st end.

(* C14, full: a fixed-form file reads as its free-form equivalent *)
Definition statement_C14 : Prop :=
  forall ll f, Forall wf_itemG f ->
  read_all default_cfg (map chomp (convert_to_free ll (render_fixedG f)))
  = read_all default_cfg (render_file (free_ofG f)).

Lemma render_to_G f : render_fixedG (to_G f) = render_fixed f.
Proof.
  unfold render_fixedG, render_fixed, to_G. rewrite flat_map_concat_map, map_map, <- flat_map_concat_map.
  apply flat_map_ext. intros [i|st]; [reflexivity|].
  cbn [render_fxitem]. unfold render_fxstmtG, render_fxstmt. cbn [gs_first gs_conts].
  assert (Hl : forall l, render_fxlineG (to_lineG l) = render_fxline l).
  { intros l. unfold render_fxlineG, render_fxline, to_lineG. cbn [g_line g_comment render_comment app]. reflexivity. }
  rewrite Hl. f_equal.
  induction (fs_conts st) as [|[irr k] conts IH]; [reflexivity|].
  cbn [map flat_map fst snd]. rewrite IH, Hl. f_equal. rewrite map_map. reflexivity.
Qed.

Lemma segs_to_G conts : forall l,
  segs_ofG (to_lineG l) (map (fun p => (map GIrr (fst p), to_lineG (snd p))) conts) = segs_of l conts.
Proof.
  induction conts as [|[irr k] conts IH]; intros l.
  - cbn [map segs_ofG segs_of to_lineG g_line g_comment]. unfold with_comment, seg_last.
    destruct (label_part l); reflexivity.
  - cbn [map segs_ofG segs_of fst snd]. rewrite IH. f_equal.
    cbn [to_lineG g_line g_comment]. unfold with_comment, seg_cont. rewrite map_map.
    destruct (label_part l); reflexivity.
Qed.

Lemma free_to_G f : free_ofG (to_G f) = free_of f.
Proof.
  unfold free_ofG, free_of, to_G. rewrite map_map. apply map_ext.
  intros [[c0 rest|n]|st]; try reflexivity.
  cbn [free_item gs_first gs_conts]. now rewrite segs_to_G.
Qed.

(* ... and it holds for every file without inline comments on statement lines and without
   wide blank lines inside statements *)
Theorem partial_C14 ll f :
  Forall wf_item f ->
  read_all default_cfg (map chomp (convert_to_free ll (render_fixedG (to_G f))))
  = read_all default_cfg (render_file (free_ofG (to_G f))).
Proof. intros H. now rewrite render_to_G, free_to_G, (fixed_as_free ll f H). Qed.

Corollary fixed_statements ll f :
  Forall wf_item f -> Forall item_ok (free_of f) ->
  read_all default_cfg (map chomp (convert_to_free ll (render_fixed f)))
  = ROk (flat_map stmts_of (file_texts (free_of f))).
Proof. intros H1 H2. rewrite (fixed_as_free ll f H1). now apply file_statements. Qed.

Definition mkfx (lab : str) (c6 : ascii) (i : nat) (t : str) (p : nat) : fxline :=
  {| fx_label := lab; fx_c6 := c6; fx_ind := i; fx_text := t; fx_pad := p |}.

(*       x = 1 ! c   /        &  + 2 *)
Definition witnessF1 : list fxitemG :=
  [GItemStmt {| gs_first := {| g_line := mkfx (spaces 5) " " 0 (s "x = 1") 1; g_comment := Some (s " c") |};
                gs_conts := [([], {| g_line := mkfx (spaces 5) "&" 2 (s "+ 2") 0; g_comment := None |})] |}].
(*       x = 1   /  (7 blanks)  /        &  + 2 *)
Definition witnessF2 : list fxitemG :=
  [GItemStmt {| gs_first := {| g_line := mkfx (spaces 5) " " 0 (s "x = 1") 0; g_comment := None |};
                gs_conts := [([GBlank 7], {| g_line := mkfx (spaces 5) "&" 2 (s "+ 2") 0; g_comment := None |})] |}].

Ltac wfg := simpl; repeat split; try reflexivity; try discriminate; try lia;
            try (repeat constructor; reflexivity); try (intros [H|H]; [discriminate|exact H]).

Lemma witnessF1_wf : Forall wf_itemG witnessF1.
Proof.
  repeat constructor; try reflexivity; try discriminate; simpl; try lia; auto.
  - intros [H|[H|H]]; try discriminate; exact H.
Qed.
Lemma witnessF2_wf : Forall wf_itemG witnessF2.
Proof. repeat constructor; try reflexivity; try discriminate; simpl; try lia; auto. Qed.

Theorem refuted_inline_comment : ~ statement_C14.
Proof. intros H. specialize (H true witnessF1 witnessF1_wf). vm_compute in H. discriminate. Qed.
Theorem refuted_blank6 : ~ statement_C14.
Proof. intros H. specialize (H true witnessF2 witnessF2_wf). vm_compute in H. discriminate. Qed.

(* a literal continued across lines: the standard joins column 72 to column 7, FORD joins the
   trimmed texts with one blank *)
Theorem refuted_literal_split :
  read_all default_cfg (map chomp (convert_to_free true
     [s "      s = 'ab" ++ [nl]; s "     &cd'" ++ [nl]]))
  = ROk [s "s = 'ab cd'"]
  /\ s "s = 'ab cd'" <> s "s = 'ab" ++ spaces 58 ++ s "cd'".
Proof. split; [vm_compute; reflexivity|vm_compute; discriminate]. Qed.

(* non-vacuity: labels, a '0' in column 6, several continuation characters, comment lines of all
   four styles and short blank lines inside a statement *)
Definition example_fixed : list fxitem :=
  [FxIrr (FxComment "C" (s " header"));
   FxStmt {| fs_first := mkfx (s "  100") "0" 1 (s "call f('a!b',") 3;
             fs_conts := [([FxComment "*" (s " star"); FxBlank 2], mkfx (spaces 5) "1" 4 (s "x)") 0);
                          ([FxComment "c" (s ""); FxComment "!" (s " bang")], mkfx (spaces 5) "$" 0 (s "; y = 2") 1)] |};
   FxIrr (FxBlank 0);
   FxStmt {| fs_first := mkfx (spaces 5) " " 0 (s "end") 0; fs_conts := [] |}].

Example example_fixed_ok :
  Forall wf_item example_fixed /\ Forall item_ok (free_of example_fixed) /\
  read_all default_cfg (map chomp (convert_to_free true (render_fixed example_fixed)))
  = ROk [s "100  call f('a!b', x)"; s "y = 2"; s "end"].
Proof.
  split; [|split; [|vm_compute; reflexivity]].
  - unfold example_fixed.
    repeat match goal with
           | |- Forall (fun c : ascii => lab_char c = true) _ => repeat constructor
           | |- Forall _ (_ :: _) => constructor
           | |- Forall _ [] => constructor
           | |- wf_item _ => cbn [wf_item]
           | |- wf_stmt _ => unfold wf_stmt; cbn [fs_first fs_conts]
           | |- wf_fxirr _ => cbn [wf_fxirr]
           | |- context [fst (_, _)] => cbn [fst snd]
           | |- context [snd (_, _)] => cbn [fst snd]
           | |- wf_fxline _ => unfold wf_fxline; cbn [mkfx fx_label fx_text fx_ind fx_pad]
           | |- is_initial _ => (left; reflexivity) || (right; reflexivity)
           | |- is_continuation _ => unfold is_continuation; cbn [mkfx fx_label fx_c6]
           | |- _ /\ _ => split
           | |- _ <= _ => simpl; lia
           | |- ~ In _ _ => simpl; intros H; repeat (destruct H as [H|H]; [discriminate|]); exact H
           | |- _ <> _ => discriminate
           | |- _ = _ => reflexivity
           | |- nsfirst _ => reflexivity
           | |- nslast _ => reflexivity
           end.
  - repeat constructor; simpl; repeat split; try reflexivity; try discriminate; auto;
      try (intros; discriminate); try (repeat constructor; simpl; repeat split; discriminate).
Qed.
