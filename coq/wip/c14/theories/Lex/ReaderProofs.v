(* Lex/ReaderProofs.v — layout invariance of the reader model (C02) *)
From Ford Require Import Base.Str Base.StrFacts Lex.Quote Lex.Reader Lex.ReaderSpec Lex.QuoteProofs.
From Coq Require Import Lia.

(* ---------- stripping ---------- *)

Lemma is_space_sp : is_space " "%char = true.
Proof. reflexivity. Qed.

Lemma lstrip_spaces n x : lstrip (spaces n ++ x) = lstrip x.
Proof. induction n as [|n IH]; simpl; [reflexivity|exact IH]. Qed.

Lemma lstrip_ns c x : is_space c = false -> lstrip (c :: x) = c :: x.
Proof. intros H. simpl. now rewrite H. Qed.

Lemma rev_spaces n : rev (spaces n) = spaces n.
Proof.
  unfold spaces. induction n as [|n IH]; simpl; [reflexivity|]. rewrite IH. symmetry. apply repeat_cons.
Qed.

Definition nsfirst (x : str) : Prop := match x with c :: _ => is_space c = false | [] => False end.
Definition nslast (x : str) : Prop := match rev x with c :: _ => is_space c = false | [] => False end.

Lemma lstrip_nsfirst x : nsfirst x -> lstrip x = x.
Proof. destruct x as [|c x]; simpl; [tauto|]. intros H. now rewrite H. Qed.

Lemma rstrip_pad x n : nslast x -> rstrip (x ++ spaces n) = x.
Proof.
  intros H. unfold rstrip. rewrite rev_app_distr, rev_spaces, lstrip_spaces.
  unfold nslast in H. destruct (rev x) as [|c y] eqn:E; [tauto|].
  rewrite lstrip_ns by assumption. rewrite <- E. apply rev_involutive.
Qed.

Lemma strip_pad a x b : nsfirst x -> nslast x -> strip (spaces a ++ x ++ spaces b) = x.
Proof.
  intros H1 H2. unfold strip. rewrite lstrip_spaces.
  assert (E : lstrip (x ++ spaces b) = x ++ spaces b).
  { destruct x as [|c x]; [destruct H1|]. simpl in *. now rewrite H1. }
  rewrite E. now apply rstrip_pad.
Qed.

Lemma strip_spaces n : strip (spaces n) = [].
Proof.
  unfold strip. rewrite <- (app_nil_r (spaces n)), lstrip_spaces. reflexivity.
Qed.

Lemma lstrip_snoc_ns u c : is_space c = false -> lstrip (u ++ [c]) = lstrip u ++ [c].
Proof.
  intros H. induction u as [|d u IH]; simpl; [now rewrite H|].
  destruct (is_space d); [exact IH|reflexivity].
Qed.

Lemma rstrip_head c y : is_space c = false -> exists y', rstrip (c :: y) = c :: y'.
Proof.
  intros H. unfold rstrip. simpl. rewrite lstrip_snoc_ns by assumption.
  rewrite rev_app_distr. simpl. eauto.
Qed.

(* the first character of the stripped line, when the line is blanks followed by a non-blank *)
Lemma strip_head a c y : is_space c = false -> exists y', strip (spaces a ++ c :: y) = c :: y'.
Proof.
  intros H. unfold strip. rewrite lstrip_spaces, lstrip_ns by assumption. now apply rstrip_head.
Qed.

Lemma if_same {A} (b : bool) (x : A) : (if b then x else x) = x.
Proof. now destruct b. Qed.

(* ---------- one physical line of code ---------- *)

(* what the loop body does with the code part [line] of a physical line once comments are gone:
   the branch "line is not empty" of the model *)
Definition join_line (g : gstate) (l : lstate) (line : str) : step_res :=
  match line with
  | [] => SErr EIndex
  | ch :: rest =>
    let g0 := {| docbuffer := []; prevdoc := prevdoc g; reading_alt := 0 |} in
    let skip := SNext g0 {| continued := continued l; reading_predoc := false;
                            reading_predoc_alt := 0; linebuffer := linebuffer l |} false in
    let finish (lb line : str) :=
      let '(cont, line) := if last_is amp line then (true, removelast line) else (false, line) in
      let lb := lb ++ line in
      let dn := (negb true || negb (match lb with [] => true | _ => false end)) && negb cont in
      SNext g0 {| continued := cont; reading_predoc := false; reading_predoc_alt := 0; linebuffer := lb |} dn in
    if Ascii.eqb ch amp then
      if continued l then
        if is_blank rest then skip else finish (linebuffer l) rest
      else if (length (strip line) =? 1) then skip
      else SErr EAmpStart
    else finish (strip (linebuffer l) ++ s " ") line
  end.

(* an ordinary comment: its text does not begin with one of the documentation markers *)
Definition plain_comment (t : str) : Prop :=
  match t with
  | c :: _ => c <> "!"%char /\ c <> ">"%char /\ c <> "*"%char /\ c <> "|"%char
  | [] => True
  end.

Lemma starts_with_mark1 m t : starts_with [m] t = match t with c :: _ => Ascii.eqb m c | [] => false end.
Proof. destruct t as [|c t]; simpl; [reflexivity|]. now rewrite andb_true_r. Qed.

Lemma plain_no_mark t i line :
  plain_comment t -> skipn i line = bang :: t ->
  forall m, In m ["!"%char; ">"%char; "*"%char; "|"%char] ->
  starts_with (bang :: [m]) (skipn i line) = false.
Proof.
  intros Hp E m Hm. rewrite E.
  change (starts_with (bang :: [m]) (bang :: t)) with (Ascii.eqb bang bang && starts_with [m] t).
  rewrite Ascii.eqb_refl, starts_with_mark1. cbn [andb].
  destruct t as [|c t]; [reflexivity|].
  apply Ascii.eqb_neq. destruct Hp as (H1 & H2 & H3 & H4).
  simpl in Hm. intuition (subst; congruence).
Qed.

(* where the scan for a comment starts: the state of the literal scanner, unless the line is a
   comment line *)
Lemma bang_first_pad a c y : is_space c = false -> bang_first (spaces a ++ c :: y) = Ascii.eqb c bang.
Proof. intros H. unfold bang_first. now rewrite lstrip_spaces, lstrip_ns. Qed.

Lemma bang_first_spaces n : bang_first (spaces n) = false.
Proof. unfold bang_first. rewrite <- (app_nil_r (spaces n)), lstrip_spaces. reflexivity. Qed.

Lemma scan_start_code st a c y :
  is_space c = false -> Ascii.eqb c bang = false -> scan_start (spaces a ++ c :: y) st = st.
Proof. intros H1 H2. unfold scan_start. rewrite bang_first_pad, H2 by assumption. now destruct st. Qed.

Lemma scan_start_comment st i t : scan_start (spaces i ++ bang :: t) st = None.
Proof. unfold scan_start. rewrite bang_first_pad by reflexivity. now destruct st. Qed.

Lemma first_bang_from_spaces st i n : first_bang_from st i (spaces n) = None.
Proof.
  revert st i. induction n as [|n IH]; intros st i; [reflexivity|].
  change (spaces (S n)) with (" "%char :: spaces n). cbn [first_bang_from].
  destruct st as [q|]; [apply IH|]. change (Ascii.eqb " " bang) with false. cbv iota. apply IH.
Qed.

(* with no literal open the scan is the plain one *)
Lemma match_mark_outside c m line :
  match_mark (c :: m) line None =
  match first_bang line with
  | Some i => if starts_with (bang :: c :: m) (skipn i line) then Some i else None
  | None => None
  end.
Proof. reflexivity. Qed.

Lemma match_com_outside line : match_com line None = first_bang line.
Proof. reflexivity. Qed.

Section CodeLine.

(* g, l: a state with no pending documentation; the physical line is
   blanks ++ core ++ blanks ++ optional comment.  The line may start inside a literal continued
   from the previous line (st = Some q): a comment may follow once the literal is closed *)
Lemma step_code_line g l a core b cm :
  docbuffer g = [] -> reading_alt g = 0 -> reading_predoc l = false -> reading_predoc_alt l = 0 ->
  nsfirst core -> nslast core -> head_is hash core = false -> head_is bang core = false ->
  let st := qstate (linebuffer l) in
  st_ok st -> bang_free st core = true ->
  match cm with
  | None => True
  | Some t => qrun st core = None /\ plain_comment t
  end ->
  step default_cfg g l (spaces a ++ core ++ spaces b ++ render_comment cm) = join_line g l core.
Proof.
  intros Hdb Hra Hrp Hrpa Hf Hl Hh Hbg st Hok Hbf Hcm.
  destruct g as [db pd ra]. destruct l as [cont rp rpa lb]. simpl in *. subst db ra rp rpa.
  set (line0 := spaces a ++ core ++ spaces b ++ render_comment cm).
  (* the first non-blank character *)
  assert (Hhash : first_is hash (strip line0) = false).
  { destruct core as [|c core']; [destruct Hf|]. simpl in Hf.
    unfold line0. simpl. destruct (strip_head a c (core' ++ spaces b ++ render_comment cm) Hf) as [y' E].
    rewrite E. simpl. exact Hh. }
  (* the scan starts in the state the previous lines left *)
  assert (Hss : scan_start line0 st = st).
  { destruct core as [|c core']; [destruct Hf|]. simpl in Hf. unfold line0. cbn [app].
    apply scan_start_code; [exact Hf|]. simpl in Hbg. now rewrite Ascii.eqb_sym. }
  (* where the first unquoted '!' is *)
  assert (Hfb : first_bang_from st 0 line0 = match cm with Some _ => Some (a + length core + b) | None => None end).
  { unfold line0.
    rewrite first_bang_skip; [|exact Hok|apply bang_free_spaces].
    rewrite (qrun_no_quote st (spaces a)) by apply spaces_no_quote.
    rewrite first_bang_skip; [|exact Hok|exact Hbf].
    destruct cm as [t|]; simpl render_comment.
    - destruct Hcm as (Hq & _). rewrite Hq.
      rewrite first_bang_skip; [|exact I|apply bang_free_spaces].
      rewrite (qrun_no_quote None (spaces b)) by apply spaces_no_quote.
      simpl. f_equal. unfold spaces. rewrite !repeat_length. lia.
    - rewrite app_nil_r. apply first_bang_from_spaces. }
  assert (Hmarks : forall m, In m ["!"%char; ">"%char; "*"%char; "|"%char] ->
                   match_mark [m] line0 st = None).
  { intros m Hm. unfold match_mark. rewrite Hss, Hfb. destruct cm as [t|]; [|reflexivity].
    destruct Hcm as (_ & Hp).
    assert (Esk : skipn (a + length core + b) line0 = bang :: t).
    { unfold line0. simpl render_comment.
      replace (spaces a ++ core ++ spaces b ++ bang :: t) with ((spaces a ++ core ++ spaces b) ++ bang :: t)
        by now rewrite <- !app_assoc.
      rewrite skipn_app.
      assert (Hlen : length (spaces a ++ core ++ spaces b) = a + length core + b).
      { rewrite !app_length. unfold spaces. rewrite !repeat_length. lia. }
      rewrite <- Hlen, skipn_all, Nat.sub_diag. reflexivity. }
    now rewrite (plain_no_mark t _ line0 Hp Esk m Hm). }
  assert (Hcom : match_com line0 st =
                 match cm with Some _ => Some (a + length core + b) | None => None end).
  { unfold match_com. now rewrite Hss. }
  assert (Hstrip0 : cm = None -> strip line0 = core).
  { intros ->. unfold line0. simpl. rewrite app_nil_r. now apply strip_pad. }
  assert (Hfirstn : firstn (a + length core + b) line0 = spaces a ++ core ++ spaces b).
  { unfold line0.
    replace (spaces a ++ core ++ spaces b ++ render_comment cm)
      with ((spaces a ++ core ++ spaces b) ++ render_comment cm) by now rewrite <- !app_assoc.
    assert (Hlen : length (spaces a ++ core ++ spaces b) = a + length core + b).
    { rewrite !app_length. unfold spaces. rewrite !repeat_length. lia. }
    rewrite <- Hlen, firstn_app, firstn_all, Nat.sub_diag. simpl. now rewrite app_nil_r. }
  unfold step. cbn [docbuffer prevdoc reading_alt continued reading_predoc reading_predoc_alt linebuffer
                    docmark predocmark docmark_alt predocmark_alt default_cfg].
  fold line0. fold st. rewrite Hhash.
  change (s ">") with [">"%char]. change (s "|") with ["|"%char].
  change (s "*") with ["*"%char]. change (s "!") with ["!"%char].
  rewrite (Hmarks ">"%char) by (simpl; tauto).
  rewrite (Hmarks "|"%char) by (simpl; tauto).
  rewrite (Hmarks "*"%char) by (simpl; tauto).
  rewrite (Hmarks "!"%char) by (simpl; tauto).
  cbv beta iota zeta. rewrite !if_same, Hcom.
  destruct cm as [t|].
  - cbn [Nat.ltb Nat.leb orb andb]. rewrite Hfirstn.
    rewrite (strip_pad a core b Hf Hl).
    destruct core as [|ch rest]; [destruct Hf|]. reflexivity.
  - rewrite (Hstrip0 eq_refl). destruct core as [|ch rest]; [destruct Hf|]. reflexivity.
Qed.

End CodeLine.

(* ---------- blank and comment lines ---------- *)

Definition clean (g : gstate) : Prop := docbuffer g = [] /\ prevdoc g = false /\ reading_alt g = 0.
Definition idle (l : lstate) : Prop := reading_predoc l = false /\ reading_predoc_alt l = 0.

Lemma step_blank g l n :
  clean g -> idle l -> (continued l = true \/ linebuffer l = []) ->
  step default_cfg g l (spaces n) = SNext g l false.
Proof.
  intros (Hdb & Hpd & Hra) (Hrp & Hrpa) Hc.
  destruct g as [db pd ra]. destruct l as [cont rp rpa lb]. simpl in *. subst.
  assert (Hm : forall m, match_mark m (spaces n) (qstate lb) = None).
  { intros m. unfold match_mark. destruct m; [reflexivity|]. now rewrite first_bang_from_spaces. }
  assert (Hcom : match_com (spaces n) (qstate lb) = None).
  { unfold match_com. apply first_bang_from_spaces. }
  unfold step. cbn [docbuffer prevdoc reading_alt continued reading_predoc reading_predoc_alt linebuffer].
  rewrite strip_spaces. cbn [first_is]. rewrite !Hm. cbv beta iota zeta. rewrite !if_same, Hcom.
  rewrite strip_spaces. cbn [andb Nat.ltb Nat.leb Nat.eqb negb orb].
  destruct Hc as [->| ->]; cbn [negb]; rewrite ?andb_false_r, ?andb_true_r; [reflexivity|].
  destruct cont; reflexivity.
Qed.

(* an ordinary comment line is skipped, also between the lines of a continued literal *)
Lemma step_comment_line g l i t :
  clean g -> idle l -> (continued l = true \/ linebuffer l = []) ->
  plain_comment t ->
  step default_cfg g l (spaces i ++ bang :: t) = SNext g l false.
Proof.
  intros (Hdb & Hpd & Hra) (Hrp & Hrpa) Hc Hp.
  destruct g as [db pd ra]. destruct l as [cont rp rpa lb]. simpl in *. subst.
  set (line0 := spaces i ++ bang :: t).
  assert (Hss : scan_start line0 (qstate lb) = None) by apply scan_start_comment.
  assert (Hfb : first_bang_from None 0 line0 = Some i).
  { unfold line0. rewrite first_bang_skip; [|exact I|apply bang_free_spaces].
    rewrite (qrun_no_quote None (spaces i)) by apply spaces_no_quote. simpl.
    f_equal. unfold spaces. rewrite repeat_length. lia. }
  assert (Esk : skipn i line0 = bang :: t).
  { unfold line0. rewrite skipn_app. unfold spaces at 1. rewrite <- (repeat_length " "%char i) at 1.
    rewrite skipn_all. unfold spaces. rewrite repeat_length, Nat.sub_diag. reflexivity. }
  assert (Hm : forall m, In m ["!"%char; ">"%char; "*"%char; "|"%char] ->
               match_mark [m] line0 (qstate lb) = None).
  { intros m Hin. unfold match_mark. rewrite Hss, Hfb. now rewrite (plain_no_mark t i line0 Hp Esk m Hin). }
  assert (Hcom : match_com line0 (qstate lb) = Some i).
  { unfold match_com. now rewrite Hss. }
  assert (Hfn : firstn i line0 = spaces i).
  { unfold line0. rewrite firstn_app. unfold spaces at 1. rewrite <- (repeat_length " "%char i) at 1.
    rewrite firstn_all. unfold spaces. rewrite repeat_length, Nat.sub_diag. simpl. now rewrite app_nil_r. }
  assert (Hhash : first_is hash (strip line0) = false).
  { unfold line0. destruct (strip_head i bang t eq_refl) as [y' E]. rewrite E. reflexivity. }
  unfold step. cbn [docbuffer prevdoc reading_alt continued reading_predoc reading_predoc_alt linebuffer
                    docmark predocmark docmark_alt predocmark_alt default_cfg].
  fold line0. rewrite Hhash.
  change (s ">") with [">"%char]. change (s "|") with ["|"%char].
  change (s "*") with ["*"%char]. change (s "!") with ["!"%char].
  rewrite (Hm ">"%char) by (simpl; tauto). rewrite (Hm "|"%char) by (simpl; tauto).
  rewrite (Hm "*"%char) by (simpl; tauto). rewrite (Hm "!"%char) by (simpl; tauto).
  cbv beta iota zeta. rewrite !if_same, Hcom. cbn [Nat.ltb Nat.leb orb andb].
  rewrite Hfn, strip_spaces. cbn [andb Nat.ltb Nat.leb Nat.eqb negb orb].
  destruct Hc as [->| ->]; cbn [negb]; rewrite ?andb_false_r, ?andb_true_r; [reflexivity|].
  destruct cont; reflexivity.
Qed.

(* ---------- segments of one logical line ---------- *)

(* what the first character of a line's text must be when the line does not start with '&':
   not a blank, and none of '#' (preprocessor line), '&', '!' (comment line) *)
Definition head_ok (x : str) : Prop :=
  nsfirst x /\ head_is hash x = false /\ head_is amp x = false /\ head_is bang x = false.

(* Fortran's own rule for where commentary may stand: after a continued or final line whose end
   lies outside a literal (wherever the line started), and as a comment line between any two lines
   of a continued statement (also between the lines of a continued literal). *)
Definition bline_okF (b : bline) : Prop :=
  match b with BBlank _ => True | BComment _ t => plain_comment t end.

(* st = literal state at the start of the segment *)
Definition seg_okF (st : option ascii) (first last : bool) (sg : seg) : Prop :=
  let st' := qrun st (sg_text sg) in
  st_ok st /\
  bang_free st (sg_text sg) = true /\
  match sg_comment sg with Some t => st' = None /\ plain_comment t | None => True end /\
  (last = false -> Forall bline_okF (sg_between sg)) /\
  (first = true -> head_ok (sg_text sg) /\ head_is semi (sg_text sg) = false) /\
  (first = false -> sg_amp sg = false -> head_ok (sg_text sg)) /\
  (last = true -> nslast (sg_text sg) /\ last_is amp (sg_text sg) = false).
Fixpoint segs_okF (st : option ascii) (first : bool) (l : list seg) : Prop :=
  match l with
  | [] => False
  | [sg] => seg_okF st first true sg
  | sg :: l' => seg_okF st first false sg /\ segs_okF (qrun st (sg_text sg)) false l'
  end.
Definition item_okF (it : fitem) : Prop :=
  match it with
  | FBlank _ => True
  | FComment _ t => plain_comment t
  | FLine segs => segs_okF None true segs
  end.

(* the narrower class of the first version of this development (commentary only where no literal
   is open at the start of the line); kept for the developments stated with it (Lex/FixedProofs.v) *)
Definition bline_ok (st : option ascii) (b : bline) : Prop :=
  match b with BBlank _ => True | BComment _ t => st = None /\ plain_comment t end.
Definition seg_ok (st : option ascii) (first last : bool) (sg : seg) : Prop :=
  let st' := qrun st (sg_text sg) in
  st_ok st /\
  bang_free st (sg_text sg) = true /\
  match sg_comment sg with Some t => st = None /\ st' = None /\ plain_comment t | None => True end /\
  (last = false -> Forall (bline_ok st') (sg_between sg)) /\
  (first = true -> head_ok (sg_text sg) /\ head_is semi (sg_text sg) = false) /\
  (first = false -> sg_amp sg = false -> head_ok (sg_text sg)) /\
  (last = true -> nslast (sg_text sg) /\ last_is amp (sg_text sg) = false).
Fixpoint segs_ok (st : option ascii) (first : bool) (l : list seg) : Prop :=
  match l with
  | [] => False
  | [sg] => seg_ok st first true sg
  | sg :: l' => seg_ok st first false sg /\ segs_ok (qrun st (sg_text sg)) false l'
  end.
Definition item_ok (it : fitem) : Prop :=
  match it with
  | FBlank _ => True
  | FComment _ t => plain_comment t
  | FLine segs => segs_ok None true segs
  end.

Lemma seg_ok_okF st first last sg : seg_ok st first last sg -> seg_okF st first last sg.
Proof.
  intros (A & B & C & D & E & F & G).
  split; [exact A|]. split; [exact B|]. split; [|split; [|split; [|split]; assumption]].
  - destruct (sg_comment sg) as [t|]; [|exact I]. destruct C as (_ & C2 & C3). now split.
  - intros Hl. specialize (D Hl). rewrite Forall_forall in *. intros b Hin. specialize (D b Hin).
    destruct b as [n|i t]; [exact I|]. exact (proj2 D).
Qed.

Lemma segs_ok_okF segs : forall st first, segs_ok st first segs -> segs_okF st first segs.
Proof.
  induction segs as [|sg segs IH]; intros st first H; [exact H|].
  destruct segs as [|sg2 segs].
  - cbn [segs_ok segs_okF] in *. now apply seg_ok_okF.
  - destruct H as (H1 & H2). split; [now apply seg_ok_okF|now apply IH].
Qed.

Lemma item_ok_okF it : item_ok it -> item_okF it.
Proof. destruct it as [n|i t|segs]; simpl; auto. apply segs_ok_okF. Qed.

Definition cont_state (buf : str) : lstate :=
  {| continued := true; reading_predoc := false; reading_predoc_alt := 0; linebuffer := buf |}.
Definition done_state (buf : str) : lstate :=
  {| continued := false; reading_predoc := false; reading_predoc_alt := 0; linebuffer := buf |}.

Lemma last_is_snoc c x : last_is c (x ++ [c]) = true.
Proof. unfold last_is. rewrite rev_app_distr. simpl. apply Ascii.eqb_refl. Qed.

Lemma is_blank_snoc_ns x c : is_space c = false -> is_blank (x ++ [c]) = false.
Proof.
  intros H. unfold is_blank.
  assert (E : strip (x ++ [c]) = lstrip x ++ [c]).
  { unfold strip. rewrite lstrip_snoc_ns by assumption.
    unfold rstrip. rewrite rev_app_distr. cbn [rev app]. rewrite lstrip_ns by assumption.
    cbn [rev]. now rewrite rev_involutive. }
  rewrite E. destruct (lstrip x); reflexivity.
Qed.

Lemma is_blank_nslast x : nslast x -> is_blank x = false.
Proof.
  unfold nslast. intros H. destruct (rev x) as [|c y] eqn:E; [destruct H|].
  assert (Ex : x = rev y ++ [c]) by (rewrite <- (rev_involutive x), E; reflexivity).
  rewrite Ex. now apply is_blank_snoc_ns.
Qed.

Lemma nslast_snoc x c : is_space c = false -> nslast (x ++ [c]).
Proof. intros H. unfold nslast. rewrite rev_app_distr. simpl. exact H. Qed.

Lemma nslast_cons c x : nslast x -> nslast (c :: x).
Proof.
  unfold nslast. simpl. destruct (rev x) as [|d y]; [tauto|]. simpl. auto.
Qed.

(* stripping removes blanks only, and blanks never change the literal state *)
Lemma space_not_quote c : is_space c = true -> is_quote c = false.
Proof.
  intros H. destruct (is_quote c) eqn:Q; [|reflexivity].
  destruct (is_quote_cases c Q); subst; discriminate.
Qed.

Lemma lstrip_split x : exists ws, x = ws ++ lstrip x /\ Forall (fun c => is_space c = true) ws.
Proof.
  induction x as [|c x IH]; [exists []; split; [reflexivity|constructor]|].
  simpl. destruct (is_space c) eqn:E.
  - destruct IH as (ws & Hx & Hw). exists (c :: ws). split; [simpl; now rewrite <- Hx|now constructor].
  - exists []. split; [reflexivity|constructor].
Qed.

Lemma qrun_spaces_any st ws : Forall (fun c => is_space c = true) ws -> qrun st ws = st.
Proof.
  intros H. apply qrun_no_quote. induction H as [|c ws Hc _ IH]; constructor; auto.
  now apply space_not_quote.
Qed.

Lemma qrun_lstrip st x : qrun st (lstrip x) = qrun st x.
Proof.
  destruct (lstrip_split x) as (ws & Hx & Hw). rewrite Hx at 2.
  rewrite qrun_app, (qrun_spaces_any st ws Hw). reflexivity.
Qed.

Lemma qrun_rstrip st x : qrun st (rstrip x) = qrun st x.
Proof.
  unfold rstrip. destruct (lstrip_split (rev x)) as (ws & Hx & Hw).
  assert (E : x = rev (lstrip (rev x)) ++ rev ws).
  { rewrite <- (rev_involutive x) at 1. rewrite Hx at 1. now rewrite rev_app_distr. }
  rewrite E at 2. rewrite qrun_app.
  rewrite (qrun_spaces_any _ (rev ws)); [reflexivity|].
  rewrite Forall_forall in *. intros c Hc. apply Hw. now apply in_rev.
Qed.

Lemma qrun_strip st x : qrun st (strip x) = qrun st x.
Proof. unfold strip. now rewrite qrun_rstrip, qrun_lstrip. Qed.

Lemma bang_free_amp_wrap st text (pre post : bool) :
  bang_free st ((if pre then [amp] else []) ++ text ++ (if post then [amp] else [])) = bang_free st text.
Proof.
  assert (Ha : forall st0 x, bang_free st0 (amp :: x) = bang_free st0 x).
  { intros st0 x. simpl. destruct st0 as [q|]; [|reflexivity].
    unfold qstep. simpl. destruct (Ascii.eqb amp q); reflexivity. }
  assert (Hb : forall st0, bang_free st0 (if post then [amp] else []) = true).
  { intros st0. destruct post; [|reflexivity]. rewrite Ha. reflexivity. }
  destruct pre; simpl app; rewrite ?Ha, bang_free_app, Hb, andb_true_r; reflexivity.
Qed.

Lemma qrun_amp_wrap st text (pre post : bool) :
  qrun st ((if pre then [amp] else []) ++ text ++ (if post then [amp] else [])) = qrun st text.
Proof.
  assert (Ha : forall st0, qstep st0 amp = st0) by (intros; apply qstep_nq; reflexivity).
  destruct pre, post; simpl app; rewrite ?qrun_cons, ?Ha, ?qrun_app; simpl; rewrite ?Ha, ?app_nil_r; reflexivity.
Qed.

(* the buffer after a segment has been joined *)
Definition next_buf (buf : str) (sg : seg) : str :=
  if sg_amp sg then buf ++ sg_text sg else strip buf ++ " "%char :: sg_text sg.

Lemma qstate_next_buf buf sg : qstate (next_buf buf sg) = qrun (qstate buf) (sg_text sg).
Proof.
  unfold next_buf, qstate. fold (qrun None buf). destruct (sg_amp sg).
  - apply qrun_app.
  - change (strip buf ++ " "%char :: sg_text sg) with (strip buf ++ [" "%char] ++ sg_text sg).
    fold (qrun None (strip buf ++ [" "%char] ++ sg_text sg)).
    rewrite !qrun_app, qrun_strip. reflexivity.
Qed.

(* the first segment, read in the initial loop state *)
Lemma step_first_seg g last sg :
  clean g -> seg_okF None true last sg ->
  step default_cfg g linit (render_seg_line true last sg) =
  SNext g (if last then done_state (" "%char :: sg_text sg) else cont_state (" "%char :: sg_text sg)) last.
Proof.
  intros (Hdb & Hpd & Hra) (Hok & Hbf & Hcm & _ & Hfirst & _ & Hlast).
  destruct (Hfirst eq_refl) as ((Hns & Hh & Ha & Hbg) & _).
  unfold render_seg_line. cbn [app].
  set (core := sg_text sg ++ (if last then [] else [amp])).
  assert (Hcf : nsfirst core).
  { unfold core. destruct (sg_text sg); [destruct Hns|exact Hns]. }
  assert (Hcl : nslast core).
  { unfold core. destruct last; [rewrite app_nil_r; now apply Hlast|now apply nslast_snoc]. }
  assert (Hch : head_is hash core = false).
  { unfold core. destruct (sg_text sg); [destruct Hns|exact Hh]. }
  assert (Hcb : head_is bang core = false).
  { unfold core. destruct (sg_text sg); [destruct Hns|exact Hbg]. }
  assert (Hq : qrun None core = qrun None (sg_text sg)).
  { unfold core. destruct last; simpl; [now rewrite app_nil_r|]. rewrite qrun_app. simpl. apply qstep_nq. reflexivity. }
  assert (Hb : bang_free None core = true).
  { unfold core. destruct last; [now rewrite app_nil_r|].
    rewrite bang_free_app, Hbf. simpl. destruct (qrun None (sg_text sg)); reflexivity. }
  assert (Hcmt : match sg_comment sg with
                 | None => True
                 | Some t => qrun (qstate (linebuffer linit)) core = None /\ plain_comment t
                 end).
  { destruct (sg_comment sg) as [t|]; [|exact I]. destruct Hcm as (H2 & H3).
    cbn [linit linebuffer]. change (qstate []) with (@None ascii). rewrite Hq. auto. }
  rewrite (step_code_line g linit (sg_ind sg) core (sg_trail sg) (sg_comment sg)
             Hdb Hra eq_refl eq_refl Hcf Hcl Hch Hcb I Hb Hcmt).
  unfold join_line. destruct core as [|ch rest] eqn:Ec; [destruct Hcf|].
  assert (Hamp : Ascii.eqb ch amp = false).
  { unfold core in Ec. destruct (sg_text sg) as [|c0 t0]; [destruct Hns|].
    simpl in Ec. injection Ec as <- _. simpl in Ha. now rewrite Ascii.eqb_sym. }
  rewrite Hamp. cbn [linit linebuffer continued]. change (strip []) with (@nil ascii).
  cbn [app]. rewrite <- Ec. unfold core.
  destruct g as [db pd ra]. simpl in Hdb, Hpd, Hra. subst.
  destruct last.
  + rewrite app_nil_r. destruct (Hlast eq_refl) as (_ & Hla). rewrite Hla. reflexivity.
  + rewrite last_is_snoc, removelast_last. reflexivity.
Qed.

Lemma ne_app_nslast (b x : str) : nslast x -> match b ++ x with [] => true | _ :: _ => false end = false.
Proof.
  unfold nslast. destruct (rev x) eqn:E; [tauto|]. intros _. destruct b; [|reflexivity].
  simpl. destruct x; [discriminate E|reflexivity].
Qed.

Lemma ne_app_cons (a : str) c (b : str) : match a ++ c :: b with [] => true | _ :: _ => false end = false.
Proof. destruct a; reflexivity. Qed.

(* a continuation segment, read while the statement is being continued *)
Lemma step_cont_seg g buf last sg :
  clean g -> seg_okF (qstate buf) false last sg ->
  step default_cfg g (cont_state buf) (render_seg_line false last sg) =
  SNext g (if last then done_state (next_buf buf sg) else cont_state (next_buf buf sg)) last.
Proof.
  intros (Hdb & Hpd & Hra) (Hok & Hbf & Hcm & _ & _ & Hhead & Hlast).
  unfold render_seg_line.
  set (core := (if sg_amp sg then [amp] else []) ++ sg_text sg ++ (if last then [] else [amp])).
  assert (Hcf : nsfirst core).
  { unfold core. destruct (sg_amp sg) eqn:Ea; [reflexivity|].
    destruct (Hhead eq_refl eq_refl) as (Hns & _). simpl. destruct (sg_text sg); [destruct Hns|exact Hns]. }
  assert (Hch : head_is hash core = false).
  { unfold core. destruct (sg_amp sg) eqn:Ea; [reflexivity|].
    destruct (Hhead eq_refl eq_refl) as (Hns & Hh & _). simpl. destruct (sg_text sg); [destruct Hns|exact Hh]. }
  assert (Hcb : head_is bang core = false).
  { unfold core. destruct (sg_amp sg) eqn:Ea; [reflexivity|].
    destruct (Hhead eq_refl eq_refl) as (Hns & _ & _ & Hbg). simpl. destruct (sg_text sg); [destruct Hns|exact Hbg]. }
  assert (Hcl : nslast core).
  { unfold core. destruct last.
    - rewrite app_nil_r. destruct (sg_amp sg); [apply nslast_cons|]; now apply Hlast.
    - rewrite app_assoc. now apply nslast_snoc. }
  assert (Hq : forall st0, qrun st0 core = qrun st0 (sg_text sg)).
  { intros st0. unfold core. destruct last.
    - apply (qrun_amp_wrap st0 (sg_text sg) (sg_amp sg) false).
    - apply (qrun_amp_wrap st0 (sg_text sg) (sg_amp sg) true). }
  assert (Hb : bang_free (qstate buf) core = true).
  { unfold core. destruct last.
    - rewrite (bang_free_amp_wrap _ (sg_text sg) (sg_amp sg) false). exact Hbf.
    - rewrite (bang_free_amp_wrap _ (sg_text sg) (sg_amp sg) true). exact Hbf. }
  assert (Hcmt : match sg_comment sg with
                 | None => True
                 | Some t => qrun (qstate (linebuffer (cont_state buf))) core = None /\ plain_comment t
                 end).
  { cbn [cont_state linebuffer].
    destruct (sg_comment sg) as [t|]; [|exact I]. destruct Hcm as (H2 & H3).
    rewrite Hq. auto. }
  rewrite (step_code_line g (cont_state buf) (sg_ind sg) core (sg_trail sg) (sg_comment sg)
             Hdb Hra eq_refl eq_refl Hcf Hcl Hch Hcb Hok Hb Hcmt).
  unfold join_line, core, next_buf.
  destruct g as [db pd ra]. simpl in Hdb, Hpd, Hra. subst.
  destruct (sg_amp sg) eqn:Ea.
  - cbn [app]. rewrite Ascii.eqb_refl. cbn [cont_state continued linebuffer].
    destruct last.
    + rewrite app_nil_r. destruct (Hlast eq_refl) as (Hnl & Hla).
      rewrite (is_blank_nslast _ Hnl), Hla. rewrite (ne_app_nslast buf _ Hnl). reflexivity.
    + rewrite (is_blank_snoc_ns (sg_text sg) amp eq_refl), last_is_snoc, removelast_last.
      cbn [negb]. rewrite andb_false_r. reflexivity.
  - destruct (Hhead eq_refl eq_refl) as (Hns & _ & Ha & _).
    cbn [app]. destruct (sg_text sg) as [|c0 t0] eqn:Et; [destruct Hns|].
    cbn [app]. unfold head_is in Ha. rewrite Ascii.eqb_sym in Ha. rewrite Ha.
    cbn [cont_state continued linebuffer].
    destruct last.
    + rewrite app_nil_r. destruct (Hlast eq_refl) as (_ & Hla). rewrite Hla.
      change (s " ") with [" "%char]. rewrite <- app_assoc. cbn [app]. rewrite ne_app_cons. reflexivity.
    + change (c0 :: t0 ++ [amp]) with ((c0 :: t0) ++ [amp]).
      rewrite last_is_snoc, removelast_last.
      change (s " ") with [" "%char]. rewrite <- app_assoc. cbn [app negb]. rewrite andb_false_r. reflexivity.
Qed.

(* ---------- a whole logical line ---------- *)

Lemma loop_between g buf bl rest :
  clean g -> Forall bline_okF bl ->
  loop default_cfg g (cont_state buf) (map render_bline bl ++ rest)
  = loop default_cfg g (cont_state buf) rest.
Proof.
  intros Hg H. induction H as [|b bl Hb _ IH]; [reflexivity|].
  cbn [map app loop]. destruct b as [n|i t]; cbn [render_bline].
  - rewrite step_blank; [exact IH|exact Hg|split; reflexivity|left; reflexivity].
  - rewrite step_comment_line; [exact IH|exact Hg|split; reflexivity|left; reflexivity|exact Hb].
Qed.

Lemma loop_cont_segs g segs : forall buf rest,
  clean g -> segs_okF (qstate buf) false segs ->
  loop default_cfg g (cont_state buf) (render_segs false segs ++ rest)
  = LDone g (done_state (joined_from buf segs)) rest.
Proof.
  induction segs as [|sg segs IH]; intros buf rest Hg Hok; [destruct Hok|].
  destruct segs as [|sg2 segs].
  - cbn [render_segs app loop]. cbn [segs_okF] in Hok.
    rewrite (step_cont_seg g buf true sg Hg Hok). reflexivity.
  - destruct Hok as (Hsg & Hrest).
    change (render_segs false (sg :: sg2 :: segs))
      with (render_seg_line false false sg :: map render_bline (sg_between sg) ++ render_segs false (sg2 :: segs)).
    cbn [app loop]. rewrite (step_cont_seg g buf false sg Hg Hsg).
    rewrite <- app_assoc. rewrite loop_between.
    + rewrite <- qstate_next_buf in Hrest. rewrite (IH (next_buf buf sg) rest Hg Hrest). reflexivity.
    + exact Hg.
    + destruct Hsg as (_ & _ & _ & Hbt & _). now apply Hbt.
Qed.

Theorem loop_logical_line g segs rest :
  clean g -> segs_okF None true segs ->
  loop default_cfg g linit (render_segs true segs ++ rest)
  = LDone g (done_state (joined segs)) rest.
Proof.
  intros Hg Hok. destruct segs as [|sg segs]; [destruct Hok|].
  destruct segs as [|sg2 segs].
  - cbn [render_segs app loop]. cbn [segs_okF] in Hok.
    rewrite (step_first_seg g true sg Hg Hok). reflexivity.
  - destruct Hok as (Hsg & Hrest).
    change (render_segs true (sg :: sg2 :: segs))
      with (render_seg_line true false sg :: map render_bline (sg_between sg) ++ render_segs false (sg2 :: segs)).
    cbn [app loop]. rewrite (step_first_seg g false sg Hg Hsg).
    rewrite <- app_assoc. rewrite loop_between.
    + assert (Eq : qstate (" "%char :: sg_text sg) = qrun None (sg_text sg)) by reflexivity.
      rewrite <- Eq in Hrest.
      rewrite (loop_cont_segs g (sg2 :: segs) (" "%char :: sg_text sg) rest Hg Hrest). reflexivity.
    + exact Hg.
    + destruct Hsg as (_ & _ & _ & Hbt & _). now apply Hbt.
Qed.

(* ---------- a whole file ---------- *)

Lemma rev_nonempty {A} (l : list A) : l <> [] -> rev l <> [].
Proof. intros H E. apply H. rewrite <- (rev_involutive l), E. reflexivity. Qed.

Lemma qsplit_head_nonempty x : forall sep mode skip cur,
  cur <> [] -> exists y ys, qsplit sep mode skip cur x = y :: ys /\ y <> [].
Proof.
  induction x as [|c x IH]; intros sep mode skip cur Hc.
  - exists (rev cur), []. split; [reflexivity|now apply rev_nonempty].
  - cbn [qsplit]. destruct skip; [apply IH; discriminate|].
    destruct mode as [|[|m]].
    + destruct (Ascii.eqb c dq); [apply IH; discriminate|].
      destruct (Ascii.eqb c sq); [apply IH; discriminate|].
      destruct (Ascii.eqb c sep); [|apply IH; discriminate].
      eexists _, _. split; [reflexivity|now apply rev_nonempty].
    + destruct (Ascii.eqb c dq); [|apply IH; discriminate].
      destruct x as [|d x']; [apply IH; discriminate|].
      destruct (Ascii.eqb d dq); apply IH; discriminate.
    + destruct (Ascii.eqb c sq); [|apply IH; discriminate].
      destruct x as [|d x']; [apply IH; discriminate|].
      destruct (Ascii.eqb d sq); apply IH; discriminate.
Qed.

(* buffers that begin (after at most one blank) with a non-blank character other than ';' *)
Definition good_head (buf : str) : Prop :=
  exists c y, (buf = " "%char :: c :: y \/ buf = c :: y) /\ is_space c = false /\ Ascii.eqb c semi = false.

Lemma good_head_split buf : good_head buf ->
  exists y ys, quote_split semi buf = y :: ys /\ y <> [].
Proof.
  intros (c & y & [E|E] & Hs & Hc); subst buf; unfold quote_split.
  - change (qsplit semi 0 false [] (" "%char :: c :: y)) with (qsplit semi 0 false [" "%char] (c :: y)).
    apply qsplit_head_nonempty. discriminate.
  - cbn [qsplit]. destruct (Ascii.eqb c dq); [apply qsplit_head_nonempty; discriminate|].
    destruct (Ascii.eqb c sq); [apply qsplit_head_nonempty; discriminate|].
    rewrite Hc. apply qsplit_head_nonempty. discriminate.
Qed.

Lemma strip_keeps_head c y : is_space c = false -> exists y', strip (c :: y) = c :: y'.
Proof. intros H. apply (strip_head 0 c y H). Qed.

Lemma good_head_next buf sg : good_head buf -> good_head (next_buf buf sg).
Proof.
  intros (c & y & E & Hs & Hc). unfold next_buf. destruct (sg_amp sg).
  - destruct E as [E|E]; subst buf; exists c; eexists; (split; [|split; assumption]); [left|right]; reflexivity.
  - assert (Hst : exists y', strip buf = c :: y').
    { destruct E as [E|E]; subst buf.
      - apply (strip_head 1 c y Hs).
      - now apply strip_keeps_head. }
    destruct Hst as (y' & E'). rewrite E'. exists c. eexists. split; [right; reflexivity|split; assumption].
Qed.

Lemma good_head_joined_from segs : forall buf, good_head buf -> good_head (joined_from buf segs).
Proof.
  induction segs as [|sg segs IH]; intros buf H; [exact H|].
  cbn [joined_from]. apply IH. apply (good_head_next buf sg H).
Qed.

Lemma good_head_joined segs : segs_okF None true segs -> good_head (joined segs).
Proof.
  destruct segs as [|sg segs]; [intros []|]. intros H.
  assert (Hsg : head_ok (sg_text sg) /\ head_is semi (sg_text sg) = false).
  { destruct segs; [apply H|apply (proj1 H)]; reflexivity. }
  destruct Hsg as ((Hns & _) & Hsemi).
  cbn [joined]. apply good_head_joined_from.
  destruct (sg_text sg) as [|c y]; [destruct Hns|].
  exists c, y. split; [left; reflexivity|]. split; [exact Hns|].
  simpl in Hsemi. now rewrite Ascii.eqb_sym.
Qed.

Lemma emit_done g buf :
  clean g -> good_head buf ->
  emit default_cfg g (done_state buf) = Some (stmts_of buf, g).
Proof.
  intros (Hdb & Hpd & Hra) Hgh. destruct g as [db pd ra]. simpl in *. subst.
  unfold emit, stmts_of. cbn [done_state linebuffer docbuffer prevdoc reading_alt].
  unfold nonempty.
  destruct (good_head_split buf Hgh) as (y & ys & Eq & Hy). rewrite Eq. cbn [filter].
  destruct y as [|c y]; [congruence|]. cbn [map]. reflexivity.
Qed.

Fixpoint count_lines (f : list fitem) : nat :=
  match f with
  | [] => 0
  | FLine _ :: f' => S (count_lines f')
  | _ :: f' => count_lines f'
  end.

Lemma loop_skip_blank g n rest : clean g ->
  loop default_cfg g linit (spaces n :: rest) = loop default_cfg g linit rest.
Proof.
  intros Hg. cbn [loop]. rewrite step_blank; [reflexivity|exact Hg|split; reflexivity|right; reflexivity].
Qed.

Lemma loop_skip_comment g i t rest : clean g -> plain_comment t ->
  loop default_cfg g linit ((spaces i ++ bang :: t) :: rest) = loop default_cfg g linit rest.
Proof.
  intros Hg Hp. cbn [loop].
  rewrite step_comment_line; [reflexivity|exact Hg|split; reflexivity|right; reflexivity|exact Hp].
Qed.

Lemma read_file_fuel f : forall fuel g acc,
  clean g -> Forall item_okF f -> count_lines f < fuel ->
  read_fuel fuel default_cfg g (render_file f) acc = ROk (acc ++ flat_map stmts_of (file_texts f)).
Proof.
  induction f as [|it f IH]; intros fuel g acc Hg Hok Hfuel.
  - destruct fuel; [lia|]. simpl. now rewrite app_nil_r.
  - inversion Hok as [|? ? Hit Hf]; subst.
    destruct fuel as [|fuel]; [lia|].
    destruct it as [n|i t|segs].
    + cbn [render_file flat_map render_item app file_texts].
      specialize (IH (S fuel) g acc Hg Hf). cbn [count_lines] in Hfuel.
      cbn [read_fuel] in *. rewrite loop_skip_blank by exact Hg. apply IH. exact Hfuel.
    + cbn [render_file flat_map render_item app file_texts].
      specialize (IH (S fuel) g acc Hg Hf). cbn [count_lines] in Hfuel.
      cbn [read_fuel] in *. rewrite loop_skip_comment by assumption. apply IH. exact Hfuel.
    + cbn [render_file flat_map render_item file_texts]. cbn [count_lines] in Hfuel.
      cbn [read_fuel]. fold (render_file f).
      rewrite (loop_logical_line g segs (render_file f) Hg Hit).
      rewrite (emit_done g (joined segs) Hg (good_head_joined segs Hit)).
      rewrite (IH fuel g (acc ++ stmts_of (joined segs)) Hg Hf) by lia.
      cbn [app flat_map]. fold (file_texts f). now rewrite <- app_assoc.
Qed.

Lemma count_le_length f : Forall item_okF f -> count_lines f <= length (render_file f).
Proof.
  intros H. induction H as [|it f Hit _ IH]; [simpl; lia|].
  unfold render_file in *. cbn [flat_map]. rewrite app_length.
  destruct it as [n|i t|segs]; cbn [count_lines render_item length]; try lia.
  destruct segs as [|sg segs]; [destruct Hit|].
  assert (1 <= length (render_segs true (sg :: segs))).
  { destruct segs; cbn [render_segs length]; lia. }
  lia.
Qed.

(* the statements extracted from a file are a function of the character streams of its
   logical lines only — whatever the indentation, trailing blanks, comments, blank lines, and
   (for '&'-led continuation) wherever the cuts are *)
Theorem file_statementsF f :
  Forall item_okF f ->
  read_all default_cfg (render_file f) = ROk (flat_map stmts_of (file_texts f)).
Proof.
  intros H. unfold read_all.
  rewrite (read_file_fuel f _ ginit [] (conj eq_refl (conj eq_refl eq_refl)) H).
  - reflexivity.
  - pose proof (count_le_length f H). lia.
Qed.

Theorem layout_invarianceF f1 f2 :
  Forall item_okF f1 -> Forall item_okF f2 -> file_texts f1 = file_texts f2 ->
  read_all default_cfg (render_file f1) = read_all default_cfg (render_file f2).
Proof. intros H1 H2 E. rewrite !file_statementsF by assumption. now rewrite E. Qed.

(* with '&'-led continuation only, the character stream is the plain concatenation of the
   segment texts: cuts are invisible *)
Lemma joined_from_amp segs : forall buf,
  Forall (fun sg => sg_amp sg = true) segs -> joined_from buf segs = buf ++ ll_text segs.
Proof.
  induction segs as [|sg segs IH]; intros buf H; [simpl; now rewrite app_nil_r|].
  inversion H as [|? ? Ha Hr]; subst. cbn [joined_from]. rewrite Ha, IH by assumption.
  unfold ll_text. cbn [flat_map]. now rewrite app_assoc.
Qed.

Theorem joined_all_amp sg segs :
  Forall (fun x => sg_amp x = true) segs -> joined (sg :: segs) = " "%char :: ll_text (sg :: segs).
Proof.
  intros H. cbn [joined]. rewrite joined_from_amp by assumption. reflexivity.
Qed.

(* ---------- the narrower class (compatibility), the full statement, examples ---------- *)

(* the same two theorems in the shape they had before commentary after / inside a continued
   literal was recognised (used by Lex/FixedProofs.v) *)
Corollary file_statements f :
  Forall item_ok f ->
  read_all default_cfg (render_file f) = ROk (flat_map stmts_of (file_texts f)).
Proof. intros H. apply file_statementsF. eapply Forall_impl; [|exact H]. apply item_ok_okF. Qed.

Corollary layout_invariance f1 f2 :
  Forall item_ok f1 -> Forall item_ok f2 -> file_texts f1 = file_texts f2 ->
  read_all default_cfg (render_file f1) = read_all default_cfg (render_file f2).
Proof. intros H1 H2 E. rewrite !file_statements by assumption. now rewrite E. Qed.

(* the full statement of the property for the reader: commentary wherever Fortran allows it *)
Definition statement_C02 : Prop :=
  forall f, Forall item_okF f ->
  read_all default_cfg (render_file f) = ROk (flat_map stmts_of (file_texts f)).

Theorem statement_C02_holds : statement_C02.
Proof. exact file_statementsF. Qed.

Definition mkseg (i : nat) (t : str) (tr : nat) (c : option str) (b : list bline) : seg :=
  {| sg_amp := true; sg_ind := i; sg_text := t; sg_trail := tr; sg_comment := c; sg_between := b |}.
Definition mkseg0 (i : nat) (t : str) (tr : nat) (c : option str) (b : list bline) : seg :=
  {| sg_amp := false; sg_ind := i; sg_text := t; sg_trail := tr; sg_comment := c; sg_between := b |}.

(* the two layouts on which the reader used to fail (a comment after the closing quote of a
   literal continued from the previous line; a comment line between the lines of a continued
   literal): both are in the class and yield the statement of the specification *)
(* x = 'abc&  /  &def' ! comment *)
Definition witness1 : list fitem :=
  [FLine [mkseg 0 (s "x = 'abc") 0 None []; mkseg 2 (s "def'") 1 (Some (s " comment")) []]].
(* x = 'abc&  /  ! note  /  &def' *)
Definition witness2 : list fitem :=
  [FLine [mkseg 0 (s "x = 'abc") 0 None [BComment 0 (s " note")]; mkseg 2 (s "def'") 0 None []]].

Ltac ok_tac := simpl; repeat split; try discriminate; try reflexivity;
               try (intros; discriminate); try (repeat constructor; simpl; repeat split; discriminate).

Lemma witness1_okF : Forall item_okF witness1.
Proof. repeat constructor; ok_tac. Qed.
Lemma witness2_okF : Forall item_okF witness2.
Proof. repeat constructor; ok_tac. Qed.

Example repaired_comment_after_literal :
  render_file witness1 = [s "x = 'abc&"; s "  &def' ! comment"] /\
  flat_map stmts_of (file_texts witness1) = [s "x = 'abcdef'"] /\
  read_all default_cfg (render_file witness1) = ROk [s "x = 'abcdef'"].
Proof. repeat split; vm_compute; reflexivity. Qed.
Example repaired_comment_in_literal :
  render_file witness2 = [s "x = 'abc&"; s "! note"; s "  &def'"] /\
  flat_map stmts_of (file_texts witness2) = [s "x = 'abcdef'"] /\
  read_all default_cfg (render_file witness2) = ROk [s "x = 'abcdef'"].
Proof. repeat split; vm_compute; reflexivity. Qed.

(* non-vacuity: a layout with a literal holding ! ; & and a doubled quote, cut inside the literal
   and inside a token, with trailing comment, blank and comment lines in between *)
Definition example_file : list fitem :=
  [FBlank 2; FComment 1 (s " header");
   FLine [mkseg 4 (s "call f('a!;&''") 1 None [BBlank 0];
          mkseg 2 (s "b', x) ; y = 1 +") 2 None [];
          mkseg 0 (s " 2") 0 (Some (s " done")) []];
   FLine [mkseg 0 (s "pri") 0 None []; mkseg 1 (s "nt *, z ") 0 (Some (s "x")) [BComment 3 (s " c"); BBlank 1];
          mkseg0 5 (s "// 'q'") 3 None [BBlank 3]; mkseg0 0 (s ", 'r'") 0 None []]].

Example example_file_ok :
  Forall item_ok example_file /\
  read_all default_cfg (render_file example_file)
  = ROk [s "call f('a!;&''b', x)"; s "y = 1 + 2"; s "print *, z // 'q' , 'r'"].
Proof.
  split; [|vm_compute; reflexivity].
  repeat constructor; ok_tac.
Qed.

(* ... and one that needs the full class: comment and blank lines between the lines of a continued
   literal (the comment's text holding the literal's delimiter), a comment after the literal is
   closed on a line that started inside it, a line that starts inside one literal and ends inside
   the next *)
Definition example_fileF : list fitem :=
  [FLine [mkseg 1 (s "s = ""it's !&") 1 None [BComment 2 (s " isn't ""code"""); BBlank 1; BComment 0 (s "")];
          mkseg 3 (s " ; "" // 'a") 0 None [BComment 0 (s " 'x")];
          mkseg 0 (s "b' ; t = 1") 2 (Some (s " 'done' ""!"))
                [BComment 1 (s " after")];
          mkseg0 2 (s "+ 2") 0 (Some (s "")) []];
   FComment 0 (s " end")].

Example example_fileF_ok :
  Forall item_okF example_fileF /\ ~ Forall item_ok example_fileF /\
  render_file example_fileF
  = [s " s = ""it's !&& "; s "  ! isn't ""code"""; s " "; s "!"; s "   & ; "" // 'a&"; s "! 'x";
     s "&b' ; t = 1&  ! 'done' ""!"; s " ! after"; s "  + 2!"; s "! end"] /\
  read_all default_cfg (render_file example_fileF)
  = ROk [s "s = ""it's !& ; "" // 'ab'"; s "t = 1 + 2"].
Proof.
  split; [repeat constructor; ok_tac|].
  split; [|split; vm_compute; reflexivity].
  intros H. inversion H as [|? ? H1 _]; subst. simpl in H1.
  destruct H1 as ((_ & _ & _ & Hb & _) & _). specialize (Hb eq_refl).
  inversion Hb as [|? ? Hc _]; subst. destruct Hc as (Hc & _). discriminate Hc.
Qed.
