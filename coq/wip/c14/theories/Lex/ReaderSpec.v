(* Lex/ReaderSpec.v — the specification side of C02: what Fortran's free-form lexical rules say
   a physical layout means.  Written from the property text, not from FORD's code.
   Executable definitions only. *)
From Ford Require Import Base.Str Lex.Quote.

(* A logical line is a character stream built from pieces. *)
Inductive piece :=
| PCode (t : str)              (* characters of code: no blank, quote, '!', ';', '&' *)
| PLit (q : ascii) (body : str) (* a character literal with delimiter q and arbitrary body *)
| PSp (n : nat)                 (* n blanks *)
| PSemi.                        (* statement separator *)

Definition spaces (n : nat) : str := repeat " "%char n.

(* the body with every delimiter doubled *)
Definition escape_body (q : ascii) (body : str) : str :=
  flat_map (fun c => if Ascii.eqb c q then [q; q] else [c]) body.

Definition render_piece (p : piece) : str :=
  match p with
  | PCode t => t
  | PLit q body => q :: escape_body q body ++ [q]
  | PSp n => spaces n
  | PSemi => [semi]
  end.
Definition render_pieces (ps : list piece) : str := flat_map render_piece ps.

(* Canonical form of a statement: blank runs outside literals collapse to one blank, leading
   and trailing blanks go; literal text is untouched. State: literal delimiter, pending blank. *)
Fixpoint canon_go (q : option ascii) (pend : bool) (started : bool) (x : str) : str :=
  match x with
  | [] => []
  | c :: x' =>
    match q with
    | Some d => c :: canon_go (if Ascii.eqb c d then None else q) false true x'
    | None =>
      if is_quote c then (if pend && started then [" "%char; c] else [c]) ++ canon_go (Some c) false true x'
      else if Ascii.eqb c " "%char || Ascii.eqb c "009"%char then canon_go None true started x'
      else (if pend && started then [" "%char; c] else [c]) ++ canon_go None false true x'
    end
  end.
Definition canon (x : str) : str := canon_go None false false x.

(* the statements of a logical line: split at PSemi, canonical text, empty statements dropped *)
Fixpoint split_semi (ps : list piece) (cur : list piece) : list (list piece) :=
  match ps with
  | [] => [rev cur]
  | PSemi :: ps' => rev cur :: split_semi ps' []
  | p :: ps' => split_semi ps' (p :: cur)
  end.
Definition statements (ps : list piece) : list str :=
  filter (fun x => match x with [] => false | _ => true end) (map (fun g => canon (render_pieces g)) (split_semi ps [])).

(* ---- layouts: how one logical line is spread over physical lines ----
   The character stream of the logical line is cut into segments; every segment but the last
   ends with '&' (optionally followed by blanks and an ordinary comment), every segment but the
   first either starts with '&' (the exact-join form of continuation, mandatory inside tokens and
   literals) or starts with its text directly (allowed between tokens); blank lines and ordinary
   comment lines may follow a continued line. *)
Inductive bline := BBlank (n : nat) | BComment (ind : nat) (text : str).
Record seg := { sg_amp : bool;   (* continuation line starts with '&' (ignored for the first segment) *)
                sg_ind : nat; sg_text : str; sg_trail : nat; sg_comment : option str;
                sg_between : list bline }.

Definition render_bline (b : bline) : str :=
  match b with BBlank n => spaces n | BComment i t => spaces i ++ bang :: t end.

Definition render_comment (c : option str) : str :=
  match c with Some t => bang :: t | None => [] end.

Definition render_seg_line (first last : bool) (sg : seg) : str :=
  spaces (sg_ind sg) ++ ((if first then [] else if sg_amp sg then [amp] else []) ++ sg_text sg
                          ++ (if last then [] else [amp]))
  ++ spaces (sg_trail sg) ++ render_comment (sg_comment sg).

Fixpoint render_segs (first : bool) (l : list seg) : list str :=
  match l with
  | [] => []
  | [sg] => [render_seg_line first true sg]
  | sg :: l' => render_seg_line first false sg :: map render_bline (sg_between sg) ++ render_segs false l'
  end.

Definition ll_text (l : list seg) : str := flat_map sg_text l.

(* The character stream the segments denote: an '&'-led segment continues exactly where the
   previous one stopped; a segment without leading '&' continues after a token boundary, which
   is written here as one blank between the trimmed parts. *)
Fixpoint joined_from (buf : str) (l : list seg) : str :=
  match l with
  | [] => buf
  | sg :: l' => joined_from (if sg_amp sg then buf ++ sg_text sg else strip buf ++ " "%char :: sg_text sg) l'
  end.
Definition joined (l : list seg) : str :=
  match l with [] => [] | sg :: l' => joined_from (" "%char :: sg_text sg) l' end.

(* a file: logical lines with blank and ordinary comment lines around them *)
Inductive fitem := FBlank (n : nat) | FComment (ind : nat) (text : str) | FLine (segs : list seg).

Definition render_item (it : fitem) : list str :=
  match it with
  | FBlank n => [spaces n]
  | FComment i t => [spaces i ++ bang :: t]
  | FLine segs => render_segs true segs
  end.
Definition render_file (f : list fitem) : list str := flat_map render_item f.

(* the character streams of the logical lines, in order: all that the statements may depend on *)
Definition file_texts (f : list fitem) : list str :=
  flat_map (fun it => match it with FLine segs => [joined segs] | _ => [] end) f.

(* what a logical line with character stream x yields: the ';'-separated parts outside
   literals, each trimmed *)
Definition stmts_of (x : str) : list str :=
  map strip (filter (fun y => match y with [] => false | _ => true end) (quote_split semi x)).
